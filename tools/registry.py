"""Registry of checks: one entry per property, collected from tools/reg/*.py (each defines CHECKS).

Every entry names: the spec module directories (under spec/), the bounded design check(s), the scenario
generators per tier (TLC `edges` / `sim` / `exh` modes, or `py` for scenario families that are a plain
product of classes), the Go driver (harness/cmd/<driver>), the judge (trace specification), how a
recording is corrupted for the binding self-test, and the evidence rule.  See BUILDING.md.
"""
import glob
import importlib.util
import os

REGISTRY = {}
_ALSO = []
_here = os.path.dirname(os.path.abspath(__file__))
for _p in sorted(glob.glob(os.path.join(_here, "reg", "*.py"))):
    _spec = importlib.util.spec_from_file_location("reg_" + os.path.basename(_p)[:-3], _p)
    _m = importlib.util.module_from_spec(_spec)
    _spec.loader.exec_module(_m)
    for _k, _v in getattr(_m, "CHECKS", {}).items():
        if _k in REGISTRY:
            raise RuntimeError("duplicate check " + _k)
        REGISTRY[_k] = _v
    _ALSO.append((os.path.basename(_p)[:-3], getattr(_m, "ALSO", {})))
# growth modules attach additional pipelines (spec + driver + judge) to existing properties
# (only modules listed in tools/also_enabled.txt: a growth module is attached once it passed on the unchanged tree)
_enabled = set(l.strip() for l in open(os.path.join(_here, "also_enabled.txt")) if l.strip() and not l.startswith("#")) \
    if os.path.exists(os.path.join(_here, "also_enabled.txt")) else set()
for _name, _a in _ALSO:
    if _name not in _enabled:
        continue
    for _k, _pipes in _a.items():
        if _k in REGISTRY:
            REGISTRY[_k] = dict(REGISTRY[_k], also=list(REGISTRY[_k].get("also", [])) + list(_pipes))
