#!/bin/sh
# usage: tools/seedrun.sh <Cxx> <worktree> <patch> [tier]  — applies a seeded change in a scratch worktree and runs the check against it
P=$1; WT=$2; PATCH=$3; TIER=${4:-quick}
git -C "$WT" checkout -q -- . && git -C "$WT" apply "$PATCH" || exit 3
VERIF_REPO="$WT" python3 tools/check.py run "$P" --tier "$TIER"
rc=$?
git -C "$WT" checkout -q -- .
echo "seedrun $P rc=$rc"
exit $rc
