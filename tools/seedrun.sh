#!/bin/sh
# usage: tools/seedrun.sh <Cxx> <patch> [tier]
# applies a seeded change to a fresh scratch worktree of /repo's HEAD and runs the check against it (VERIF_REPO)
P=$1; PATCH=$2; TIER=${3:-quick}
WT=$(mktemp -d /tmp/seedwt-$P.XXXXXX); rmdir "$WT"
git -C /repo worktree add -q --detach "$WT" HEAD || exit 3
if ! git -C "$WT" apply "$PATCH"; then git -C /repo worktree remove --force "$WT"; echo "seedrun $P: patch does not apply"; exit 3; fi
VERIF_REPO="$WT" python3 tools/check.py run "$P" --tier "$TIER"
rc=$?
git -C /repo worktree remove --force "$WT"
echo "seedrun $P rc=$rc"
exit $rc
