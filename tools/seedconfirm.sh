#!/bin/sh
# usage: seedconfirm.sh <worktree> <outdir> <tags>   — runs the seed's demonstration without and with its patch
WT=$1; OUT=$2; TAGS=$3
export GOFLAGS=-mod=mod GOPROXY=off GOSUMDB=off GOTOOLCHAIN=local
cd "$WT" || exit 3
git checkout -q -- . ; rm -rf verifdemo; mkdir verifdemo; cp "$OUT"/demo/*.go verifdemo/
go test -tags "$TAGS" -ldflags=-checklinkname=0 -count=1 ./verifdemo/ > "$OUT/confirm_without.txt" 2>&1; a=$?
git apply "$OUT/patch.diff" || exit 3
go test -tags "$TAGS" -ldflags=-checklinkname=0 -count=1 ./verifdemo/ > "$OUT/confirm_with.txt" 2>&1; b=$?
git checkout -q -- . ; rm -rf verifdemo
echo "confirm $(basename $OUT): without=$a with=$b"
