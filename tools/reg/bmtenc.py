"""C03 — concurrent BMT hasher (spec/bmt, harness/cmd/bmtdrv); C08 — chunk encryption (spec/encrypt, harness/cmd/encdrv)."""
import os
import re
import shutil
import subprocess
import sys
import tempfile
import time

from regkit import corrupt_field

ROOT = os.path.dirname(os.path.dirname(os.path.dirname(os.path.abspath(__file__))))

CHECKS = {}


def _machinery(msg):
    """the orchestrator's 'no verdict' exception (exit 2); never let a tool problem look like a violation"""
    cls = getattr(sys.modules.get("__main__"), "Machinery", None)
    if cls is None:
        cls = RuntimeError
    return cls(msg)


# ------------------------------------------------------------------------------------ C08
def apalache_lengths(seed, tier):
    """Additional design check run from the generator stage (a `py` hook that yields no scenarios):
    Apalache proves LengthRestored5(s) of EncryptLen.tla for EVERY span 0 <= s < 2^63 with the real
    constants (TLC integers are 32-bit).  A refutation or a tool failure is a machinery error (exit 2):
    the real code is judged by the conformance run, not by this."""
    exe = shutil.which("apalache-mc")
    if not exe:
        raise _machinery("apalache-mc not found")
    d = tempfile.mkdtemp(prefix="verif-apa-")
    try:
        for f in ("EncryptLen.tla", "ApaEncrypt.tla"):
            shutil.copy(os.path.join(ROOT, "spec", "encrypt", f), d)
        t0 = time.time()
        try:
            p = subprocess.run(["timeout", "600", exe, "check", "--inv=Inv", "--length=0", "--out-dir=" + os.path.join(d, "out"),
                                "ApaEncrypt.tla"], cwd=d, stdout=subprocess.PIPE, stderr=subprocess.STDOUT, text=True, timeout=660)
        except subprocess.TimeoutExpired:
            raise _machinery("apalache timed out")
        out = p.stdout
        if "The outcome is: NoError" not in out or p.returncode != 0:
            m = re.search(r"The outcome is: (\w+)", out)
            raise _machinery("apalache design check ApaEncrypt.tla did not pass (%s):\n%s" % (m.group(1) if m else "rc=%s" % p.returncode, out[-1500:]))
        print("design  ApaEncrypt.tla (apalache)    all spans 0 <= s < 2^63: NoError (%.1fs)" % (time.time() - t0), flush=True)
    finally:
        shutil.rmtree(d, ignore_errors=True)
    return []


_ENC_DESIGN = [
    dict(spec="MCEncrypt.tla", cfg="MCEncrypt.cfg", workers=4, timeout=300),
    dict(spec="MCEncryptTree.tla", cfg="MCEncryptTreeB2.cfg", cfg_thorough="MCEncryptTreeB2_thorough.cfg", workers=4, timeout=300,
         thorough_only=True),
    dict(spec="MCEncryptTree.tla", cfg="MCEncryptTreeB3.cfg", cfg_thorough="MCEncryptTreeB3_thorough.cfg", workers=4, timeout=600),
    dict(spec="MCEncryptTree.tla", cfg="MCEncryptTreeB4.cfg", cfg_thorough="MCEncryptTreeB4_thorough.cfg", workers=8, timeout=800,
         thorough_only=True),
]


def _enc_corrupt(evs):
    """binding self-test: shorten one recorded returned length of a `get`, else one ciphertext length"""
    for i, e in enumerate(evs):
        if e.get("op") == "get" and e.get("gotLen", 0) > 8:
            e["gotLen"] -= 1
            return i
    for i, e in enumerate(evs):
        if e.get("op") == "dec" and e.get("prefix") is True:
            e["prefix"] = False
            return i
    return None


CHECKS["C08"] = dict(
    modules=["encrypt"], level="model_checking", driver="encdrv",
    design_ref="5 (C08), Appendix A.3",
    technique="TLA+ model of the cipher object and of the encrypted trie writer vs the decrypting reader's length loop, checked by TLC "
              "(scaled constants) and Apalache (real constants, all 63-bit spans); TLC-generated cipher histories and level-boundary "
              "spans run on pkg/encryption and pkg/encryption/store; the recording is judged by EncryptTrace.tla",
    level_text="TLC exhausts the cipher state machine (bit-level XOR algebra as ASSUME) and the hashTrieWriter model for branching 3 "
               "(quick: every file up to 250 chunks) or 2, 3 and 4 (thorough: up to 130 = full trie / 2200 / 16400 chunks), every last-chunk size: each emitted chunk satisfies "
               "LoopLen(span) = stored length = closed form StoredLen(span). Generators (TLC): every (length, padding, key, counter) "
               "class round trip, random Encrypt/Decrypt/Reset walks, and fabricated encrypted chunks whose spans sit on both sides of "
               "every level boundary up to 2^63, read through the real decrypting store; every event judged by TLC",
    level_note="trusted: TLC/Apalache, the driver's byte comparison against bytes it supplied, JSON transport. "
               "Spans >= 2^63 (negative as int64 in the joiner) are outside the explored domain; the key stream's secrecy is not a subject",
    design=_ENC_DESIGN,
    gen=dict(
        quick=[dict(mode="exh", spec="EncryptGen.tla", cfg="EncryptGenRT.cfg", name="roundtrip", max=150),
               dict(mode="sim", spec="EncryptGen.tla", cfg="EncryptGenWalk.cfg", depth=6, num=12, max=80, name="walks"),
               dict(mode="exh", spec="EncryptGen.tla", cfg="EncryptGenGet.cfg", name="spans", max=300),
               dict(mode="exh", spec="EncryptGen.tla", cfg="EncryptGenFile.cfg", name="files")],
        thorough=[dict(mode="py", fn=apalache_lengths, name="apalache"),
                  dict(mode="exh", spec="EncryptGen.tla", cfg="EncryptGenRT.cfg", name="roundtrip"),
                  dict(mode="sim", spec="EncryptGen.tla", cfg="EncryptGenWalk.cfg", depth=8, num=60, max=600, name="walks"),
                  dict(mode="exh", spec="EncryptGen.tla", cfg="EncryptGenGet.cfg", name="spans"),
                  dict(mode="exh", spec="EncryptGen.tla", cfg="EncryptGenFile.cfg", name="files", env={"VERIF_BIGFILES": 1})]),
    judge=dict(spec="EncryptTrace.tla", cfg="EncryptTrace.cfg"),
    corrupt=_enc_corrupt,
    selftest_scenarios=100000,
    nontrivial=lambda s: any(o["op"] in ("dec", "get", "upload") for o in s["ops"]),
    rule="TLC-generated: (a) Encrypt-then-Decrypt for every class of 11 lengths x 3 paddings x 3 keys x 3 initial counters, "
         "(b) -simulate walks over Encrypt/Decrypt/ResetE/ResetD of two cipher objects, (c) one fabricated encrypted chunk per span class "
         "(base-4096 digits in {0,1,2,4094,4095}, top digit in {0,1,2,510,511}, last-chunk size in 8 classes: 5001 spans; quick samples 300 by seed), "
         "(d) files of {0,1,2,3,7 (thorough: 33, 64)} full chunks + {0,1,63,4096,CS-1} bytes written by the real encrypted pipeline, every stored chunk read back; "
         "distinct = distinct (parameters, operation list); non-trivial = contains a Decrypt, a Get or an upload",
    exhaustive=dict(quick=False, thorough=False),
    assumptions=["keccak256 behaves as a random function (two different key streams do not coincide on a payload)",
                 "payload bytes are seeded random; three keys per seed",
                 "fabricated chunks are encrypted with encryption.NewChunkEncrypter, exactly as the encrypted file writer does; "
                 "their store address is random (the decrypting store does not check addresses)",
                 "spans are below 2^63"],
)


# ------------------------------------------------------------------------------------ C03
def _bmt_gen(name, cfg, mode, tree, segs, poolcap=1, handles=1, **kw):
    d = dict(mode=mode, spec="BMTGen.tla", cfg=cfg, name=name,
             env={"VERIF_TREE": tree, "VERIF_SEGS": segs, "VERIF_POOLCAP": poolcap, "VERIF_HANDLES": handles})
    d.update(kw)
    return d


def _bmt_corrupt(evs):
    """binding self-test: flip one hex digit of a recorded digest"""
    for i, e in enumerate(evs):
        if e.get("op") == "hash" and e.get("digest"):
            d = e["digest"]
            e["digest"] = ("0" if d[0] != "0" else "1") + d[1:]
            return i
    return None


CHECKS["C03"] = dict(
    modules=["bmt"], level="model_checking", driver="bmtdrv",
    design_ref="5 (C03)",
    technique="implementation-shaped TLA+ model of the concurrent BMT hasher (section goroutines, atomic toggles, final-section "
              "path, zero-subtree table, pool / Reset reuse with stale state) checked by TLC on all interleavings; TLC-generated API "
              "histories run on the real bmt.Hasher / bmtpool by many concurrent workers; digests judged by BMTTrace.tla against an "
              "independent evaluation of the TLC-emitted terms",
    level_text="TLC exhausts BMT.tla for 1, 2 and 4 sections (8 in thorough): every length, every split into Write calls, every "
               "interleaving of the section goroutines, two consecutive uses of a tree (Put+Get and Reset) with stragglers of the "
               "first use alive, two users on one / two trees: exactly one result, equal to the recursive definition, tree clean at "
               "hand-over. Generators (TLC): every byte length of 2/4/8-segment trees x split classes x header classes with a second "
               "use after Reset or Put+Get, API edges and multi-hasher walks, boundary-dense lengths on the production pool, all run "
               "concurrently (48 workers, GOMAXPROCS by seed); plus forced schedules: behaviours of BMTSched.tla (one per choice of which "
               "arrival toggles first at every inner node x eager/lazy start x order) replayed through the gates of pkg/bmt/verif_gate.go "
               "for 2/4 sections (8 in thorough); every Hash judged",
    level_note="trusted: TLC, golang.org/x/crypto/sha3 (used by both sides), the driver's reference evaluator (internal/bmtref), JSON "
               "transport, the gate hook (pkg/bmt/verif_gate.go + six one-line calls in bmt.go, build tag verif). Goroutine interleavings of "
               "the real code: free scheduling is sampled; forced schedules enumerate toggle orders at gate granularity (steps between two "
               "gates run sequentially), the fine-grained interleavings are exhaustive only in the model. "
               "Abandoning a hasher (Write without Hash, then Put/Reset) and data beyond the capacity are outside the statement and not generated",
    design=[
        dict(spec="MCBMT.tla", cfg="MCBMT_S4.cfg", cfg_thorough="MCBMT_S4_thorough.cfg", workers=4, timeout=600),
        dict(spec="MCBMT.tla", cfg="MCBMT_S2x3.cfg", workers=4, timeout=600),
        dict(spec="MCBMT.tla", cfg="MCBMT_S1.cfg", workers=2, timeout=300, thorough_only=True),
        dict(spec="MCBMT.tla", cfg="MCBMT_S4x2.cfg", workers=8, timeout=600, thorough_only=True, coverage=False),
        dict(spec="MCBMT.tla", cfg="MCBMT_S2one.cfg", workers=4, timeout=600, thorough_only=True, coverage=False),
        dict(spec="MCBMT.tla", cfg="MCBMT_S2pool.cfg", workers=4, timeout=600, thorough_only=True, coverage=False),
        dict(spec="MCBMT.tla", cfg="MCBMT_S8.cfg", workers=8, timeout=840, thorough_only=True, coverage=False),
    ],
    gen=dict(
        quick=[dict(mode="exh", spec="BMTGen.tla", cfg="BMTGenPlanQuick.cfg", name="plans", max=700, timeout=300),
               _bmt_gen("edges4", "BMTGenEdges.cfg", "edges", "small", 4, depth=8, max=200),
               _bmt_gen("walks8", "BMTGenApi.cfg", "sim", "small", 8, poolcap=2, handles=3, depth=16, num=25, max=120),
               dict(mode="exh", spec="BMTSched.tla", cfg="BMTSched_S4.cfg", name="forced4", dedup=True, max=200, workers=4, timeout=300)],
        thorough=[dict(mode="exh", spec="BMTGen.tla", cfg="BMTGenPlanSmall.cfg", name="plans-small", env={"VERIF_RICH": 1}, max=6000, timeout=600),
                  dict(mode="exh", spec="BMTGen.tla", cfg="BMTGenPlanMid.cfg", name="plans-128", env={"VERIF_RICH": 1}, max=3000, timeout=600),
                  dict(mode="exh", spec="BMTGen.tla", cfg="BMTGenPlanOdd.cfg", name="plans-3-6", max=1200, timeout=600),
                  dict(mode="exh", spec="BMTGen.tla", cfg="BMTGenPlanProd.cfg", name="plans-prod", env={"VERIF_RICH": 1}, max=2500, timeout=600),
                  _bmt_gen("edges4", "BMTGenEdges.cfg", "edges", "small", 4, depth=8),
                  _bmt_gen("walks8", "BMTGenApi.cfg", "sim", "small", 8, poolcap=2, handles=3, depth=24, num=120, max=2500),
                  _bmt_gen("walks2", "BMTGenApi.cfg", "sim", "small", 2, poolcap=1, handles=2, depth=20, num=40, max=800, salt=5),
                  dict(mode="exh", spec="BMTSched.tla", cfg="BMTSched_S2.cfg", name="forced2", dedup=True, workers=4, timeout=300),
                  dict(mode="exh", spec="BMTSched.tla", cfg="BMTSched_S4.cfg", name="forced4", dedup=True, workers=4, timeout=300),
                  dict(mode="exh", spec="BMTSched.tla", cfg="BMTSched_S4w2.cfg", name="forced4w2", dedup=True, workers=4, timeout=600),
                  dict(mode="exh", spec="BMTSched.tla", cfg="BMTSched_S8.cfg", name="forced8", dedup=True, max=2000, workers=8, timeout=840)]),
    judge=dict(spec="BMTTrace.tla", cfg="BMTTrace.cfg"),
    corrupt=_bmt_corrupt,
    driver_timeout=1500,
    nontrivial=lambda s: any(o["op"] in ("hash", "hashstart") for o in s["ops"]),
    rule="TLC-generated API histories (get/hdr/write/hash/hreset/put): plans = every byte length 0..capacity of 2-, 4- and 8-segment "
         "trees (boundary-dense lengths for 128 segments and for the production pool) x up to 26 split classes x 4 header classes, each "
         "followed by a second use of the same tree after Reset or Put+Get; edges = one shortest history per (state, operation) edge "
         "of the 4-segment API state graph; walks = -simulate over 3 hashers of a 2-tree pool; forced = one behaviour of BMTSched.tla per "
         "(first-arrival choice at every inner node, eager/lazy, ascending/descending, length, reuse mode), de-duplicated; "
         "distinct = distinct (parameters, operation list); non-trivial = contains a Hash. quick samples each family by seed",
    exhaustive=dict(quick=False, thorough=False),
    assumptions=["keccak256 is collision-free on the inputs used (a wrong tree shape changes the digest)",
                 "data bytes are seeded random (never all zero), so padding errors are visible",
                 "each Get is followed by Hash before Put/Reset (the only use in /repo); data never exceeds the capacity",
                 "a Hash that does not answer within 12 s is recorded as not returning"],
)
