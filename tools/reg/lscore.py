"""C11 and C14 — pkg/localstore alone (spec/lscore, harness/cmd/lscoredrv, internal/crashdb)."""
from regkit import corrupt_field

CHECKS = {}


def _cor_c14(evs):
    for i, e in enumerate(evs):
        if e.get("op") == "crash" and e.get("reopened"):
            e["st"]["per"]["A"][3] = e["st"]["per"]["A"][3] + 5
            return i
    return None


_COMMON = dict(
    modules=["lscore"], driver="lscoredrv",
    judge=dict(spec="LSCoreTrace.tla", cfg="LSCoreTrace.cfg"),
    exhaustive=dict(quick=False, thorough=False),
)

CHECKS["C11"] = dict(
    _COMMON, level="model_checking", design_ref="5 (C11)",
    design=[dict(spec="MCLSCore.tla", cfg="MCLSCoreQ.cfg", workers=8, timeout=600, coverage=False),
            dict(spec="MCLSCore.tla", cfg="MCLSCore.cfg", workers=12, timeout=1800, thorough_only=True, coverage=False)],
    gen=dict(
        quick=[dict(mode="sim", spec="LSCoreGen.tla", cfg="LSCoreGenSim.cfg", depth=8, num=40, max=450, name="walks",
                    env={"VERIF_LSMODE": "c11"})],
        thorough=[dict(mode="edges", spec="LSCoreGen.tla", cfg="LSCoreGenEdges.cfg", depth=8, max=6000, name="edges",
                       env={"VERIF_LSMODE": "c11"}, timeout=1500),
                  dict(mode="sim", spec="LSCoreGen.tla", cfg="LSCoreGenSim.cfg", depth=14, num=150, max=2500, name="walks",
                       env={"VERIF_LSMODE": "c11"})]),
    corrupt=corrupt_field("get", "found", lambda e: not e["found"]),
    nontrivial=lambda s: any(o["op"] == "put" for o in s["ops"]) and any(o["op"] in ("get", "getmulti", "has", "hasmulti", "set") for o in s["ops"]),
    rule="TLC-generated histories over 2 chunk addresses x 2 payloads x 3 file contexts (none / the chunk itself / an unstored root): every put "
         "mode, single and batched puts incl. duplicates, get/getmulti/has/hasmulti, set pin/unpin/remove/sync (walks: -simulate; thorough adds one "
         "shortest history per (state, operation) edge of the model's state graph); each history also runs on a twin store that receives batched "
         "puts one chunk at a time; distinct = distinct operation sequence; non-trivial = a put followed by an observation or set",
    technique="TLA+ contract model of the local store checked by TLC; TLC-generated histories executed on the real localstore.DB and a twin; "
              "recorded results and index dumps judged by LSCoreTrace.tla",
    level_text="TLC checks the contract model (exist flags, batch = sequence, frame conditions) and generates the histories; every recorded Get/Has/"
               "Put result and every post-operation dump of the real store is judged against the model, and batched puts against the twin store",
    level_note="trusted: TLC, the VerifDump hook, the driver's payload naming; GC out of reach (capacity 2^40); removal of a chunk pinned more than "
               "once only decrements (documented at setRemove); pin effect of a duplicate address inside one pinning put is not compared",
    assumptions=["removal under pin count > 1 only decrements the counter (setRemove contract)",
                 "a failing put must leave the store unchanged; puts under a file context whose root chunk is not stored fail by design",
                 "Set calls with several addresses are generated only where they cannot fail half-way"],
)

CHECKS["C14"] = dict(
    _COMMON, level="fault_enumeration", design_ref="5 (C14)",
    design=[dict(spec="MCLSCore.tla", cfg="MCLSCoreQ.cfg", workers=8, timeout=600, coverage=False),
            dict(spec="MCLSCore.tla", cfg="MCLSCoreB.cfg", workers=2, timeout=300, coverage=False)],
    gen=dict(
        quick=[dict(mode="sim", spec="LSCoreGen.tla", cfg="LSCoreGenSim.cfg", depth=8, num=40, max=300, name="walks",
                    env={"VERIF_LSMODE": "c14"}),
               dict(mode="edges", spec="LSCoreGen.tla", cfg="LSCoreGenFocus.cfg", depth=6, max=700, name="one-context edges",
                    env={"VERIF_LSMODE": "c14f"}),
               # one put call of 80 full-size chunks (20 MiB in one storage batch): pinning upload; request put under a stored root
               dict(mode="edges", spec="LSCoreGen.tla", cfg="LSCoreGenBulk.cfg", depth=2, max=4, name="large-batch puts",
                    env={"VERIF_LSMODE": "c14b", "VERIF_LSBULK": "q", "VERIF_BULKN": 80})],
        thorough=[dict(mode="sim", spec="LSCoreGen.tla", cfg="LSCoreGenSim.cfg", depth=10, num=300, max=3000, name="walks",
                       env={"VERIF_LSMODE": "c14"}),
                  dict(mode="edges", spec="LSCoreGen.tla", cfg="LSCoreGenFocus.cfg", depth=7, max=8000, name="one-context edges",
                       env={"VERIF_LSMODE": "c14f"}, timeout=1800),
                  # every put mode x (no context / stored root), then one more operation on the bulk chunks
                  dict(mode="edges", spec="LSCoreGen.tla", cfg="LSCoreGenBulk.cfg", depth=3, max=80, name="large-batch puts",
                       env={"VERIF_LSMODE": "c14b", "VERIF_LSBULK": "t", "VERIF_BULKN": 80}, timeout=900),
                  # 136 chunks = 34 MiB: a limit of half that size would be crossed twice
                  dict(mode="edges", spec="LSCoreGen.tla", cfg="LSCoreGenBulk.cfg", depth=2, max=4, name="larger-batch puts",
                       env={"VERIF_LSMODE": "c14b", "VERIF_LSBULK": "q", "VERIF_BULKN": 136}, timeout=900)]),
    corrupt=_cor_c14, selftest_scenarios=100000,
    nontrivial=lambda s: sum(1 for o in s["ops"] if o["op"] in ("put", "set", "gc")) >= 2,
    rule="TLC-generated histories of puts (all modes/contexts, batches; incl. single put calls of 80 full-size chunks = 20 MiB in one storage "
         "batch, thorough also 136), set pin/unpin/remove/sync and collection runs, executed on a store whose "
         "storage driver logs every write; after each operation with >= 2 storage writes the database is rebuilt from EVERY strict prefix of that "
         "operation's writes (direct puts and batch commits are the atomic units) and reopened; evaluations = events judged incl. one per crash point; "
         "distinct = distinct operation sequence",
    technique="fault enumeration over storage-write prefixes (shed driver registered through shed.Register), histories generated by TLC from LSCore.tla, "
              "reopened-store dumps judged by the TLA+ trace spec",
    level_text="every crash point (prefix of the storage writes of every operation of the generated histories) is materialised and the reopened real "
               "store is judged: each chunk's record entirely before or after, pin counters before or after, gcSize >= recomputed total",
    level_note="trusted: the crash driver (wraps the repository's in-memory LevelDB; a batch commit is atomic, direct writes are durable in order), TLC, "
               "VerifDump; chunk-info is a harness stub (GC needs one); state-store / chunk-info crash atomicity is out of the statement",
    assumptions=["LevelDB batch commits are atomic and writes reach the disk in order",
                 "root-context bookkeeping (gc/access entries of the file root) is only judged through gcSize >= recomputed total"],
)
