"""C25 (blocklist), C26 (blocker), C40 (pub/sub) — spec/{blocklist,blocker,pubsub}, harness/cmd/{blocklistdrv,blockerdrv,pubsubdrv}."""
from regkit import corrupt_field

CHECKS = {}


# ------------------------------------------------------------------------------------ C25
def _c25_corrupt(evs):
    """un-block one instant inside a requested period: the first probed instant of the peer just added"""
    for i, e in enumerate(evs):
        if e.get("op") == "add" and e["st"][e["p"] - 1][0]:
            e["st"][e["p"] - 1][0] = False
            return i
    return None


CHECKS["C25"] = dict(
    modules=["blocklist"], level="model_checking", driver="blocklistdrv",
    design_ref="5 (C25)",
    technique="TLA+ model of the blocklist (entry = timestamp + duration, max-merge on Add, lazy expiry) checked by TLC against the "
              "statement written over the request history; TLC-generated histories replayed on the real blocklist over both state "
              "stores with a driver-controlled clock; recorded trace judged by the TLA+ trace spec",
    level_text="TLC exhausts the Blocklist model (2 peers, durations {0,1,3,10}, clock steps {1,2,5}, clock <= 5; thorough: steps {1,2,3,5}, "
               "clock <= 8) for the envelope invariants and the never-shortens action property, and generates one history "
               "per (mechanism state, call) edge plus random walks; each history is run on blocklist.Blocklist over statestore/leveldb "
               "(in memory) and statestore/mock, and BlocklistTrace.tla judges every call result and, after every call, the answer "
               "of Exists at 17 instants from now to far in the future",
    level_note="trusted: TLC, the verif-tagged re-export (pkg/p2p/libp2p/verifbl) and clock setter, the probing of future instants "
               "through a second Blocklist over a write-discarding view of the same store; integer clock in units of 1ns..1h; "
               "negative durations and a clock that runs backwards are not generated",
    design=[dict(spec="MCBlocklist.tla", cfg="MCBlocklist.cfg", cfg_thorough="MCBlocklist_thorough.cfg", workers=8, timeout=3000)],
    gen=dict(
        quick=[dict(mode="edges", spec="BlocklistGen.tla", cfg="BlocklistGenEdges.cfg", depth=14, max=520, name="edges"),
               dict(mode="sim", spec="BlocklistGen.tla", cfg="BlocklistGenSim.cfg", depth=24, num=8, max=80, name="walks")],
        thorough=[dict(mode="edges", spec="BlocklistGen.tla", cfg="BlocklistGenEdgesT.cfg", depth=18, max=6000, name="edges", timeout=3000),
                  dict(mode="sim", spec="BlocklistGen.tla", cfg="BlocklistGenSim.cfg", depth=40, num=40, max=600, name="walks", timeout=3000)]),
    judge=dict(spec="BlocklistTrace.tla", cfg="BlocklistTrace.cfg"), judge_timeout=3600, driver_timeout=3000,
    corrupt=_c25_corrupt,
    nontrivial=lambda s: any(o["op"] == "add" for o in s["ops"]) and any(o["op"] in ("tick", "remove") for o in s["ops"]),
    rule="TLC-generated histories over 2 peers (edges mode: one shortest history per (clock, stored entries, last call) edge of the "
         "Blocklist state graph; walks: -simulate over 6 durations and 5 clock steps), each run on leveldb-mem and mock; distinct = "
         "distinct operation sequence; non-trivial = contains an Add and a later clock step or Remove",
    exhaustive=dict(quick=False, thorough=False),
    assumptions=["durations are non-negative multiples of the scenario's clock unit (1ns, 1ms, 1s, 1.5s or 1h); the clock never runs backwards",
                 "future instants are probed with Exists on a second Blocklist over a view of the same store that discards writes",
                 "a lazily expired entry is not a removal (the statement's upper bound keeps the longest duration since the last Remove)"],
)


# ------------------------------------------------------------------------------------ C26
def _c26_front(scs, seed, tier):
    """scenarios that are likely to reach a blocklisting go first (the binding self-test corrupts the first one)"""
    def likely(s):
        names = [o["op"] for o in s["ops"]]
        return "flag" in names and "sweep" in names[names.index("flag"):] and names.count("adv") >= 2
    return [s for s in scs if likely(s)] + [s for s in scs if not likely(s)]


CHECKS["C26"] = dict(
    modules=["blocker"], level="model_checking", driver="blockerdrv",
    design_ref="5 (C26)",
    technique="TLA+ model of the blocker (sequence gated by network status, flag deadlines, sweep) checked by TLC; TLC-generated "
              "interleavings of flag/unflag/prune/tick/network/sweep executed on the real Blocker through sequence and sweep hooks "
              "(deterministic mode) and with its real sequencer and wake-up goroutines (real-time mode); every Blocklist call is "
              "recorded with the sequence value and judged by the TLA+ trace spec",
    level_text="TLC exhausts the Blocker model (2 peers, T=3, seq <= 9; thorough 3 peers, seq <= 12) for: blocklisting only in a flag "
               "period older than T counted ticks, period ends with the blocklisting, sweep leaves nothing overdue, sequence frozen "
               "while the network is not available; it generates one history per (state, call) edge plus random walks for the "
               "deterministic mode and for the real-time mode; BlockerTrace.tla judges every recorded Blocklist call and sweep",
    level_note="trusted: TLC, the verif hooks of pkg/blocker (set resolution, read/advance sequence, run block() synchronously, list "
               "flags), the stub Blocklister. Deterministic mode covers all interleavings at the granularity of the Blocker's "
               "critical sections but advances the sequence itself (only while the stub network is available); the network gate of "
               "the real sequencer goroutine and the real wake-up goroutine are bound only by the real-time scenarios, whose "
               "clauses are interval-robust (sequence sampled before/after each call; lower bounds on elapsed time only)",
    design=[dict(spec="MCBlocker.tla", cfg="MCBlocker.cfg", cfg_thorough="MCBlocker_thorough.cfg", workers=8, timeout=3000)],
    gen=dict(
        quick=[dict(mode="edges", spec="BlockerGen.tla", cfg="BlockerGenDetEdges1q.cfg", depth=18, max=1100, name="det-edges-1peer"),
               dict(mode="sim", spec="BlockerGen.tla", cfg="BlockerGenDetSim.cfg", depth=30, num=12, max=250, name="det-walks"),
               dict(mode="edges", spec="BlockerGen.tla", cfg="BlockerGenRtEdges.cfg", depth=12, max=45, name="rt-edges"),
               dict(mode="sim", spec="BlockerGen.tla", cfg="BlockerGenRtSim.cfg", depth=12, num=3, max=15, salt=1, name="rt-walks")],
        thorough=[dict(mode="edges", spec="BlockerGen.tla", cfg="BlockerGenDetEdges1.cfg", depth=18, max=5000, name="det-edges-1peer", timeout=3000),
                  dict(mode="edges", spec="BlockerGen.tla", cfg="BlockerGenDetEdges2.cfg", depth=18, max=5000, name="det-edges-2peers-T2", timeout=3000),
                  dict(mode="edges", spec="BlockerGen.tla", cfg="BlockerGenDetEdges.cfg", depth=18, max=4000, name="det-edges-2peers-T3", timeout=3000),
                  dict(mode="sim", spec="BlockerGen.tla", cfg="BlockerGenDetSim.cfg", depth=45, num=50, max=1500, name="det-walks"),
                  dict(mode="edges", spec="BlockerGen.tla", cfg="BlockerGenRtEdges.cfg", depth=12, max=400, name="rt-edges"),
                  dict(mode="sim", spec="BlockerGen.tla", cfg="BlockerGenRtSim.cfg", depth=14, num=25, max=150, salt=1, name="rt-walks")]),
    post_gen=_c26_front,
    judge=dict(spec="BlockerTrace.tla", cfg="BlockerTrace.cfg"), judge_timeout=3600, driver_timeout=3000,
    corrupt=corrupt_field("cb", "sq", lambda e: 0),
    selftest_scenarios=400,
    nontrivial=lambda s: any(o["op"] == "flag" for o in s["ops"]) and any(o["op"] in ("sweep", "await", "wait") for o in s["ops"]),
    rule="TLC-generated histories (edges mode: one shortest history per (sequence, network status, flag table, leftover deadline, last call) "
         "edge of the Blocker state graph, the leftover deadline being a ghost that marks what a faulty implementation might still hold; walks: -simulate), deterministic-mode ones run through the hooks, real-time ones against the running "
         "goroutines; distinct = distinct (mode, operation sequence); non-trivial = flags a peer and later sweeps or waits",
    exhaustive=dict(quick=False, thorough=False),
    assumptions=["deterministic mode: sequencer resolution = 24h so no background goroutine fires; VerifAdvance stands for ticks counted "
                 "while the network is available and is only generated then",
                 "real-time mode: resolution 5 ms, timeout 3 ticks; after a status change the driver waits 4 resolutions before sampling; "
                 "await gives the blocker 5 s",
                 "a Flag issued while the network is not available may be honoured or ignored (the code ignores it)"],
)


# ------------------------------------------------------------------------------------ C40
def _c40_corrupt(evs):
    """a delivery that carries another message than the one being published"""
    for i, e in enumerate(evs):
        if e.get("op") == "pub" and e.get("dl"):
            e["dl"][0][2] = e["m"] + 1
            return i
    return None


CHECKS["C40"] = dict(
    modules=["pubsub"], level="model_checking", driver="pubsubdrv",
    design_ref="5 (C40)",
    technique="TLA+ model of subscribe/fire/apply/publish with the two pending queues checked by TLC over all interleavings; "
              "TLC-generated interleavings forced on the real subPub by parking its process() goroutine at the verifApplied hook "
              "(the select order is forced by re-running until it matches); deliveries and applications recorded and judged by the "
              "TLA+ trace spec with the applications as linearisation points",
    level_text="TLC exhausts PubSub (2 notifiers, 2 keys incl. the namespace-wide key, <= 3 Subscribe calls; thorough <= 4) in two "
               "configurations: the code's two channels (every later message delivered; nothing after all unsubscriptions were applied "
               "unless one overtook its subscription) and one ordered queue (nothing after, unconditionally; no overtaking). The "
               "generator emits one history per (source state, operation, select choice) edge plus random walks over 3 keys; each is "
               "executed on subscribe.NewSubPub() and PubSubTrace.tla judges every Publish. "
               "A third configuration splits a publication into load / per-subscriber delivery steps interleaved with the applications "
               "(2 Subscribe calls; thorough 3), and a focused generator holds the real Publish inside Notify of one subscriber (3 notifiers, "
               "3 subscriptions) while error channels fire and unsubscriptions are applied, then releases it",
    level_note="trusted: TLC, the verif hooks of pkg/subscribe (callback at the end of each process() iteration, channel lengths, "
               "subscriber lists), the harness notifier (records Notify, closes its error channel). Publish is only called while "
               "process() is parked at the hook or idle; the goroutines started by Subscribe are waited for (channel lengths) before "
               "the next operation, i.e. a fired error channel queues all its unsubscriptions at once. A held publication is one Publish "
               "blocked in the harness notifier's Notify (at most one at a time, no Subscribe while it is held). PublishArray, the rpc-backed "
               "notifiers and NotifierWithDelay are not exercised",
    design=[dict(spec="MCPubSub.tla", cfg="MCPubSub.cfg", cfg_thorough="MCPubSub_thorough.cfg", workers=8, timeout=3000),
            dict(spec="MCPubSub.tla", cfg="MCPubSubOrdered.cfg", cfg_thorough="MCPubSubOrdered_thorough.cfg", workers=8, timeout=3000),
            dict(spec="MCPubSub.tla", cfg="MCPubSubFlight.cfg", cfg_thorough="MCPubSubFlight_thorough.cfg", workers=8, timeout=3000)],
    gen=dict(
        quick=[dict(mode="edges", spec="PubSubGen.tla", cfg="PubSubGenEdges.cfg", depth=14, max=1500, name="edges"),
               dict(mode="sim", spec="PubSubGen.tla", cfg="PubSubGenSim.cfg", depth=22, num=10, max=200, name="walks"),
               dict(mode="edges", spec="PubSubGen.tla", cfg="PubSubGenFlight.cfg", depth=12, name="in-flight")],
        thorough=[dict(mode="edges", spec="PubSubGen.tla", cfg="PubSubGenEdges.cfg", depth=14, name="edges", timeout=3000),
                  dict(mode="sim", spec="PubSubGen.tla", cfg="PubSubGenSim.cfg", depth=30, num=100, max=3000, name="walks", timeout=3000),
                  dict(mode="edges", spec="PubSubGen.tla", cfg="PubSubGenFlightT.cfg", depth=12, name="in-flight", timeout=3000)]),
    judge=dict(spec="PubSubTrace.tla", cfg="PubSubTrace.cfg"), judge_timeout=3600, driver_timeout=3000,
    corrupt=_c40_corrupt,
    selftest_scenarios=200,
    nontrivial=lambda s: any(o["op"] == "sub" for o in s["ops"]) and any(o["op"] in ("pub", "pubstart") for o in s["ops"]),
    rule="TLC-generated histories of sub/fire/step/pub (and pubstart..pubend: a publication held inside one Notify) over 2-3 notifiers (edges mode: one shortest history per (source state, operation, "
         "choice of channel) edge of the gated PubSub state graph with <= 3 subscriptions over 2 keys; walks: -simulate with <= 7 "
         "subscriptions over 3 keys); distinct = distinct operation sequence incl. wanted select choices; non-trivial = subscribes and publishes",
    exhaustive=dict(quick=False, thorough=False),
    assumptions=["error channels fire by being closed (as rpc.Subscription and NotifierWithMsgChan do), so every goroutine started by "
                 "Subscribe for that notifier queues its unsubscription",
                 "'after its error channel fires' is read with the same asynchrony as 'after its registration has taken effect': "
                 "deliveries between the firing and the application of the last unsubscription it triggered are allowed",
                 "a notifier subscribed twice to one key loses only one entry per unsubscription (removal loop skips the element after a "
                 "deletion); with closed channels the second unsubscription removes the rest, so this is only visible in between"],
)
