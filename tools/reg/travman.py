"""C09 — traversal (spec/traversal, harness/cmd/travdrv); C10 — directory manifests (spec/manifest, harness/cmd/mandrv)."""
import os
import random

CHECKS = {}


# ------------------------------------------------------------------------------------ C10
def _c10_variants(scs, seed, tier):
    """every history runs on one manifest flavour: plain / encrypted x letters written once / 8 times
    (8 x 4 letters > 30 = mantaray's prefix limit per node).  An encrypted save costs ~50x a plain one
    (every node becomes a padded 256 KiB chunk that is encrypted and hashed), hence 1 history in 20."""
    rnd = random.Random(seed * 101 + 3)
    flavours = [(False, 1)] * 26 + [(False, 8)] * 12 + [(True, 1)] + [(True, 8)]
    for s in scs:
        enc, st = rnd.choice(flavours)
        s.setdefault("par", {})
        s["par"]["enc"] = enc
        s["par"]["stretch"] = st
    return scs


def _c10_corrupt(evs):
    """binding self-test: change the reference id of one looked-up entry in a closing dump"""
    for i, e in enumerate(evs):
        if e.get("op") == "dump" and e.get("st"):
            e["st"][0][1] = e["st"][0][1] + 3
            return i
    return None


def _g10(mode, name, depth, univ, **kw):
    env = {"VERIF_UNIV": univ, "VERIF_READS": kw.pop("reads", 1), "VERIF_ENTRIES": kw.pop("entries", 3)}
    cfg = "ManifestGenEdges.cfg" if mode == "edges" else "ManifestGenFull.cfg"
    return dict(mode=mode, spec="ManifestGen.tla", cfg=cfg, depth=depth, name=name, env=env, timeout=900, **kw)


CHECKS["C10"] = dict(
    modules=["manifest"], level="model_checking", driver="mandrv",
    design_ref="5 (C10)",
    technique="TLA+ map model of a directory manifest checked by TLC; an implementation-shaped TLA+ model of the mantaray trie is "
              "shown to refine it once four repairs are switched on; TLC-generated add/remove/store/reload/lookup/prefix histories are "
              "replayed on pkg/manifest + loadsave + pipeline + joiner (plain and encrypted) and the recorded results are judged by the TLA+ trace spec",
    level_text="TLC exhausts Manifest.tla (paths with shared prefixes, 2 entries) and the repaired-trie refinement; generated histories cover one "
               "shortest history per (map, trie-internal state, operation) of small universes plus random walks over random prefix-sharing "
               "path sets; every recorded lookup / prefix answer / not-found / error is judged by ManifestTrace.tla against the map alone",
    level_note="trusted: TLC, the driver's fixture identification (reference ids, three metadata maps), bounded path universes (<= 5 paths of "
               "<= 4 letters over a,b,c,/; letters optionally written 8 times to cross mantaray's 30-byte node prefix); the trie model only names "
               "known mechanisms, it never decides a verdict; the empty prefix and the empty path are not generated",
    design=[dict(spec="MCManifest.tla", cfg="MCManifest.cfg", cfg_thorough="MCManifest_thorough.cfg", workers=4, timeout=600),
            dict(spec="MCMantaray.tla", cfg="MCMantaray.cfg", workers=8, timeout=1200, thorough_only=True)],
    gen=dict(
        quick=[_g10("edges", "edges-u1", 4, 1, entries=2, max=380),
               _g10("sim", "walks-a", 9, 0, num=12, max=120, salt=1)],
        thorough=[_g10("edges", "edges-u1", 5, 1, entries=2, max=2500),
                  _g10("edges", "edges-u2", 4, 2, entries=2, max=800),
                  _g10("edges", "edges-u3", 4, 3, entries=2, max=800),
                  _g10("edges", "edges-u4", 4, 4, entries=3, max=800),
                  _g10("edges", "edges-u5", 4, 5, entries=2, max=800),
                  _g10("exh", "exh-u1", 4, 1, entries=2, reads=0, max=1500),
                  _g10("sim", "walks-a", 14, 0, num=60, max=500, salt=1),
                  _g10("sim", "walks-b", 14, 0, num=60, max=500, salt=2),
                  _g10("sim", "walks-c", 14, 0, num=60, max=500, salt=3),
                  _g10("sim", "walks-d", 14, 0, num=60, max=500, salt=4)]),
    post_gen=_c10_variants,
    judge=dict(spec="ManifestTrace.tla", cfg="ManifestTrace.cfg"),
    corrupt=_c10_corrupt,
    selftest_scenarios=60,
    nontrivial=lambda s: any(o["op"] in ("add", "remove") for o in s["ops"]),
    rule="TLC-generated histories of add/remove/store/reload/lookup/hasprefix closed by a dump (lookup of every universe path + every prefix "
         "query); edges = one shortest history per (abstract map, stored map, trie-internal state, last operation) of a fixed universe; "
         "exh = every mutator history of the given length; walks = -simulate over a random universe of prefix-sharing paths; each history runs "
         "on one flavour (plain/encrypted x stretch 1/8); distinct = distinct (universe, flavour, operation sequence); non-trivial = contains an add or remove",
    exhaustive=dict(quick=False, thorough=False),
    assumptions=["entries are 32-byte (plain) / 64-byte (encrypted manifests) references of one repeated byte and one of three metadata maps",
                 "paths are non-empty, at most 4 letters over {a,b,c,/}; HasPrefix(\"\") and Lookup(\"\") are not generated",
                 "a scenario ends at a panic or a failing Store (the object is then in an unspecified state)",
                 "Reload = manifest.NewDefaultManifestReference(reference of the last Store) with the same load-saver"],
)


# ------------------------------------------------------------------------------------ C09
def _g09(mode, name, **env):
    kw = {}
    for k in ("num", "max", "salt", "depth"):
        if k in env:
            kw[k] = env.pop(k)
    return dict(mode=mode, spec="TraversalGen.tla", cfg="TraversalGen.cfg", name=name, timeout=900,
                env={"VERIF_" + k.upper(): v for k, v in env.items()}, **kw)


def _c09_corrupt(evs):
    """binding self-test: drop one reported address from a traversal"""
    for i, e in enumerate(evs):
        if e.get("op") == "traverse" and len(e.get("t", [])) > 1 and not e.get("err"):
            e["t"] = e["t"][:-1]
            e["t32"] = e["t32"][:-1]
            return i
    return None


CHECKS["C09"] = dict(
    modules=["manifest", "traversal"], level="model_checking", driver="travdrv",
    design_ref="5 (C09)",
    technique="TLA+ model of the hash-trie writer, the joiner's chunk iteration and the manifest walk, checked by TLC for the four set formulas "
              "of C09; TLC-generated file shapes and directories are uploaded through the real pipeline into a recording store and "
              "traversal.Traverse/GetChunkHashes/GetPyramid are judged by the TLA+ trace spec over address identifiers",
    level_text="TLC exhausts Traversal.tla over every file of up to 2B+B+2 chunks (scaled branching B=2/3: three chunk levels, lone-reference carries, "
               "repeated chunks, four tail classes) and small directories; the generator emits every single-file shape class (1-3 chunks, repeated "
               "content, empty/1-byte/half/full tail; k*8192+1 / +2 chunks = three chunk levels as hand-written trees of repeated chunks inside directories; streamed > 2 GiB files only on request, VERIF_C09_BIG=1) and random directories of "
               "1-6 files over file-like paths, plain and encrypted; T = W, D in W, P in W, D u P = W are evaluated by TraversalTrace.tla",
    level_note="trusted: TLC, the recording store (logs every Put), the driver's numbering of byte strings; addresses are compared as exact byte "
               "strings (32-byte store addresses); paths are file-like (no trailing '/': the directory walk of GetChunkHashes only lists entries "
               "whose path does not end in '/'); manifest nodes are single-chunk; four-level trees (> 16 TiB) are only covered by the scaled model",
    design=[dict(spec="MCTraversal.tla", cfg="MCTraversal.cfg", cfg_thorough="MCTraversal_thorough.cfg", workers=8, timeout=1500, coverage=False)],
    gen=dict(
        # an encrypted chunk costs ~50x a plain one (padded to 256 KiB, encrypted, hashed; decrypted again by each of the
        # three observations), hence fewer and smaller encrypted scenarios
        quick=[_g09("exh", "files", files=1, dir=0, pat=3, enc=0),
               _g09("exh", "files-enc", files=1, dir=0, pat=2, enc=1),
               _g09("sim", "dirs-ab", files=6, dir=1, pat=2, enc=0, alpha=2, num=70, depth=20, max=70, salt=2),
               _g09("sim", "dirs-enc", files=3, dir=1, pat=1, enc=1, alpha=2, num=6, depth=20, max=6, salt=3),
               # k*8192+1 chunks (lone data chunk carried to the root), written chunk by chunk, in a directory
               _g09("sim", "hand", files=2, dir=1, pat=1, enc=0, hand=1, handpat=1, handtails=1, alpha=2, num=3, depth=20, max=3, salt=4)],
        thorough=[_g09("exh", "files", files=1, dir=0, pat=3),
                  _g09("exh", "dir1", files=1, dir=1, pat=1, enc=0, aliases=0, max=150),
                  _g09("sim", "dirs", files=6, dir=1, pat=3, enc=0, num=300, depth=20, max=300, salt=1),
                  _g09("sim", "dirs-ab", files=6, dir=1, pat=3, enc=0, alpha=2, num=300, depth=20, max=300, salt=2),
                  _g09("sim", "dirs-enc", files=6, dir=1, pat=2, enc=1, alpha=2, num=40, depth=20, max=40, salt=3),
                  _g09("sim", "hand", files=3, dir=1, pat=2, enc=0, hand=1, handpat=2, num=40, depth=20, max=40, salt=4)]),
    judge=dict(spec="TraversalTrace.tla", cfg="TraversalTrace.cfg"),
    corrupt=_c09_corrupt,
    selftest_scenarios=60,
    driver_timeout=3000,
    nontrivial=lambda s: any(o["op"] == "upload" and (len(o["pat"]) + o["a"]) > 1 for o in s["ops"]) or any(o["op"] == "mkdir" for o in s["ops"]),
    rule="TLC-generated scenarios: upload of 1-6 files (shape = blocks of B full chunks + pattern of further chunks over two content ids + tail class), "
         "optionally linked into a directory manifest (one path per file + up to 2 aliases, optional '/' metadata entry), then Traverse, "
         "GetChunkHashes, GetPyramid; plain and encrypted; distinct = distinct (encryption, shapes, paths); non-trivial = a multi-chunk file or a directory",
    exhaustive=dict(quick=False, thorough=False),
    assumptions=["chunk content is pseudo-random per (seed, content id): equal ids give equal chunks, different ids different chunks",
                 "every uploaded file of a directory scenario is linked by at least one path; the manifest is stored once",
                 "keccak/BMT collision freedom: distinct chunks have distinct addresses"],
)

# Three chunk levels with the real constants need > 2 GiB (plain) per file: one such scenario costs ~16 CPU-minutes of hashing and
# several GiB of RAM (traversal first reads the whole file as a manifest candidate, three times).  Not part of the tiers; opt in with
# VERIF_C09_BIG=1 (adds B, B+1, B+2 chunk files, plain) or =2 (also one encrypted B+1 file) for the thorough tier.
if os.environ.get("VERIF_C09_BIG") in ("1", "2"):
    CHECKS["C09"]["gen"]["thorough"].append(_g09("exh", "big", files=1, dir=0, big=1, enc=0))
    if os.environ.get("VERIF_C09_BIG") == "2":
        CHECKS["C09"]["gen"]["thorough"].append(_g09("exh", "big-enc", files=1, dir=0, big=1, enc=1, max=1))
