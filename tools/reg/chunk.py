"""C04, C05 — chunk validity (spec/chunk/Chunk*.tla, harness/cmd/chunkdrv);
C06 — only valid chunks are accepted from peers (spec/chunk/Ingest*.tla, harness/cmd/ingestdrv)."""
from regkit import corrupt_field

CHECKS = {}

_TRUSTED = ("trusted: TLC, the driver's independent evaluator (harness/internal/refhash: BMT from its recursive definition with "
            "x/crypto legacy keccak256, owner derivation and signature recovery with btcec), JSON logging; collision-freeness of "
            "keccak256 and unforgeability of secp256k1 signatures are assumptions")

# ------------------------------------------------------------------------------------ C04
CHECKS["C04"] = dict(
    modules=["chunk"], level="exploration", driver="chunkdrv",
    design_ref="5 (C04)",
    technique="TLA+ defining equation ValidCAC; TLC enumerates the case classes (lengths x span values x address classes x "
              "single-byte mutations) and judges the recorded results of pkg/cac against the equation",
    level_text="TLC checks on a symbolic injective-hash algebra that 'mutation invalidates' and 'length-guarded truncating hasher = "
               "definition' follow from the definitions (MCChunk), enumerates every case class (ChunkGen), chunkdrv concretises each "
               "class with seeded bytes on cac.New / NewWithDataSpan / Valid, and ChunkTrace.tla evaluates ValidCAC over the logged "
               "payload length and the independently computed 'address is the BMT hash' flag",
    level_note="exploration: pure function, TLA+ is generator and oracle; byte positions inside a class are sampled from the seed. "
               + _TRUSTED,
    design=[dict(spec="MCChunk.tla", cfg="MCChunk.cfg", cfg_thorough="MCChunk_thorough.cfg", workers=8, timeout=600)],
    gen=dict(
        quick=[dict(mode="exh", spec="ChunkGen.tla", cfg="ChunkGen.cfg", env={"VERIF_FAMILY": "cac"}, name="classes")],
        thorough=[dict(mode="exh", spec="ChunkGen.tla", cfg="ChunkGen.cfg", env={"VERIF_FAMILY": "cac", "VERIF_THOROUGH": "1"},
                       name="classes", timeout=900)]),
    judge=dict(spec="ChunkTrace.tla", cfg="ChunkTrace.cfg"),
    corrupt=corrupt_field("valid", "valid", lambda e: not e["valid"]),
    selftest_scenarios=60,
    nontrivial=lambda s: any(o["op"] in ("new", "newspan") or (o["op"] == "valid" and (8 <= o["plen"] <= 262152 or o["addr"] == "own"))
                             for o in s["ops"]),
    rule="one scenario per case class enumerated by TLC: cac.New over data lengths {0,1,2,31..33,63..65,4095..4097,CS-1,CS,CS+1,2CS}, "
         "NewWithDataSpan over payload lengths {0,7,8,9,40,CS+7,CS+8,CS+9,2CS} x span values {len,zero,max,rand}, Valid over payload "
         "length x span value x address class {own, first/middle/last byte changed, address of another payload} x payload mutation "
         "{none, each span byte, first/middle/last data byte, truncate 1, extend 1, extend by a zero byte}; thorough adds lengths around "
         "section/power-of-two boundaries and 4 repetitions with different bytes/positions. distinct = distinct class record; "
         "non-trivial = the outcome depends on a length boundary or on the hash comparison (everything except wrong-address cases "
         "of out-of-range payloads)",
    exhaustive=dict(quick=False, thorough=False),
    assumptions=["keccak256 is collision-free on the sampled inputs (a changed byte changes the BMT hash)",
                 "payload bytes are seeded pseudo-random; over-long payloads go up to 2*CS+8 bytes"],
)

# ------------------------------------------------------------------------------------ C05
CHECKS["C05"] = dict(
    modules=["chunk"], level="exploration", driver="chunkdrv",
    design_ref="5 (C05)",
    technique="TLA+ symbolic signature algebra and defining equation ValidSOC; TLC enumerates keys x ids x wrapped lengths x "
              "alteration classes and judges the recorded results of pkg/soc against the equation",
    level_text="TLC checks on the symbolic algebra (Sig(k,m) recovers k exactly on m) that a signed chunk is valid, parses back and "
               "that every single-field alteration invalidates it (MCChunk); ChunkGen enumerates 3 keys x 3 ids x wrapped payload "
               "lengths x 32 alteration classes, SOCGen the same cases for keys with leading zero bytes in the secret scalar or in a "
               "public coordinate (classes in which shortest-form and fixed-width encodings differ); chunkdrv runs soc.New/Sign/FromChunk/Valid/CreateAddress; ChunkTrace.tla evaluates "
               "ValidSOC over independently computed observables (signature recovers a key, address = keccak(id||recovered owner))",
    level_note="exploration: pure function, TLA+ is generator and oracle; byte positions inside a class are sampled from the seed, "
               "the recovery byte v is altered by fixed offsets. " + _TRUSTED,
    design=[dict(spec="MCChunk.tla", cfg="MCChunk.cfg", cfg_thorough="MCChunk_thorough.cfg", workers=8, timeout=600)],
    gen=dict(
        quick=[dict(mode="exh", spec="ChunkGen.tla", cfg="ChunkGen.cfg", env={"VERIF_FAMILY": "soc"}, name="classes"),
               dict(mode="exh", spec="SOCGen.tla", cfg="SOCGen.cfg", env={"VERIF_FAMILY": "soc"}, name="keyclasses")],
        thorough=[dict(mode="exh", spec="ChunkGen.tla", cfg="ChunkGen.cfg", env={"VERIF_FAMILY": "soc", "VERIF_THOROUGH": "1"},
                       name="classes", timeout=900),
                  dict(mode="exh", spec="SOCGen.tla", cfg="SOCGen.cfg", env={"VERIF_FAMILY": "soc", "VERIF_THOROUGH": "1"},
                       name="keyclasses", timeout=900)]),
    judge=dict(spec="ChunkTrace.tla", cfg="ChunkTrace.cfg"),
    corrupt=corrupt_field("soc", "valid", lambda e: not e["valid"]),
    selftest_scenarios=60,
    nontrivial=lambda s: any(o["op"] == "soc" for o in s["ops"]),
    rule="one scenario per case class enumerated by TLC: key (3, derived from the seed) x id (3) x wrapped payload length "
         "{8,9,40,CS+8} (thorough: +72,4104,CS+7; 4 repetitions) x alteration {none; id first/middle/last byte; signature r, s byte; "
         "v+{1,2,3,4,5,8,128,229,252,255}; wrapped span / first / last data byte; address first/middle/last byte; truncated below the "
         "minimum, by 1, extended by 1; address of another owner / another id; signature by another key, over another id, over "
         "another wrapped address; zero signature}; keyclasses: the same alterations for the first key found in a seeded stream with "
         "exactly one leading zero byte in its secret scalar / public X / public Y (thorough: also two zero bytes, two numbers at once, "
         "the second key of a class, more ids and lengths); distinct = distinct class record; every case signs and validates, so all count",
    exhaustive=dict(quick=False, thorough=False),
    assumptions=["keccak256 collision-free, secp256k1 signatures unforgeable on the sampled inputs",
                 "keys and ids are derived from VERIF_SEED; the wrapped chunk is handed to soc.New with its reference BMT address",
                 "class keys are searched in a stream of candidates derived from VERIF_SEED (about 256 candidates per zero byte); the "
                 "key's Ethereum address is evaluated independently from the 32-byte padded coordinates (btcec + x/crypto keccak)"],
)


# ------------------------------------------------------------------------------------ C06
def _corrupt_delivery(evs):
    """binding self-test: a delivered chunk is made invalid for its address in the recording"""
    for i, e in enumerate(evs):
        if e.get("op") == "retrieve" and e.get("got") and (e["d"]["am"] or e["d"]["com"]):
            e["d"]["am"] = False
            e["d"]["com"] = False
            return i
    return None


_REJECTED_UNHASHED = ("empty", "short7", "short5")

CHECKS["C06"] = dict(
    modules=["chunk"], level="model_checking", driver="ingestdrv",
    design_ref="5 (C06)",
    technique="TLA+ model of what a node stores / hands over when remote peers answer retrieval and pyramid requests (Ingest.tla), "
              "checked by TLC; TLC-generated histories are replayed on the real retrieval.Service, traversal.GetChunkHashes and "
              "chunkinfo pyramid handlers against scripted peers; the recorded puts and deliveries are judged by IngestTrace.tla",
    level_text="TLC exhausts Ingest over 4 fixture files, 4 requested addresses, 10 CAC + 7 SOC reply classes (single and two-peer) and "
               "10 pyramid-map classes through 5 entry points, for the intended and the as-read pyramid entry check; the generator "
               "emits one history per (model state, operation) edge; ingestdrv runs each on the real code with a recording store; "
               "every Put and every delivered chunk is judged with ValidCAC/ValidSOC over independently computed observables",
    level_note="bounded: fixture universe of Ingest.tla, histories of depth <= 2, bytes/positions inside a class sampled from the seed; "
               "accounting/routetab/oracle/resolver are the repository's mocks, chunkinfo is stubbed for the plain retrieval entry "
               "points and real for the pyramid ones; encrypted references and multi-level trees are not exercised. " + _TRUSTED,
    design=[dict(spec="MCIngest.tla", cfg="MCIngest.cfg", cfg_thorough="MCIngest_thorough.cfg", workers=8, timeout=900),
            dict(spec="MCIngest.tla", cfg="MCIngestAsRead.cfg", cfg_thorough="MCIngestAsRead_thorough.cfg", workers=8, timeout=900,
                 thorough_only=True)],
    gen=dict(
        quick=[dict(mode="edges", spec="IngestGen.tla", cfg="IngestGenEdges.cfg", depth=1, name="ops"),
               dict(mode="edges", spec="IngestGen.tla", cfg="IngestGenQuick.cfg", depth=2, max=60, name="pairs")],
        thorough=[dict(mode="edges", spec="IngestGen.tla", cfg="IngestGenAll.cfg", depth=1, name="ops", timeout=900),
                  dict(mode="edges", spec="IngestGen.tla", cfg="IngestGenEdges.cfg", depth=2, max=400, name="pairs", timeout=900)]),
    judge=dict(spec="IngestTrace.tla", cfg="IngestTrace.cfg"),
    corrupt=_corrupt_delivery,
    selftest_scenarios=60,
    driver_timeout=1500,
    nontrivial=lambda s: any((o["op"] == "pyramid" and o["map"] not in ("rootMissing",)) or
                             (o["op"] == "retrieve" and any(r["cls"] not in _REJECTED_UNHASHED for r in o["replies"]))
                             for o in s["ops"]),
    rule="TLC edges mode over Ingest: one shortest history per (addresses held, files registered, last operation). Operations: "
         "retrieve via {client RetrieveChunk with 1 or 2 peers, relay through the retrieval handler} x requested address "
         "{small CAC, full CAC, leaf of the 3-chunk file, SOC} x reply class {correct, truncated by 1, extended by 1, "
         "extended by a zero byte, one bit flipped, empty, 7 bytes, over-long with valid CS+8 prefix (+1..64 / +4096.. bytes), payload "
         "of another CAC / of a SOC; SOC: valid, wrong owner, signature bit flipped, truncated, extended}; pyramid via {GetChunkHashes "
         "direct, chunkinfo pyramid handler relay, retrieval+chunkinfo OnChunkRetrieved} x file {1 small chunk, 1 full chunk, manifest "
         "with a 3-chunk file, manifest with 2 files} x map class {honest, extra consistent, extra wrong hash, extra over-long, altered "
         "entry, root missing, child missing, over-long entry with valid prefix (2 sizes), entry shorter than a span}. quick: all "
         "single operations (two-peer requests with the first reply from a small rejected set) + 60 sampled depth-2 histories; thorough: all single operations with all "
         "ordered reply pairs + 400 sampled depth-2 histories. distinct = distinct operation sequence; non-trivial = some payload "
         "reaches a hash comparison (not only empty / <8-byte replies or a map without root)",
    exhaustive=dict(quick=False, thorough=False),
    assumptions=["keccak256 collision-free, secp256k1 unforgeable on the sampled inputs",
                 "honest fixtures are produced by the repository's own upload pipeline, manifest code and traversal.GetPyramid",
                 "the scripted peers answer every request of one operation with the same bytes",
                 "a Put that arrives more than 2 ms after the operation returned is attributed to the next event"],
)
