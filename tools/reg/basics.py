"""C19 shed, C20 overlay (proximity / distance), C21 pslice, C39 bitvector."""
from regkit import corrupt_field

CHECKS = {}


def _corrupt_first(pred, change):
    """binding self-test corruptor: change the first event satisfying pred"""
    def cor(evs):
        for i, e in enumerate(evs):
            if e.get("op") not in (None, "reset") and pred(e):
                change(e)
                return i
        return None
    return cor


def _flip_first_bit(e):
    e["st"][0] = not e["st"][0]


def _bump_length(e):
    e["length"] += 1


# ------------------------------------------------------------------------------------ C39
CHECKS["C39"] = dict(
    modules=["bitvector"], level="model_checking", driver="bitvecdrv",
    design_ref="5 (C39)",
    technique="TLA+ boolean-array model checked by TLC; TLC-generated operation sequences run on pkg/bitvector; "
              "recorded trace judged by the TLA+ trace spec",
    level_text="TLC exhausts the BitVector model on small lengths and generates (a) one history per (length, backing, abstract content, "
               "operation kind) for the all-set test, (b) one per (length, backing, abstract content, operation+argument), (c) random walks "
               "for every length 1..24 x slack 0..2 and for lengths 63,64,65,511,512; every recorded result and the full Get projection "
               "are judged by BitVectorTrace.tla",
    level_note="trusted: TLC, the driver's projection (Len, Get(i) for i < Len, Bytes). Get/Set beyond Len and masks of the wrong "
               "length are outside the statement and not generated. The LSB-first byte encoding is taken as part of the contract.",
    design=[dict(spec="MCBitVector.tla", cfg="MCBitVector.cfg", cfg_thorough="MCBitVector_thorough.cfg", workers=8, timeout=900),
            dict(spec="MCBitVector.tla", cfg="MCBitVectorRich.cfg", workers=8, timeout=900, thorough_only=True)],
    gen=dict(
        quick=[dict(mode="edges", spec="BitVectorGen.tla", cfg="BitVectorGenAllSet.cfg", depth=5, max=700, name="allset-edges"),
               # the all-set test with exactly one clear bit at EVERY position, lengths around the word sizes 64..512
               dict(mode="edges", spec="BitVectorGen.tla", cfg="BitVectorGenAllSetWord.cfg", depth=3, max=3500, name="allset-word-edges", timeout=900),
               dict(mode="edges", spec="BitVectorGen.tla", cfg="BitVectorGenOpEdgesQuick.cfg", depth=5, max=1500, name="op-edges"),
               dict(mode="sim", spec="BitVectorGen.tla", cfg="BitVectorGenSim.cfg", depth=5, num=12, max=600, name="walks"),
               dict(mode="sim", spec="BitVectorGen.tla", cfg="BitVectorGenBig.cfg", depth=5, num=8, max=150, salt=1, name="walks-big")],
        thorough=[dict(mode="edges", spec="BitVectorGen.tla", cfg="BitVectorGenAllSet.cfg", depth=5, name="allset-edges"),
                  dict(mode="edges", spec="BitVectorGen.tla", cfg="BitVectorGenAllSetWordT.cfg", depth=4, max=12000, name="allset-word-edges", timeout=1500),
                  dict(mode="edges", spec="BitVectorGen.tla", cfg="BitVectorGenOpEdges.cfg", depth=5, max=30000, timeout=1500, name="op-edges"),
                  dict(mode="sim", spec="BitVectorGen.tla", cfg="BitVectorGenSim.cfg", depth=8, num=80, max=5000, name="walks"),
                  dict(mode="sim", spec="BitVectorGen.tla", cfg="BitVectorGenBig.cfg", depth=8, num=60, max=3000, salt=1, name="walks-big")]),
    judge=dict(spec="BitVectorTrace.tla", cfg="BitVectorTrace.cfg"),
    corrupt=_corrupt_first(lambda e: e.get("err") == "" and len(e.get("st", [])) > 0, _flip_first_bit),   # one recorded Get result
    nontrivial=lambda s: any(o["op"] in ("set", "unset", "setbytes", "unsetbytes") for o in s["ops"]),
    rule="TLC-generated operation sequences, each starting with New(n) or NewFromBytes(pattern, n) (n in 1..24 and {63,64,65,511,512}, "
         "0..2 bytes of slack); distinct = distinct operation sequence; non-trivial = contains at least one mutation",
    exhaustive=dict(quick=False, thorough=False),
    assumptions=["indices passed to Get/Set/Unset are below Len()", "masks have the length of the backing slice",
                 "bit i of the array is bit (i % 8), LSB first, of byte i / 8 of the encoding"],
)

# ------------------------------------------------------------------------------------ C20
def _c20_split(scs, seed, tier):
    """one scenario per call (TLC emits them grouped by base pattern / target / repetition)"""
    out = []
    for s in scs:
        for j, o in enumerate(s["ops"]):
            out.append({"par": dict(s.get("par", {}), no=j), "ops": [o], "src": s.get("src", "enum")})
    return out


def _c20_nontrivial(s):
    o = s["ops"][0]
    if o["op"] in ("prox", "cmp"):
        return o["x"] != o["y"]
    return o.get("k", 0) != -1 and o.get("shared", 0) != 32


CHECKS["C20"] = dict(
    modules=["overlay"], level="exploration", driver="overlaydrv",
    design_ref="5 (C20)",
    technique="TLA+ defining equations of proximity order and XOR distance on bit strings; TLC checks their mutual consistency on a "
              "small universe, enumerates the inputs, and evaluates the equations on the arguments/results the Go functions logged",
    level_text="pure functions: TLC enumerates first-difference positions 0..40 and 'no difference' x 4 base patterns x equal/inverted tail "
               "(both caps, both argument orders), all 4096 triples of 2-byte addresses over {00,01,80,ff}, seeded 32-byte pairs/triples, and the ordering "
               "class 'candidates share exactly k leading bits' for every k in 0..48 and 100, 200, 255 x target inside/outside the prefix/on a candidate; "
               "Proximity, ExtendedProximity, DistanceCmp, Address.Closer and Distance are judged by OverlayTrace.tla",
    level_note="exploration, not model checking: there is no state machine; TLC is enumerator and oracle. Addresses shorter than 5 bytes "
               "and unequal lengths are outside the statement. Trusted: TLC, the driver's logging of arguments and results.",
    design=[dict(spec="MCOverlay.tla", cfg="MCOverlay.cfg", cfg_thorough="MCOverlay_thorough.cfg", workers=4, timeout=900, coverage=False)],
    gen=dict(
        quick=[dict(mode="exh", spec="OverlayGen.tla", cfg="OverlayGen.cfg", depth=4, name="enum")],
        thorough=[dict(mode="exh", spec="OverlayGen.tla", cfg="OverlayGen.cfg", depth=60, name="enum")]),
    judge=dict(spec="OverlayTrace.tla", cfg="OverlayTrace.cfg"),
    post_gen=_c20_split, selftest_scenarios=4000,
    corrupt=corrupt_field("cmp", "c", lambda e: 1 if e["c"] != 1 else -1),
    nontrivial=_c20_nontrivial,
    rule="one call per scenario: (base pattern, tail) x 42 first-difference positions; every (target, x, y) triple of 2-byte addresses over "
         "a 4-byte alphabet; per repetition 27 seeded 32-byte proximity pairs + 9 seeded 32-byte distance triples + 156 ordering triples whose "
         "candidates share exactly k leading bits (k = 0..48, 100, 200, 255; target inside / outside the shared prefix / on a candidate); distinct = distinct "
         "(arguments | repetition, position); non-trivial = the two compared addresses differ",
    exhaustive=dict(quick=False, thorough=False),
    assumptions=["addresses have equal length >= 5 bytes for proximity (the functions inspect 4 / 5 bytes)",
                 "big-endian numerals of equal length compare as integers at their first difference (checked by TLC on 16-bit strings)"],
)

# ------------------------------------------------------------------------------------ C21
CHECKS["C21"] = dict(
    modules=["pslice"], level="model_checking", driver="pslicedrv", race="always",
    design_ref="5 (C21), 6 (data races)",
    technique="TLA+ model of the proximity-indexed peer set checked by TLC; TLC-generated histories (edges of the state graph + random walks) "
              "run on pslice.PSlice; recorded trace judged by the TLA+ trace spec; the concurrent iterate||update operation runs in a child "
              "process of the -race driver and the race detector's report is a logged observation",
    level_text="TLC exhausts the PSlice model (6 peers, capped last bin) and generates one history per (state, operation) edge - single/batch "
               "Add with duplicates, Remove, Exists, BinSize, BinPeers, Length, ShallowestEmpty, EachBin/EachBinRev with 11 callback scripts, "
               "iterations whose callback updates the slice, free-running iterate||update - plus random walks with maxBins 4 and 32; every "
               "result and the full BinPeers projection are judged by PSliceTrace.tla",
    level_note="data-race clause: TLA+ cannot decide it; the Go race detector observes the concurrent operation (DESIGN.md section 6) and "
               "its report is judged as clause no_data_race. Order inside a bin is predicted but never a verdict. Trusted: TLC, the driver's "
               "peer<->address map and projection, the race detector.",
    design=[dict(spec="MCPSlice.tla", cfg="MCPSlice.cfg", cfg_thorough="MCPSlice_thorough.cfg", workers=8, timeout=1200),
            # two-process memory model of iterate || update: no write ever hits a cell an open snapshot may read
            dict(spec="PSliceMem.tla", cfg="MCPSliceMem.cfg", workers=2, timeout=600)],
    gen=dict(
        quick=[dict(mode="edges", spec="PSliceGen.tla", cfg="PSliceGenEdges.cfg", depth=6, max=1000, name="edges"),
               dict(mode="sim", spec="PSliceGen.tla", cfg="PSliceGenSim.cfg", depth=12, num=6, max=600, name="walks"),
               dict(mode="edges", spec="PSliceGen.tla", cfg="PSliceGenConcEdges.cfg", depth=5, max=100, name="conc-edges")],
        thorough=[dict(mode="edges", spec="PSliceGen.tla", cfg="PSliceGenEdges.cfg", depth=6, max=12000, name="edges"),
                  dict(mode="edges", spec="PSliceGen.tla", cfg="PSliceGenEdgesQuick.cfg", depth=6, max=5000, name="edges-3bins"),
                  dict(mode="sim", spec="PSliceGen.tla", cfg="PSliceGenSim.cfg", depth=20, num=40, max=2000, name="walks"),
                  dict(mode="edges", spec="PSliceGen.tla", cfg="PSliceGenConcEdges.cfg", depth=5, max=1000, name="conc-edges"),
                  dict(mode="sim", spec="PSliceGen.tla", cfg="PSliceGenConcSim.cfg", depth=10, num=40, max=300, salt=3, name="conc-walks")]),
    judge=dict(spec="PSliceTrace.tla", cfg="PSliceTrace.cfg"),
    corrupt=_corrupt_first(lambda e: not e.get("panicked") and "length" in e, _bump_length),   # the recorded Length()
    nontrivial=lambda s: any(o["op"] in ("add", "remove", "iterupd", "conc") for o in s["ops"]) and len(s["ops"]) > 1,
    rule="TLC-generated histories over 6 peers (two bins with two peers, proximity above the last bin included): edges mode = one shortest "
         "history per (model state, operation) pair of the complete state graph; walks = -simulate with maxBins 4 and 32; conc = histories "
         "ending in a free-running iterate||update; distinct = distinct (maxBins, operation sequence); non-trivial = contains a mutation",
    exhaustive=dict(quick=False, thorough=False),
    assumptions=["peers are 32-byte addresses built to share exactly po leading bits with the base",
                 "the race detector reports a race only if both accesses happen in the run (60 update rounds against a free-running reader)"],
)

# ------------------------------------------------------------------------------------ C19
_SHED_WRITES = ("put", "del", "bput", "bdel", "commit", "uput", "ubput", "uinc", "udec", "ubinc", "ubdec", "sput", "sbput",
                "vput", "vbput", "vinc", "vdec", "vbinc", "vbdec")
CHECKS["C19"] = dict(
    modules=["shed"], level="model_checking", driver="sheddrv",
    design_ref="5 (C19)",
    technique="TLA+ model of shed (independent sorted maps, fields, vector, batch, reopen) checked by TLC; TLC-generated histories "
              "(edges of the state graph + random walks) run on shed.DB over LevelDB; recorded trace judged by the TLA+ trace spec",
    level_text="TLC exhausts the Shed model on a small universe and generates one history per (store state, operation) edge - every exported "
               "Index method incl. Iterate with {Prefix, StartFrom, SkipStartFromItem, Reverse} x callback stop/error, First, Last, Count, "
               "CountFrom, Fill, HasMulti, batches, Uint64Field, StringField, Uint64Vector, reopen - plus random walks over 3 indexes x 14 "
               "keys whose bytes collide with the index/field prefix bytes; every result and a full projection are judged by ShedTrace.tla",
    level_note="trusted: TLC, the driver's projection (Get of every universe key, full Iterate, Count, field reads), goleveldb. Empty "
               "encoded keys, field names that are prefixes of each other and crashes (C14) are not generated.",
    design=[dict(spec="MCShed.tla", cfg="MCShedIndex.cfg", cfg_thorough="MCShedIndex_thorough.cfg", workers=8, timeout=1200),
            dict(spec="MCShed.tla", cfg="MCShedField.cfg", cfg_thorough="MCShedField_thorough.cfg", workers=8, timeout=1200)],
    gen=dict(
        quick=[dict(mode="edges", spec="ShedGen.tla", cfg="ShedGenEdgesQuick.cfg", depth=6, max=1500, name="index-edges"),
               # every ordered pair of staged writes on two keys (put-then-delete, delete-then-put, put-put of one key) from every store state
               dict(mode="edges", spec="ShedGen.tla", cfg="ShedGenBatch2.cfg", depth=7, max=1200, name="batch2-edges"),
               dict(mode="sim", spec="ShedGen.tla", cfg="ShedGenSim.cfg", depth=12, num=30, max=700, name="walks")],
        thorough=[dict(mode="edges", spec="ShedGen.tla", cfg="ShedGenEdges.cfg", depth=8, max=20000, timeout=1500, name="index-edges"),
                  dict(mode="edges", spec="ShedGen.tla", cfg="ShedGenEdgesQuick.cfg", depth=6, max=8000, timeout=1500, name="batch-edges"),
                  dict(mode="edges", spec="ShedGen.tla", cfg="ShedGenFieldEdges.cfg", depth=6, max=6000, timeout=1500, name="field-edges"),
                  dict(mode="edges", spec="ShedGen.tla", cfg="ShedGenBatch2.cfg", depth=9, max=6000, timeout=1500, name="batch2-edges"),
                  dict(mode="sim", spec="ShedGen.tla", cfg="ShedGenSim.cfg", depth=25, num=120, max=3000, name="walks")]),
    judge=dict(spec="ShedTrace.tla", cfg="ShedTrace.cfg"),
    corrupt=corrupt_field("get", "found", lambda e: not e["found"]),
    nontrivial=lambda s: any(o["op"] in _SHED_WRITES for o in s["ops"]) and any(o["op"] not in _SHED_WRITES for o in s["ops"]),
    rule="TLC-generated histories over 3 indexes (variable-length, 1-byte and 2-byte keys over {00,01,02,03,04,ff}), a uint64 field, a string "
         "field, a 2-element vector, one write batch and reopen: edges mode = one shortest history per (store state, operation) pair of the "
         "state graph of a small universe; walks = -simulate over the large universe with arguments drawn per step; distinct = distinct "
         "operation sequence; non-trivial = contains a write and a read",
    exhaustive=dict(quick=False, thorough=False),
    assumptions=["item values are one byte; keys are 1-2 bytes", "a history that reopens runs on a temporary directory, the others in memory",
                 "one write batch at a time; a committed or abandoned batch is replaced by a fresh one"],
)
