"""C34-C37 — authenticated address records, API tokens, keystores, malformed peer messages
(spec/addrrecord, spec/authtoken, spec/keystore, spec/msgshapes; harness/cmd/{addrdrv,authdrv,keystoredrv,msgdrv})."""
from regkit import corrupt_field

CHECKS = {}

# ------------------------------------------------------------------------------------ C34
CHECKS["C34"] = dict(
    modules=["addrrecord"], level="exploration", driver="addrdrv",
    design_ref="5 (C34)",
    technique="symbolic signature algebra in TLA+ (Sig/Recover/OverlayOf) over records whose fields are byte strings with a length "
              "and whose signed payload is the concatenation of the fields; TLC checks that the statement follows from the "
              "ParseAddress mechanism on every record of the universe (and that only the length-exact overlay comparison pins the "
              "field boundary), enumerates honest records x single-field mutations x boundary shifts x self-signed claims of a "
              "foreign overlay, and judges what aurora.ParseAddress, handshake Handle/Handshake and routetab's underlay replies did with each",
    level_text="TLC enumerates 3 keys x 3 underlays x 2 network ids x mutation classes (underlay, overlay bytes and length, network id, "
               "signature byte/length/signer, underlay/overlay boundary moved with the signed bytes unchanged, records signed by the key "
               "for an overlay of another length / another key) for five acceptance paths; real secp256k1 records are built by the driver, the recorded "
               "accept/reject is judged by AddrRecordTrace.tla against Accept()",
    level_note="exploration: TLA+ is enumerator and oracle, there is no state machine; unforgeability of secp256k1/keccak is an "
               "assumption (Recover of a damaged signature yields a key outside the universe); package libp2p itself does not "
               "compile with this toolchain, the handshake service is reached through the verif-tagged re-export package verifhs",
    design=[dict(spec="MCAddrRecord.tla", cfg="MCAddrRecord.cfg", workers=2, timeout=300)],
    gen=dict(
        quick=[dict(mode="exh", spec="AddrRecordGen.tla", cfg="AddrRecordGen.cfg", name="records")],
        thorough=[dict(mode="exh", spec="AddrRecordGen.tla", cfg="AddrRecordGen.cfg", name="records", env={"VERIF_THOROUGH": "1"})]),
    judge=dict(spec="AddrRecordTrace.tla", cfg="AddrRecordTrace.cfg"),
    corrupt=corrupt_field("handle", "accepted", lambda e: (not e["accepted"]) if e["mut"] in ("sig_byte", "none") else None),
    nontrivial=lambda s: any(o["mut"] != "none" for o in s["ops"]),
    rule="one scenario per (acceptance path, key, underlay, network id): the honest record and every single-field mutation of it "
         "(quick: 5 signature byte positions, 8 overlay damages incl. lengths 31/33/74 around the genuine 32 bytes, 2 underlay damages, network id checked on another id / an id differing only in the upper 32 bits / in bit 0, 31, 32, 63; thorough: all 65/32/8 positions and all 64 network-id bits), "
         "the 6 boundary shifts (underlay cut at 0/1/2 components or 1 byte before its end with the rest put in front of the overlay; "
         "the overlay's first 1/31 bytes appended to the underlay) and 8 (thorough 12) records the key signed itself for an overlay that is not its own; "
         "distinct = distinct (path, record descriptor list); non-trivial = contains at least one mutated record",
    exhaustive=dict(quick=True, thorough=True),
    assumptions=["secp256k1 signatures are unforgeable and keccak/sha3 collision-free (symbolic Recover)",
                 "byte damage is xor with one seeded bit (recovery id: 27<->28)",
                 "keys 1, 2 are seeded; key 3 is the first key of the seeded stream whose overlay on network id 10 starts with a zero byte "
                 "(its 31-byte tail equals the overlay as a number / as a zero-padded hash)",
                 "field boundaries are moved only at the model's cut points (multiaddr component ends, 1 byte before the underlay's end, "
                 "overlay bytes 1 and 31); distinct base strings share no bytes",
                 "64-bit network ids are carried symbolically (<<base, variant>>) and concretised by the driver (10 and 0x0102030405060708, xor 2^k / xor 0x8000000100000000)",
                 "the (r, n-s, v^1) twin of a signature counts as a signature made by the same key: its acceptance is a note, not a verdict",
                 "an honest underlay reply for another overlay than the one asked for is a note (the statement speaks about the record, not the request)"],
)

# ------------------------------------------------------------------------------------ C35
def _c35_corrupt(evs):
    # an Enforce that was refused is recorded as allowed
    for i, e in enumerate(evs):
        if e.get("op") == "enforce" and not e["allowed"] and not e["panicked"]:
            e["allowed"], e["expired"], e["err"] = True, False, ""
            return i
    return None


CHECKS["C35"] = dict(
    modules=["authtoken"], level="exploration", driver="authdrv",
    design_ref="5 (C35)",
    technique="symbolic sealed-token algebra and the applyPolicies table transcribed into TLA+ (keyMatch, /v1 rule, master role); "
              "TLC checks the token life cycle (issue/refresh/damage) for role preservation and no revival, generates the "
              "role x path x method product, the token classes and refresh histories; the recorded Enforce/RefreshKey results "
              "of auth.Authenticator are judged by AuthTokenTrace.tla",
    level_text="TLC enumerates 6 roles x 2 expiries x 60 paths x 6 methods on genuine tokens, 13 damaged/junk/foreign token "
               "classes, and random life-cycle histories over two token slots; every call runs on the real Authenticator",
    level_note="exploration: TLA+ is enumerator and oracle for the policy product; the life cycle is a small state machine. "
               "AES-GCM, base64 and the wall clock are not modelled: expiry is reached with negative durations, damage is a class",
    design=[dict(spec="MCAuthToken.tla", cfg="MCAuthToken.cfg", workers=4, timeout=600, env_thorough={"VERIF_THOROUGH": "1"})],
    gen=dict(
        quick=[dict(mode="exh", spec="AuthTokenGen.tla", cfg="AuthTokenGen.cfg", name="policy", env={"VERIF_FAMILY": "policy"}),
               dict(mode="exh", spec="AuthTokenGen.tla", cfg="AuthTokenGen.cfg", name="classes", env={"VERIF_FAMILY": "classes"}),
               dict(mode="exh", spec="AuthTokenGen.tla", cfg="AuthTokenGen.cfg", name="realtime", env={"VERIF_FAMILY": "realtime"}),
               dict(mode="sim", spec="AuthTokenGen.tla", cfg="AuthTokenGen.cfg", name="life", env={"VERIF_FAMILY": "life"},
                    depth=6, num=40, max=300, dedup=True)],
        thorough=[dict(mode="exh", spec="AuthTokenGen.tla", cfg="AuthTokenGen.cfg", name="policy", env={"VERIF_FAMILY": "policy"}),
                  dict(mode="exh", spec="AuthTokenGen.tla", cfg="AuthTokenGen.cfg", name="classes", env={"VERIF_FAMILY": "classes"}),
                  dict(mode="exh", spec="AuthTokenGen.tla", cfg="AuthTokenGen.cfg", name="realtime", env={"VERIF_FAMILY": "realtime"}),
                  dict(mode="sim", spec="AuthTokenGen.tla", cfg="AuthTokenGen.cfg", name="life", env={"VERIF_FAMILY": "life"},
                       depth=10, num=600, max=5000, dedup=True)]),
    judge=dict(spec="AuthTokenTrace.tla", cfg="AuthTokenTrace.cfg"),
    corrupt=_c35_corrupt,
    nontrivial=lambda s: any(o["op"] in ("enforce", "refresh") for o in s["ops"]),
    rule="policy: one scenario per (role, expiry) enforcing a genuine token on every (path, method) of the universe; classes: one "
         "scenario per (token class, role): issue, damage or replace, enforce, refresh, enforce the refreshed slot; realtime: 12 "
         "histories with a real 2 s expiry (use while alive / expire / refresh in the orders that matter), run concurrently; life: "
         "TLC -simulate walks over issue/refresh/tamper/junk/enforce on two slots; distinct = distinct operation list; "
         "non-trivial = contains an Enforce or RefreshKey",
    exhaustive=dict(quick=False, thorough=False),
    assumptions=["AES-GCM is an ideal AEAD (symbolic Seal/Open), base64 is injective",
                 "durations +3600 s / -3600 s stand for unexpired / born expired; real-time histories use a 2 s expiry and a 2.4 s wait: "
                 "a call closer than 300 ms to the expiry is logged as 'edge' and not judged (note), so a slow machine cannot alarm",
                 "methods are the exact strings GET/POST/DELETE/PUT/get/'' (regexMatch is unanchored in the code; substrings such as GETX are not generated)",
                 "a zero duration (rejected by GenerateKey/RefreshKey before anything else) is not generated"],
)

# ------------------------------------------------------------------------------------ C36
def _c36_corrupt(evs):
    # a Key call that opened an existing key is recorded as having returned another key
    for i, e in enumerate(evs):
        if e.get("op") == "key" and not e["created"] and e["kid"] > 0:
            e["kid"] = e["kid"] + 1
            return i
    return None


CHECKS["C36"] = dict(
    modules=["keystore"], level="exploration", driver="keystoredrv",
    design_ref="5 (C36)",
    technique="password-box model in TLA+ (one action per keystore.Service method, caller-supplied keys named by the number of "
              "leading zero bytes of their secret scalar) checked by TLC; TLC-generated "
              "create/get/import-private/export/import histories replayed on keystore/file and keystore/mem; recorded results judged by KeystoreTrace.tla",
    level_text="TLC exhausts the box model (2-3 names, 2-3 passwords, 1-2 exported blobs, 2-1 caller-supplied keys) and generates class scenarios over "
               "name/password classes (empty, 1 char, unicode, 64 chars, nested path / case variant), a cross-name export->import "
               "transfer, caller-supplied keys with 0/1/2 (thorough: 3, 16, 31) leading zero bytes stored with ImportPrivateKey, read back, "
               "exported and imported under another name, and random histories; each runs on the file keystore (real scrypt) and the in-memory keystore",
    level_note="exploration: scrypt/AES-CTR/keccak are not modelled (a blob opens only with its password); keys are numbered in "
               "order of first appearance; export/import are executed and judged on the file keystore only (the in-memory keystore "
               "panics with 'implement me' by design; the statement's 'both' covers the first clause only); Exists is a conformance note",
    design=[dict(spec="MCKeystore.tla", cfg="MCKeystore.cfg", workers=4, timeout=2400, env_thorough={"VERIF_THOROUGH": "1"})],
    gen=dict(
        quick=[dict(mode="exh", spec="KeystoreGen.tla", cfg="KeystoreGen.cfg", name="classes", env={"VERIF_FAMILY": "classes"}),
               dict(mode="exh", spec="KeystoreGen.tla", cfg="KeystoreGen.cfg", name="given", env={"VERIF_FAMILY": "given"}),
               dict(mode="sim", spec="KeystoreGen.tla", cfg="KeystoreGen.cfg", name="life", env={"VERIF_FAMILY": "life"},
                    depth=6, num=12, max=6)],
        thorough=[dict(mode="exh", spec="KeystoreGen.tla", cfg="KeystoreGen.cfg", name="classes",
                       env={"VERIF_FAMILY": "classes", "VERIF_THOROUGH": "1"}),
                  dict(mode="exh", spec="KeystoreGen.tla", cfg="KeystoreGen.cfg", name="given",
                       env={"VERIF_FAMILY": "given", "VERIF_THOROUGH": "1"}),
                  dict(mode="sim", spec="KeystoreGen.tla", cfg="KeystoreGen.cfg", name="life", env={"VERIF_FAMILY": "life"},
                       depth=9, num=120, max=150)]),
    judge=dict(spec="KeystoreTrace.tla", cfg="KeystoreTrace.cfg"),
    corrupt=_c36_corrupt,
    nontrivial=lambda s: sum(1 for o in s["ops"] if o["op"] == "key") >= 2,
    rule="classes: per (name class, password class) create / ask again / other password / exists / export with other and right "
         "password / import / ask again (quick: 5 diagonal pairs, thorough: 25); transfer: export from one name, import under "
         "another; given: per leading-zero class (quick 0, 1, 2; thorough + 3, 16, 31) create / ImportPrivateKey / ask again / other "
         "password / export / import under another name / ask there / wrong-password and missing-name ImportPrivateKey / a second "
         "given key replaces the first; life: TLC -simulate histories (incl. ImportPrivateKey of 1- and 2-zero-byte keys) starting with two creations; each scenario runs on both implementations; "
         "distinct = distinct operation list; non-trivial = at least two Key requests",
    exhaustive=dict(quick=False, thorough=False),
    assumptions=["private keys are compared by value and numbered in order of first appearance (caller-supplied keys: 100 + leading zero bytes)",
                 "keys the keystore creates itself come from crypto/rand: their leading bytes are not controlled (a leading zero byte has "
                 "probability 1/256 per creation); the class is reached deterministically only through ImportPrivateKey / ImportKey",
                 "name classes map to '', 'a', a unicode string, 64 characters and 'd/e'; names that alias the same file path are not generated",
                 "malformed key files (hostile JSON, e.g. dklen < 32) are outside the statement and not generated"],
)

# ------------------------------------------------------------------------------------ C37
def _c37_corrupt(evs):
    # a delivery that went fine is recorded as having panicked
    for i, e in enumerate(evs):
        if e.get("op") in ("msg", "raw") and not e["panicked"] and e["returned"]:
            e["panicked"] = True
            return i
    return None


_C37_PRODUCT_MTS = ["ci.resp", "ci.pyresp", "ci.req", "tr.cheque", "hive.peers", "rt.underresp", "retr.req", "mc.notify"]


def _c37_gen(family, name, **kw):
    env = {"VERIF_FAMILY": family}
    env.update(kw.pop("env", {}))
    return dict(mode="exh", spec="MsgShapesGen.tla", cfg="MsgShapesGen.cfg", name=name, env=env, timeout=1500, **kw)


CHECKS["C37"] = dict(
    modules=["msgshapes"], level="exploration", driver="msgdrv",
    design_ref="5 (C37)",
    technique="field-shape lattice per protocol message and message -> follow-up sessions in TLA+; TLC enumerates single-field "
              "deviations, raw byte classes, two-message sequences, field pairs and full products; every scenario is run on the real "
              "stream handlers / client read paths over in-memory streams in a supervised child process (a panic in a goroutine the "
              "service started kills the child and is recorded as a crash); MsgShapesTrace.tla judges no-panic / handler-returns",
    level_text="26 message types of handshake, pingpong, hive2, retrieval, chunkinfo (request/response/pyramid), routetab "
               "(request/response/underlay/relay chain), traffic cheques and multicast, each with prepared local states and the local "
               "follow-up operations that read state the message created",
    level_note="exploration: TLA+ enumerates shapes and sequences, it does not model the decoders and is not a fuzzer; the claim is "
               "'no panic for any combination inside the lattice plus seeded raw byte classes'. routetab onRelay needs libp2p's "
               "CallHandler (package libp2p does not compile here) and is not driven; follow-ups that do not return in time are notes",
    design=[dict(spec="MCMsgShapes.tla", cfg="MCMsgShapes.cfg", workers=2, timeout=300)],
    gen=dict(
        quick=[_c37_gen("dev", "dev"),
               _c37_gen("raw", "raw", max=60),
               _c37_gen("seq", "seq", max=40)],
        thorough=[_c37_gen("dev", "dev"),
                  _c37_gen("raw", "raw"),
                  _c37_gen("seq", "seq", max=1000),
                  _c37_gen("pair", "pair", max=1500)]
                 + [_c37_gen("product", "product-" + m, env={"VERIF_MT": m}, max=250) for m in _C37_PRODUCT_MTS]),
    judge=dict(spec="MsgShapesTrace.tla", cfg="MsgShapesTrace.cfg"),
    driver_timeout=3000,
    corrupt=_c37_corrupt,
    nontrivial=lambda s: any(o["op"] in ("msg", "raw") for o in s["ops"]),
    rule="dev: per (message type, prepared state) the well-formed message and every single-field deviation, then all follow-ups; "
         "raw: 9 raw byte classes per message type; seq: two messages of related types in a row; pair: two fields deviating; "
         "product: full field-shape product of one message type (sampled by max); distinct = distinct (par, operation list)",
    exhaustive=dict(quick=False, thorough=False),
    assumptions=["peers that the node dials answer nothing unless the scenario scripts them (they close their sending side at once)",
                 "the supervised child is restarted after each process death; a crash is attributed to the scenario in progress "
                 "after re-running it alone (else to the previous one)",
                 "multicast's 'subscribed' state (needs an rpc.Notifier) and the traffic ConnectOut client are not driven"],
)
