"""Growth: the retrieval protocol with accounting between three nodes (spec/retrievalproto, harness/cmd/retrdrv).

No new property id: the pipelines below are attached to C06 (P1: a chunk is stored / returned only after a valid
delivery) and C32 (P2-P4: Credit once per accepted delivery, Debit once per delivery written, no request without a
successful Reserve; tolerance / threshold / books) through `ALSO` (see tools/registry.py).  P5 (relay caches and
accounts on both hops) is covered by the same C06/C32 clauses applied to the relay node plus conformance notes;
P6 (termination within the attempt bound) is a TLC property of the design (safety + liveness) and a conformance note.
"""


def _gens():
    ed = dict(mode="edges", spec="RetrievalGen.tla", cfg="RetrievalGenEdges.cfg", depth=0, workers=2, timeout=1500)
    sim = dict(mode="sim", spec="RetrievalGen.tla", cfg="RetrievalGenSim.cfg", depth=260, dedup=True, timeout=1500)
    poor = dict(VERIF_FUNDS_A=3, VERIF_FUNDS_R=2)
    rich = dict(VERIF_FUNDS_A=9, VERIF_FUNDS_R=9)
    quick = [
        # one call, every pair of faults, from the initial state
        dict(ed, name="1call-2faults", max=70, env=dict(poor, VERIF_MAXTOP=1, VERIF_MAXFAULTS=2, VERIF_MAXSETTLE=0)),
        # long histories: caching, balances running out, tolerance reached, payment requests, settlements
        dict(sim, name="walks-poor", num=12, max=35, salt=1,
             env=dict(poor, VERIF_MAXTOP=5, VERIF_MAXFAULTS=3, VERIF_MAXSETTLE=2, VERIF_MINOPS=3, VERIF_TOL=1)),
        dict(sim, name="walks-rich", num=12, max=35, salt=2,
             env=dict(rich, VERIF_MAXTOP=6, VERIF_MAXFAULTS=3, VERIF_MAXSETTLE=2, VERIF_MINOPS=4, VERIF_TOL=3)),
    ]
    thorough = [
        dict(ed, name="1call-2faults", env=dict(poor, VERIF_MAXTOP=1, VERIF_MAXFAULTS=2, VERIF_MAXSETTLE=0)),
        dict(ed, name="2calls-1fault-settle", max=700, env=dict(poor, VERIF_MAXTOP=2, VERIF_MAXFAULTS=1, VERIF_MAXSETTLE=1)),
        dict(ed, name="2calls-rich-tol1", max=400, env=dict(rich, VERIF_MAXTOP=2, VERIF_MAXFAULTS=1, VERIF_MAXSETTLE=1, VERIF_TOL=1, VERIF_THR=1)),
        dict(sim, name="walks-poor", num=120, max=300, salt=1,
             env=dict(poor, VERIF_MAXTOP=6, VERIF_MAXFAULTS=4, VERIF_MAXSETTLE=2, VERIF_MINOPS=4)),
        dict(sim, name="walks-rich", num=120, max=300, salt=2,
             env=dict(rich, VERIF_MAXTOP=7, VERIF_MAXFAULTS=4, VERIF_MAXSETTLE=3, VERIF_MINOPS=5, VERIF_TOL=3)),
        # the same with a full 256 KiB chunk as c2 (framing, validation and store of a real-size delivery)
        dict(sim, name="walks-big", num=20, max=40, salt=3,
             env=dict(rich, VERIF_MAXTOP=4, VERIF_MAXFAULTS=3, VERIF_MAXSETTLE=1, VERIF_MINOPS=3, VERIF_BIG=1)),
    ]
    return dict(quick=quick, thorough=thorough)


def _first(evs, pred):
    for i, e in enumerate(evs):
        if e.get("op") != "reset" and pred(e):
            return i
    return None


def _cor_c06(evs):
    """binding self-test (P1): the only valid delivery behind a stored chunk is recorded as invalid"""
    for j, f in enumerate(evs):
        if f.get("op") != "put":
            continue
        k = j
        while k > 0 and evs[k].get("op") not in ("get", "reset"):
            k -= 1
        ds = [e for e in evs[k:j] if e.get("op") == "dlv" and e.get("p") == f["n"] and e.get("c") == f["c"]
              and e.get("cls") == "valid" and not e.get("lost") and not e.get("werr")]
        if len(ds) == 1:
            ds[0]["cls"] = "invalid"
            return j
    return None


def _cor_c32(evs):
    """binding self-test (P2-P4): a successful Reserve is recorded as refused -> the request that followed had no reserve"""
    for i, e in enumerate(evs):
        if e.get("op") == "reserve" and e.get("ok"):
            for j in range(i + 1, len(evs)):
                f = evs[j]
                if f.get("op") == "reset":
                    break
                if f.get("op") == "open" and f.get("n") == e["n"] and f.get("p") == e["p"]:
                    e["ok"] = False
                    e["low"] = True
                    return i
    return None


def _nontrivial(s):
    gets = [o for o in s["ops"] if o["op"] == "get" and o.get("routes")]
    return len(gets) >= 1 and (len(s["ops"]) >= 2 or any(f != "none" for o in gets for f in o.get("faults", [])))


_DESIGN = [
    # sequential calls (the shape of the conformance scenarios): every interleaving of requester / relay / holder steps
    dict(spec="MCRetrieval.tla", cfg="MCRetrievalQ.cfg", cfg_thorough="MCRetrieval.cfg", workers=6, timeout=2400, coverage=False),
    # overlapping calls of A and of the relay itself on the same chunk
    dict(spec="MCRetrieval.tla", cfg="MCRetrievalConc.cfg", workers=6, timeout=2400, thorough_only=True, coverage=False),
    # the 10 s retry ticker: abandoned attempts run on, late results
    dict(spec="MCRetrieval.tla", cfg="MCRetrievalTick.cfg", workers=6, timeout=2400, thorough_only=True, coverage=False),
    # P6, liveness part
    dict(spec="MCRetrieval.tla", cfg="MCRetrievalLive.cfg", workers=4, timeout=2400, thorough_only=True, coverage=False),
]


def _pipe(cor, design):
    return dict(
        modules=["retrievalproto"], driver="retrdrv",
        judge=dict(spec="RetrievalTrace.tla", cfg="RetrievalTrace.cfg"),
        design=design, gen=_gens(), corrupt=cor, nontrivial=_nontrivial,
        # keys of the host check that must not leak into this pipeline
        race=False, post_gen=None, driver_env=None, driver_args=(), driver_timeout=1800, judge_timeout=1800,
        selftest_scenarios=80, confirm_window=0,
    )


ALSO = {
    # P1 (+ P5 as far as it is "the relay stores only what a valid delivery brought")
    "C06": [_pipe(_cor_c06, _DESIGN[:1])],
    # P2, P3, P4 (+ P5 hop accounting, tolerance / threshold / books); the larger design configurations run here
    "C32": [_pipe(_cor_c32, _DESIGN)],
}
