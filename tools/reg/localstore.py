"""Local-store family: C12, C13, C15, C16, C17 (spec/localstore Node*.tla, harness/cmd/lsdrv)."""

CHECKS = {}


def _gens(quick_num, thorough_num):
    def g(tier):
        q = tier == "quick"
        n = quick_num if q else thorough_num
        depth = 6 if q else 9
        out = []
        for i, x in enumerate("ABCDE"):
            out.append(dict(mode="sim", spec="NodeGen.tla", cfg="NodeGenSim%s.cfg" % x, depth=depth, num=n,
                            max=(12 if q else 120), salt=i, name="walks" + x, timeout=900))
        # edge cover of the focused models (deletion histories / pin histories) with the past abstracted in the VIEW
        for x, mode, d, mq in (("E", "del", 7, 55), ("B", "del", 7, 55), ("A", "pin", 5, 30), ("E", "pin", 5, 30)):
            out.append(dict(mode="edges", spec="NodeGen.tla", cfg="NodeGenFocus%s.cfg" % x, depth=d, max=(mq if q else 300),
                            name="%s-edges%s" % (mode, x), env={"VERIF_NODEMODE": mode}, timeout=1500))
        # complete (not sampled) edge cover of pin/unpin histories over two files sharing a chunk, one repeating it
        out.append(dict(mode="edges", spec="NodeGen.tla", cfg="NodeGenFocusF.cfg", depth=5, max=(400 if q else 1000),
                        name="pin2-edgesF (complete)", env={"VERIF_NODEMODE": "pin2"}, timeout=900))
        # partial holders: the source lacks a data chunk during a download (pyramid intact); then reads, single-chunk reads, retries
        out.append(dict(mode="edges", spec="NodeGen.tla", cfg="NodeGenFocusD.cfg", depth=(3 if q else 4), max=(60 if q else 300),
                        name="part-edgesD", env={"VERIF_NODEMODE": "part"}, timeout=900))
        # directories (several member files under one manifest root, uploaded as a tar), complete edge covers of small universes:
        # - one uploaded root and cached roots sharing a one-chunk member file, repeated evictions (reference-count releases)
        # - roots held partially: one member downloaded / read, single chunks read under the root's context, delete, restart
        #   (availability bits are numbered over the data chunks of the whole root)
        out.append(dict(mode="edges", spec="NodeGen.tla", cfg="NodeGenFocus%s.cfg" % ("G" if q else "H"), depth=(5 if q else 6),
                        max=(40 if q else 400), name="dirgc1-edges (complete in quick)", env={"VERIF_NODEMODE": "dirgc1"}, timeout=900))
        out.append(dict(mode="edges", spec="NodeGen.tla", cfg="NodeGenFocusG.cfg", depth=(2 if q else 3), max=(45 if q else 250),
                        name="dirpart-edgesG (complete in quick)", env={"VERIF_NODEMODE": "dirpart"}, timeout=900))
        # a collection racing with the complete download of another file (its puts commit inside the run)
        out.append(dict(mode="edges", spec="NodeGen.tla", cfg="NodeGenFocusA.cfg", depth=(2 if q else 3), max=(20 if q else 60),
                        name="racedl1-edgesA (complete in quick)", env={"VERIF_NODEMODE": "racedl1"}, timeout=900))
        # a root that is cached (also only in part) and uploaded, in every order, with collections (one file; two in thorough)
        out.append(dict(mode="edges", spec="NodeGen.tla", cfg="NodeGenFocus%s.cfg" % ("J" if q else "D"), depth=4, max=(25 if q else 200),
                        name="partup-edges (complete in quick)", env={"VERIF_NODEMODE": "partup"}, timeout=900))
        if not q:
            out.append(dict(mode="edges", spec="NodeGen.tla", cfg="NodeGenFocusH.cfg", depth=5, max=300,
                            name="dirgc-edgesH", env={"VERIF_NODEMODE": "dirgc"}, timeout=1500))
            out.append(dict(mode="edges", spec="NodeGen.tla", cfg="NodeGenFocusA.cfg", depth=3, max=120,
                            name="racedl-edgesA", env={"VERIF_NODEMODE": "racedl"}, timeout=1500))
            # random walks over a directory, the single-file manifest of its first member and a file sharing its tail chunk
            out.append(dict(mode="sim", spec="NodeGen.tla", cfg="NodeGenSimI.cfg", depth=depth, num=n, max=120, salt=7,
                            name="walksI", timeout=900))
        return out
    return dict(quick=g("quick"), thorough=g("thorough"))


def _first(evs, pred):
    for i, e in enumerate(evs):
        if e.get("op") != "reset" and pred(e):
            return i
    return None


def _cor_c12(evs):
    i = _first(evs, lambda e: e["op"] == "gc")
    if i is None:
        return None
    evs[i]["st"]["pin"].append(["zz-corrupt", 3])
    return i


def _cor_c13(evs):
    i = _first(evs, lambda e: True)
    if i is None:
        return None
    evs[i]["st"]["gcsize"] += 1
    return i


def _cor_c15(evs):
    # (not after a DELETE in the same scenario: a DELETE of a pinned reference takes the file out of C15's clauses)
    i, deleted = None, False
    for j, e in enumerate(evs):
        if e.get("op") == "reset":
            deleted = False
        elif e["op"] == "delete":
            deleted = True
        elif not deleted and e["op"] in ("download", "read", "gc", "restart", "touch"):
            i = j
            break
    if i is None:
        return None
    f = sorted(evs[i]["st"]["files"])[0]
    evs[i]["st"]["files"][f]["rootpin"] = not evs[i]["st"]["files"][f]["rootpin"]
    return i


def _cor_c16(evs):
    # a delete that "breaks" another registered, readable file
    for i, e in enumerate(evs):
        if e.get("op") == "delete" and e.get("code") == 200 and i > 0:
            pst = evs[i - 1]["st"]["files"]
            for g, r in e["st"]["files"].items():
                if g != e["f"] and pst[g]["listed"] and pst[g]["readable"] and r["readable"]:
                    r["readable"] = False
                    return i
    for i, e in enumerate(evs):
        if e.get("op") == "gc" and i > 0:
            pst = evs[i - 1]["st"]["files"]
            for g, r in e["st"]["files"].items():
                if pst[g]["listed"] and pst[g]["readable"] and r["listed"] and r["readable"]:
                    r["readable"] = False
                    return i
    return None


def _cor_c17(evs):
    for i, e in enumerate(evs):
        if e.get("op") == "reset":
            continue
        for f, r in e["st"]["files"].items():
            if r["bits"] and r["bits"][0] == 1 and r["listed"]:
                # claim a stored chunk that is not stored: drop the first data chunk of f from the dump
                return_i = i
                defs = None
                for j in range(i, -1, -1):
                    if evs[j].get("op") == "reset":
                        defs = evs[j]["defs"]
                        break
                c = defs[f]["data"][0]
                if c in e["st"]["data"]:
                    e["st"]["data"] = [x for x in e["st"]["data"] if x != c]
                    return return_i
    return None


_COMMON = dict(
    modules=["localstore"], level="model_checking", driver="lsdrv",
    judge=dict(spec="NodeTrace.tla", cfg="NodeTrace.cfg"),
    design=[dict(spec="MCNodeQ.tla", cfg="MCNodeR.cfg", workers=8, timeout=900, coverage=False),
            dict(spec="MCNodeQ.tla", cfg="MCNodeQ.cfg", workers=8, timeout=1500, thorough_only=True, coverage=False),
            dict(spec="MCNodeQ.tla", cfg="MCNodeD.cfg", workers=8, timeout=1500, thorough_only=True, coverage=False),
            dict(spec="MCNode.tla", cfg="MCNode.cfg", workers=12, timeout=3000, thorough_only=True, coverage=False)],
    gen=_gens(6, 50),
    driver_timeout=5400,
    exhaustive=dict(quick=False, thorough=False),
    technique="TLA+ node-storage model (Node.tla) model-checked by TLC; TLC random walks over the model generate API-level "
              "histories; executed on a real two-node in-process wiring (localstore+chunkinfo+pinning+netstore+retrieval+api); "
              "index/record dumps judged by the TLA+ trace spec NodeTrace.tla",
    level_note="trusted: TLC; the driver's dump (verif hook VerifDump, public chunk-info getters, state-store iteration) and its "
               "naming of chunk addresses; the per-file chunk sets are recorded from an upload into an empty store; peer node, "
               "route table, accounting, chain oracle are the repository's mocks / a second real node; bounded catalogue of 7 files "
               "and 3 two-member directories over 4 data blocks; in a collection raced by a download the store's own worker "
               "goroutine (woken by the racing puts) is parked by the driver: the run under test is the synchronous one",
    assumptions=["files are uploaded through POST /aurora as single-file manifests, or as directories of two member files (tar, "
                 "Aurora-Collection) read one member at a time; 256 KiB blocks X,Y,Z and a 1000-byte tail",
                 "origin of a chunk = mode of the put that stored it (a later upload of an already cached chunk does not change it)",
                 "collection is run synchronously through the verif hook with the scenario's capacity; the background worker sleeps",
                 "one driver goroutine per scenario; asynchronous access updates are awaited before each dump"],
)


def _entry(pid, text, rule, nontrivial, corrupt, design_ref):
    d = dict(_COMMON)
    d.update(level_text=text, rule=rule, nontrivial=nontrivial, corrupt=corrupt, design_ref=design_ref)
    CHECKS[pid] = d


def _cor_ls13(evs):
    for i, e in enumerate(evs):
        if e.get("op") not in ("reset", "crash") and i > 0 and evs[i - 1].get("op") != "crash":
            e["st"]["gcsize"] += 1
            return i
    return None


def _cor_ls12(evs):
    for i, e in enumerate(evs):
        if e.get("op") == "gc":
            e["st"]["pin"].append(["B", 7])
            return i
    return None


def _lscore_also(cor, qn=40, tn=300):
    """second pipeline: the same property judged on histories of the store's own API (multi-address Set calls, pinning
    puts under a file context, collection runs with a chunk-info stub), which the node-level driver cannot produce"""
    return [dict(modules=["lscore"], driver="lscoredrv", judge=dict(spec="LSCoreTrace.tla", cfg="LSCoreTrace.cfg"), design=[],
                 gen=dict(quick=[dict(mode="sim", spec="LSCoreGen.tla", cfg="LSCoreGenSim.cfg", depth=8, num=qn, max=250, name="store-api walks",
                                      env={"VERIF_LSMODE": "c14"}),
                                 dict(mode="edges", spec="LSCoreGen.tla", cfg="LSCoreGenFocus.cfg", depth=6, max=500, name="one-context edges",
                                      env={"VERIF_LSMODE": "c14f"})],
                          thorough=[dict(mode="sim", spec="LSCoreGen.tla", cfg="LSCoreGenSim.cfg", depth=10, num=tn, max=3000, name="store-api walks",
                                         env={"VERIF_LSMODE": "c14"}),
                                    dict(mode="edges", spec="LSCoreGen.tla", cfg="LSCoreGenFocus.cfg", depth=7, max=6000, name="one-context edges",
                                         env={"VERIF_LSMODE": "c14f"}, timeout=1800)]),
                 corrupt=cor, selftest_scenarios=100000,
                 nontrivial=lambda s: sum(1 for o in s["ops"] if o["op"] in ("put", "set", "gc")) >= 2)]


def _ops(s):
    return [o["op"] for o in s["ops"]]


_RULE = ("TLC -simulate walks over Node.tla (4 file sets with overlap shapes: prefix extension, identical content under two names, "
         "repeated chunk, single-chunk file inside another, chunk-aligned prefix + tail) x operations upload[pin]/download[range]/"
         "read/touch/pin/unpin (API and service)/delete/gc(cap)[raced by read/touch/download of another file]/restart, plus edge "
         "covers of focused sub-models (deletion, pin, partial-holder, directory eviction, directory member, racing-download "
         "histories); distinct = distinct (file set, operation sequence); ")

_entry("C12", "the design model satisfies 'a collection deletes no pinned/uploaded chunk and changes no pin counter' on every behaviour of the "
       "bounded configuration; the real node's dumps before/after every synchronous collection are judged against the same statement",
       _RULE + "non-trivial = a gc after at least one download and one upload or pin",
       lambda s: "gc" in _ops(s) and "download" in _ops(s) and any(o in _ops(s) for o in ("upload", "pin", "pinsvc")),
       _cor_c12, "5 (C12)")
CHECKS["C12"]["also"] = _lscore_also(_cor_ls12)
_entry("C13", "TLC checks counter = recorded total and post-collection bound in the design; every dump of the real store (after each operation, "
       "after restart, after quiesced collection) is judged against the same equalities",
       _RULE + "non-trivial = contains a download and a pin/unpin/delete/gc/restart",
       lambda s: "download" in _ops(s) and any(o in _ops(s) for o in ("pin", "unpin", "pinsvc", "unpinsvc", "delete", "gc", "restart")),
       _cor_c13, "5 (C13)")
CHECKS["C13"]["also"] = _lscore_also(_cor_ls13)
_entry("C15", "TLC checks pin counters = sum of the pins of pinned files in the design (so pin;unpin is the identity, repeats are no-ops); "
       "real pin-index dumps around every pin/unpin (API handlers and pinning.Service) are judged for marking, idempotence and inversion",
       _RULE + "non-trivial = contains a pin-type and an unpin-type operation or a repeated pin",
       lambda s: sum(1 for o in _ops(s) if o in ("pin", "pinsvc", "unpin", "unpinsvc")) >= 2,
       _cor_c15, "5 (C15)")
_entry("C16", "TLC checks in the design that files that stay registered stay complete and that a delete leaves no unpinned exclusive chunk; the real "
       "node's readability of every other file and its chunk set are judged after every DELETE and every eviction",
       _RULE + "non-trivial = a delete or gc with at least two files present",
       lambda s: any(o in _ops(s) for o in ("delete", "gc")) and len(set(o.get("f") for o in s["ops"] if o["op"] in ("upload", "download"))) >= 2,
       _cor_c16, "5 (C16)")
_entry("C17", "TLC checks 'availability bits are a subset of the stored chunks, none for unknown files' in the design; the real node's own "
       "bit vector, completeness claim, discovery/source tables and persisted keys are judged after every operation",
       _RULE + "non-trivial = contains a download/touch/read and a delete, gc or restart",
       lambda s: any(o in _ops(s) for o in ("download", "touch", "read")) and any(o in _ops(s) for o in ("delete", "gc", "restart")),
       _cor_c17, "5 (C17)")
