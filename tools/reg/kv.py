"""C18 — state stores (spec/kv, harness/cmd/kvdrv)."""
from regkit import corrupt_field

CHECKS = {}

# ------------------------------------------------------------------------------------ C18
CHECKS["C18"] = dict(
    modules=["kv"], level="model_checking", driver="kvdrv",
    design_ref="5 (C18)",
    technique="TLA+ map model checked by TLC; TLC-generated histories replayed on both state stores; recorded trace judged by the TLA+ trace spec",
    level_text="TLC exhausts the KV model (5 keys, 2 values) and generates one history per (state, operation) edge plus random walks; "
               "each is run on leveldb (disk, memory) and mock stores and every recorded result is judged by KVTrace.tla",
    level_note="trusted: TLC, the driver's projection (Get of each universe key), JSON/binary value codecs of the driver; bounded key universe",
    design=[dict(spec="MCKV.tla", cfg="MCKV.cfg", workers=4, timeout=1500)],
    gen=dict(
        quick=[dict(mode="edges", spec="KVGen.tla", cfg="KVGenEdges.cfg", depth=12, max=1200, name="edges"),
               dict(mode="sim", spec="KVGen.tla", cfg="KVGenSim.cfg", depth=14, num=30, max=300, name="walks")],
        thorough=[dict(mode="edges", spec="KVGen.tla", cfg="KVGenEdges.cfg", depth=12, max=7000, name="edges"),
                  dict(mode="sim", spec="KVGen.tla", cfg="KVGenSim.cfg", depth=25, num=400, max=3000, name="walks")]),
    judge=dict(spec="KVTrace.tla", cfg="KVTrace.cfg"), driver_timeout=3600,
    corrupt=corrupt_field("get", "v", lambda e: e["v"] + 1),
    nontrivial=lambda s: any(o["op"] in ("put", "del") for o in s["ops"]) and any(o["op"] in ("get", "iter", "reopen") for o in s["ops"]),
    rule="TLC-generated histories over 5 prefix-sharing keys x 2 values/encodings (edges mode: one shortest history per "
         "(model state, operation) pair of the complete KV state graph; walks: -simulate), each run on leveldb-disk, "
         "leveldb-mem and mock; distinct = distinct operation sequence; non-trivial = contains a write and a later observation",
    exhaustive=dict(quick=False, thorough=False),
    assumptions=["values are small integers (JSON path) or a 5-byte BinaryMarshaler type",
                 "the stores' own schema keys are skipped (not counted) by the iteration callback",
                 "mutating the store from inside the callback is outside the statement and not generated"],
)
