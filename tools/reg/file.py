"""C01, C02, C07 — file pipeline and joiner (spec/filetree, harness/cmd/filedrv)."""
import json
import random

from regkit import corrupt_field

CHECKS = {}

MOD = ["filetree"]
DESIGN = [dict(spec="MCFileTree.tla", cfg="MCFileTree.cfg", cfg_thorough="MCFileTree_thorough.cfg", workers=8, timeout=1500)]
JUDGE = dict(spec="FileTreeTrace.tla", cfg="FileTreeTrace.cfg")
BIG = 64 << 20


def _size(par):
    return par["s"][0] * 262144 + par["s"][1]


def merge(reads_per_file, reads_per_enc_file=None, per_scenario=40):
    """post_gen: TLC emits one history per (file, split) upload, per (file, offset, len/cap) ReadAt and per edge of the
    reader's state graph; all of them start with `upload` or `open` (= open the most recent upload).  Histories of the
    same file are only CONCATENATED here (uploads first, so that all references of one content meet in one scenario;
    read histories dealt out over the uploads), because an upload costs seconds and a read microseconds.  The read
    histories of a file are sub-sampled (seeded) to `reads_per_file` in the quick tier."""
    def post(scs, seed, tier):
        rnd = random.Random(seed * 131 + 17)
        out, other, groups = [], [], {}
        for s in scs:
            if s["par"].get("kind") != "file":
                other.append(s)
                continue
            g = groups.setdefault(json.dumps(s["par"], sort_keys=True), dict(par=s["par"], ups=[], reads=[]))
            (g["ups"] if s["ops"][0]["op"] == "upload" else g["reads"]).append(s["ops"])
        for key in sorted(groups):
            g = groups[key]
            ups, reads = g["ups"], g["reads"]
            if not ups:
                raise RuntimeError("no upload history generated for file %s" % key)
            ups.sort(key=lambda o: json.dumps(o[0]["split"], sort_keys=True))
            reads.sort(key=lambda o: json.dumps(o, sort_keys=True))
            rnd.shuffle(reads)
            # an encrypted read decrypts a 256 KiB root chunk per open and every chunk it touches (milliseconds each)
            cap = reads_per_enc_file if (g["par"].get("enc") and reads_per_enc_file is not None) else reads_per_file
            if cap and len(reads) > cap:
                reads = reads[:cap]
            reads = _share_opens(reads)
            big = _size(g["par"]) > BIG
            first = []
            share = min(per_scenario, -(-len(reads) // len(ups))) if reads else 0
            if big:
                share = len(reads)      # large files: never upload twice for the sake of shorter scenarios
            for u in ups:
                first.extend(u)
                for r in reads[:share]:
                    first.extend(r)
                reads = reads[share:]
            out.append(dict(par=g["par"], ops=first, src="merged"))
            k = 0
            while reads:
                ops = list(ups[k % len(ups)])
                for r in reads[:per_scenario]:
                    ops.extend(r)
                reads = reads[per_scenario:]
                out.append(dict(par=g["par"], ops=ops, src="merged"))
                k += 1
        return out + other
    return post


def _share_opens(reads, group=12):
    """histories that are a single ReadAt on a fresh joiner: ReadAt neither uses nor moves the position, `group` of them
    share one open (opening an encrypted file decrypts its 256 KiB root chunk)"""
    single = [r for r in reads if len(r) == 2 and r[0]["op"] == "open" and r[1]["op"] == "readat"]
    rest = [r for r in reads if not (len(r) == 2 and r[0]["op"] == "open" and r[1]["op"] == "readat")]
    out = []
    for i in range(0, len(single), group):
        out.append([single[i][0]] + [r[1] for r in single[i:i + group]])
    # keep the two kinds interleaved
    res = []
    while out or rest:
        if out:
            res.append(out.pop(0))
        for _ in range(3):
            if rest:
                res.append(rest.pop(0))
    return res


def gen(gens, sizes, **env):
    e = dict(FT_GENS=gens, FT_SIZES=sizes)
    e.update(env)
    depth = e.pop("depth", 3)
    name = e.pop("name", gens + ":" + sizes)
    return dict(mode="edges", spec="FileTreeGen.tla", cfg="FileTreeGenEdges.cfg", depth=depth, env=e, name=name, timeout=1200)


def walks(sizes, num, depth, mx, **env):
    e = dict(FT_SIZES=sizes)
    e.update(env)
    return dict(mode="sim", spec="FileTreeGen.tla", cfg="FileTreeGenSim.cfg", depth=depth, num=num, max=mx, env=e,
                name="walks:" + sizes, dedup=True, timeout=600)


def has(s, *ops):
    return any(o["op"] in ops for o in s["ops"])


COMMON_ASSUME = [
    "contents are seeded pseudo-random bytes (splitmix64 of the word index); equal-looking chunks do not occur",
    "the chunk store copies chunk data on Put (as shed/localstore and the repository's storage mock do): the chunk feeder "
    "reuses its buffer across the chunks of one Write call",
    "keccak256 collision freeness (references are compared as strings)",
    "ReadAt offsets are non-negative",
]

# ------------------------------------------------------------------------------------ C01
CHECKS["C01"] = dict(
    modules=MOD, level="model_checking", driver="filedrv", design_ref="5 (C01)",
    technique="TLA+ model of the writer algorithm (chunk feeder, hash-trie cursors) checked by TLC against the declarative tree "
              "format and the joiner's span arithmetic; TLC-generated uploads/reads run on the real pipeline and joiner; trace judged by TLC",
    level_text="TLC proves writer algorithm == format == what the joiner walk reads back for branching 2..5 (every chunk count up to 8 levels "
               "for B=2, B^4+1 and more for the others, every write segmentation); TLC generates size class x write split x encrypt x "
               "read/seek histories, the driver uploads real bytes through builder.NewPipelineBuilder, reads them back through joiner.New, "
               "and FileTreeTrace.tla judges every returned count, flag, position and byte-identity boolean; scaled-down writer (branching 2..5, "
               "128-byte chunks) assembled from the exported constructors up to 8 levels",
    level_note="trusted: TLC, byte-identity booleans computed by the driver against bytes it supplied, the independent keccak/BMT evaluator "
               "(treeStored); real constants reach 2 levels in quick, 3 levels (one 2 GiB+1 plain file in RAM) in thorough; deeper trees only on the "
               "writer side with scaled parameters; encrypted 3-level file (1 GiB+1) is not run (time)",
    design=DESIGN,
    gen=dict(
        quick=[gen("up,readat,seq,scaled", "quick", FT_SPLITS="quick", FT_SCSPLITS="rot", FT_SCALED="small", FT_CAPS="0")],
        thorough=[gen("up,readat,seq,scaled", "thorough", FT_SPLITS="thorough", FT_SCSPLITS="all", FT_CAPS="0", depth=4),
                  gen("scaled", "quick", FT_SCALED="deep", FT_SCSPLITS="rot", name="scaled-deep"),
                  walks("thorough", 60, 10, 600, FT_CAPS="0"),
                  gen("up,readat,seq", "bigplain", FT_SPLITS="bigone", FT_CAPS="0", FT_BIGONE="1", name="big-plain")]),
    post_gen=None,   # set below (per tier sampling)
    judge=JUDGE,
    corrupt=corrupt_field("readall", "total", lambda e: [e["total"][0], e["total"][1] + 1]),
    nontrivial=lambda s: (has(s, "upload") and has(s, "read", "readat", "readall", "seek")) or has(s, "tree"),
    rule="one scenario = one content (size class, plain/encrypted) uploaded with each write-split class and read back with TLC-generated "
         "histories (ReadAt product of offset x length classes; one shortest history per (position class, operation) edge of the reader "
         "machine; random walks in thorough), or one scaled-down writer run (branching, chunk count, last length, split); distinct = distinct "
         "operation list; non-trivial = an upload followed by at least one read/seek, or a scaled tree",
    exhaustive=dict(quick=False, thorough=False),
    assumptions=COMMON_ASSUME + ["C01's read clauses look at buffers with cap = len (capacity is C07's subject)"],
    driver_timeout=5400, judge_timeout=3600, selftest_scenarios=6,
)

# ------------------------------------------------------------------------------------ C02
CHECKS["C02"] = dict(
    modules=MOD, level="model_checking", driver="filedrv", design_ref="5 (C02)",
    technique="declarative TLA+ definition of the Aurora tree (chunking, grouping by branching, span sums, lone-reference carry) shown equal to the "
              "writer algorithm by TLC; the TLC-emitted tree shape of every upload is hashed by an independent keccak/BMT evaluator and compared with "
              "the reference the real pipeline returned; uploads of one content with different write splits must agree",
    level_text="TLC: algorithm == format for branching 2..5 and every segmentation (state graph is a function of the byte count); conformance: "
               "reference == Eval(Tree(size)) and equal across write splits for every size class (2 levels quick, 3 levels with one 2 GiB+1 file in "
               "thorough) and for the scaled-down writer with branching 2..5 up to 8 levels",
    level_note="trusted: TLC, the ~100-line evaluator in harness/internal/filex (x/crypto legacy keccak, BMT as binary Merkle tree over the 8192 "
               "segments of the zero-padded payload), keccak collision freeness; the judge checks that the shape the evaluator walked is the "
               "format tree (post-order chunk records) before accepting the comparison",
    design=DESIGN,
    gen=dict(
        quick=[gen("up,scaled", "quick", FT_ENC="plain", FT_SPLITS="all", FT_SCSPLITS="rot", FT_UPTAIL="none")],
        thorough=[gen("up,scaled", "thorough", FT_ENC="plain", FT_SPLITS="all", FT_SCSPLITS="all", FT_UPTAIL="none"),
                  gen("scaled", "quick", FT_SCALED="deep", FT_SCSPLITS="rot", name="scaled-deep"),
                  gen("up", "bigplain", FT_ENC="plain", FT_SPLITS="bigone", FT_UPTAIL="none", FT_BIGONE="1", name="big-plain")]),
    post_gen=merge(0),
    judge=JUDGE,
    corrupt=corrupt_field("upload", "ref", lambda e: ("0" if e["ref"][0] != "0" else "1") + e["ref"][1:]),
    nontrivial=lambda s: has(s, "upload", "tree"),
    rule="one scenario = one unencrypted content uploaded once per write-split class (single write, CS-1 / CS+1 / 3CS+17 pieces, zero-length "
         "writes interleaved, two seeded random splits, FeedPipeline with two reader behaviours, byte-wise for tiny contents), or one scaled-down "
         "writer run; distinct = distinct (size, split list) / (branching, count, last length, split)",
    exhaustive=dict(quick=False, thorough=False),
    assumptions=COMMON_ASSUME[:3],
    driver_timeout=5400, judge_timeout=3600, selftest_scenarios=6,
)

# ------------------------------------------------------------------------------------ C07
CHECKS["C07"] = dict(
    modules=MOD, level="model_checking", driver="filedrv", design_ref="5 (C07)",
    technique="reader contract (ReadAt/Read/Seek/Size) as pure TLA+ operators over 64-bit quantities, checked against the joiner's walk on "
              "scaled trees by TLC; TLC generates file x offset x (len, cap) products and seek/read histories, the real joiner executes them on "
              "really uploaded files, FileTreeTrace.tla judges count, flags, sentinel tail, byte identity and position after every call",
    level_text="TLC design check (walk == contract on every scaled tree); conformance over 14 (quick) / 17 (thorough) size classes x plain/encrypted "
               "x 11 offset classes x 9 (len, cap) classes incl. cap > len, plus one shortest history per (position class, operation) edge of the "
               "reader machine (depth 3/4) and random walks; thorough adds one 2 GiB+1 file (3 levels)",
    level_note="trusted: TLC, the driver's sentinel/byte-identity booleans and its position projection (Seek(0, current) after every call); "
               "reading: a Seek that reports an error leaves the position where it was",
    design=DESIGN,
    gen=dict(
        quick=[gen("up,readat,seq", "quick", FT_SPLITS="one", FT_CAPS="1", FT_UPTAIL="none")],
        thorough=[gen("up,readat,seq", "thorough", FT_SPLITS="two", FT_CAPS="1", depth=4),
                  walks("thorough", 200, 12, 2500, FT_CAPS="1"),
                  gen("up,readat,seq", "bigplain", FT_SPLITS="bigone", FT_CAPS="1", FT_UPTAIL="none", FT_BIGONE="1", name="big-plain")]),
    post_gen=None,
    judge=JUDGE,
    corrupt=corrupt_field("readat", "n", lambda e: e["n"] + 1),
    nontrivial=lambda s: has(s, "upload") and has(s, "read", "readat", "seek", "readall"),
    rule="one scenario = one stored file and a concatenation of TLC-generated reader histories, each starting with a fresh joiner (open): "
         "single ReadAt for every (offset class, len/cap class), and one shortest history per edge of the reader machine; distinct = distinct "
         "operation list; non-trivial = at least one read/seek on an uploaded file",
    exhaustive=dict(quick=False, thorough=False),
    assumptions=COMMON_ASSUME,
    driver_timeout=5400, judge_timeout=3600, selftest_scenarios=4,
)


def _tiered(q, t):
    mq, mt = merge(q[0], q[1]), merge(t[0], t[1])
    return lambda scs, seed, tier: (mq if tier == "quick" else mt)(scs, seed, tier)


CHECKS["C01"]["post_gen"] = _tiered((45, 16), (300, 60))
CHECKS["C07"]["post_gen"] = _tiered((80, 24), (0, 150))
