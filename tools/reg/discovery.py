"""Growth module: chunk-info discovery and pyramid exchange between 2-3 nodes (spec/discovery, harness/cmd/discdrv).

No property of its own: the pipelines below are attached to C17 (the node's availability records under message
interleavings: D3, and what is left / re-created after DelFile: D4) and to C37 (no crash on malformed chunk-info
messages injected at any point of a discovery).  D1, D2, D5 and the crash by an interleaving of well-formed messages are
checked by TLC on Discovery.tla (design checks below) and reported as conformance notes on the recorded runs."""

_DESIGN = [
    # the mechanism with the proposed repairs satisfies D1-D5 on every behaviour of the bounded configuration
    dict(spec="MCDiscovery.tla", cfg="MCDiscovery.cfg", cfg_thorough="MCDiscovery_thorough.cfg", workers=6, timeout=3000, coverage=False),
    # the mechanism as the code has it: D2, D3, the Pulling bound, the exact shape of what a late response re-creates,
    # and "a crash only when a preempted response handler resumes after a deletion"
    dict(spec="MCDiscovery.tla", cfg="MCDiscoveryAsIs.cfg", cfg_thorough="MCDiscoveryAsIs_thorough.cfg", workers=6, timeout=3000, coverage=False),
    # the same with retrievals of data chunks interleaved (D3 beyond the pieces that travel in the pyramid)
    dict(spec="MCDiscovery.tla", cfg="MCDiscoveryRetr.cfg", workers=6, timeout=3000, coverage=False, thorough_only=True),
    dict(spec="MCDiscovery.tla", cfg="MCDiscoveryAsIsRetr.cfg", workers=6, timeout=3000, coverage=False, thorough_only=True),
    # D5 as a liveness property (every Init call returns) under fairness of ticker, timeout trigger and message handling
    dict(spec="MCDiscovery.tla", cfg="MCDiscoveryLive.cfg", workers=4, timeout=3000, coverage=False, thorough_only=True),
]


def _g(mode, kind, depth, name, **kw):
    d = dict(mode=kind, spec="DiscoveryGen.tla", cfg="DiscoveryGenEdges.cfg" if kind == "edges" else "DiscoveryGenSim.cfg",
             depth=depth, name=name, env={"VERIF_DISCMODE": mode}, timeout=1500)
    d.update(kw)
    return d


_GEN_C17 = dict(
    quick=[_g("core", "edges", 9, "core-edges", max=30),
           _g("del", "edges", 8, "deletion-edges", max=40),
           _g("late", "edges", 9, "late-response-edges", max=20),
           _g("timeout", "edges", 7, "timeout-edges", max=6),
           _g("forced", "edges", 9, "forced-schedules", max=6),
           _g("del", "sim", 11, "deletion-walks", num=12, max=16, salt=1)],
    thorough=[_g("core", "edges", 10, "core-edges", max=300),
              _g("del", "edges", 9, "deletion-edges", max=500),
              _g("late", "edges", 10, "late-response-edges", max=100),
              _g("timeout", "edges", 8, "timeout-edges", max=40),
              _g("forced", "edges", 10, "forced-schedules", max=40),
              _g("del", "sim", 14, "deletion-walks", num=120, max=250, salt=1),
              _g("all", "sim", 14, "mixed-walks", num=120, max=200, salt=2)])

_GEN_C37 = dict(
    # one history per (discovery state, shape of the injected message) edge, continued by well-formed steps
    quick=[_g("mal", "edges", 8, "malformed-edges", max=70)],
    thorough=[_g("mal", "edges", 10, "malformed-edges", max=800)])


def _ops(s):
    return [o["op"] for o in s["ops"]]


def _cor_c17(evs):
    """claim a chunk that is not stored: set a bit of B's own record whose chunk the dump says is absent"""
    for i, e in enumerate(evs):
        if e.get("op") in ("reset", "crash") or "st" not in e:
            continue
        b = e["st"]["B"]
        if b["own"]["has"] and b["own"]["len"] > 0:
            for j, st in enumerate(b["stored"]):
                if st == 0 and j < len(b["own"]["bits"]) and b["own"]["bits"][j] == 0:
                    b["own"]["bits"][j] = 1
                    return i
            # everything stored and claimed: drop a stored chunk from the dump instead
            for j, bit in enumerate(b["own"]["bits"]):
                if bit == 1 and b["stored"][j] == 1:
                    b["stored"][j] = 0
                    return i
    return None


def _cor_c37(evs):
    for i, e in enumerate(evs):
        if e.get("op") == "inject" and e.get("crash") == "":
            e["crash"] = "B"
            return i
    return None


_COMMON = dict(
    modules=["discovery"], driver="discdrv", judge=dict(spec="DiscoveryTrace.tla", cfg="DiscoveryTrace.cfg"),
    driver_timeout=2400, judge_timeout=2400, selftest_scenarios=150)

ALSO = {
    "C17": [dict(_COMMON, design=_DESIGN, gen=_GEN_C17, corrupt=_cor_c17,
                 nontrivial=lambda s: "init" in _ops(s) and any(o in _ops(s) for o in ("deliver", "dup")) and
                 any(o in _ops(s) for o in ("delfile", "deldisc", "drop", "dup", "timeout", "park", "cancel")))],
    "C37": [dict(_COMMON, design=[], gen=_GEN_C37, corrupt=_cor_c37,
                 nontrivial=lambda s: "inject" in _ops(s) and "init" in _ops(s))],
}
