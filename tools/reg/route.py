"""C27, C28 (spec/routetab, harness/cmd/routedrv) and C38 (spec/multicast, harness/cmd/mcastdrv)."""
from regkit import corrupt_field

CHECKS = {}


# ------------------------------------------------------------------------------------ C27
def _c27_post(scs, seed, tier):
    """the on-disk LevelDB store costs ~1-2 s per close/reopen in this sandbox: only the first scenarios that
    contain a reload are also run on it (all scenarios run on the mock and the in-memory LevelDB store)"""
    budget = 10 if tier == "quick" else 60
    for s in scs:
        s.setdefault("par", {})
        nre = sum(1 for o in s["ops"] if o["op"] == "reload")
        if 0 < nre <= 2 and budget > 0 and len(s["ops"]) <= 14:
            s["par"]["disk"] = True
            budget -= 1
        else:
            s["par"]["disk"] = False
    return scs


CHECKS["C27"] = dict(
    modules=["routetab"], level="model_checking", driver="routedrv",
    design_ref="5 (C27)",
    technique="TLA+ model of the route table (paths, per-target route lists, persisted copies, coarse time) checked by TLC; "
              "TLC-generated histories of SavePath/Delete/Gc/reload replayed on the real Table over three state stores; "
              "recorded observations (Get, GetNextHop, dump) judged by the TLA+ trace spec",
    level_text="TLC exhausts RouteTable.tla (3 nodes, 4-6 paths incl. duplicates and loops, Alpha 1 and 2, 3 time classes) for the "
               "invariants BoundedRoutes/GetSound/NextHopSound/RoutesConsistent and generates one history per (state, operation) "
               "edge plus random walks over all paths of length 2..3 on 4 nodes; each history runs on the real routetab.Table "
               "(mock, in-memory LevelDB, on-disk LevelDB with close/reopen) and every observation is judged by RouteTableTrace.tla",
    level_note="trusted: TLC, the driver's projection (Get/GetNextHop for every target with no and every single skip, verif dump of "
               "route lists and stored paths); Gc ages are real sleeps (30 ms ticks) judged with interval reasoning on recorded "
               "timestamps, a path whose age straddles the expiry may or may not be returned; path signatures are not verified by "
               "the code (verifyPath is a stub) and are left empty",
    design=[dict(spec="MCRouteTable.tla", cfg="MCRouteTable.cfg", workers=8, timeout=600),
            dict(spec="MCRouteTable.tla", cfg="MCRouteTable_a1.cfg", workers=8, timeout=900, thorough_only=True),
            dict(spec="MCRouteTable.tla", cfg="MCRouteTable_a2big.cfg", workers=8, timeout=900, thorough_only=True)],
    gen=dict(
        quick=[dict(mode="edges", spec="RouteTableGen.tla", cfg="RouteTableGenEdges.cfg", depth=3, max=90, name="edges"),
               dict(mode="sim", spec="RouteTableGen.tla", cfg="RouteTableGenSim.cfg", depth=12, num=8, max=40, name="walks")],
        thorough=[dict(mode="edges", spec="RouteTableGen.tla", cfg="RouteTableGenEdges.cfg", depth=4, max=700, name="edges", timeout=1200),
                  dict(mode="sim", spec="RouteTableGen.tla", cfg="RouteTableGenSim.cfg", depth=25, num=40, max=300, name="walks")]),
    post_gen=_c27_post,
    judge=dict(spec="RouteTableTrace.tla", cfg="RouteTableTrace.cfg"),
    corrupt=corrupt_field("save", "stored", lambda e: [] if e.get("stored") else None),
    nontrivial=lambda s: any(o["op"] == "save" for o in s["ops"]) and any(o["op"] in ("del", "gc", "reload") for o in s["ops"]),
    rule="TLC-generated histories of save/del/gc/tick/reload (edges: one shortest history per (source table state, operation) pair over 7 "
         "paths on 4 nodes; walks: -simulate over 86 paths), Alpha 1 and 2, each run on the mock and in-memory LevelDB stores "
         "(a bounded number also on on-disk LevelDB with close/reopen); distinct = distinct (alpha, operation sequence); "
         "non-trivial = saves a path and later deletes, collects or reloads",
    exhaustive=dict(quick=False, thorough=False),
    assumptions=["the configured Alpha does not change between a save and a reload",
                 "saved paths are no longer than MaxTTL (the request/response handlers discard longer ones; see C28)",
                 "the state store is durable across close/reopen (C18)"],
    driver_timeout=1500,
)


# ------------------------------------------------------------------------------------ C28
def _c28_corrupt(evs):
    """binding self-test: put the holder itself into a recorded path of a deliver event"""
    for i, e in enumerate(evs):
        if e.get("op") == "deliver" and e.get("node") and e.get("tab"):
            e["tab"][0] = list(e["tab"][0]) + [e["node"]]
            return i
    return None


_GEN = "RouteDiscoveryGen.tla"
CHECKS["C28"] = dict(
    modules=["routetab"], level="model_checking", driver="routedrv",
    design_ref="5 (C28)",
    technique="multi-node message-passing TLA+ model (per-node table + pending table + address book, bag of req/resp/relay messages, "
              "Find/OnReq/OnResp/OnRelay/Lose/PendingExpire/FindCancel) checked by TLC for the path clauses, a bound on messages and "
              "quiescence under fairness; TLC behaviours forced on real routetab.Service instances joined by a queueing streamer; "
              "the recorded trace judged by the TLA+ trace spec",
    level_text="TLC exhausts RouteDiscovery.tla on the six connected 4-node graphs (thorough: also every labelled connected 4-node "
               "graph with alpha 1 / TTL 4, two concurrent searches, and 5-node graphs) over all interleavings, losses, pending "
               "expiries and neighbour choices: invariants RecordedPathsOK, InFlightPathsOK, RelaySkipOK, BoundedMessages and the "
               "liveness property Quiescence (<>[] net = {}) under weak fairness of delivery. TLC-generated behaviours (every "
               "(state, step) edge of small configurations, random walks of larger ones) are forced on 4-5 real routetab.Service "
               "instances with real kademlia in one process (plus goal-directed behaviours, found breadth first by TLC on 4-node graphs with a "
               "triangle and on 6-7-node graphs with two cycles sharing a link, in which a response returns to a node on its own path while a node "
               "off that path still waits there: crossing searches for one target, and table answers of a node that has heard of the target's "
               "underlay): FindRoute calls, delivery order, losses, expiries and the alpha "
               "neighbours picked are dictated by the scenario; every node's recorded paths, returned routes, sent messages and "
               "the final drain are judged by RouteDiscoveryTrace.tla",
    level_note="trusted: TLC; the harness streamer (queues every written message, plays no node), forcing of the neighbour choice "
               "through peer reachability, a per-node instance of the package-global find-route cache (hook) so that several nodes "
               "can share a process; underlay signatures are real. A relay that finds no stored hop off its path searches (FindRoute) and resumes "
               "with the discovered hops, still skipping its path; neighbour links go down / come up between discovery and relay "
               "(only while nothing is in flight). Not modelled: partial pending expiry, onRelay (needs the libp2p service), light "
               "nodes, link changes during a search",
    design=[dict(spec="MCRouteDiscovery.tla", cfg="MCRouteDiscovery.cfg", workers=8, timeout=900),
            dict(spec="MCRouteDiscovery.tla", cfg="MCRouteDiscovery_relayfind.cfg", workers=8, timeout=900),
            dict(spec="MCRouteDiscovery.tla", cfg="MCRouteDiscovery_links.cfg", workers=8, timeout=1200, thorough_only=True),
            dict(spec="MCRouteDiscovery.tla", cfg="MCRouteDiscovery_inject.cfg", workers=8, timeout=1200, thorough_only=True),
            dict(spec="MCRouteDiscovery.tla", cfg="MCRouteDiscovery_2finds.cfg", workers=8, timeout=1200, thorough_only=True),
            dict(spec="MCRouteDiscovery.tla", cfg="MCRouteDiscovery_all4.cfg", workers=8, timeout=1500, thorough_only=True),
            dict(spec="MCRouteDiscovery.tla", cfg="MCRouteDiscovery_n5.cfg", workers=8, timeout=1200, thorough_only=True),
            dict(spec="MCRouteDiscovery.tla", cfg="MCRouteDiscovery_heard.cfg", workers=8, timeout=1200, thorough_only=True)],
    gen=dict(
        quick=[dict(mode="edges", spec=_GEN, cfg="RouteDiscoveryGenRelay.cfg", depth=40, name="relay-search-after-link-change"),
               dict(mode="edges", spec=_GEN, cfg="RouteDiscoveryGenEdges.cfg", depth=30, max=60, name="edges-small4"),
               dict(mode="sim", spec=_GEN, cfg="RouteDiscoveryGenSim.cfg", depth=40, num=40, max=50, dedup=True, name="walks-iso4"),
               dict(mode="sim", spec=_GEN, cfg="RouteDiscoveryGenSimT2.cfg", depth=40, num=15, max=20, dedup=True, salt=4, name="walks-ttl2"),   # 5-node walks: thorough tier
               # goal-directed (breadth first): a response returns to a node on its own path while somebody off the path still waits there
               dict(mode="edges", spec=_GEN, cfg="RouteDiscoveryGenMerge4.cfg", depth=9, max=10, name="looped-answer-crossing-searches-4"),
               dict(mode="edges", spec=_GEN, cfg="RouteDiscoveryGenMerge7.cfg", depth=11, max=2, name="looped-table-answer-7")],
        thorough=[dict(mode="edges", spec=_GEN, cfg="RouteDiscoveryGenRelay.cfg", depth=40, name="relay-search-after-link-change"),
                  dict(mode="edges", spec=_GEN, cfg="RouteDiscoveryGenEdges.cfg", depth=30, name="edges-small4"),
                  dict(mode="edges", spec=_GEN, cfg="RouteDiscoveryGenEdgesA1.cfg", depth=30, max=500, name="edges-iso4-a1", timeout=1200),
                  dict(mode="sim", spec=_GEN, cfg="RouteDiscoveryGenSim.cfg", depth=40, num=300, max=350, dedup=True, name="walks-iso4"),
                  dict(mode="sim", spec=_GEN, cfg="RouteDiscoveryGenSimA1.cfg", depth=50, num=150, max=170, dedup=True, salt=2, name="walks-all4-a1"),
                  dict(mode="sim", spec=_GEN, cfg="RouteDiscoveryGenSimT2.cfg", depth=40, num=100, max=120, dedup=True, salt=4, name="walks-ttl2"),
                  dict(mode="sim", spec=_GEN, cfg="RouteDiscoveryGenSim5.cfg", depth=60, num=150, max=170, dedup=True, salt=3, name="walks-n5"),
                  dict(mode="edges", spec=_GEN, cfg="RouteDiscoveryGenMerge4.cfg", depth=11, max=120, workers=4, name="looped-answer-crossing-searches-4", timeout=1200),
                  dict(mode="edges", spec=_GEN, cfg="RouteDiscoveryGenMerge4All.cfg", depth=9, max=120, workers=8, name="looped-answer-iso4-anypair-loss", timeout=1200),
                  dict(mode="edges", spec=_GEN, cfg="RouteDiscoveryGenMerge6.cfg", depth=10, max=80, workers=8, name="looped-table-answer-6", timeout=1200),
                  dict(mode="edges", spec=_GEN, cfg="RouteDiscoveryGenMerge7.cfg", depth=13, max=40, workers=8, name="looped-table-answer-7", timeout=1200)]),
    judge=dict(spec="RouteDiscoveryTrace.tla", cfg="RouteDiscoveryTrace.cfg"),
    corrupt=_c28_corrupt,
    nontrivial=lambda s: any(o["op"] == "find" for o in s["ops"]) and sum(1 for o in s["ops"] if o["op"] == "deliver") >= 2,
    rule="TLC behaviours of RouteDiscovery.tla that end with an empty network: (graph, alpha, TTL) + the sequence of find / deliver / "
         "lose / expire / cancel / inject steps with the message delivered and the neighbours picked (goal-directed behaviours end with the "
         "delivery of the looped response, the driver delivers the rest oldest first); distinct = distinct "
         "(configuration, step sequence); non-trivial = at least one FindRoute and two deliveries",
    exhaustive=dict(quick=False, thorough=False),
    assumptions=["honest nodes: every message in flight was produced by a real routetab.Service (relayed streams enter with an honest one- or two-hop path)",
                 "the neighbour relation changes only while no message is in flight; recorded paths are judged against every link that existed during the scenario",
                 "kademlia's neighbourhood depth is 0 in these small networks (logged per scenario)",
                 "a node knows the underlay of its neighbours, of former neighbours, of targets whose answer passed through it, and of the nodes the scenario says it has heard of (par.heard: address book entry only)",
                 "the bound on messages is MsgBound = finds * sum_{k=1..TTL+1} alpha^k * (2+alpha) + injects * |nodes|"],
    driver_timeout=1500,
)


# ------------------------------------------------------------------------------------ C38
def _c38_post(scs, seed, tier):
    """flooding scenarios: some overlay links (seeded) lead to peers that are not direct neighbours, so the peer sits in
    the kept list and copies travel over a relayed stream; the flooding model does not distinguish the two lists"""
    import random
    rnd = random.Random(seed * 977 + 5)
    for s in scs:
        par = s.setdefault("par", {})
        if par.get("kind") == "flood":
            far = []
            for a, b in par.get("links", []):
                for x, y in ((a, b), (b, a)):
                    if rnd.random() < 0.2:
                        far.append([x, y])
            par["far"] = far
    return scs


def _c38_corrupt(evs):
    """binding self-test: a connected peer that is not a neighbour (membership) or a second notification (flooding)"""
    for i, e in enumerate(evs):
        if e.get("kind") == "member" and e.get("op") not in (None, "reset"):
            for g in e.get("groups", []):
                if g["ex"]:
                    g["conn"] = sorted(set(g["conn"]) | {97})
                    return i
        if e.get("kind") == "flood" and e.get("op") in ("deliver", "begin") and e.get("notified"):
            e["notified"] = e["notified"] + e["notified"]
            return i
    return None


_MG = "MulticastGen.tla"
CHECKS["C38"] = dict(
    modules=["multicast"], level="model_checking", driver="mcastdrv",
    design_ref="5 (C38)",
    technique="TLA+ model of group membership (add/remove/pruneKnown reached through notify, handshake, peer-state events) and of "
              "multi-node flooding with per-node de-duplication windows, checked by TLC; TLC-generated histories/behaviours replayed "
              "on real multicast.Service instances (harness streamer, kademlia mock, route-table fake); trace judged by the TLA+ trace spec",
    level_text="TLC exhausts Multicast.tla: membership over 2-3 peers x 1-2 groups (invariant MembershipOK: lists pairwise disjoint, "
               "connected subset of neighbours; prune bound) and flooding on the six connected 4-node overlays (thorough: every overlay on 3 "
               "nodes, any subset joined, two messages, window expiry, loss) for DeliveredAtMostOncePerWindow, ForwardedAtMostOncePerWindow, "
               "NotBackToSender, FloodBounded and the liveness property FloodQuiesces, also with every receive handler split into two steps "
               "(begin: claim + hand to the subscribers, finish: forward) so that handlers of several copies overlap at a node. TLC-generated membership histories run on one real "
               "Service (notify and handshake handlers, outgoing handshake, disconnect events, bare transitions, fills over the real "
               "threshold of 20); TLC-generated flooding behaviours are forced on 3-4 real Services in one process, each with its own "
               "instance of the package-global cache (two-step handlers: the streamer holds the handler up at its first outgoing stream until the "
               "scenario's finish step, other handlers of the same node run in between); every step is judged by MulticastTrace.tla",
    level_note="trusted: TLC; harness streamer / SubPub recorder / route-table fake (IsNeighbor) / wrapped kademlia mock; the verif "
               "accessor of the three lists; per-node cache instances selected through the hook (production: one process per node); "
               "window expiry is bound to clearing the node's cache (the one-minute constant is not waited for). Not modelled: "
               "forwarding through other groups when a node does not hold the group (getForwardNodes), discovery (findGroup), gcGroup",
    design=[dict(spec="MCMulticast.tla", cfg="MCMulticastMemberQ.cfg", workers=8, timeout=900),
            dict(spec="MCMulticast.tla", cfg="MCMulticastFlood.cfg", workers=8, timeout=900),
            dict(spec="MCMulticast.tla", cfg="MCMulticastFloodSplit.cfg", workers=8, timeout=900),
            dict(spec="MCMulticast.tla", cfg="MCMulticastFloodSplit4.cfg", workers=8, timeout=1200, thorough_only=True),
            dict(spec="MCMulticast.tla", cfg="MCMulticastMember.cfg", workers=8, timeout=1200, thorough_only=True),
            dict(spec="MCMulticast.tla", cfg="MCMulticastMember3.cfg", workers=8, timeout=1200, thorough_only=True),
            dict(spec="MCMulticast.tla", cfg="MCMulticastFlood3.cfg", workers=8, timeout=1200, thorough_only=True)],
    gen=dict(
        quick=[dict(mode="edges", spec=_MG, cfg="MulticastGenMemberEdges0.cfg", depth=8, name="member-edges-1peer-1group"),
               dict(mode="edges", spec=_MG, cfg="MulticastGenMemberEdges1.cfg", depth=4, max=150, name="member-edges-1group"),
               dict(mode="sim", spec=_MG, cfg="MulticastGenMemberSim.cfg", depth=12, num=8, max=60, name="member-walks"),
               dict(mode="sim", spec=_MG, cfg="MulticastGenFill.cfg", depth=8, num=4, max=25, salt=1, name="member-fill"),
               dict(mode="edges", spec=_MG, cfg="MulticastGenFloodEdges.cfg", depth=7, max=80, name="flood-edges"),
               dict(mode="sim", spec=_MG, cfg="MulticastGenFloodSim.cfg", depth=40, num=60, max=60, dedup=True, salt=2, name="flood-walks"),
               # receive handlers in two steps (begin / finish): the handlers of two copies of a message overlap at a node of a cycle
               dict(mode="edges", spec=_MG, cfg="MulticastGenFloodSplitEdges.cfg", depth=14, max=40, name="flood-overlap-edges-triangle")],
        thorough=[dict(mode="edges", spec=_MG, cfg="MulticastGenMemberEdges0.cfg", depth=8, name="member-edges-1peer-1group"),
                  dict(mode="edges", spec=_MG, cfg="MulticastGenMemberEdges1.cfg", depth=6, max=3000, name="member-edges-1group", timeout=1200),
                  dict(mode="edges", spec=_MG, cfg="MulticastGenMemberEdges.cfg", depth=3, max=500, name="member-edges", timeout=1200),
                  dict(mode="sim", spec=_MG, cfg="MulticastGenMemberSim.cfg", depth=20, num=20, max=400, name="member-walks"),
                  dict(mode="sim", spec=_MG, cfg="MulticastGenFill.cfg", depth=12, num=15, max=150, salt=1, name="member-fill"),
                  dict(mode="edges", spec=_MG, cfg="MulticastGenFloodEdges.cfg", depth=20, max=700, name="flood-edges", timeout=1200),
                  dict(mode="sim", spec=_MG, cfg="MulticastGenFloodSim.cfg", depth=50, num=600, max=600, dedup=True, salt=2, name="flood-walks"),
                  dict(mode="edges", spec=_MG, cfg="MulticastGenFloodSplitEdges.cfg", depth=14, name="flood-overlap-edges-triangle"),
                  dict(mode="edges", spec=_MG, cfg="MulticastGenFloodSplitEdges4.cfg", depth=24, max=400, workers=4, name="flood-overlap-edges-cyclic4", timeout=1200),
                  dict(mode="sim", spec=_MG, cfg="MulticastGenFloodSplitSim.cfg", depth=60, num=300, max=300, dedup=True, salt=3, name="flood-overlap-walks")]),
    post_gen=_c38_post,
    judge=dict(spec="MulticastTrace.tla", cfg="MulticastTrace.cfg"),
    corrupt=_c38_corrupt,
    nontrivial=lambda s: (s.get("par", {}).get("kind") == "member" and sum(1 for o in s["ops"] if o["op"] in ("notify", "handshake", "add", "remove", "nbrdown", "event", "fill")) >= 2)
                         or (s.get("par", {}).get("kind") == "flood" and any(o["op"] in ("deliver", "begin") for o in s["ops"])),
    rule="membership: TLC histories of connect/nbrdown/event/notify/handshake(in,out)/add/remove/prune/fill (every (source state, step) edge of 1 peer x 1 group, sampled edges of 2 peers x 1 group, edges over 2 peers x 2 groups, "
         "walks over 3 peers x 2 groups, fills around the threshold 20); flooding: TLC behaviours (overlay, joined set, originations, "
         "delivery order or begin/finish order of overlapping handlers, losses, window expiries) ending with an empty network; distinct = distinct (parameters, step sequence); "
         "non-trivial = two membership-changing steps, resp. at least one delivery",
    exhaustive=dict(quick=False, thorough=False),
    assumptions=["a neighbour going away is two steps: the route table stops listing it (nbrdown), later the service handles the queued peer-state event (event); 'connected peers are neighbours' is judged up to queued events",
                 "window expiry = the node's de-duplication cache is emptied",
                 "every node of a flooding scenario holds the group (joined or observing)",
                 "a receive handler can be held up only at an outgoing stream (its cache operations and the hand-over to the subscribers are not interleaved further); no window expiry while a handler is held up"],
    driver_timeout=1500,
)
