"""C30-C33 — settlement: received cheques, issued cheques, accounting, restart (spec/settlement,
harness/cmd/{chequedrv,trafficdrv,acctdrv})."""
import random

from regkit import corrupt_field

CHECKS = {}


# ------------------------------------------------------------------------------------ C30
def _c30_post(scs, seed, tier):
    """every third scenario goes through the real trafficprotocol handler instead of Service.ReceiveCheque"""
    for i, s in enumerate(scs):
        s.setdefault("par", {})
        s["par"] = dict(s["par"], via="protocol" if i % 3 == 2 else "service")
    return scs


CHECKS["C30"] = dict(
    modules=["settlement"], level="model_checking", driver="chequedrv",
    design_ref="5 (C30)",
    technique="TLA+ model of cheque acceptance/crediting checked by TLC; TLC-generated cheque sequences (really signed, EIP-712) "
              "sent to the real traffic service / protocol handler; recorded trace judged by the TLA+ trace spec",
    level_text="TLC exhausts the ChequeStore model (3 keys, 2 registered + 1 unregistered peer, payouts {1,2,3,5}, all 216 cheques per "
               "step; and registration as an action: every handshake of 3 overlays presenting any of 3 chain addresses from an empty "
               "address book) and generates one shortest cheque history per (model state, cheque) edge plus random sequences, "
               "and one shortest history per (registration, claims, operation) edge of the registration family; each is run on "
               "real cheque.NewChequeStore + traffic.New (Service.ReceiveCheque and the trafficprotocol handler) and every "
               "recorded outcome is judged by ChequeStoreTrace.tla",
    level_note="trusted: TLC, secp256k1/EIP-712 as a signature scheme (a cheque signed by key k *is* Sig(k,..)), the pass-through "
               "recorder around the real ChequeStore; the converse direction (well-formed cheques are accepted) is a "
               "conformance note, not a verdict: the statement says 'accepted only if'",
    design=[dict(spec="MCChequeStore.tla", cfg="MCChequeStore.cfg", workers=4, timeout=300),
            # registration as an action from an empty address book (any peer may present any chain address)
            dict(spec="MCChequeStore.tla", cfg="MCChequeStoreDyn.cfg", workers=4, timeout=600)],
    gen=dict(
        quick=[dict(mode="edges", spec="ChequeStoreGen.tla", cfg="ChequeStoreGenEdges.cfg", depth=5, max=900, name="edges",
                    env=dict(VERIF_ALPHABET="classes")),
               dict(mode="sim", spec="ChequeStoreGen.tla", cfg="ChequeStoreGenSim.cfg", depth=5, num=150, max=600, name="seq5",
                    env=dict(VERIF_ALPHABET="classes")),
               # registration family: nobody registered at the start; up to 2 handshakes (3 overlays x chain addresses 1,2:
               # two overlays presenting the same address, a registered peer presenting another one), then cheques of
               # those addresses from every peer.  Not sampled: every (state, claims, operation) edge is run
               dict(mode="edges", spec="ChequeStoreGen.tla", cfg="ChequeStoreGenEdges.cfg", depth=4, name="reg-edges",
                    env=dict(VERIF_HS=2, VERIF_CUMS=1, VERIF_HSKEYS=2))],
        thorough=[dict(mode="edges", spec="ChequeStoreGen.tla", cfg="ChequeStoreGenEdges.cfg", depth=5, name="edges-full",
                       env=dict(VERIF_ALPHABET="full"), timeout=900),
                  dict(mode="sim", spec="ChequeStoreGen.tla", cfg="ChequeStoreGenSim.cfg", depth=5, num=2500, max=6000, name="seq5",
                       env=dict(VERIF_ALPHABET="classes")),
                  dict(mode="sim", spec="ChequeStoreGen.tla", cfg="ChequeStoreGenSim.cfg", depth=9, num=600, max=2500, name="seq9",
                       env=dict(VERIF_ALPHABET="classes"), salt=5),
                  dict(mode="edges", spec="ChequeStoreGen.tla", cfg="ChequeStoreGenEdges.cfg", depth=4, name="reg-edges",
                       env=dict(VERIF_HS=2, VERIF_CUMS=1, VERIF_HSKEYS=2)),
                  # three handshakes, also between cheques (a late claim of an address that already has credit), payouts {1,2}
                  dict(mode="edges", spec="ChequeStoreGen.tla", cfg="ChequeStoreGenEdges.cfg", depth=5, max=4000, name="reg-edges-late",
                       env=dict(VERIF_HS=3, VERIF_CUMS=2, VERIF_HSKEYS=2, VERIF_HSLATE=1), timeout=900),
                  dict(mode="sim", spec="ChequeStoreGen.tla", cfg="ChequeStoreGenSim.cfg", depth=8, num=400, max=1500, name="reg-seq8",
                       env=dict(VERIF_HS=4, VERIF_CUMS=3, VERIF_HSKEYS=3, VERIF_HSLATE=1), salt=11)]),
    post_gen=_c30_post,
    judge=dict(spec="ChequeStoreTrace.tla", cfg="ChequeStoreTrace.cfg"),
    corrupt=corrupt_field("cheque", "amount", lambda e: e["amount"] + 1),
    nontrivial=lambda s: any(o.get("cls") == "valid" for o in s["ops"]) and
                         any(o.get("op") == "cheque" and o.get("cls") != "valid" for o in s["ops"]),
    rule="TLC-generated cheque sequences over 3 keys x 3 sending peers x 2 recipients x payouts {1,2,3,5} (edges: one shortest "
         "history per (model state, cheque); seq: -simulate over the class alphabet valid/replay/lower/wrong recipient/other "
         "key/foreign issuer/unregistered peer), two thirds through Service.ReceiveCheque, one third through the protocol "
         "handler; reg-*: the address book starts empty and the scenario begins with handshakes (3 overlays presenting chain "
         "addresses 1,2: the same address from two overlays, another address from a registered peer), then well-formed cheques of "
         "those addresses from every peer (one history per (highest payouts, registration, last claims, operation)); "
         "distinct = distinct (entry point, operation sequence); non-trivial = contains a valid and a defective cheque",
    exhaustive=dict(quick=False, thorough=False),
    assumptions=["secp256k1 signatures are unforgeable; a cheque 'signed by another key' is produced by really signing with that key",
                 "registration is Service.Handshake without a cheque (the init stream of a connection); 'the peer whose registered "
                 "chain address is that issuer' is read as first-wins and one-to-one: an address registered to one overlay cannot be "
                 "claimed by another, and a registered peer keeps its address; outside the reg-* families peers 1,2 have "
                 "registered their own address before the scenario and peer 3 never registers",
                 "chain, cash-out, p2p and pubsub are stubs; they are not consulted on the receive path except BalanceOf at registration"],
)


# ------------------------------------------------------------------------------------ C31
def _c31_post(scs, seed, tier):
    """half of the histories start on a node whose chain already lists the peers (their records are initialised
    from the chain at the first Init), half on a node that learns about a peer with its first traffic"""
    for i, s in enumerate(scs):
        s["par"] = dict(s.get("par", {}), known=(i % 2 == 0))
    return scs


def _c31_corrupt(e):
    st = dict(e["st"])
    st["avail"] = st["avail"] + 1
    return st


CHECKS["C31"] = dict(
    modules=["settlement"], level="model_checking", driver="trafficdrv",
    design_ref="5 (C31)",
    technique="TLA+ model of the traffic service (owed / cheque / cashed totals, pay split into issue-emit-record, refresh, "
              "cash-out, restart) checked by TLC; TLC-generated histories run on the real traffic.Service with chain / cash-out "
              "/ protocol stubs; recorded trace judged by the TLA+ trace spec",
    level_text="TLC exhausts the Traffic model (2 peers, 2 goroutines, amounts {1,2}, threshold 2, 4 operations with all "
               "interleavings of their persistence steps) and generates one shortest history per (model state, operation) edge, "
               "all histories of a fixed depth and random deep histories over credit / pay-ok / pay-fail / refresh (public "
               "TrafficInit) / peer-cashes / cash-out receipt / restart; each runs on real traffic.New + cheque.NewChequeStore "
               "and every recorded AvailableBalance / TrafficInfo / cheque handed to the emit stub is judged by TrafficTrace.tla",
    level_note="trusted: TLC, the chain stub (fresh big.Int per answer, as a decoding client returns), the identity "
               "TrafficInfo.AvailableBalance = Balance + sum(cashed) - TotalSendTraffic used to read the node's cashed record "
               "through the public API; per-peer cashed records are only observed as their sum",
    design=[dict(spec="MCTraffic.tla", cfg="MCTraffic.cfg", workers=4, timeout=600)],
    gen=dict(
        quick=[dict(mode="edges", spec="TrafficGen.tla", cfg="TrafficGenEdges.cfg", depth=5, max=500, name="edges"),
               dict(mode="exh", spec="TrafficGen.tla", cfg="TrafficGenExh.cfg", depth=2, name="all-depth2"),
               dict(mode="sim", spec="TrafficGen.tla", cfg="TrafficGenSim.cfg", depth=20, num=25, max=250, name="walks")],
        thorough=[dict(mode="edges", spec="TrafficGen.tla", cfg="TrafficGenEdges.cfg", depth=6, name="edges", timeout=900),
                  dict(mode="exh", spec="TrafficGen.tla", cfg="TrafficGenExh.cfg", depth=3, name="all-depth3"),
                  dict(mode="sim", spec="TrafficGen.tla", cfg="TrafficGenSim.cfg", depth=30, num=300, max=2000, name="walks")]),
    post_gen=_c31_post,
    judge=dict(spec="TrafficTrace.tla", cfg="TrafficTrace.cfg"),
    corrupt=corrupt_field("credit", "st", _c31_corrupt),
    nontrivial=lambda s: any(o["op"] == "pay" for o in s["ops"]) and any(o["op"] == "credit" for o in s["ops"]),
    rule="TLC-generated sequential histories over 2 peers, amounts {1,2}, threshold 2, chain balance 9 (edges: one shortest history "
         "per (model state, operation); all-depthN: every history of length N over the 14 operations; walks: -simulate), each run "
         "on a node whose chain does / does not list the peers at start-up; distinct = distinct (start-up, operation sequence); "
         "non-trivial = contains a credit and a pay",
    exhaustive=dict(quick=False, thorough=False),
    assumptions=["the chain stub answers every query and a peer can only cash a cheque that was delivered to it",
                 "a failed delivery means the peer did not get the cheque",
                 "cash-out receipts always succeed (status 1); the receipt worker is awaited through its cash-out publication"],
)


# ------------------------------------------------------------------------------------ C33
def _c33_corrupt(e):
    post = dict(e["post"])
    post["owed"] = [-1] + list(post["owed"][1:])
    return post


_SCHED = dict(mode="exh", spec="TrafficSchedGen.tla", cfg="TrafficSchedGen.cfg")

CHECKS["C33"] = dict(
    modules=["settlement"], level="model_checking", driver="trafficdrv",
    design_ref="5 (C33)",
    technique="TLA+ model of the traffic service with persistence as separate steps checked by TLC (design with the write under "
              "the peer lock); TLC enumerates every interleaving and restart point of the implementation-shaped model; each "
              "behaviour is forced on the real traffic.Service through a gating state store / protocol stub, the service is "
              "rebuilt on the surviving store, and the recorded trace is judged by the TLA+ trace spec",
    level_text="TLC checks durability on the Traffic model with persistence under the lock, then enumerates all interleavings of "
               "the mem/persist steps of 2 concurrent updaters (2 updates each) and of a payer (issue / emit ok|fail / persist "
               "cheque) and of a live refresh (TrafficInit as a goroutine of its own; its reads of the persisted totals are gates) with "
               "a restart after every prefix (weaker-design model: write after unlock, refresh reads before locking); each behaviour is "
               "forced on real traffic.New + cheque.NewChequeStore (a Put parks until released, parked writes are lost at the "
               "crash), the service is rebuilt (New + Init, then per peer: the handshake in which the peer presents the cheque it "
               "holds / pay with nothing new consumed / credit / pay) and judged by "
               "TrafficRestartTrace.tla; a violation is reported only for behaviours the real code reproduces",
    level_note="trusted: TLC, the gating store (the value handed to Put is captured at the call), goroutine identification by "
               "runtime.Stack; durability is required of acknowledged calls only (a call that has not returned may be lost); "
               "'no cheque for an amount already paid' is judged after the init-stream handshake a reconnecting peer performs",
    design=[dict(spec="MCTraffic.tla", cfg="MCTraffic.cfg", workers=4, timeout=600)],
    gen=dict(
        quick=[dict(_SCHED, name="2x2-updaters", env=dict(VERIF_PAY=0, VERIF_WIDE=0, VERIF_NUPD=2)),
               dict(_SCHED, name="payer+updaters", env=dict(VERIF_PAY=1, VERIF_WIDE=1, VERIF_NUPD=1), max=400),
               # a live refresh (TrafficInit) as a third goroutine: {refresh || update ; update ; restart}, every prefix
               dict(_SCHED, name="refresh+updater", env=dict(VERIF_REFRESH=1, VERIF_NUPD=2, VERIF_NUPD2=0)),
               # every crash point inside one Pay (before / after the delivery, after the cheque is persisted), not sampled:
               # the cut payment is the first cheque to the peer, or (prior) follows a completed one; one updater alongside
               dict(_SCHED, name="pay-crashpoints", env=dict(VERIF_PAY=1, VERIF_NUPD=0, VERIF_NUPD2=0)),
               dict(_SCHED, name="pay-crashpoints-prior", env=dict(VERIF_PAY=1, VERIF_NUPD=0, VERIF_NUPD2=0, VERIF_PRIOR=1)),
               dict(_SCHED, name="payer+updater-prior", env=dict(VERIF_PAY=1, VERIF_NUPD=1, VERIF_NUPD2=0, VERIF_PRIOR=1))],
        thorough=[dict(_SCHED, name="2x2-updaters", env=dict(VERIF_PAY=0, VERIF_WIDE=0, VERIF_NUPD=2)),
                  dict(_SCHED, name="payer+2x2-updaters", env=dict(VERIF_PAY=1, VERIF_WIDE=0, VERIF_NUPD=2), max=1200),
                  dict(_SCHED, name="2x2-updaters-wide", env=dict(VERIF_PAY=0, VERIF_WIDE=1, VERIF_NUPD=2), max=700),
                  dict(_SCHED, name="payer+updaters-wide", env=dict(VERIF_PAY=1, VERIF_WIDE=1, VERIF_NUPD=1), max=800),
                  dict(_SCHED, name="refresh+updater", env=dict(VERIF_REFRESH=1, VERIF_NUPD=2, VERIF_NUPD2=0)),
                  dict(_SCHED, name="refresh+2updaters", env=dict(VERIF_REFRESH=1, VERIF_NUPD=2, VERIF_NUPD2=1), max=600),
                  dict(_SCHED, name="pay-crashpoints", env=dict(VERIF_PAY=1, VERIF_NUPD=0, VERIF_NUPD2=0)),
                  dict(_SCHED, name="pay-crashpoints-prior", env=dict(VERIF_PAY=1, VERIF_NUPD=0, VERIF_NUPD2=0, VERIF_PRIOR=1)),
                  dict(_SCHED, name="payer+updaters-wide-prior", env=dict(VERIF_PAY=1, VERIF_WIDE=1, VERIF_NUPD=1, VERIF_PRIOR=1), max=800)]),
    judge=dict(spec="TrafficRestartTrace.tla", cfg="TrafficRestartTrace.cfg"),
    corrupt=corrupt_field("restart", "post", _c33_corrupt),
    nontrivial=lambda s: sum(1 for o in s["ops"] if o["op"] in ("start", "paystart", "refstart")) >= 2,
    rule="every prefix (= restart point) of every interleaving of the gate-level steps of 2 updaters x 2 updates on one peer "
         "(exhaustive, 251 behaviours), plus payer (issue/emit ok|fail/persist cheque) and updaters on 2 peers / both totals "
         "(exhaustive or sampled as stated per generator), plus {live refresh || update ; update} on a peer with a record "
         "(exhaustive, 125 behaviours), plus every crash point of one Pay whose cheque is the first to the peer or follows a "
         "completed payment (exhaustive); after the restart every peer reconnects presenting the cheque it holds and is paid "
         "before and after new traffic; distinct = distinct step sequence; non-trivial = at least two calls "
         "were in flight or completed before the restart",
    exhaustive=dict(quick=False, thorough=False),
    assumptions=["a crash loses exactly the writes that had not reached the store; the store itself is durable (C18)",
                 "after a restart every peer reconnects (init-stream handshake with the last cheque it holds) before it is paid",
                 "chain values do not change during the scenario"],
)


# ------------------------------------------------------------------------------------ C32
def _c32_contended(s):
    """two goroutines call into the same peer and at least one of them writes its balance"""
    by_peer = {}
    for o in s["ops"]:
        if o.get("op") == "call":
            by_peer.setdefault(o["p"], []).append(o)
    for calls in by_peer.values():
        if len({o["t"] for o in calls}) >= 2 and any(o["kind"] in ("credit", "notify") for o in calls):
            return True
    return False


def _c32_post(scs, seed, tier):
    """mark the scenarios that are also run free (un-gated, child process of the -race binary) for the race clause"""
    rnd = random.Random(seed * 131 + 3)
    cand = [s for s in scs if _c32_contended(s)]
    rnd.shuffle(cand)
    for s in cand[:(40 if tier == "thorough" else 12)]:
        s["par"] = dict(s.get("par", {}), racecheck=True)
    return scs


def _c32_corrupt(e):
    if e.get("kind") == "credit" and e.get("arrived") == "ret" and e.get("pays"):
        return []
    return None


_ACCT = dict(spec="AccountingGen.tla")

CHECKS["C32"] = dict(
    modules=["settlement"], level="model_checking", driver="acctdrv", race=True,
    driver_env=dict(GORACE="exitcode=0"), driver_timeout=2400,
    design_ref="5 (C32), 6 (race clause)",
    technique="TLA+ lock-granularity model of accounting checked by TLC; TLC-generated interleavings forced on the real "
              "accounting.Accounting through a blocking settlement stub; recorded trace judged by the TLA+ trace spec; the "
              "race detector observes the same calls running free in a child process (thorough tier)",
    level_text="TLC exhausts the Accounting model (2 peers, 3 goroutines, 3 calls -- 4 in the thorough tier --, Reserve/Credit/Debit/NotifyPayment cut at every "
               "settlement call, the first contact with a peer as its own step -- RetrieveTraffic under the map mutex --, blocking on the "
               "map mutex / peer lock with hand-over) and generates one shortest behaviour per (model state, "
               "step) plus random behaviours of up to 6 calls; each is forced on real accounting.NewAccounting (every settlement "
               "call parks until released; a goroutine blocked on the peer mutex is recognised by its goroutine state) and every "
               "recorded result, Pay request and probed balance is judged by AccountingTrace.tla; a second model configuration "
               "has a slow settlement layer (bounded request queue, one worker, Pay calls in progress until released, credits in "
               "bursts): TLC checks that no request is lost and that a drain settles every due credit, and the generated "
               "behaviours (queue of 1000, bursts up to 1003) run on the real object with a stub whose Pay parks",
    level_note="data-race freedom is not a TLA+ property: in the thorough tier the driver is built with -race and runs the calls "
               "of marked scenarios un-gated in a child process; a DATA RACE report whose accessing frame is in pkg/accounting "
               "fails the clause C32:free_of_data_races (quick tier: clause not evaluated). trusted: TLC, goroutine "
               "identification by runtime.Stack, FIFO order of the pay channel (sentinel credit), the Reserve(peer,0) probe",
    design=[dict(spec="MCAccounting.tla", cfg="MCAccounting.cfg", cfg_thorough="MCAccounting_thorough.cfg", workers=8, timeout=900),
            # the slow settlement layer: bounded request queue (2), Pay calls that stay in progress, bursts of credits
            dict(spec="MCAccounting.tla", cfg="MCAccountingSlow.cfg", cfg_thorough="MCAccountingSlow_thorough.cfg", workers=8, timeout=900)],
    gen=dict(
        quick=[dict(_ACCT, mode="edges", cfg="AccountingGenEdges.cfg", depth=10, max=500, name="edges-2calls", env=dict(VERIF_MAXOPS=2)),
               dict(_ACCT, mode="sim", cfg="AccountingGenSim.cfg", depth=16, num=400, max=350, name="walks-6calls", env=dict(VERIF_MAXOPS=6)),
               # first contact: accounting has not seen the peers; RetrieveTraffic (under the map mutex) is a gate
               dict(_ACCT, mode="edges", cfg="AccountingGenEdges.cfg", depth=12, max=350, name="fresh-edges-2calls",
                    env=dict(VERIF_MAXOPS=2, VERIF_FRESH=1)),
               dict(_ACCT, mode="edges", cfg="AccountingGenEdges.cfg", depth=14, max=350, name="fresh-onepeer-edges-3calls",
                    env=dict(VERIF_MAXOPS=3, VERIF_FRESH=1, VERIF_ONEPEER=1)),
               # slow settlement layer: every Pay call stays in progress until released; bursts of 1 / 1001 / 1003 credits
               # (pay channel: 1000) and notifications on 2 peers, one release, drain.  Not sampled
               dict(_ACCT, mode="edges", cfg="AccountingGenEdges.cfg", depth=8, name="slow-edges-2calls",
                    env=dict(VERIF_SLOW=1, VERIF_MAXOPS=2, VERIF_MAXREL=1, VERIF_QCAP=1000))],
        thorough=[dict(_ACCT, mode="edges", cfg="AccountingGenEdges.cfg", depth=12, max=1000, name="edges-3calls", env=dict(VERIF_MAXOPS=3),
                       timeout=900),
                  dict(_ACCT, mode="sim", cfg="AccountingGenSim.cfg", depth=16, num=2500, max=1000, name="walks-6calls",
                       env=dict(VERIF_MAXOPS=6)),
                  dict(_ACCT, mode="edges", cfg="AccountingGenEdges.cfg", depth=14, max=1000, name="fresh-edges-3calls",
                       env=dict(VERIF_MAXOPS=3, VERIF_FRESH=1), timeout=900),
                  dict(_ACCT, mode="edges", cfg="AccountingGenEdges.cfg", depth=14, max=700, name="fresh-onepeer-edges-3calls",
                       env=dict(VERIF_MAXOPS=3, VERIF_FRESH=1, VERIF_ONEPEER=1)),
                  dict(_ACCT, mode="sim", cfg="AccountingGenSim.cfg", depth=20, num=1500, max=700, name="fresh-walks-6calls",
                       env=dict(VERIF_MAXOPS=6, VERIF_FRESH=1), salt=9),
                  dict(_ACCT, mode="edges", cfg="AccountingGenEdges.cfg", depth=9, name="slow-edges-2calls",
                       env=dict(VERIF_SLOW=1, VERIF_MAXOPS=2, VERIF_MAXREL=2, VERIF_QCAP=1000)),
                  dict(_ACCT, mode="edges", cfg="AccountingGenEdges.cfg", depth=10, max=500, name="slow-edges-3calls",
                       env=dict(VERIF_SLOW=1, VERIF_MAXOPS=3, VERIF_MAXREL=1, VERIF_QCAP=1000), timeout=900)]),
    post_gen=_c32_post,
    judge=dict(spec="AccountingTrace.tla", cfg="AccountingTrace.cfg"),
    corrupt=corrupt_field("release", "pays", _c32_corrupt),
    nontrivial=_c32_contended,
    rule="TLC-generated behaviours of 3 goroutines on 2 peers over credit {1,2} / notify {1,3} / debit (served traffic 1,2 vs "
         "tolerance 2) / reserve (1 vs available 1,3), threshold 2 (edges: one shortest behaviour per (model state, step) of the "
         "model bounded to N calls; walks: -simulate, 6 calls; fresh-*: accounting has not seen the peers, so concurrent first "
         "operations on the same new peer -- Credit/Credit, Credit/Notify, Reserve/Credit, two and three goroutines -- are forced "
         "through the first-contact gate; slow-*: the settlement layer is slow -- every Pay call stays in progress until "
         "released -- and credits arrive in bursts of 1 / 1001 / 1003 against the pay channel of 1000: a backlog larger than "
         "the queue, for the same and for another peer, single releases and drains; judged at quiescence); "
         "distinct = distinct step sequence; non-trivial = two goroutines "
         "call into the same peer and one of them changes its balance",
    exhaustive=dict(quick=False, thorough=False),
    assumptions=["few goroutines wait for one lock in a generated behaviour; which of several waiters a mutex wakes first is not "
                 "forced: goroutines found to have moved on at the same moment are logged returned-first, parked-second, which is "
                 "a real order of their sections (a goroutine that ran after one now parked inside the lock would still be blocked)",
                 "the settlement stub never fails; a payment notification larger than the balance clamps at zero (the reading under "
                 "which 'never negative' and the subtraction agree)",
                 "race detection is sampling: absence of a report is not a proof",
                 "slow behaviours: within a burst no other call touches the same peer; 'a payment is requested' is read per peer at "
                 "quiescence as: at least as many Pay calls as credits that left the balance at or above the threshold"],
)
