"""C22, C23, C24 — kademlia topology (spec/kad, harness/cmd/kaddrv); C29 — hive2 replies (spec/hive, harness/cmd/hivedrv)."""
from regkit import corrupt_field

CHECKS = {}

_KAD_TRUSTED = ("trusted: TLC, the driver's projection (NeighborhoodDepth, EachPeer, EachKnownPeer, Snapshot), "
                "harness/internal/kadaddr (abstract (bin,id) -> 32-byte overlay sharing exactly `bin` leading bits with the base), "
                "the repository's p2p/discovery/pingpong mocks; Kad is built without Start (no manage loop)")


def _gen(cfg, mode, name, env, **kw):
    d = dict(mode=mode, spec="KadGen.tla", cfg=cfg, name=name, env=env, timeout=900)
    d.update(kw)
    return d


def _st(e, **kw):
    st = dict(e["st"])
    st.update(kw)
    return st


# ------------------------------------------------------------------------------------ C22
CHECKS["C22"] = dict(
    modules=["kad"], level="model_checking", driver="kaddrv",
    design_ref="5 (C22)",
    technique="TLA+ model of the topology with the depth envelope as the property; TLC checks the envelope lemmas, generates "
              "event histories and bin-occupancy vectors; a real kademlia.Kad replays them; the recorded depths are judged by the TLA+ trace spec",
    level_text="TLC exhausts the event model over a small universe and the depth lemmas over every (connected, reachable, radius) of a "
               "larger one; it generates every bin-occupancy vector over a class menu (each built in three event orders on fresh "
               "instances) plus random event walks followed by two re-constructions of their final state; every recorded "
               "NeighborhoodDepth is judged against the envelope and against the depths seen for the same state by KadTrace.tla",
    level_note=_KAD_TRUSTED + "; bounded universes (<= 5 peers per bin, bins 0..3 and 29..31)",
    design=[dict(spec="MCKad.tla", cfg="MCKadR.cfg", workers=8, timeout=600),
            dict(spec="MCKad.tla", cfg="MCKadFnD.cfg", cfg_thorough="MCKadFnD_thorough.cfg", workers=8, timeout=1200),
            dict(spec="MCKad.tla", cfg="MCKadFnD_deep.cfg", workers=8, timeout=1200, thorough_only=True)],
    gen=dict(
        quick=[_gen("KadGenVec.cfg", "exh", "vectors-q1", dict(VERIF_UNIV="depth", VERIF_BINMAX=5, VERIF_VBINS=3, VERIF_VCLASSES="quick"), max=150),
               _gen("KadGenOrder.cfg", "sim", "walks-q1", dict(VERIF_UNIV="depth", VERIF_BINMAX=5), depth=26, num=5, max=25),
               _gen("KadGenOrder.cfg", "sim", "walks-deep-q2", dict(VERIF_UNIV="deep", VERIF_BINMAX=10), depth=30, num=3, max=15, salt=1),
               _gen("KadGenOrder.cfg", "sim", "walks-q4", dict(VERIF_UNIV="depth", VERIF_BINMAX=0), depth=40, num=3, max=15, salt=2)],
        thorough=[_gen("KadGenVec.cfg", "exh", "vectors-q1", dict(VERIF_UNIV="depth", VERIF_BINMAX=5, VERIF_VBINS=4, VERIF_VCLASSES="quick"), max=600),
                  _gen("KadGenVec.cfg", "exh", "vectors-q4", dict(VERIF_UNIV="depth", VERIF_BINMAX=0, VERIF_VBINS=3, VERIF_VCLASSES="full"), max=300),
                  _gen("KadGenVec.cfg", "exh", "vectors-q2", dict(VERIF_UNIV="depth", VERIF_BINMAX=10, VERIF_VBINS=3, VERIF_VCLASSES="full"), max=300),
                  _gen("KadGenOrder.cfg", "sim", "walks-q1", dict(VERIF_UNIV="depth", VERIF_BINMAX=5), depth=30, num=25, max=150),
                  _gen("KadGenOrder.cfg", "sim", "walks-deep-q2", dict(VERIF_UNIV="deep", VERIF_BINMAX=10), depth=40, num=20, max=120, salt=1),
                  _gen("KadGenOrder.cfg", "sim", "walks-q4", dict(VERIF_UNIV="depth", VERIF_BINMAX=0), depth=50, num=20, max=100, salt=2),
                  _gen("KadGenOrder.cfg", "sim", "walks-allreach", dict(VERIF_UNIV="depth", VERIF_BINMAX=5, VERIF_ALLREACH=1), depth=30, num=8, max=40, salt=3)]),
    judge=dict(spec="KadTrace.tla", cfg="KadTrace.cfg"),
    judge_timeout=3000, driver_timeout=2400,
    corrupt=corrupt_field("connected", "st", lambda e: _st(e, depth=e["st"]["depth"] + 5)),
    nontrivial=lambda s: sum(1 for o in s["ops"] if o["op"] in ("connected", "outbound")) > 3,
    rule="TLC-generated scenarios: (a) every vector of per-bin classes <<peers, reachable>> over a class menu, built deepest-first/"
         "outbound, promote-all-then-demote, and shallowest-first on three fresh instances; (b) -simulate walks of the event model "
         "(connect in/out, disconnect, forced disconnect, reachability both ways, SetRadius, protect, add-peers) followed by the same "
         "three constructions of the walk's final state; thresholds via Options.BinMaxPeers 5/10/default in separate driver processes; "
         "distinct = distinct (par, operation sequence); non-trivial = more than three connections",
    exhaustive=dict(quick=False, thorough=False),
    assumptions=["reachability of a peer = the last status reported through Kad.Reachable is Public (the default filter); "
                 "the allreach scenarios install Options.ReachabilityFunc = always reachable",
                 "'quick-saturation number' = the package threshold in force (4 by default, BinMaxPeers/5 when configured)",
                 "no Start: the manage loop (dial-outs, pruning) is not running; observations are made after each call returns"],
)
