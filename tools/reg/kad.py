"""C22, C23, C24 — kademlia topology (spec/kad, harness/cmd/kaddrv); C29 — hive2 replies (spec/hive, harness/cmd/hivedrv)."""
from regkit import corrupt_field

CHECKS = {}

_KAD_TRUSTED = ("trusted: TLC, the driver's projection (NeighborhoodDepth, EachPeer, EachKnownPeer, Snapshot), "
                "harness/internal/kadaddr (abstract (bin,id) -> 32-byte overlay sharing exactly `bin` leading bits with the base), "
                "the repository's p2p/discovery/pingpong mocks; Kad is built without Start (no manage loop)")


def _gen(cfg, mode, name, env, **kw):
    d = dict(mode=mode, spec="KadGen.tla", cfg=cfg, name=name, env=env, timeout=900)
    d.update(kw)
    return d


def _wgen(name, env, **kw):
    """C23 under churn: interleavings of one ClosestPeer(s) walk with connections / disconnections (spec/kad/KadWalkGen.tla)"""
    d = dict(mode="exh", spec="KadWalkGen.tla", cfg="KadWalkGen.cfg", name=name, env=env, timeout=900, workers=2)
    d.update(kw)
    return d


def _st(e, **kw):
    st = dict(e["st"])
    st.update(kw)
    return st


# ------------------------------------------------------------------------------------ C22
CHECKS["C22"] = dict(
    modules=["kad"], level="model_checking", driver="kaddrv",
    design_ref="5 (C22)",
    technique="TLA+ model of the topology with the depth envelope as the property; TLC checks the envelope lemmas, generates "
              "event histories and bin-occupancy vectors; a real kademlia.Kad replays them; the recorded depths are judged by the TLA+ trace spec",
    level_text="TLC exhausts the event model over a small universe and the depth lemmas over every (connected, reachable, radius) of a "
               "larger one; it generates every bin-occupancy vector over a class menu (each built in three event orders on fresh "
               "instances with radius 0, 1 or 31, then SetRadius swept over every radius from the number of bins down to 0 and up again) "
               "plus random event walks followed by two re-constructions of their final state; every recorded "
               "NeighborhoodDepth is judged against the envelope and against the depths seen for the same state by KadTrace.tla",
    level_note=_KAD_TRUSTED + "; bounded universes (<= 5 peers per bin, bins 0..3 and 29..31)",
    design=[dict(spec="MCKad.tla", cfg="MCKadR.cfg", workers=8, timeout=600),
            dict(spec="MCKad.tla", cfg="MCKadFnD.cfg", cfg_thorough="MCKadFnD_thorough.cfg", workers=8, timeout=1200),
            dict(spec="MCKad.tla", cfg="MCKadFnD_deep.cfg", workers=8, timeout=1200, thorough_only=True)],
    gen=dict(
        quick=[_gen("KadGenVec.cfg", "exh", "vectors-q1", dict(VERIF_UNIV="depth", VERIF_BINMAX=5, VERIF_VBINS=3, VERIF_VCLASSES="quick"), max=150),
               # disconnections (both kinds) of a reachable / an unreachable peer of every bin, observed immediately, on every
               # class vector with a positive depth; bins may mix reachable and unreachable peers
               _gen("KadGenDisc.cfg", "exh", "disconnect-q1", dict(VERIF_UNIV="depth", VERIF_BINMAX=5, VERIF_VBINS=3)),
               _gen("KadGenDisc.cfg", "exh", "disconnect-q4", dict(VERIF_UNIV="depth", VERIF_BINMAX=0, VERIF_VBINS=3), max=40),
               _gen("KadGenOrder.cfg", "sim", "walks-q1", dict(VERIF_UNIV="depth", VERIF_BINMAX=5), depth=26, num=5, max=25),
               _gen("KadGenOrder.cfg", "sim", "walks-deep-q2", dict(VERIF_UNIV="deep", VERIF_BINMAX=10), depth=30, num=3, max=15, salt=1),
               _gen("KadGenOrder.cfg", "sim", "walks-q4", dict(VERIF_UNIV="depth", VERIF_BINMAX=0), depth=40, num=3, max=15, salt=2)],
        thorough=[_gen("KadGenVec.cfg", "exh", "vectors-q1", dict(VERIF_UNIV="depth", VERIF_BINMAX=5, VERIF_VBINS=4, VERIF_VCLASSES="quick"), max=600),
                  _gen("KadGenDisc.cfg", "exh", "disconnect-q1", dict(VERIF_UNIV="depth", VERIF_BINMAX=5, VERIF_VBINS=4), max=300),
                  _gen("KadGenDisc.cfg", "exh", "disconnect-q4", dict(VERIF_UNIV="depth", VERIF_BINMAX=0, VERIF_VBINS=3)),
                  _gen("KadGenDisc.cfg", "exh", "disconnect-q2", dict(VERIF_UNIV="depth", VERIF_BINMAX=10, VERIF_VBINS=3)),
                  _gen("KadGenVec.cfg", "exh", "vectors-q4", dict(VERIF_UNIV="depth", VERIF_BINMAX=0, VERIF_VBINS=3, VERIF_VCLASSES="full"), max=300),
                  _gen("KadGenVec.cfg", "exh", "vectors-q2", dict(VERIF_UNIV="depth", VERIF_BINMAX=10, VERIF_VBINS=3, VERIF_VCLASSES="full"), max=300),
                  _gen("KadGenOrder.cfg", "sim", "walks-q1", dict(VERIF_UNIV="depth", VERIF_BINMAX=5), depth=30, num=25, max=150),
                  _gen("KadGenOrder.cfg", "sim", "walks-deep-q2", dict(VERIF_UNIV="deep", VERIF_BINMAX=10), depth=40, num=20, max=120, salt=1),
                  _gen("KadGenOrder.cfg", "sim", "walks-q4", dict(VERIF_UNIV="depth", VERIF_BINMAX=0), depth=50, num=20, max=100, salt=2),
                  _gen("KadGenOrder.cfg", "sim", "walks-allreach", dict(VERIF_UNIV="depth", VERIF_BINMAX=5, VERIF_ALLREACH=1), depth=30, num=8, max=40, salt=3)]),
    judge=dict(spec="KadTrace.tla", cfg="KadTrace.cfg"),
    judge_timeout=3000, driver_timeout=2400,
    corrupt=corrupt_field("connected", "st", lambda e: _st(e, depth=e["st"]["depth"] + 5)),
    nontrivial=lambda s: sum(1 for o in s["ops"] if o["op"] in ("connected", "outbound")) > 3,
    rule="TLC-generated scenarios: (a) every vector of per-bin classes <<peers, reachable>> over a class menu, built deepest-first/"
         "outbound, promote-all-then-demote, and shallowest-first on three fresh instances, with radius 0 / 1 / 31 set first or last, followed by "
         "a SetRadius sweep bins..0..bins,31 on the last instance (radii strictly below, at and above the saturation-derived depth); (a') every class vector with a positive depth over a menu whose bins mix reachable "
         "and unreachable peers, followed by Disconnected / DisconnectForce of one reachable and one unreachable peer of every bin, each "
         "observed immediately and re-connected; (b) -simulate walks of the event model "
         "(connect in/out, disconnect, forced disconnect, reachability both ways, SetRadius, protect, add-peers) followed by the same "
         "three constructions of the walk's final state; thresholds via Options.BinMaxPeers 5/10/default in separate driver processes; "
         "distinct = distinct (par, operation sequence); non-trivial = more than three connections",
    exhaustive=dict(quick=False, thorough=False),
    assumptions=["reachability of a peer = the last status reported through Kad.Reachable is Public (the default filter); "
                 "the allreach scenarios install Options.ReachabilityFunc = always reachable",
                 "'quick-saturation number' = the package threshold in force (4 by default, BinMaxPeers/5 when configured)",
                 "no Start: the manage loop (dial-outs, pruning) is not running; observations are made after each call returns"],
)


# ------------------------------------------------------------------------------------ C23
CHECKS["C23"] = dict(
    modules=["kad"], level="model_checking", driver="kaddrv",
    design_ref="5 (C23)",
    technique="TLA+ definition of eligibility and of the XOR order on modelled address bits; TLC checks the order against the XOR "
              "distance as a natural number and the code-shaped scan against the verdict, generates topologies and the product of "
              "queries; a real kademlia.Kad answers them; the answers are judged by the TLA+ trace spec",
    level_text="TLC proves on a bounded universe that the bitwise order used by the judge is the XOR-distance order and that the "
               "verdict admits the scan; it generates event walks whose final topology is queried with the product targets x "
               "skip lists x reachability filter x includeSelf x own reachability (ClosestPeer) and targets x counts x filter x skip "
               "lists (ClosestPeers); it also models the call as a walk of visits interleaved with connections and disconnections, "
               "checks that every interleaving answers inside the churn reading of the statement, enumerates the interleavings and has "
               "the driver force them on the real Kad by holding the walk inside Options.ReachabilityFunc; every answer is judged by KadTrace.tla",
    level_note=_KAD_TRUSTED + "; a call that overlaps connections / disconnections is judged against every legal linearisation at once: the "
               "answer must be a peer connected at some point of the call and at least as near as the nearest eligible peer connected "
               "throughout (several peers: distinct, each at least as near as the nearest not yet listed peer connected throughout); "
               "with no eligible peer the statement's two 'exactly when' clauses overlap: both 'not found' and (with "
               "includeSelf) 'want self' are accepted there, the code's choice is recorded as a conformance note only; self counts as "
               "certainly eligible iff includeSelf and own reachability Public (code contract), as possibly eligible iff includeSelf",
    design=[dict(spec="MCKad.tla", cfg="MCKadFnC.cfg", workers=8, timeout=1500),
            # the call as a walk of several steps interleaved with Connected / Disconnected: every interleaving answers inside
            # the churn reading of the statement (KadWalk!CallOK), a quiet call exactly as the sequential reading demands
            dict(spec="MCKadWalk.tla", cfg="MCKadWalk.cfg", cfg_thorough="MCKadWalk_thorough.cfg", workers=8, timeout=1200),
            # deepest bins: the XOR-as-natural lemma needs more than 31 bits there, only the closest-peer lemmas are checked
            dict(spec="MCKad.tla", cfg="MCKadFnC_thorough.cfg", workers=8, timeout=2400, thorough_only=True)],
    gen=dict(
        quick=[_gen("KadGenQuery.cfg", "sim", "queries", dict(VERIF_UNIV="cp", VERIF_BINMAX=5), depth=14, num=3, max=5),
               # every interleaving of one call (3 queries) over 3+1 connected peers with up to two events at one visit
               _wgen("churn-w1", dict(VERIF_UNIV="w1", VERIF_GATES=1, VERIF_ENV=2, VERIF_PREENV=0))],
        thorough=[_gen("KadGenQuery.cfg", "sim", "queries", dict(VERIF_UNIV="cp", VERIF_BINMAX=5), depth=14, num=25, max=40),
                  _gen("KadGenQuery.cfg", "sim", "queries-short", dict(VERIF_UNIV="cp", VERIF_BINMAX=5), depth=6, num=15, max=15, salt=1),
                  _gen("KadGenQuery.cfg", "sim", "queries-allreach", dict(VERIF_UNIV="cp", VERIF_BINMAX=5, VERIF_ALLREACH=1), depth=12, num=8, max=8, salt=2),
                  _wgen("churn-w1", dict(VERIF_UNIV="w1", VERIF_GATES=1, VERIF_ENV=2, VERIF_PREENV=0)),
                  _wgen("churn-w1-pre", dict(VERIF_UNIV="w1", VERIF_GATES=1, VERIF_ENV=2, VERIF_PREENV=1), max=900),
                  _wgen("churn-w1-two-gates", dict(VERIF_UNIV="w1", VERIF_GATES=2, VERIF_ENV=3, VERIF_PREENV=0), max=1200),
                  _wgen("churn-w2", dict(VERIF_UNIV="w2", VERIF_GATES=1, VERIF_ENV=2, VERIF_PREENV=0), max=900),
                  _wgen("churn-w3", dict(VERIF_UNIV="w3", VERIF_GATES=2, VERIF_ENV=2, VERIF_PREENV=0), max=700)]),
    judge=dict(spec="KadTrace.tla", cfg="KadTrace.cfg"),
    judge_timeout=3000, driver_timeout=2400,
    corrupt=corrupt_field("closest", "err", lambda e: "notfound" if e["err"] == "" else None),
    nontrivial=lambda s: any(o["op"] in ("closest", "closestn") for o in s["ops"]) and any(o["op"] in ("connected", "outbound") for o in s["ops"]),
    rule="TLC -simulate walks of the event model (<= 7 connected peers over bins 0,1,2,30,31, ids chosen so that XOR order and numeric "
         "order differ) each followed by ~1270 TLC-enumerated queries: 8 targets (peer addresses, in-bin neighbours, empty bin, deepest "
         "bins, self) x includeSelf x filter x skip lists (all subsets up to 4 peers; singletons, all-but-one, all, by reachability, by bin "
         "beyond), repeated after flipping own reachability; ClosestPeers with counts 0,1,3,n,n+2; plus every interleaving (TLC, exhaustive) "
         "of one ClosestPeer / ClosestPeers walk over 3+1 (thorough: up to 4+2, 3+1+1) connected peers with up to two (three) Connected / "
         "Disconnected events placed at one (two) of its visits, targets next to the first / the last / a middle peer of the walked bin; "
         "distinct = distinct operation sequence",
    exhaustive=dict(quick=False, thorough=False),
    assumptions=["XOR order is decided on the modelled bits: kadaddr gives every address the base's tail",
                 "skip lists contain connected peers only",
                 "churn scenarios run with Options.ReachabilityFunc installed (every peer reachable): the function is the only injectable "
                 "point inside the walk; events are executed on the walking goroutine while it stands inside that function"],
)

# ------------------------------------------------------------------------------------ C24
CHECKS["C24"] = dict(
    modules=["kad"], level="model_checking", driver="kaddrv",
    design_ref="5 (C24)",
    technique="TLA+ model of connection tracking and admission checked by TLC; TLC-generated histories (one per edge of the state graph "
              "modulo peer symmetry, plus walks) replayed on a real kademlia.Kad; the reported peer sets and every admission are judged by the TLA+ trace spec",
    level_text="TLC exhausts the event model (connect in/out, boot-node outbound, disconnect, forced disconnect, protect, add-peers) over "
               "a small universe; it generates one shortest history per (state, operation) edge modulo interchangeable peers from an "
               "empty and from a nearly saturated topology, plus random walks with reachability; after every event EachPeer/Snapshot/"
               "EachKnownPeer are compared with the model and every admission with the over-saturation rule by KadTrace.tla",
    level_note=_KAD_TRUSTED + "; 'oversaturated' is read as: the bin lies below the potential depth (deepest envelope depth of the known-peer "
               "set, radius ignored) and holds >= max reachable connected peers; refusals are conformance notes (the statement only "
               "constrains admissions); static nodes and boot-node mode of the own node are not exercised",
    design=[dict(spec="MCKad.tla", cfg="MCKadA.cfg", workers=8, timeout=900),
            dict(spec="MCKad.tla", cfg="MCKad.cfg", workers=8, timeout=2400, thorough_only=True)],
    gen=dict(
        quick=[_gen("KadGenEdges.cfg", "edges", "edges-empty", dict(VERIF_UNIV="adm", VERIF_BINMAX=5, VERIF_ALLREACH=1, VERIF_PREFILL=0), depth=3, workers=4, max=250),
               _gen("KadGenEdges.cfg", "edges", "edges-filled", dict(VERIF_UNIV="adm", VERIF_BINMAX=5, VERIF_ALLREACH=1, VERIF_PREFILL=4), depth=3, workers=4, max=350),
               # protection refreshes replace the protected set: every pair of successive sets (shrinking, emptying, growing) on an
               # over-saturated bin, with admission probes and the inbound connection of a (formerly) protected peer
               _gen("KadGenProt.cfg", "exh", "protect-refresh", dict(VERIF_UNIV="adm", VERIF_BINMAX=5, VERIF_ALLREACH=1, VERIF_PREFILL=5)),
               _gen("KadGenWalk.cfg", "sim", "walks", dict(VERIF_UNIV="adm", VERIF_BINMAX=5), depth=40, num=4, max=40)],
        thorough=[_gen("KadGenEdges.cfg", "edges", "edges-empty", dict(VERIF_UNIV="adm", VERIF_BINMAX=5, VERIF_ALLREACH=1, VERIF_PREFILL=0), depth=4, workers=4, max=1200),
                  _gen("KadGenEdges.cfg", "edges", "edges-filled", dict(VERIF_UNIV="adm", VERIF_BINMAX=5, VERIF_ALLREACH=1, VERIF_PREFILL=4), depth=4, workers=4, max=2500),
                  _gen("KadGenEdges.cfg", "edges", "edges-filled5", dict(VERIF_UNIV="adm", VERIF_BINMAX=5, VERIF_ALLREACH=1, VERIF_PREFILL=5), depth=3, workers=4, max=800),
                  _gen("KadGenProt.cfg", "exh", "protect-refresh", dict(VERIF_UNIV="adm", VERIF_BINMAX=5, VERIF_ALLREACH=1, VERIF_PREFILL=5)),
                  _gen("KadGenWalk.cfg", "sim", "walks", dict(VERIF_UNIV="adm", VERIF_BINMAX=5), depth=60, num=30, max=400),
                  _gen("KadGenWalk.cfg", "sim", "walks-allreach", dict(VERIF_UNIV="adm", VERIF_BINMAX=5, VERIF_ALLREACH=1), depth=60, num=20, max=300, salt=1),
                  _gen("KadGenWalk.cfg", "sim", "walks-default", dict(VERIF_UNIV="depth", VERIF_BINMAX=0), depth=50, num=10, max=100, salt=2)]),
    judge=dict(spec="KadTrace.tla", cfg="KadTrace.cfg"),
    judge_timeout=3000, driver_timeout=2400,
    corrupt=corrupt_field("connected", "st", lambda e: _st(e, conn=e["st"]["conn"][:-1]) if e["err"] == "" and e["st"]["conn"] else None),
    nontrivial=lambda s: any(o["op"] in ("connected", "outbound") for o in s["ops"]) and any(o["op"] in ("disconnected", "force", "pick", "protect") or (o["op"] == "connected" and not o["force"]) for o in s["ops"]),
    rule="TLC-generated histories over 8+4 full nodes in two bins and two boot nodes, Options.BinMaxPeers 5 (over-saturation 5): edges "
         "mode with a VIEW that identifies peers of one bin (per-bin counts of connected / known-only / protected, formerly protected, class of the last "
         "operation), started from the empty topology and from 3+4 (3+5) connected peers so that the saturation boundary is within "
         "reach; every pair of successive RefreshProtectPeer sets on an over-saturated bin with admission probes and the inbound "
         "connection of a (formerly) protected peer; -simulate walks with reachability reports; distinct = distinct operation sequence; non-trivial = a connection and a "
         "later disconnection, probe, protection change or unforced inbound connection",
    exhaustive=dict(quick=False, thorough=False),
    assumptions=["a peer is either a full node or a boot node for the whole history; light nodes never reach the topology (libp2p keeps them apart)",
                 "Connected(force=true) is the repository tests' way of an unconditional connection; the admission clause applies to force=false and Pick",
                 "p2p.Disconnect of the mock succeeds; address-book removal succeeds"],
)


# ------------------------------------------------------------------------------------ C29
def _hgen(name, env, **kw):
    d = dict(mode="sim", spec="HiveGen.tla", cfg="HiveGen.cfg", name=name, env=env, depth=12, timeout=900)
    d.update(kw)
    return d


def _hwgen(name, env, **kw):
    """C29 under churn: interleavings of one find-node request with topology events (spec/hive/HiveWalkGen.tla)"""
    d = dict(mode="exh", spec="HiveWalkGen.tla", cfg="HiveWalkGen.cfg", name=name, env=env, timeout=900, workers=2)
    d.update(kw)
    return d


CHECKS["C29"] = dict(
    modules=["hive"], level="model_checking", driver="hivedrv",
    design_ref="5 (C29)",
    technique="TLA+ reply predicate and two-pass selection mechanism checked by TLC; TLC-generated setups and request products sent "
              "through streamtest to the real hive2 find-node handler on a real Kad; the replies read from the stream are judged by the TLA+ trace spec",
    level_text="TLC checks that the two-pass mechanism with the specified split satisfies the five clauses of the statement for every "
               "request of a bounded product; it samples setups (9 pool peers: absent / connected / known-only x public / private / no "
               "record; requester class; AllowPrivateCIDRs) and pairs each with the product limits x targets x order lists; every reply "
               "of the real handler is judged by HiveTrace.tla; it also models the handler as a walk of address-book lookups interleaved "
               "with connect / disconnect / add-peers / forced-disconnect events, checks the clauses on every interleaving, enumerates "
               "the interleavings and has the driver force them on the real handler by holding it inside an address-book wrapper",
    level_note="trusted: TLC, streamtest, the protobuf codec, kadaddr, the driver's reverse lookup overlay -> abstract address; underlay "
               "classes are fixtures (8.8.x.x public; 10.x / 192.168.x private); replies are random subsets, the verdict is an envelope; "
               "besides the five clauses of the statement a reply must offer only peers the node held (connected or known) at some point of the call",
    design=[dict(spec="MCHive.tla", cfg="MCHive.cfg", workers=4, timeout=600),
            # the handler as a walk of address-book lookups over the connected, then the known peers, interleaved with
            # connect / disconnect / add-peers / forced disconnect: every interleaving replies inside the statement
            dict(spec="MCHiveWalk.tla", cfg="MCHiveWalk.cfg", cfg_thorough="MCHiveWalk_thorough.cfg", workers=8, timeout=1200)],
    gen=dict(
        quick=[_hgen("setups-from-2", dict(VERIF_LIMITS="ge2"), num=2, max=3, salt=2),
               _hgen("setups", dict(VERIF_LIMITS="edge"), num=8, max=12),
               # every interleaving of one request (2 requests) with up to two events at one lookup, 4 connected peers in the walked bin
               _hwgen("churn-h1", dict(VERIF_UNIV="h1", VERIF_GATES=1, VERIF_ENV=2, VERIF_PREENV=0))],
        thorough=[_hgen("setups-from-2", dict(VERIF_LIMITS="ge2"), num=6, max=10, salt=2),
                  _hgen("setups-all-limits", dict(VERIF_LIMITS="all"), num=30, max=50),
                  _hgen("setups-edge-limits", dict(VERIF_LIMITS="edge"), num=40, max=70, salt=1),
                  _hwgen("churn-h1", dict(VERIF_UNIV="h1", VERIF_GATES=1, VERIF_ENV=2, VERIF_PREENV=0)),
                  _hwgen("churn-h1-pre-two-gates", dict(VERIF_UNIV="h1", VERIF_GATES=2, VERIF_ENV=2, VERIF_PREENV=1), max=1000),
                  _hwgen("churn-h2", dict(VERIF_UNIV="h2", VERIF_GATES=1, VERIF_ENV=1, VERIF_PREENV=0)),
                  _hwgen("churn-h2-two-events", dict(VERIF_UNIV="h2", VERIF_GATES=1, VERIF_ENV=2, VERIF_PREENV=0), max=1200)]),
    judge=dict(spec="HiveTrace.tla", cfg="HiveTrace.cfg"),
    judge_timeout=3000, driver_timeout=2400,
    corrupt=corrupt_field("find", "reply", lambda e: e["reply"] + [e["reply"][0]] if e["reply"] else None),
    nontrivial=lambda s: len(s["par"]["peers"]) >= 2 and len(s["ops"]) > 0,
    rule="TLC -simulate setups over a pool of 9 peers in bins 0,1,2,3,31 (requester included), each paired with the product of limits "
         "(0..40 or the boundary values 0,1,2,3,4,5,7,29,30,31,40) x 4 targets (own address, requester, a peer, a free address) x 6 order "
         "lists (empty, single, the lookup's three orders, deepest, mixed); plus every interleaving (TLC, exhaustive) of one request with up "
         "to two topology events (disconnect of a connected peer, connect / add-peers of a joiner; thorough: forced disconnects, events "
         "before the request, two lookups) placed at one of the handler's address-book lookups; distinct = distinct (setup, request list)",
    exhaustive=dict(quick=False, thorough=False),
    assumptions=["limits are non-negative (the statement's range 0..40)",
                 "the requester's address class is what the answering node's address book records for it",
                 "churn events are executed on the handler's goroutine while it stands inside the address-book lookup of the visited peer"],
)
