#!/bin/sh
# usage: tools/runmany.sh <tier> <Cxx>...   — runs the checks one after the other, prints one result line each
T=$1; shift
for p in "$@"; do
  s=$(date +%s)
  python3 tools/check.py run $p --tier $T > /tmp/runmany-$T-$p.log 2>&1
  rc=$?
  echo "RESULT $p tier=$T rc=$rc wall=$(( $(date +%s) - s ))s $(grep -c KNOWN-FINDING /tmp/runmany-$T-$p.log) known $(tail -n 1 /tmp/runmany-$T-$p.log | cut -c1-160)"
done
