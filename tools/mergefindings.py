#!/usr/bin/env python3
"""usage: mergefindings.py <family> id=commit [id=commit ...]
moves known_findings.d/<family>.json into known_findings.json; ids given with a commit become `fixed`."""
import json, sys, os
fam = sys.argv[1]
fixed = dict(a.split("=") for a in sys.argv[2:])
kd = json.load(open("known_findings.json"))
p = "known_findings.d/%s.json" % fam
cd = json.load(open(p))
have = set(f["id"] for f in kd["findings"])
for f in cd["findings"]:
    if f["id"] in have:
        continue
    if f["id"] in fixed:
        f["status"] = "fixed"
        f["commit"] = fixed[f["id"]]
        f["line"] = "fixed: property=%s %s %s" % (f["property"], f["commit"], f["what"][:200])
    kd["findings"].append(f)
json.dump(kd, open("known_findings.json", "w"), indent=1)
os.remove(p)
print("merged", len(cd["findings"]), "findings of", fam)
