"""helpers for registry entries"""


def corrupt_field(op, field, fn):
    """returns a corruptor for the binding self-test: the first event with `op` for which fn(event)
    gives a different value of `field` is changed in place; returns its index (or None)"""
    def cor(evs):
        for i, e in enumerate(evs):
            if e.get("op") == op and field in e:
                new = fn(e)
                if new is not None and new != e[field]:
                    e[field] = new
                    return i
        return None
    return cor
