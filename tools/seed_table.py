#!/usr/bin/env python3
"""Copies the seeded changes from /tmp/seed-Cxx-out into /verif/seeded/Cxx-1 and writes their meta.json from the table below
(needs_to_manifest is taken from each author's NOTES.md summary; results from tools/seedconfirm.sh and tools/seedrun.sh)."""
import json, os, shutil, glob, re, sys

T = {
 "C01": ("an unaligned write followed by ONE Write large enough to flush two chunks (pending + len >= 2*ChunkSize)", "machinery error at first (the joiner panicked in its own goroutine and killed the driver: exit 2)", "filedrv now runs scenarios in supervised child processes; clause reading_back_does_not_crash"),
 "C02": ("same feeder slip: a Write arriving while the feeder is unaligned and crossing two chunk boundaries in one call", "caught (quick)", None),
 "C03": ("at least two Writes, the last crossing a section boundary and ending at a smaller in-section offset, on a REUSED pooled tree that still holds bytes of a longer earlier chunk", "detected but UNREPRODUCED (exit 2): the failure depends on which pooled tree a scenario gets, an isolated re-run uses fresh trees", "confirmation falls back to re-running the scenario with its predecessors and finally the whole batch (schedule/pool dependent failures)"),
 "C04": ("a full 256 KiB chunk presented under its own address with 1..8 trailing bytes (upper bound applied to the part after the span; the hasher truncates)", "caught (quick)", None),
 "C05": ("signature byte v replaced by v-27 (a 'raw recovery id' normalisation in Recover)", "caught (quick)", None),
 "C06": ("retrieval reply = a FULL-size chunk plus 1..8 trailing bytes", "MISSED: the over-long reply class appended 1..64 random bytes, rarely <= 8", "over-long classes are boundary-dense now (1,2,7,8,9,16,64 extra bytes)"),
 "C07": ("a Seek rejected for being past the end, followed by Read or Seek(.., SeekCurrent): the rejected position was kept", "caught (quick)", None),
 "C08": ("an encrypted intermediate chunk whose span exceeds 1 GiB (Branches used where EncryptedBranches is needed)", "caught (quick)", None),
 "C09": ("a file of k*8192+1 data chunks (dangling last chunk below the root), observer looks at the CONTENT of GetChunkHashes / pyramid cover", "MISSED: no k*Branches+1 file in the quick tier (2 GiB uploads were thorough-optional)", "hand-written k*8192+1 / +2 trees from repeated chunks inside a directory manifest, in quick and thorough"),
 "C10": ("two mapped paths sharing an unmapped proper prefix, Store, then Lookup of exactly that branching string", "caught (quick)", None),
 "C19": ("Iterate with StartFrom + SkipStartFromItem where the start item is NOT stored", "caught (quick)", None),
 "C20": ("two addresses sharing their first 36 bits and first differing in bits 36..39", "MISSED: ordering triples never shared that many leading bits", "ordering class parameterised by the common-prefix length k = 0..48,100,200,255 x target in/out/self"),
 "C21": ("a Remove that hits the bin being iterated (from the callback or another goroutine): in-place removal", "machinery error at first (driver refused an address it never supplied: exit 2)", "pslicedrv logs foreign addresses as peer (99,99); caught by no_panic / iteration clauses"),
 "C22": ("depth > 0, a bin shallower than the depth mixing reachable and unreachable peers, a reachable peer of it disconnects (Disconnected skips the recomputation using BinSize)", "MISSED (quick)", "exhaustive family: every vector of per-bin classes mixing reachable/unreachable peers with positive depth, then Disconnected / DisconnectForce of a reachable and an unreachable peer of every bin, judged immediately"),
 "C23": ("includeSelf, own reachability Public, every connected peer skipped: NotFound instead of WantSelf", "not a violation under the judge's reading (the statement's two 'exactly when' clauses overlap in that corner; both answers are accepted)", None),
 "C24": ("protect a set containing P, refresh to exactly the EMPTY set (dropped), P's bin oversaturated, P dials in", "MISSED (quick)", "exhaustive protect-refresh family over an oversaturated topology (pairs of successive refresh sets incl. the empty one, then pick/inbound of formerly protected peers); generator variable `ever` separates formerly protected peers in the VIEW"),
 "C25": ("a shorter add late in a longer block (re-stamp dropped), query after the first block's expiry", "caught (quick)", None),
 "C26": ("Unflag arriving while the network is unavailable is dropped; later sweep blocklists a peer that had succeeded", "caught (quick)", None),
 "C27": ("alpha+1 paths to one target, then reload (list persisted before trimming)", "caught (quick)", None),
 "C28": ("a relaying node without a usable next hop falls back to discovery and forwards to a node already on the path", "MISSED (quick): relay fallback to discovery not modelled", "RouteDiscovery.tla: a relay without a stored hop off its path starts a search and is parked/resumed; LinkDown/LinkUp between discovery and relay; driver ops linkdown/linkup; six phased scenarios in both tiers"),
 "C29": ("requester in the known set, target != requester, its PO requested, limit >= 2: skip list re-created", "caught (quick)", None),
 "C30": ("accept H; a stale lower L is rejected but overwrites the last-received record; replay of H is credited again", "caught (quick)", None),
 "C31": ("credit, refresh (aliases cheque and chain totals), pay with successful delivery: in-place Set", "caught (quick)", None),
 "C32": ("two concurrent FIRST operations on the same unknown peer (map lookup moved out of the lock): one update lost; -race silent", "MISSED (quick)", "Accounting.tla: first contact with a peer is its own step under the map mutex (RetrieveTraffic on the stub is a gate); fresh-peer schedules Credit/Credit, Credit/Notify, Reserve/Credit in quick"),
 "C33": ("a live refresh racing with an update of the same peer (store reads moved above the lock), one more update, restart", "MISSED (quick): refresh not scheduled concurrently", "Traffic.tla: the per-peer refresh as a scheduled goroutine whose two store reads are gates (GateStore gates Get); family {refresh || update; update; restart}, all prefixes, in quick"),
 "C34": ("two network ids equal in the low 32 bits (upper half no longer signed)", "MISSED (quick): network id classes were small numbers", "network ids carried symbolically (NetTerm(base, variant)), classes hi32, b0, b31, b32, b63 (thorough: all 64 bits) on all five acceptance paths"),
 "C35": ("token used while alive (cached), expires, RefreshKey (expiry only checked on cache miss)", "MISSED (quick): only born-expired tokens were generated", "real-time expiry family (2 s tokens, run in parallel): use-expire-refresh, expire-enforce-refresh, refresh-alive-expire, ...; edge-of-expiry calls only judged for no_panic"),
 "C36": ("ImportKey with a keystore JSON that is self-consistent under a foreign password", "caught (quick)", None),
 "C37": ("a padded presence vector, then an exact-size one for the same root and overlay: SetBytes indexes out of range in the chunk-put goroutine", "machinery error at first (an unfinished growth pipeline was attached to C37 and did not build in the fresh worktree)", "growth pipelines are attached only when listed in tools/also_enabled.txt; then caught (quick): no_panic"),
 "C38": ("add(p) while neighbour; p stops being a neighbour with no remove in between; add(p) again: p in connected and kept", "MISSED (quick)", "Multicast.tla: Disconnect split into NbrDown (route table) and DisconnectEvent (queued event); complete 1-peer edge cover with the pre-state in the VIEW"),
 "C39": ("a mask with a zero byte followed by a byte with low bits set (index jumps 9 bits)", "caught (quick)", None),
 "C40": ("an unsubscription applied (in place) while a publish for the key is in flight, >= 2 subscribers", "MISSED (quick): publish modelled as atomic", "PubSub.tla: a publication is PubBegin/PubLoad/PubDeliver/PubNext interleaved with ApplySub/ApplyUnsub; harness Notify is a gate; clause no_duplicate_delivery"),
}


def status(p):
    c = open("/tmp/seedconfirm-%s.log" % p).read().strip() if os.path.exists("/tmp/seedconfirm-%s.log" % p) else ""
    log = "/tmp/seedrun-%s.log" % p
    rc, clauses = None, []
    if os.path.exists(log):
        txt = open(log, errors="replace").read()
        m = re.findall(r"seedrun %s rc=(\d)" % p, txt)
        rc = int(m[-1]) if m else None
        clauses = sorted(set(re.findall(r"failing clause ([a-z_0-9]+)", txt)))
    return c, rc, clauses


for p, (needs, first, change) in sorted(T.items()):
    src = "/tmp/seed-%s-out" % p
    if not os.path.exists(os.path.join(src, "patch.diff")):
        continue
    d = "/verif/seeded/%s-1" % p
    os.makedirs(d + "/demo", exist_ok=True)
    shutil.copy(src + "/patch.diff", d)
    for f in glob.glob(src + "/NOTES.md") + glob.glob(src + "/confirm_with*.txt"):
        shutil.copy(f, d)
    for f in glob.glob(src + "/demo/*.go") + glob.glob(src + "/demo/README*"):
        shutil.copy(f, d + "/demo")
    c, rc, clauses = status(p)
    now = {1: "caught (quick): " + ", ".join(clauses[:3]), 0: "not reported by the quick tier", 2: "no verdict (exit 2)", None: "not run"}[rc]
    json.dump({"property": p, "seed": p + "-1", "breaks": p, "needs_to_manifest": needs,
               "demonstration": "demo/ (external test package run inside a worktree; see demo/README*); " + (c or "not confirmed"),
               "ran": ["tools/seedconfirm.sh (demo without / with the patch)", "tools/seedrun.sh %s seeded/%s-1/patch.diff (fresh worktree of /repo HEAD + patch, VERIF_REPO)" % (p, p)],
               "first_result": first, "result_now": now, "check_change": change,
               "author": "independent sub-agent given only the property text and a scratch worktree"},
              open(d + "/meta.json", "w"), indent=1)
    print(p, "|", now)
