#!/bin/sh
# Offline setup: warms the Go build cache by compiling every driver against /repo, and checks TLC starts.
set -e
cd "$(dirname "$0")/.."
export GOFLAGS=-mod=mod GOPROXY=off GOSUMDB=off GOTOOLCHAIN=local
cp /repo/go.sum harness/go.sum
OUT=$(mktemp -d /tmp/verif-setup.XXXXXX)
(cd harness && go build -tags "leveldb verif" -ldflags=-checklinkname=0 -o "$OUT/" ./cmd/...)
rm -rf "$OUT"
java -cp /opt/veriftools/tla/tla2tools.jar tlc2.TLC -h >/dev/null 2>&1 || true
python3 tools/mkmanifest.py >/dev/null
echo setup ok
