#!/bin/sh
# Offline setup: regenerates MANIFEST.json, warms the Go build cache by compiling the driver of every claimed
# check against /repo, and checks that TLC starts.
set -e
cd "$(dirname "$0")/.."
export GOFLAGS=-mod=mod GOPROXY=off GOSUMDB=off GOTOOLCHAIN=local
cp /repo/go.sum harness/go.sum
python3 tools/mkmanifest.py >/dev/null
OUT=$(mktemp -d /tmp/verif-setup.XXXXXX)
trap 'rm -rf "$OUT"' EXIT
for d in $(python3 - <<'PY'
import sys, os
sys.path.insert(0, "tools")
from registry import REGISTRY
ver = set(l.split()[0] for l in open("tools/verified.txt") if l.strip() and not l.startswith("#"))
print(" ".join(sorted(set(REGISTRY[p]["driver"] for p in REGISTRY if p in ver))))
PY
); do
  (cd harness && go build -tags "leveldb verif" -ldflags=-checklinkname=0 -o "$OUT/$d" ./cmd/$d)
done
java -cp /opt/veriftools/tla/tla2tools.jar tlc2.TLC -h >/dev/null 2>&1 || true
echo setup ok
