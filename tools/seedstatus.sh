#!/bin/sh
# one line per seed: demo confirmation and result of the check against the mutant
for d in /tmp/seed-C*-out; do p=$(basename $d | sed 's/seed-//; s/-out//'); c=$(cat /tmp/seedconfirm-$p.log 2>/dev/null | sed 's/.*: //'); r=$(grep -h "^seedrun $p" /tmp/seedrun-$p.log 2>/dev/null | tail -1); cl=$(grep -h -o "failing clause [a-z_0-9]*" /tmp/seedrun-$p.log 2>/dev/null | head -2 | tr '\n' ';'); echo "$p | ${c:-no-confirm} | ${r:-no-run} | $cl"; done
