#!/bin/sh
# Runs the repository's own test suite with the verif guard OFF and compares the result with
# /root/.vp/BASELINE.json (every stable_pass test must still pass).  Usage: tools/baseline.sh [pkgpattern]
# Output log in $BASELINE_LOG (default: a temp file that is removed).
export GOFLAGS=-mod=mod GOPROXY=off GOSUMDB=off GOTOOLCHAIN=local
LOG=${BASELINE_LOG:-$(mktemp /tmp/verif-baseline.XXXXXX)}
PAT=${1:-./...}
(cd /repo && go test -mod=mod -json -vet=off -count=1 -timeout 25m $PAT) > "$LOG" 2>&1
python3 - "$LOG" "$PAT" <<'PY'
import json, sys
log, pat = sys.argv[1], sys.argv[2]
base = json.load(open('/root/.vp/BASELINE.json'))
passed, failed, pkgs = set(), set(), set()
for line in open(log, errors='replace'):
    line = line.strip()
    if not line.startswith('{'):
        continue
    try:
        ev = json.loads(line)
    except Exception:
        continue
    a, pkg, t = ev.get('Action'), ev.get('Package', ''), ev.get('Test')
    pkgs.add(pkg)
    if t is None or a not in ('pass', 'fail'):
        continue
    (passed if a == 'pass' else failed).add(pkg + '::' + t)
passed -= failed
want = [t for t in base['stable_pass'] if t.split('::')[0] in pkgs] if pat != './...' else base['stable_pass']
missing = [t for t in want if t not in passed]
print('baseline: %d stable tests expected, %d passed now, %d missing' % (len(want), len(want) - len(missing), len(missing)))
for m in missing[:40]:
    print('  MISSING', m)
sys.exit(1 if missing else 0)
PY
rc=$?
[ -z "$BASELINE_LOG" ] && rm -f "$LOG"
exit $rc
