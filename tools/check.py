#!/usr/bin/env python3
"""Orchestrator of the model-based checks (see DESIGN.md section 2).

  check.py run <Cxx> [--tier quick|thorough]     one check: design check (TLC), scenario generation (TLC),
                                                 execution on the real code (Go driver built from /repo),
                                                 judgement of the recorded trace (TLC), confirmation, evidence
  check.py replay <file>                         re-run one saved failing scenario and judge it again
  check.py selftest <Cxx>                        show that the judge rejects a corrupted recording

Exit codes: 0 property held on everything explored (KNOWN-FINDING lines may be printed),
            1 reproduced violation not listed in known_findings.json (VIOLATION line printed),
            2 the machinery could not reach a verdict (build error, TLC error, timeout, unreproduced failure).
"""
import argparse
import json
import os
import random
import re
import shutil
import subprocess
import sys
import tempfile
import time

ROOT = os.path.dirname(os.path.dirname(os.path.abspath(__file__)))
sys.path.insert(0, os.path.join(ROOT, "tools"))

GOENV = dict(GOFLAGS="-mod=mod", GOPROXY="off", GOSUMDB="off", GOTOOLCHAIN="local")
TLC_JAR = "/opt/veriftools/tla/tla2tools.jar:/opt/veriftools/tla/CommunityModules-deps.jar"


class Machinery(Exception):
    """the check could not reach a verdict (exit 2)"""


def log(*a):
    print(*a, flush=True)


# ---------------------------------------------------------------------------------------------
# TLC
# ---------------------------------------------------------------------------------------------
def tlc(scratch, spec, cfg, *, workers=1, timeout=600, env=None, extra=(), tag="tlc", heap=None, dfs=False):
    """Run TLC in `scratch` (which already holds the .tla/.cfg files). Returns (stdout, stats)."""
    meta = tempfile.mkdtemp(prefix="meta-", dir=scratch)
    jopts = ["-XX:+UseParallelGC", "-Xss64m", "-Djava.io.tmpdir=" + meta]   # TLC leaves an empty tlc-<n> dir per run in the tmpdir
    if heap:
        jopts.append("-Xmx%s" % heap)
    if dfs:
        jopts.append("-Dtlc2.tool.queue.IStateQueue=StateDeque")
    cmd = ["java"] + jopts + ["-cp", TLC_JAR, "tlc2.TLC", "-workers", str(workers), "-metadir", meta,
                              "-config", cfg] + list(extra) + [spec]
    e = dict(os.environ)
    e.update(env or {})
    t0 = time.time()
    try:
        p = subprocess.run(cmd, cwd=scratch, env=e, stdout=subprocess.PIPE, stderr=subprocess.STDOUT,
                           timeout=timeout, text=True, errors="replace")
    except subprocess.TimeoutExpired:
        raise Machinery("%s: TLC timed out after %ss (%s %s)" % (tag, timeout, spec, cfg))
    finally:
        shutil.rmtree(meta, ignore_errors=True)
    out = p.stdout
    stats = dict(wall_s=round(time.time() - t0, 2), rc=p.returncode)
    m = re.search(r"(\d+) states generated, (\d+) distinct states found", out)
    if m:
        stats["transitions"] = int(m.group(1))
        stats["states"] = int(m.group(2))
    m = re.search(r"The number of states generated: (\d+)", out)
    if m:
        stats["sim_states"] = int(m.group(1))
    return out, stats


def tlc_ok(out):
    return ("Model checking completed. No error has been found." in out) or ("Finished in" in out and "Error:" not in out
                                                                            and "is violated" not in out)


def printed(out, key):
    """values printed by PrintT(<<"KEY", x>>): returns list of raw right-hand sides"""
    res = []
    pre = '<<"%s", ' % key
    for line in out.splitlines():
        if line.startswith(pre) and line.endswith(">>"):
            res.append(line[len(pre):-2])
    return res


def tla_str(raw):
    """a TLA+ string literal as printed by TLC -> python str"""
    raw = raw.strip()
    if not (raw.startswith('"') and raw.endswith('"')):
        raise Machinery("not a string literal: %.80s" % raw)
    return json.loads(raw)


def prepare_scratch(module_dirs):
    scratch = tempfile.mkdtemp(prefix="verif-")
    for d in ["common"] + list(module_dirs):
        src = os.path.join(ROOT, "spec", d)
        for f in os.listdir(src):
            if f.endswith((".tla", ".cfg")):
                shutil.copy(os.path.join(src, f), scratch)
    return scratch


# ---------------------------------------------------------------------------------------------
# driver
# ---------------------------------------------------------------------------------------------
def build_driver(scratch, name, race=False):
    out = os.path.join(scratch, name + ("-race" if race else ""))
    if os.path.exists(out):
        return out
    env = dict(os.environ)
    env.update(GOENV)
    hdir = os.path.join(ROOT, "harness")
    repo = os.environ.get("VERIF_REPO", "/repo")
    if repo != "/repo":
        # build against another tree (a scratch worktree with a candidate change): private copy of the harness
        hdir = os.path.join(scratch, "harness")
        if not os.path.isdir(hdir):
            shutil.copytree(os.path.join(ROOT, "harness"), hdir)
            gm = open(os.path.join(hdir, "go.mod")).read().replace("=> /repo", "=> " + repo)
            open(os.path.join(hdir, "go.mod"), "w").write(gm)
    # go.sum follows the repository's
    try:
        shutil.copy(os.path.join(repo, "go.sum"), os.path.join(hdir, "go.sum"))
    except OSError:
        pass
    cmd = ["go", "build", "-tags", "leveldb verif", "-ldflags=-checklinkname=0"]
    if race:
        cmd.append("-race")
    cmd += ["-o", out, "./cmd/" + name]
    p = subprocess.run(cmd, cwd=hdir, env=env, stdout=subprocess.PIPE, stderr=subprocess.STDOUT, text=True)
    if p.returncode != 0:
        raise Machinery("driver build failed:\n" + p.stdout[-4000:])
    return out


def run_driver(binary, scn_file, trace_file, seed, timeout=900, env_extra=None, args=()):
    env = dict(os.environ)
    env["VERIF_SEED"] = str(seed)
    env.update(env_extra or {})
    try:
        p = subprocess.run([binary, "exec", scn_file, trace_file] + list(args), env=env, stdout=subprocess.PIPE,
                           stderr=subprocess.PIPE, timeout=timeout, text=True, errors="replace")
    except subprocess.TimeoutExpired:
        raise Machinery("driver timed out after %ss" % timeout)
    if p.returncode != 0:
        raise Machinery("driver failed (rc=%s): %s" % (p.returncode, (p.stderr or p.stdout)[-3000:]))
    return p.stderr


# ---------------------------------------------------------------------------------------------
# generation
# ---------------------------------------------------------------------------------------------
def gen_tlc(scratch, g, seed, prop):
    env = {"VERIF_DEPTH": str(g.get("depth", 4)), "VERIF_SEED": str(seed)}
    env.update({k: str(v) for k, v in g.get("env", {}).items()})
    extra = []
    if g["mode"] == "sim":
        extra = ["-simulate", "num=%d" % g.get("num", 100), "-depth", str(g.get("depth", 4) + 1),
                 "-seed", str(seed * 7919 + g.get("salt", 0))]
    out, st = tlc(scratch, g["spec"], g["cfg"], workers=g.get("workers", 1), timeout=g.get("timeout", 600),
                  env=env, extra=extra, tag="gen")
    if "Error:" in out and "SCN" not in out:
        raise Machinery("generator %s/%s failed:\n%s" % (g["spec"], g["cfg"], out[-3000:]))
    if re.search(r"Error: (?!.*deadlock)", out) and "is violated" in out:
        raise Machinery("generator %s/%s reported an error:\n%s" % (g["spec"], g["cfg"], out[-3000:]))
    scs = []
    for raw in printed(out, "SCN"):
        js = tla_str(raw)
        v = json.loads(js)
        if isinstance(v, dict):
            scs.append(v)           # {"par":…, "ops":[…]}
        else:
            scs.append({"ops": v})
    return scs, st


def dedup_prefixes(scs):
    """drop scenarios that are identical to, or a strict prefix of, another one (same par)"""
    keyed = sorted(((json.dumps(s.get("par", {}), sort_keys=True), [json.dumps(o, sort_keys=True) for o in s["ops"]], s)
                    for s in scs), key=lambda t: (t[0], t[1]))
    out = []
    for i, (par, ops, s) in enumerate(keyed):
        if i + 1 < len(keyed):
            npar, nops, _ = keyed[i + 1]
            if npar == par and len(nops) >= len(ops) and nops[:len(ops)] == ops:
                continue
        out.append(s)
    return out


def generate(scratch, spec, tier, seed, prop):
    from concurrent.futures import ThreadPoolExecutor
    scs = []
    gstats = []
    gens = spec["gen"][tier]
    tl = [g for g in gens if g["mode"] != "py"]
    with ThreadPoolExecutor(max_workers=max(1, min(4, len(tl)))) as ex:
        futs = {id(g): ex.submit(gen_tlc, scratch, g, seed, prop) for g in tl}
    for g in gens:
        if g["mode"] == "py":
            part = g["fn"](seed, tier)
            st = {"mode": "py", "n": len(part)}
        else:
            part, st = futs[id(g)].result()
            st["mode"] = g["mode"]
            if g["mode"] == "edges" or g.get("dedup"):
                part = dedup_prefixes(part)
            rnd = random.Random(seed * 31 + 7)
            if g.get("max") and len(part) > g["max"]:
                rnd.shuffle(part)
                part = part[:g["max"]]
            st["n"] = len(part)
        for p in part:
            p.setdefault("src", g.get("name", g["mode"]))
        gstats.append(st)
        scs.extend(part)
    if spec.get("post_gen"):
        scs = spec["post_gen"](scs, seed, tier)
    for i, s in enumerate(scs):
        s["scn"] = i + 1
    return scs, gstats


# ---------------------------------------------------------------------------------------------
# judge
# ---------------------------------------------------------------------------------------------
def judge(scratch, spec, trace_file, timeout=1800):
    j = spec["judge"]
    env = {"TRACE": trace_file}
    env.update({k: str(v) for k, v in j.get("env", {}).items()})
    out, st = tlc(scratch, j["spec"], j["cfg"], workers=1, timeout=timeout, env=env, tag="judge",
                  dfs=j.get("dfs", False))
    b = printed(out, "BAD")
    jd = printed(out, "JUDGED")
    if not b or not jd or "No error has been found" not in out:
        raise Machinery("judge %s did not complete:\n%s" % (j["spec"], out[-4000:]))
    bad = json.loads(tla_str(b[-1]))
    notes = []
    n = printed(out, "NOTES")
    if n:
        notes = json.loads(tla_str(n[-1]))
    return bad, notes, int(jd[-1]), st


def clauses_for(prop, rec):
    """clauses of a bad record that belong to property `prop` (prefix 'Cxx:' or no prefix)"""
    out = []
    for c in rec["clauses"]:
        if re.match(r"^C\d+:", c):
            if c.startswith(prop + ":"):
                out.append(c.split(":", 1)[1])
        else:
            out.append(c)
    return out


def load_events(trace_file):
    with open(trace_file) as f:
        return [json.loads(x) for x in f if x.strip()]


# ---------------------------------------------------------------------------------------------
# known findings
# ---------------------------------------------------------------------------------------------
def load_findings():
    p = os.path.join(ROOT, "known_findings.json")
    out = []
    if os.path.exists(p):
        with open(p) as f:
            out = list(json.load(f)["findings"])
    # per-family files used while a family is being built; merged into known_findings.json on integration
    d = os.path.join(ROOT, "known_findings.d")
    if os.path.isdir(d):
        for fn in sorted(os.listdir(d)):
            if fn.endswith(".json"):
                with open(os.path.join(d, fn)) as f:
                    out.extend(json.load(f)["findings"])
    return out


def match_finding(prop, clause, ev, scn, findings):
    for fd in findings:
        if fd.get("status") != "open" or fd["property"] != prop:
            continue
        sig = fd["signature"]
        if sig.get("clause") and sig["clause"] != clause:
            continue
        if sig.get("op") and sig["op"] != ev.get("op"):
            continue
        if sig.get("where"):
            try:
                env = {"__builtins__": {"len": len, "any": any, "all": all, "set": set, "min": min, "max": max,
                                        "str": str, "int": int, "sorted": sorted, "isinstance": isinstance,
                                        "list": list, "dict": dict, "sum": sum, "abs": abs, "range": range,
                                        "enumerate": enumerate, "zip": zip, "bool": bool, "tuple": tuple, "map": map, "filter": filter, "repr": repr},
                       # in the globals, so that comprehensions / lambdas inside the expression see them
                       "e": ev, "scn": scn, "ops": scn.get("ops", []), "par": scn.get("par", {})}
                if not eval(sig["where"], env):
                    continue
            except Exception:
                continue
        return fd
    return None


# ---------------------------------------------------------------------------------------------
# one run
# ---------------------------------------------------------------------------------------------
def write_ndjson(path, items):
    with open(path, "w") as f:
        for it in items:
            f.write(json.dumps(it, sort_keys=True) + "\n")


def exec_and_judge(scratch, spec, scs, seed, tagname, race=False):
    scn_file = os.path.join(scratch, tagname + "-scn.ndjson")
    trace_file = os.path.join(scratch, tagname + "-trace.ndjson")
    write_ndjson(scn_file, scs)
    tb = time.time()
    binary = build_driver(scratch, spec["driver"], race=race)
    td = time.time()
    stderr = run_driver(binary, scn_file, trace_file, seed, timeout=spec.get("driver_timeout", 1500),
                        env_extra=spec.get("driver_env"), args=spec.get("driver_args", ()))
    te = time.time()
    bad, notes, judged, st = judge(scratch, spec, trace_file, timeout=spec.get("judge_timeout", 1800))
    st["build_s"] = round(td - tb, 1)
    st["driver_s"] = round(te - td, 1)
    return bad, notes, judged, st, trace_file, stderr


def corrupt_selftest(scratch, spec, trace_file, prop, skip_scns=()):
    """Binding self-test: corrupt one recorded field of a passing recording; the judge must object.
    Scenarios that already have failing events (known findings) are left out."""
    cor = spec.get("corrupt")
    if not cor:
        return None
    evs = [e for e in load_events(trace_file) if e.get("scn") not in skip_scns]
    # first scenarios only (keeps it cheap)
    cut = len(evs)
    seen = 0
    for i, e in enumerate(evs):
        if e.get("op") == "reset":
            seen += 1
            if seen > spec.get("selftest_scenarios", 40):
                cut = i
                break
    evs = evs[:cut]
    idx = cor(evs)
    if idx is None:
        return {"done": False, "why": "no event suitable for corruption in the first scenarios"}
    p = os.path.join(scratch, "selftest-trace.ndjson")
    write_ndjson(p, evs)
    bad, _, _, _ = judge(scratch, spec, p)
    hit = [b for b in bad if b["line"] == idx + 1 and clauses_for(prop, b)]
    if not hit:
        raise Machinery("self-test: the judge accepted a corrupted recording (line %d)" % (idx + 1))
    return {"done": True, "corrupted_line": idx + 1, "rejected_by": clauses_for(prop, hit[0])}


def pipelines_of(spec):
    """a check = its main pipeline + optional extra pipelines (`also`): other module/generator/driver/judge
    combinations whose recordings are judged for the same property"""
    out = [spec]
    for extra in spec.get("also", []):
        m = dict(spec)
        m.pop("also", None)
        m.update(extra)
        out.append(m)
    return out


def run_pipeline(prop, spec, tier, seed, findings, label):
    scratch = prepare_scratch(spec["modules"])
    try:
        # 1. design check(s)
        dstats = []
        for d in spec.get("design", []):
            if tier == "quick" and d.get("thorough_only"):
                continue
            extra = list(d.get("extra", []))
            env = {k: str(v) for k, v in d.get("env", {}).items()}
            if tier == "thorough":
                env.update({k: str(v) for k, v in d.get("env_thorough", {}).items()})
                if d.get("coverage", True):
                    extra += ["-coverage", "1"]
            out, st = tlc(scratch, d["spec"], d["cfg_thorough"] if tier == "thorough" and d.get("cfg_thorough") else d["cfg"],
                          workers=d.get("workers", 8), timeout=d.get("timeout", 900), extra=extra, tag="design", env=env)
            if "No error has been found" not in out:
                raise Machinery("design check %s/%s did not pass (the model is wrong or too big):\n%s"
                                % (d["spec"], d["cfg"], out[-3000:]))
            st["spec"] = d["spec"]
            st["cfg"] = d["cfg"]
            if tier == "thorough" and d.get("coverage", True):
                zero = re.findall(r"<(\w+) line \d+, col \d+ to line \d+, col \d+ of module (\w+)>: 0:0", out)
                st["actions_never_taken"] = sorted(set(a for a, _ in zero))
            dstats.append(st)
            log("design  %-28s states=%s transitions=%s (%.1fs)" % (d["cfg"], st.get("states"), st.get("transitions"), st["wall_s"]))

        # 2. generate
        scs, gstats = generate(scratch, spec, tier, seed, prop)
        if not scs:
            raise Machinery("no scenarios generated")
        log("generate %d scenarios %s" % (len(scs), [(g["mode"], g["n"]) for g in gstats]))

        # 3+4. execute on the real code, judge
        race = bool(spec.get("race")) and (tier == "thorough" or spec.get("race") == "always")
        bad, notes, judged, jst, trace_file, _ = exec_and_judge(scratch, spec, scs, seed, "main", race=race)
        log("execute build=%.1fs driver=%.1fs" % (jst["build_s"], jst["driver_s"]))
        log("judge   %d events of %d scenarios: %d failing events (%.1fs)" % (judged, len(scs), len(bad), jst["wall_s"]))

        mine = []
        for b in bad:
            cs = clauses_for(prop, b)
            if cs:
                mine.append((b, cs))

        selftest = None

        # 5. confirm + classify
        by_scn = {s["scn"]: s for s in scs}
        events = None
        violations = []
        known = {}
        unreproduced = []
        if mine:
            events = load_events(trace_file)
            # group failing events by (clause, finding/None)
            groups = {}
            for b, cs in mine:
                ev = events[b["line"] - 1]
                ev["_info"] = b.get("info", {})
                scn = by_scn.get(b["scn"], {})
                for c in cs:
                    fd = match_finding(prop, c, ev, scn, findings)
                    key = (c, fd["id"] if fd else None)
                    groups.setdefault(key, []).append((b, ev, scn))
            for (clause, fid), items in sorted(groups.items(), key=lambda kv: (kv[0][0], str(kv[0][1]))):
                # confirm on the shortest failing scenarios, alone, in a fresh process
                items.sort(key=lambda t: len(t[2].get("ops", [])))
                confirmed = None
                tried = 0
                seen_scn = set()
                for b, ev, scn in items:
                    if scn.get("scn") in seen_scn:
                        continue
                    seen_scn.add(scn.get("scn"))
                    if tried >= 3:
                        break
                    tried += 1
                    one = dict(scn)
                    cb, _, _, _, ctrace, _ = exec_and_judge(scratch, spec, [one], seed, "confirm%d" % tried, race=race)
                    cev = load_events(ctrace)
                    again = False
                    for r in cb:
                        if clause in clauses_for(prop, r):
                            e2 = cev[r["line"] - 1]
                            e2["_info"] = r.get("info", {})
                            fd2 = match_finding(prop, clause, e2, one, findings)
                            if (fd2["id"] if fd2 else None) == fid:
                                again = True
                                confirmed = (one, e2, r)
                                break
                    if again:
                        break
                if confirmed is None:
                    # the failure may depend on what earlier scenarios left behind in the process (pools, caches):
                    # re-run the scenario together with the ones before it, again in a fresh process
                    b0, ev0, scn0 = items[0]
                    idx = next((k for k, x in enumerate(scs) if x.get("scn") == scn0.get("scn")), None)
                    if idx is not None and idx > 0:
                        window = [dict(x) for x in scs[max(0, idx - spec.get("confirm_window", 300)):idx + 1]]
                        cb, _, _, _, ctrace, _ = exec_and_judge(scratch, spec, window, seed, "confirmw", race=race)
                        cev = load_events(ctrace)
                        for r in cb:
                            if r["scn"] == scn0.get("scn") and clause in clauses_for(prop, r):
                                e2 = cev[r["line"] - 1]
                                e2["_info"] = r.get("info", {})
                                fd2 = match_finding(prop, clause, e2, scn0, findings)
                                if (fd2["id"] if fd2 else None) == fid:
                                    confirmed = (dict(scn0, _with_predecessors=window[:-1]), e2, r)
                                    break
                if confirmed is None and len(scs) > 1 and spec.get("confirm_batch", True):
                    # schedule-dependent failures (free-running goroutines, shared pools): the same scenario need not
                    # fail twice, but the clause must fail again when the whole batch is executed once more
                    cb, _, _, _, ctrace, _ = exec_and_judge(scratch, spec, [dict(x) for x in scs], seed, "confirmb", race=race)
                    cev = load_events(ctrace)
                    for r in cb:
                        if clause in clauses_for(prop, r):
                            e2 = cev[r["line"] - 1]
                            e2["_info"] = r.get("info", {})
                            sc2 = by_scn.get(r["scn"], {})
                            fd2 = match_finding(prop, clause, e2, sc2, findings)
                            if (fd2["id"] if fd2 else None) == fid:
                                pred = [dict(x) for x in scs if x.get("scn") != sc2.get("scn")]
                                confirmed = (dict(sc2, _with_predecessors=pred, _any=True), e2, r)
                                break
                if confirmed is None:
                    unreproduced.append({"clause": clause, "scn": items[0][2].get("scn"), "event": items[0][1]})
                    continue
                if fid is not None:
                    known[fid] = known.get(fid, 0) + len(items)
                else:
                    violations.append({"clause": clause, "count": len(items), "scenario": confirmed[0],
                                       "event": confirmed[1], "pipe": label})

        if not violations and not unreproduced:
            selftest = corrupt_selftest(scratch, spec, trace_file, prop, skip_scns=set(b["scn"] for b in bad))

        nontriv = spec.get("nontrivial", lambda s: len(s.get("ops", [])) > 0)
        canon = set()
        for s in scs:
            if nontriv(s):
                canon.add(json.dumps({"par": s.get("par"), "ops": s["ops"]}, sort_keys=True))
        samples = [{"par": s.get("par"), "ops": s["ops"][:12]} for s in scs[:: max(1, len(scs) // 3)][:3]]
        return dict(dstats=dstats, gstats=gstats, nscs=len(scs), judged=judged, jst=jst, notes=notes, selftest=selftest,
                    violations=violations, known=known, unreproduced=unreproduced, race=race, canon=canon, samples=samples,
                    judge=spec["judge"]["spec"], driver=spec["driver"])
    finally:
        if os.environ.get("VERIF_KEEP"):
            log("scratch kept: " + scratch)
        else:
            shutil.rmtree(scratch, ignore_errors=True)


def run_check(prop, tier, seed):
    from registry import REGISTRY
    if prop not in REGISTRY:
        raise Machinery("no check registered for " + prop)
    spec = REGISTRY[prop]
    t0 = time.time()
    findings = load_findings()
    results = []
    for i, pspec in enumerate(pipelines_of(spec)):
        if i > 0:
            log("-- additional pipeline %d: driver %s, judge %s" % (i, pspec["driver"], pspec["judge"]["spec"]))
        results.append(run_pipeline(prop, pspec, tier, seed, findings, i))

    violations = [v for r in results for v in r["violations"]]
    unreproduced = [u for r in results for u in r["unreproduced"]]
    known = {}
    for r in results:
        for k, v in r["known"].items():
            known[k] = known.get(k, 0) + v
    notes = [n for r in results for n in r["notes"]]
    dstats = [d for r in results for d in r["dstats"]]
    canon = set()
    for i, r in enumerate(results):
        canon |= set("%d:%s" % (i, c) for c in r["canon"])
    judged = sum(r["judged"] for r in results)
    nscs = sum(r["nscs"] for r in results)
    cov = {
        "evaluations": judged,
        "distinct_nontrivial": len(canon),
        "rule": spec["rule"],
        "samples": [s for r in results for s in r["samples"]][:6],
        "traces_validated_against_impl": nscs,
        "events_judged": judged,
        "states": sum(d.get("states", 0) for d in dstats),
        "transitions": sum(d.get("transitions", 0) for d in dstats),
        "design_checks": dstats,
        "generators": [g for r in results for g in r["gstats"]],
        "judge": [{"spec": r["judge"], "driver": r["driver"], "wall_s": r["jst"]["wall_s"], "scenarios": r["nscs"],
                   "events": r["judged"]} for r in results],
        "binding_selftest": [r["selftest"] for r in results],
        "spec_drift": notes[:20],
        "known_findings_hit": known,
        "unreproduced": unreproduced[:5],
        "exhaustive": bool(spec.get("exhaustive", {}).get(tier, False)),
        "race_detector": any(r["race"] for r in results),
    }
    if not dstats:
        cov.pop("states")
        cov.pop("transitions")
    ev = {
        "property_id": prop, "tier": tier, "seed": seed, "level": spec["level"], "coverage": cov,
        "assumptions": spec.get("assumptions", []), "wall_s": round(time.time() - t0, 2),
        "violations": len(violations),
    }
    # evidence/ describes the tree the registered commands check (/repo); a run against another tree (VERIF_REPO: seeded
    # changes, proposed fixes) writes its evidence next to its other scratch output instead
    evdir = os.path.join(ROOT, "evidence")
    if os.environ.get("VERIF_REPO", "/repo") not in ("/repo", ""):
        evdir = os.path.join(tempfile.gettempdir(), "verif-evidence-othertree")
        ev["tree"] = os.environ["VERIF_REPO"]
    os.makedirs(evdir, exist_ok=True)
    with open(os.path.join(evdir, prop + ".json"), "w") as f:
        json.dump(ev, f, indent=1, sort_keys=True)

    for n in notes[:10]:
        log("NOTE: spec_drift %s" % json.dumps(n)[:300])
    for fid, cnt in sorted(known.items()):
        fd = [x for x in findings if x["id"] == fid][0]
        log("KNOWN-FINDING: property=%s %s (%d failing events; %s)" % (prop, fd["what"], cnt, fid))
    if violations:
        os.makedirs(os.path.join(ROOT, "replays"), exist_ok=True)
        for v in violations:
            rp = os.path.join(ROOT, "replays", "%s-%s-seed%d-scn%d.json" % (prop, re.sub(r"\W+", "_", v["clause"])[:40], seed,
                                                                          v["scenario"].get("scn", 0)))
            with open(rp, "w") as f:
                json.dump({"property": prop, "clause": v["clause"], "scenario": v["scenario"], "event": v["event"],
                           "seed": seed, "tier": tier, "pipe": v["pipe"]}, f, indent=1, sort_keys=True)
            log("failing clause %s (%d events), e.g. %s" % (v["clause"], v["count"], json.dumps(v["event"])[:400]))
            log("VIOLATION property=%s replay=%s" % (prop, rp))
        return 1
    if unreproduced:
        log("UNREPRODUCED: %s" % json.dumps(unreproduced[:3])[:600])
        return 2
    log("OK property=%s tier=%s seed=%d scenarios=%d events=%d wall=%.1fs" % (prop, tier, seed, nscs, judged, time.time() - t0))
    return 0


def replay(path):
    from registry import REGISTRY
    with open(path) as f:
        r = json.load(f)
    prop = r["property"]
    spec = pipelines_of(REGISTRY[prop])[r.get("pipe", 0)]
    scratch = prepare_scratch(spec["modules"])
    try:
        target = dict(r["scenario"])
        pred = target.pop("_with_predecessors", [])
        anyscn = target.pop("_any", False)
        bad, _, _, _, trace_file, _ = exec_and_judge(scratch, spec, list(pred) + [target], r.get("seed", 1), "replay",
                                                     race=bool(spec.get("race")))
        evs = load_events(trace_file)
        hit = False
        for b in bad:
            cs = clauses_for(prop, b)
            if r["clause"] in cs and (anyscn or b["scn"] == target.get("scn", b["scn"])):
                hit = True
                log("failing event: %s" % json.dumps(evs[b["line"] - 1])[:600])
        if hit:
            log("VIOLATION property=%s replay=%s" % (prop, path))
            return 1
        log("not reproduced: clause %s holds on this tree" % r["clause"])
        return 0
    finally:
        shutil.rmtree(scratch, ignore_errors=True)


def main():
    ap = argparse.ArgumentParser()
    sub = ap.add_subparsers(dest="cmd")
    r = sub.add_parser("run")
    r.add_argument("prop")
    r.add_argument("--tier", default=os.environ.get("VERIF_TIER", "quick"))
    rp = sub.add_parser("replay")
    rp.add_argument("path")
    a = ap.parse_args()
    seed = int(os.environ.get("VERIF_SEED", "1") or 1)
    try:
        if a.cmd == "run":
            tier = a.tier if a.tier in ("quick", "thorough") else "quick"
            sys.exit(run_check(a.prop, tier, seed))
        elif a.cmd == "replay":
            sys.exit(replay(a.path))
        else:
            ap.print_help()
            sys.exit(2)
    except Machinery as e:
        log("MACHINERY-ERROR: %s" % e)
        sys.exit(2)


if __name__ == "__main__":
    main()
