#!/usr/bin/env python3
"""Regenerates /verif/MANIFEST.json from the registry (tools/reg/*.py) and tools/manifest_static.json."""
import json
import os
import subprocess
import sys

ROOT = os.path.dirname(os.path.dirname(os.path.abspath(__file__)))
sys.path.insert(0, os.path.join(ROOT, "tools"))
from registry import REGISTRY  # noqa: E402

static = json.load(open(os.path.join(ROOT, "tools", "manifest_static.json")))
props = [json.loads(l)["id"] for l in open(os.path.join(ROOT, "properties.jsonl")) if l.strip()]
# only properties whose check has passed quick+thorough on the unchanged tree with several seeds are claimed
verified = set(l.split()[0] for l in open(os.path.join(ROOT, "tools", "verified.txt")) if l.strip() and not l.startswith("#"))
checks = []
engines = {}
for pid in props:
    if pid not in REGISTRY or pid not in verified:
        continue
    c = REGISTRY[pid]
    checks.append({
        "property_id": pid,
        "quick_cmd": "python3 tools/check.py run %s --tier quick" % pid,
        "thorough_cmd": "python3 tools/check.py run %s --tier thorough" % pid,
        "evidence_file": "/verif/evidence/%s.json" % pid,
        "replay_cmd_template": "python3 tools/check.py replay {path}",
        "engine": "tla-" + c["modules"][0],
        "level_claimed": {"category": c["level"], "text": c["level_text"], "design_ref": "DESIGN.md section " + c.get("design_ref", "5")},
        "level_note": c["level_note"],
        "technique": c["technique"],
    })
    e = engines.setdefault("tla-" + c["modules"][0], {"name": "tla-" + c["modules"][0], "path": "spec/" + c["modules"][0],
                                                       "serves_properties": [], "kind_free_text":
                                                       "TLA+ specification + TLC (design check, scenario generator, trace judge) bound to the Go code by harness/cmd/" + c["driver"]})
    e["serves_properties"].append(pid)
na = [x for x in static.get("not_applicable", []) if not (x["property_id"] in REGISTRY and x["property_id"] in verified)]
listed = set(x["property_id"] for x in na)
for pid in props:
    if not (pid in REGISTRY and pid in verified) and pid not in listed:
        na.append({"property_id": pid, "reason": "check not yet registered as verified on the unchanged tree (not claimed; see DESIGN.md section 9 build order)"})
hooks = dict(static["hooks"])
man = {"version": 1, "setup_cmd": static["setup_cmd"], "hooks": hooks, "engines": list(engines.values()),
       "checks": checks, "notes": static.get("notes", ""), "not_applicable": na}
json.dump(man, open(os.path.join(ROOT, "MANIFEST.json"), "w"), indent=1)
print("MANIFEST.json: %d checks, %d not_applicable" % (len(checks), len(na)))
