#!/usr/bin/env python3
"""Round 2 of the seeded changes: copies /tmp/seed2-Cxx-out into /verif/seeded/Cxx-2 and writes meta.json
(needs_to_manifest from each author's NOTES.md; results from tools/seed2queue.sh logs /tmp/seed2confirm-*.log, /tmp/seed2run-*.log)."""
import json, os, shutil, glob, re

CAUGHT = "caught (quick)"
T = {
 "C01": ("joiner.Read advances by len(b) instead of the bytes read: a short Read at the tail of the content, then Seek(.., SeekCurrent), then Read / the returned position", CAUGHT, None),
 "C02": ("hashtrie.Sum wraps a dangling lone reference that meets a non-empty level into a one-child chunk: content of k*8192+1 chunks (branching 4: 5, 9, 13, 17.. chunks)", CAUGHT, None),
 "C03": ("bmt writeFinalNode fills the zero subtree lazily: the final section's worker is overtaken by its sister worker on a fresh tree or one that held a longer chunk (forced schedule)", CAUGHT, None),
 "C04": ("bmt zero-data fast path returns a cached hash computed with the zero span: 8-byte span-only payloads with a non-zero span all get one address", CAUGHT, None),
 "C05": ("NewEthereumAddress hashes unpadded X||Y: keys whose public X or Y coordinate has a leading zero byte; Sign/Valid/FromChunk stay self-consistent", "MISSED (quick): the key classes never had a leading-zero public coordinate and the owner was not evaluated independently", "PENDING"),
 "C06": ("GetChunkHashes verifies pyramid entries concurrently and keeps only the LAST result: a forged entry among valid ones is accepted unless its result arrives last", "no verdict at first (exit 2): the accepted forged pyramid made the code under test panic in its own goroutine and killed the driver", "ingestdrv runs scenarios in supervised child processes (crash events, note only), PipeNet recovers handler panics; the remaining scenarios are judged: stored_chunks_are_valid_for_their_address"),
 "C07": ("joiner.ReadAt uses cap(buffer) instead of len(buffer): a buffer with cap > len and more content left than len", CAUGHT, None),
 "C08": ("Encrypt returns early for an empty payload: payload length 0 with padding configured (encrypted empty file)", CAUGHT, None),
 "C09": ("manifest IterateAddresses reports an edge node's reference only: a mapped path that is a strict prefix of another (value+edge node); Traverse/GetPyramid omit that file", CAUGHT, None),
 "C10": ("mantaray Add skips an 'unchanged' entry (metadata compared as subset; loaded node keeps its ref): overwrite with superset metadata; Store, Add, Store, reload", CAUGHT, None),
 "C11": ("putRequest writes the data entry outside the batch: a request put under a file context whose root chunk is absent fails but leaves the chunk present", CAUGHT, None),
 "C12": ("chunkinfo getPyramidHash no longer filters data chunks: the reference count of a one-chunk file's chunk is released twice per evicted root; an uploaded copy is deleted at the SECOND eviction of a cached directory sharing it", "MISSED (quick): no directory manifests and no second eviction of an overlapping cached file in the catalogue", "PENDING"),
 "C13": ("collectGarbage no longer re-reads the persisted counter after the run: a counter-changing batch of ANOTHER file (request put, unpin, removal) that commits during the run is overwritten", "MISSED (quick): the racing operations inside a run were read/touch/pin/delete of files, no put of another file", "PENDING"),
 "C14": ("shed.Batch commits the driver batch every 16 MiB: one Put of >= 64 full chunks becomes two storage writes; a crash between them leaves a chunk without its pin/gc entry", "MISSED (quick): no operation buffering >= 16 MiB among the crash-enumerated ones", "PENDING"),
 "C15": ("setPin returns early when the root's gc entry is missing a chunk's count: a cached file whose traversal visits more chunks than its GCounter (chunk shared with an earlier reference) — pin succeeds, one chunk unpinned, unpin fails", CAUGHT, None),
 "C16": ("collectGarbage takes the exclusive-chunk lists of all candidates once per run: two cached files sharing a chunk evicted in one run leak it; a file registered between selection and eviction loses it", CAUGHT, None),
 "C17": ("chunkinfo getPyramid restarts bit indices per file of a directory: a directory of >= 2 files held partially; chunk k of a later file sets the bit of chunk k of the first", "MISSED (quick): only single-file manifests in the catalogue", "PENDING"),
 "C18": ("mock state store Iterate binary-searches the prefix range with > instead of >=: a stored key byte-equal to the prefix is skipped", CAUGHT, None),
 "C19": ("Index.DeleteInBatch skips the delete when the key is not stored yet: put(k) then delete(k) of an absent key in ONE batch leaves k present after commit", "MISSED (quick): edge cover used batches of one staged write", "two-write batch edge cover over a tiny universe (every ordered pair of staged writes incl. put-then-delete of one key) in quick, depth 9 in thorough"),
 "C20": ("DistanceCmp compares 8 bytes at a time with an off-by-one word bound: addresses that differ only in bytes 24..31 compare equal", CAUGHT, None),
 "C21": ("batch PSlice.Add carves bins out of one buffer without capacity limits: a batch growing two bins, then a single add into the shallower one overwrites the other's first peer", CAUGHT, None),
 "C22": ("recalcDepth drops the radius cap on one branch: >= 4 reachable peers in each of bins 0..k-1, < 3 reachable deeper, radius below k-1", "MISSED (quick): SetRadius values below the saturation depth were not generated", "PENDING"),
 "C23": ("PSlice.Remove compacts a bin in place while EachBin walks a copied slice header: a ClosestPeer walk paused mid-bin during Disconnected(X);Connected(Y) in that bin misses the closest peer", "MISSED (quick): calls were atomic in the model", "PENDING"),
 "C24": ("binSaturated computes the potential depth from the connected instead of the known peers: fill a bin to the oversaturation threshold, connect deeper peers, disconnect them (they stay known), dial in", CAUGHT, None),
 "C25": ("Blocklist.Peers stops at the first expired entry instead of skipping it: two blocked peers, the lower key expires, list before any Exists", CAUGHT, None),
 "C26": ("Blocker.Flag re-stamps a peer whose deadline has passed but was not swept yet: flag; wait >= timeout; flag again before the sweep; sweep", CAUGHT, None),
 "C27": ("GetNextHop no longer de-duplicates neighbours: two saved paths to one target ending in the same last hop -> the same next hop twice", CAUGHT, None),
 "C28": ("onRouteResp no longer discards a response whose path contains this node: two request branches merging at a node plus a table answer through a still-waiting node -> a recorded path repeats a node", "MISSED (quick): no topology with merging branches and a lost response", "PENDING"),
 "C29": ("same in-place PSlice.Remove: a disconnect while a findNode handler walks the bin -> a reply repeats an overlay", "MISSED (quick): handler and topology changes were atomic in the model", "PENDING"),
 "C30": ("traffic Handshake looks up the beneficiary of the zero address: peer B registers the chain address of peer A; A's cheque delivered by B is credited to B", "MISSED (quick): registration (Handshake) was not an action; the address book was filled directly", "PENDING"),
 "C31": ("trafficPeerChainUpdate keeps max(stored, on-chain): after a cash-out receipt the 'cashed by peer' total becomes the issued total and the available balance is inflated", CAUGHT, None),
 "C32": ("Accounting.Credit drops the payment request when the shared 1000-slot queue is full: settle worker held in Pay while > 1000 over-threshold credits arrive (also another peer's)", "MISSED (quick): Pay never blocked for a backlog", "PENDING"),
 "C33": ("Handshake skips the reconciliation with the peer's copy of our cheque when we have none stored: crash between EmitCheque and PutSendCheque of the FIRST cheque, restart, handshake, Pay", "MISSED (quick): no crash point inside Pay combined with the reconnect handshake", "PENDING"),
 "C34": ("ParseAddress compares overlays through BytesToHash (last 32 bytes): underlay cut at a component boundary, removed bytes prepended to the overlay (74 bytes) - same signed bytes, no key needed", "MISSED (quick): overlays always had 32 bytes, field boundaries were never shifted", "PENDING"),
 "C35": ("auth decrypt slices the nonce before the length check: a valid-base64 token decoding to < 12 bytes panics", CAUGHT, None),
 "C36": ("file keystore encrypts D.Bytes(): a secret scalar with a leading zero byte is stored as 31 bytes and cannot be read back", "MISSED (quick): no key with a leading zero byte", "PENDING"),
 "C37": ("chequestore.ReceiveCheque does the payout arithmetic before signature recovery: a cheque JSON without CumulativePayout from a registered peer dereferences nil", CAUGHT, None),
 "C38": ("onMulticast marks (origin, id) seen after delivery+forwarding instead of before: a second copy arriving from another neighbour while the first is being forwarded is delivered twice", "MISSED (quick): the handler was one atomic step", "PENDING"),
 "C39": ("BitVector.Equals compares whole words with a wrong slice offset: length >= 128, all bits set except one in the unchecked gap", "MISSED (quick): big lengths were only walked at random", "all-set test with exactly one clear bit at EVERY position for lengths 64..264 (thorough: ..520)"),
 "C40": ("Subscribe starts one watcher per (key, notifier): a notifier subscribed twice to a key keeps one registration after its error channel fired", "no verdict at first (exit 2): the driver waited for the number of unsubscriptions it expected the node to queue", "pubsubdrv logs the observed queue length instead; PubSubTrace.tla: a fired notifier has left when the node has nothing left to process (idle), however many unsubscriptions it queued"),
}
OVERRIDE = {}
if os.path.exists("/verif/tools/seed2_changes.json"):
    OVERRIDE = json.load(open("/verif/tools/seed2_changes.json"))


def status(p):
    c = open("/tmp/seed2confirm-%s.log" % p).read().strip().split("\n")[-1] if os.path.exists("/tmp/seed2confirm-%s.log" % p) else ""
    log = "/tmp/seed2run-%s.log" % p
    rc, clauses = None, []
    if os.path.exists(log):
        txt = open(log, errors="replace").read()
        m = re.findall(r"seedrun %s rc=(\d)" % p, txt)
        rc = int(m[-1]) if m else None
        clauses = sorted(set(re.findall(r"failing clause ([A-Za-z_0-9:\[\]]+)", txt)))
    return c, rc, clauses


if __name__ == "__main__":
    for p, (needs, first, change) in sorted(T.items()):
        src = "/tmp/seed2-%s-out" % p
        if not os.path.exists(os.path.join(src, "patch.diff")):
            continue
        d = "/verif/seeded/%s-2" % p
        os.makedirs(d + "/demo", exist_ok=True)
        shutil.copy(src + "/patch.diff", d)
        if os.path.exists(src + "/NOTES.md"):
            shutil.copy(src + "/NOTES.md", d)
        for root, _, files in os.walk(src + "/demo"):
            for f in files:
                if f.endswith(".go") or f.lower().startswith("readme") or f.endswith(".sh"):
                    rel = os.path.relpath(os.path.join(root, f), src + "/demo")
                    os.makedirs(os.path.dirname(os.path.join(d, "demo", rel)), exist_ok=True)
                    shutil.copy(os.path.join(root, f), os.path.join(d, "demo", rel))
        c, rc, clauses = status(p)
        if change == "PENDING":
            change = OVERRIDE.get(p, "not strengthened (see DESIGN.md 10.6)")
        now = {1: "caught (quick): " + ", ".join(clauses[:3]), 0: "not reported by the quick tier", 2: "no verdict (exit 2)", None: "not run"}[rc]
        json.dump({"property": p, "seed": p + "-2", "breaks": p, "needs_to_manifest": needs,
                   "demonstration": "demo/ (see demo/README*); " + (c or "not confirmed"),
                   "ran": ["tools/seedconfirm.sh (demo without / with the patch)",
                           "tools/seedrun.sh %s seeded/%s-2/patch.diff (fresh worktree of /repo HEAD + patch, VERIF_REPO)" % (p, p)],
                   "first_result": first, "result_now": now, "check_change": change,
                   "author": "independent sub-agent given only the property text, the one-line 'needs' of the round-1 seed and a scratch worktree"},
                  open(d + "/meta.json", "w"), indent=1)
        print(p, "|", first[:40], "|", now)
