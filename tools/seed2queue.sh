#!/bin/sh
# usage: tools/seed2queue.sh <Cxx> [tier]  — round-2 seeds: confirm the demonstration without/with the patch, then run the
# check against a fresh worktree of /repo HEAD + patch. Logs: /tmp/seed2confirm-Cxx.log /tmp/seed2run-Cxx.log
P=$1; TIER=${2:-quick}
OUT=/tmp/seed2-$P-out; WT=/tmp/seed2-$P
cd /verif || exit 3
if [ ! -s $OUT/patch.diff ]; then echo "seed2queue $P: no patch"; exit 3; fi
sh tools/seedconfirm.sh $WT $OUT "leveldb verif" > /tmp/seed2confirm-$P.log 2>&1
sh tools/seedrun.sh $P $OUT/patch.diff $TIER > /tmp/seed2run-$P.log 2>&1
echo "$P | $(tail -1 /tmp/seed2confirm-$P.log) | $(grep -h "^seedrun $P" /tmp/seed2run-$P.log | tail -1) | $(grep -h -o 'failing clause [A-Za-z_0-9:]*' /tmp/seed2run-$P.log | sort -u | head -3 | tr '\n' ';')"
