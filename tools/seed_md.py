#!/usr/bin/env python3
"""Rewrites the seeded-changes table of DESIGN.md (between the SEEDED markers) from seeded/*/meta.json."""
import json, glob, re
rows = []
for f in sorted(glob.glob("/verif/seeded/*/meta.json")):
    m = json.load(open(f))
    rows.append("| %s | %s | %s | %s | %s |" % (m["seed"], m["needs_to_manifest"].replace("|", "/"), m["first_result"].replace("|", "/"),
                                              (m.get("check_change") or "—").replace("|", "/"), m["result_now"].replace("|", "/")))
tab = "| seed | what it needs to manifest | first result | what was strengthened | result now |\n|---|---|---|---|---|\n" + "\n".join(rows)
s = open("/verif/DESIGN.md").read()
a, b = "<!-- SEEDED-BEGIN -->", "<!-- SEEDED-END -->"
if a not in s:
    s += "\n### 10.6 Independently seeded changes: which checks catch which\n\nEach change was written by a fresh sub-agent that saw only the property text and a scratch worktree (nothing from /verif); " \
         "I confirmed each demonstration (fails with the patch, passes without: `tools/seedconfirm.sh`) and ran the registered check against a fresh worktree of /repo's HEAD plus the patch " \
         "(`tools/seedrun.sh`, `VERIF_REPO`). Patch, demonstration and meta.json are under `seeded/<id>/`. 'first result' is what the check did before any strengthening.\n\n" + a + "\n" + b + "\n"
s = s[:s.index(a) + len(a)] + "\n" + tab + "\n" + s[s.index(b):]
open("/verif/DESIGN.md", "w").write(s)
print(len(rows), "rows")
