SPECIFICATION Spec
CONSTANTS
  Lens <- MCLensRich
  Slacks <- MCSlacks
  Dense = TRUE
  Rich = TRUE
INVARIANTS TypeOK AllSetCounts GetReads CodecOK
PROPERTIES FrameOK
