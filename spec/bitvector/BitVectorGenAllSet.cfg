SPECIFICATION GSpec
CONSTANTS
  Lens <- GLens
  Slacks <- GSlacks
  Dense = TRUE
  Focus = TRUE
  Rich = FALSE
VIEW FocusView
INVARIANT EmitAll
CHECK_DEADLOCK FALSE
