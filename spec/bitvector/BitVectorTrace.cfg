SPECIFICATION TSpec
CONSTANTS
  Lens = {1}
  Slacks = {0}
  Dense = TRUE
  Rich = FALSE
INVARIANT Report
POSTCONDITION AllConsumed
CHECK_DEADLOCK FALSE
