------------------------------ MODULE BitVector ------------------------------
(* pkg/bitvector as a boolean array.  Property C39.                           *)
(*                                                                            *)
(* A vector has a length n and a backing slice of bl bytes (bl*8 >= n; the    *)
(* slice may be longer than needed: "slack").  Bit i lives in byte i \div 8   *)
(* at weight 2^(i % 8) (LSB first).  The boolean array the property talks     *)
(* about is the restriction of `bits` to 0..n-1; the bits above n are         *)
(* implementation detail (predicted, but never a verdict).                    *)
(*                                                                            *)
(* One action per public call: New, NewFromBytes, Get, Set, Unset, SetBytes,  *)
(* UnsetBytes, Equals (the all-bits-set test), Bytes -> NewFromBytes (Reload).*)
EXTENDS Integers, Sequences, FiniteSets

CONSTANTS Lens,       \* lengths n that may be constructed
          Slacks,     \* extra backing bytes (0 .. )
          Dense,      \* TRUE: every index; FALSE: boundary indices only (big n)
          Rich        \* TRUE: the larger family of byte patterns (initial contents, masks)

VARIABLES n,          \* length (0 = no vector yet)
          bl,         \* backing length in bytes
          bits,       \* 0..bl*8-1 -> BOOLEAN
          res         \* what the caller observed from the last call

vars == <<n, bl, bits, res>>

(***************************************************************************)
(* Pure definitions, shared with the trace specification.                  *)
(***************************************************************************)
Pow2(k) == CASE k = 0 -> 1 [] k = 1 -> 2 [] k = 2 -> 4 [] k = 3 -> 8
             [] k = 4 -> 16 [] k = 5 -> 32 [] k = 6 -> 64 [] k = 7 -> 128

Needed(len) == (len + 7) \div 8                  \* bytes New(len) allocates

\* bit i of a byte sequence (1-indexed sequence of 0..255), LSB first
ByteBit(bs, i) == ((bs[(i \div 8) + 1] \div Pow2(i % 8)) % 2) = 1

BitsOfBytes(bs) == [i \in 0..(Len(bs) * 8 - 1) |-> ByteBit(bs, i)]

ByteVal(b, j) ==   (IF b[8*j]   THEN 1  ELSE 0) + (IF b[8*j+1] THEN 2  ELSE 0)
                 + (IF b[8*j+2] THEN 4  ELSE 0) + (IF b[8*j+3] THEN 8  ELSE 0)
                 + (IF b[8*j+4] THEN 16 ELSE 0) + (IF b[8*j+5] THEN 32 ELSE 0)
                 + (IF b[8*j+6] THEN 64 ELSE 0) + (IF b[8*j+7] THEN 128 ELSE 0)

BytesOfBits(len, b) == [j \in 1..len |-> ByteVal(b, j - 1)]

\* the boolean array
Arr(len, b) == [i \in 0..(len - 1) |-> b[i]]

AllSet(len, b) == \A i \in 0..(len - 1) : b[i]

WithBit(b, i, v) == [b EXCEPT ![i] = v]

\* SetBytes / UnsetBytes: merge / clear the positions selected by the mask
OrMask(b, mask)     == [i \in DOMAIN b |-> b[i] \/ ByteBit(mask, i)]
AndNotMask(b, mask) == [i \in DOMAIN b |-> b[i] /\ ~ByteBit(mask, i)]

(***************************************************************************)
(* Scenario alphabet: byte patterns (used as initial content and as masks) *)
(* and indices.                                                            *)
(***************************************************************************)
Const(len, v) == [j \in 1..len |-> v]
OneByte(len, k, v) == [j \in 1..len |-> IF j = k THEN v ELSE 0]
\* bytes with exactly the positions in P set
BytesOfSet(len, P) == BytesOfBits(len, [i \in 0..(len*8 - 1) |-> i \in P])

Patterns(len, l) ==
  {Const(l, 0), Const(l, 255)}
  \cup {BytesOfSet(l, 0..(len - 1)), BytesOfSet(l, len..(l*8 - 1))}         \* exactly the array / exactly the slack
  \cup {BytesOfSet(l, (0..(len - 1)) \ {len - 1}), BytesOfSet(l, (0..(len - 1)) \ {0})}
  \cup (IF Rich
        THEN {Const(l, 15), Const(l, 240), Const(l, 85)}
             \cup {OneByte(l, k, 255) : k \in 1..l}
             \cup {BytesOfSet(l, {len - 1}), BytesOfSet(l, {0})}
        ELSE {Const(l, 170)})

\* constant-level tables (TLC evaluates them once)
MaxBl == Needed(CHOOSE m \in Lens : \A x \in Lens : x <= m) + (CHOOSE m \in Slacks : \A x \in Slacks : x <= m)
PatTable == [p \in {q \in Lens \X (1..MaxBl) : q[2] * 8 >= q[1] /\ q[2] - Needed(q[1]) \in Slacks} |-> Patterns(p[1], p[2])]

Indices(len) ==
  IF Dense THEN 0..(len - 1)
  ELSE {i \in {0, 1, 7, 8, 9, 31, 32, 62, 63, 64, 255, 256, len - 9, len - 8, len - 7, len - 2, len - 1} : i >= 0 /\ i < len}

(***************************************************************************)
(* Actions.                                                                *)
(***************************************************************************)
Init == n = 0 /\ bl = 0 /\ bits = <<>> /\ res = [op |-> "init"]

New(len) ==
  /\ n = 0
  /\ n' = len /\ bl' = Needed(len)
  /\ bits' = [i \in 0..(Needed(len)*8 - 1) |-> FALSE]
  /\ res' = [op |-> "new", n |-> len]

NewFromBytes(len, l, bs) ==
  /\ n = 0
  /\ n' = len /\ bl' = l
  /\ bits' = BitsOfBytes(bs)
  /\ res' = [op |-> "frombytes", n |-> len, b |-> bs]

Get(i) == /\ n > 0 /\ UNCHANGED <<n, bl, bits>>
          /\ res' = [op |-> "get", pos |-> i, v |-> bits[i]]

Set(i) == /\ n > 0 /\ UNCHANGED <<n, bl>>
          /\ bits' = WithBit(bits, i, TRUE)
          /\ res' = [op |-> "set", pos |-> i]

Unset(i) == /\ n > 0 /\ UNCHANGED <<n, bl>>
            /\ bits' = WithBit(bits, i, FALSE)
            /\ res' = [op |-> "unset", pos |-> i]

SetBytes(mask) == /\ n > 0 /\ UNCHANGED <<n, bl>>
                  /\ bits' = OrMask(bits, mask)
                  /\ res' = [op |-> "setbytes", mask |-> mask]

UnsetBytes(mask) == /\ n > 0 /\ UNCHANGED <<n, bl>>
                    /\ bits' = AndNotMask(bits, mask)
                    /\ res' = [op |-> "unsetbytes", mask |-> mask]

AllSetQ == /\ n > 0 /\ UNCHANGED <<n, bl, bits>>
           /\ res' = [op |-> "allset", v |-> AllSet(n, bits)]

\* Bytes() of the vector, copied, decoded again with NewFromBytes(copy, Len()); the
\* history continues on the decoded vector
Reload == /\ n > 0 /\ UNCHANGED <<n, bl>>
          /\ bits' = BitsOfBytes(BytesOfBits(bl, bits))
          /\ res' = [op |-> "reload"]

Next ==
  \/ n = 0 /\ \E len \in Lens : New(len)
  \/ n = 0 /\ \E len \in Lens, s \in Slacks : \E bs \in PatTable[<<len, Needed(len) + s>>] : NewFromBytes(len, Needed(len) + s, bs)
  \/ n > 0 /\ \E i \in Indices(n) : Get(i) \/ Set(i) \/ Unset(i)
  \/ n > 0 /\ \E m \in PatTable[<<n, bl>>] : SetBytes(m) \/ UnsetBytes(m)
  \/ AllSetQ
  \/ Reload

Spec == Init /\ [][Next]_vars

(***************************************************************************)
(* Properties of the model (bounded design check).                         *)
(***************************************************************************)
TypeOK == /\ n \in Lens \cup {0}
          /\ bl * 8 >= n
          /\ DOMAIN bits = 0..(bl*8 - 1)
          /\ \A i \in DOMAIN bits : bits[i] \in BOOLEAN

\* the all-set test counts: true iff the number of set positions below n is n
AllSetCounts == res.op = "allset" => (res.v <=> Cardinality({i \in 0..(n-1) : bits[i]}) = n)

GetReads == res.op = "get" => res.v = bits[res.pos]

\* byte encoding is a bijection on the backing bits
CodecOK == n > 0 => BitsOfBytes(BytesOfBits(bl, bits)) = bits

\* frame conditions: what each call may change in the boolean array
FrameOK ==
  [][n > 0 =>
       /\ (res'.op \in {"get", "allset", "reload"} => Arr(n', bits') = Arr(n, bits))
       /\ (res'.op = "set"   => \A i \in 0..(n-1) : bits'[i] = (IF i = res'.pos THEN TRUE  ELSE bits[i]))
       /\ (res'.op = "unset" => \A i \in 0..(n-1) : bits'[i] = (IF i = res'.pos THEN FALSE ELSE bits[i]))
       /\ (res'.op = "setbytes"   => \A i \in 0..(n-1) : bits'[i] = (bits[i] \/ ByteBit(res'.mask, i)))
       /\ (res'.op = "unsetbytes" => \A i \in 0..(n-1) : bits'[i] = (bits[i] /\ ~ByteBit(res'.mask, i)))
       /\ n' = n]_vars
=============================================================================
