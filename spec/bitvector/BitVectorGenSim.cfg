SPECIFICATION GSpec
CONSTANTS
  Lens <- GLens
  Slacks <- GSlacks
  Dense = TRUE
  Focus = FALSE
  Rich = TRUE
INVARIANT EmitFull
CHECK_DEADLOCK FALSE
