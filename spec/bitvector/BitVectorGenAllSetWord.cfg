SPECIFICATION GSpec
CONSTANTS
  Lens <- GLensWord
  Slacks = {0}
  Dense = TRUE
  Focus = TRUE
  Rich = FALSE
VIEW FocusView
INVARIANT EmitAll
CHECK_DEADLOCK FALSE
