---------------------------- MODULE BitVectorGen ----------------------------
(* Scenario generator for C39: BitVector's actions plus a history variable.   *)
(*  AllSet   (Focus, VIEW FocusView): one shortest history per (length,       *)
(*           backing, abstract content, operation kind) over the part of the  *)
(*           alphabet that decides the all-bits-set test                      *)
(*  OpEdges  (VIEW AbsView + ACTION_CONSTRAINT EmitEdge): BFS over (length,   *)
(*           backing, abstract content); every transition prints its history: *)
(*           one per (abstract state, operation + argument) edge              *)
(*  Sim/Big  (-simulate): random walks, n in 1..24 / {63,64,65,511,512}       *)
(* The abstraction keeps what the all-set test and the masks distinguish.     *)
EXTENDS BitVector, TLC, Json, IOUtils
VARIABLE hist
CONSTANT Focus

GLens == 1..24
GLensBig == {63, 64, 65, 511, 512}
GSlacks == {0, 1, 2}
\* lengths around the machine-word sizes (all-set test over whole words / bytes / a tail): every single clear position
GLensWord == {64, 65, 127, 128, 129, 136, 200, 264}
GLensWordT == {64, 65, 127, 128, 129, 136, 200, 264, 512, 520}

Depth == IF "VERIF_DEPTH" \in DOMAIN IOEnv THEN atoi(IOEnv.VERIF_DEPTH) ELSE 4

\* the operation as the driver needs it (no expected results)
Op(r) == CASE r.op = "get" -> [op |-> "get", pos |-> r.pos]
           [] r.op = "allset" -> [op |-> "allset"]
           [] OTHER -> r

\* the part of the alphabet that decides the all-bits-set test (generator AllSet)
FocusNext ==
  \/ n = 0 /\ \E len \in Lens : New(len)
  \/ n = 0 /\ \E len \in Lens, s \in Slacks :
        \E bs \in {Const(Needed(len) + s, 255), BytesOfSet(Needed(len) + s, 0..(len - 1)),
                   BytesOfSet(Needed(len) + s, (0..(len - 1)) \ {len - 1})} :
           NewFromBytes(len, Needed(len) + s, bs)
  \/ n > 0 /\ \E i \in Indices(n) : Set(i) \/ Unset(i)
  \/ AllSetQ

GInit == Init /\ hist = <<>>
GNext == /\ Len(hist) < Depth
         /\ IF Focus THEN FocusNext ELSE Next
         /\ hist' = Append(hist, Op(res'))
GSpec == GInit /\ [][GNext]_<<vars, hist>>

\* abstraction of the content: number of clear array positions (capped at 2), the
\* position of a single clear one, and whether the slack is all set / has any bit set
Clear == {i \in 0..(n-1) : ~bits[i]}
SlackPos == n..(bl*8 - 1)
Abs == IF n = 0 THEN <<0>>
       ELSE << IF Cardinality(Clear) > 2 THEN 2 ELSE Cardinality(Clear),
               IF Cardinality(Clear) = 1 THEN CHOOSE i \in Clear : TRUE ELSE -1,
               \A i \in SlackPos : bits[i],
               \E i \in SlackPos : bits[i] >>

FocusView == <<n, bl, Abs, res.op>>       \* every operation kind on every abstract content, per (n, backing)

\* BFS over (n, backing, abstract content) only; every transition prints its history
\* (ACTION_CONSTRAINT): one shortest history per (abstract state, operation+argument) edge
AbsView == <<n, bl, Abs>>
EmitEdge == PrintT(<<"SCN", ToJson(hist')>>)
GLensQuick == {1, 7, 8, 9, 16, 17, 24}

EmitAll  == hist # <<>> => PrintT(<<"SCN", ToJson(hist)>>)
EmitFull == Len(hist) = Depth => PrintT(<<"SCN", ToJson(hist)>>)
=============================================================================
