SPECIFICATION GSpec
CONSTANTS
  Lens <- GLens
  Slacks <- GSlacks
  Dense = TRUE
  Focus = FALSE
  Rich = TRUE
VIEW EdgeView
INVARIANT EmitAll
CHECK_DEADLOCK FALSE
