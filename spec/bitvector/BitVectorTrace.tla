--------------------------- MODULE BitVectorTrace ---------------------------
(* Judge for C39: replays what the driver recorded from pkg/bitvector against *)
(* BitVector's definitions.  Monitor mode (see TraceKit).                     *)
(*                                                                            *)
(* Event fields: op, arguments (n, b, i, mask), res (get / allset), err,      *)
(* panicked, and the projection after the call: len = Len(), st = <<Get(0),   *)
(* ..., Get(len-1)>>, bytes = Bytes().                                        *)
EXTENDS BitVector, TraceKit

VARIABLES l, bad, notes

None == [n |-> 0, bl |-> 0, bits |-> <<>>]

\* reference model after the event (s = [n, bl, bits] before)
Post(e, s) ==
  CASE e.op = "reset"      -> None
    [] e.op = "new"        -> [n |-> e.n, bl |-> Needed(e.n), bits |-> [i \in 0..(Needed(e.n)*8 - 1) |-> FALSE]]
    [] e.op = "frombytes"  -> [n |-> e.n, bl |-> Len(e.b), bits |-> BitsOfBytes(e.b)]
    [] e.op = "set"        -> [s EXCEPT !.bits = WithBit(s.bits, e.pos, TRUE)]
    [] e.op = "unset"      -> [s EXCEPT !.bits = WithBit(s.bits, e.pos, FALSE)]
    [] e.op = "setbytes"   -> [s EXCEPT !.bits = OrMask(s.bits, e.mask)]
    [] e.op = "unsetbytes" -> [s EXCEPT !.bits = AndNotMask(s.bits, e.mask)]
    [] e.op = "reload"     -> [s EXCEPT !.bits = BitsOfBytes(BytesOfBits(s.bl, s.bits))]
    [] OTHER               -> s

\* the observed boolean array equals the model's
ArrayIs(e, s) == /\ e.len = s.n
                 /\ Len(e.st) = s.n
                 /\ \A i \in 0..(s.n - 1) : e.st[i + 1] = s.bits[i]

ArrayClauseName(op) ==
  CASE op = "new"        -> "new_vector_is_all_clear"
    [] op = "frombytes"  -> "vector_from_bytes_has_the_bits_of_the_bytes"
    [] op \in {"set", "unset"}            -> "set_unset_change_exactly_that_position"
    [] op \in {"setbytes", "unsetbytes"}  -> "mask_merges_or_clears_exactly_the_masked_positions"
    [] op = "reload"     -> "encode_decode_preserves_every_bit"
    [] OTHER             -> "reads_do_not_change_the_array"

\* verdict clauses: the statement of C39 over what the caller observed
Verdict(e, pre, post) ==
     Clause("no_error_or_panic", e.err = "" /\ ~e.panicked)
  \o (IF e.op = "get"    THEN Clause("get_reads_the_array", e.res = pre.bits[e.pos]) ELSE <<>>)
  \o (IF e.op = "allset" THEN Clause("allset_iff_every_bit_below_len", e.res = AllSet(pre.n, pre.bits)) ELSE <<>>)
  \o Clause(ArrayClauseName(e.op), ArrayIs(e, post))

\* conformance notes: the predicted backing bytes (slack included) - never an alarm
Drift(e, post) ==
  IF e.op # "reset" /\ e.err = "" /\ ~e.panicked /\ e.bytes # BytesOfBits(post.bl, post.bits)
  THEN <<[line |-> l, scn |-> e.scn, op |-> e.op, note |-> "backing_bytes_differ_from_model"]>> ELSE <<>>

Obs(e) == [n |-> e.len, bl |-> Len(e.bytes), bits |-> BitsOfBytes(e.bytes)]

TInit == l = 1 /\ n = 0 /\ bl = 0 /\ bits = <<>> /\ res = [op |-> "init"] /\ bad = <<>> /\ notes = <<>>

TStep == /\ l <= NEvents
         /\ LET e == Trace[l]
                pre == [n |-> n, bl |-> bl, bits |-> bits]
                post == Post(e, pre)
                cs == Verdict(e, pre, post)
                nx == IF cs = <<>> THEN post ELSE Obs(e)          \* resynchronise
            IN /\ l' = l + 1
               /\ bad' = IF cs = <<>> THEN bad ELSE Append(bad, BadRec(l, e, cs))
               /\ notes' = IF cs = <<>> /\ Len(notes) < 20 THEN notes \o Drift(e, post) ELSE notes
               /\ n' = nx.n /\ bl' = nx.bl /\ bits' = nx.bits
               /\ res' = [op |-> e.op]

TSpec == TInit /\ [][TStep]_<<vars, l, bad, notes>>

Report == ReportBad(l, bad, notes)
=============================================================================
