SPECIFICATION GSpec
CONSTANTS
  Lens <- GLensQuick
  Slacks <- GSlacks
  Dense = TRUE
  Focus = FALSE
  Rich = TRUE
VIEW AbsView
ACTION_CONSTRAINT EmitEdge
CHECK_DEADLOCK FALSE
