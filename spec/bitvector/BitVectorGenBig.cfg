SPECIFICATION GSpec
CONSTANTS
  Lens <- GLensBig
  Slacks <- GSlacks
  Dense = FALSE
  Focus = FALSE
  Rich = FALSE
INVARIANT EmitFull
CHECK_DEADLOCK FALSE
