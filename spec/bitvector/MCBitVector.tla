---------------------------- MODULE MCBitVector ----------------------------
EXTENDS BitVector
MCLens == {1, 3, 8}
MCLensThorough == 1..10
MCLensRich == {3, 8, 9}
MCSlacks == {0, 1}
MCSlacksThorough == {0, 1}
=============================================================================
