---------------------------- MODULE MCBitVector ----------------------------
EXTENDS BitVector
MCLens == {1, 3, 8}
MCLensThorough == 1..8
MCLensRich == {2, 5, 8}
MCSlacks == {0, 1}
MCSlacksThorough == {0, 1}
=============================================================================
