SPECIFICATION Spec
CONSTANTS
  Lens <- MCLens
  Slacks <- MCSlacks
  Dense = TRUE
  Rich = FALSE
INVARIANTS TypeOK AllSetCounts GetReads CodecOK
PROPERTIES FrameOK
