SPECIFICATION GSpec
CONSTANTS
  Lens <- GLens
  Slacks <- GSlacks
  Dense = TRUE
  Focus = FALSE
  Rich = TRUE
VIEW AbsView
ACTION_CONSTRAINT EmitEdge
CHECK_DEADLOCK FALSE
