SPECIFICATION Spec
CONSTANTS
  Lens <- MCLensThorough
  Slacks <- MCSlacksThorough
  Dense = TRUE
  Rich = FALSE
INVARIANTS TypeOK AllSetCounts GetReads CodecOK
PROPERTIES FrameOK
