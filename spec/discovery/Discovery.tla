------------------------------ MODULE Discovery ------------------------------
(* Chunk-info discovery and pyramid exchange between nodes (pkg/chunkinfo):           *)
(* ChunkInfo.Init / FindChunkInfo, the pyramid request/response, onChunkPyramidResp,   *)
(* the per-file pull queue UnPull -> Pulling -> Pulled with its bounds and the timeout *)
(* trigger, onChunkInfoReq / onChunkInfoResp (presence vectors per overlay,            *)
(* updateQueue, updateChunkInfo), forwarding for other targets, CancelFindChunkInfo,   *)
(* DelDiscover and DelFile racing with late messages.                                  *)
(*                                                                                     *)
(* One file (root), nodes A (origin: holds every chunk), B (the downloader), C (a      *)
(* second holder, or the only hop from B to A), optional ghosts (overlays A advertises *)
(* that are gone).  Messages live in a bag: any queued message may be delivered,       *)
(* dropped or duplicated at any time.  One action per stream handler, per iteration of *)
(* the FindChunkInfo loop, per local call, per firing of the timeout ticker.  Handlers *)
(* are atomic, with one exception that the code makes observable: the response handler *)
(* can be preempted inside updateChunkInfo (between reading the queue pointer and      *)
(* using it) -- actions Park / Release, used for the forced schedule of the deletion   *)
(* race.                                                                               *)
(*                                                                                     *)
(* AsIs = TRUE is the mechanism exactly as the code has it; AsIs = FALSE applies the   *)
(* repairs of proposed_fixes/discovery-*.diff.  Properties D1-D5 at the end.           *)
(*                                                                                     *)
(* Every handler is a pure operator (node state, message) -> [s, out]; the trace       *)
(* specification DiscoveryTrace.tla replays recorded runs of the real code with them.  *)
EXTENDS Integers, Sequences, FiniteSets, TLC

CONSTANTS PullMax,      \* code: 200
          PullingMax,   \* code: 10
          Ghosts,       \* overlay names that never answer
          AsIs          \* TRUE: code as it is; FALSE: with the proposed repairs

Real == {"A", "B", "C"}
Node == Real \cup Ghosts \cup {"M"}     \* "M": a peer outside the protocol (only in injected messages)
NoNode == "-"

VARIABLES par,    \* [topo, file]: constant along a behaviour
          ns,     \* [Real -> node state]
          msgs    \* sequence of queued messages, oldest first (a bag: any element may be taken)

vars == <<par, ns, msgs>>

(***************************************************************************)
(* Files.  F1: one small chunk (it travels inside the pyramid: a "piece"). *)
(* F2: two data chunks (256 KiB + tail), none of them in the pyramid.      *)
(***************************************************************************)
NDof(file) == IF file = "F1" THEN 1 ELSE 2
IdxOf(file) == 1..NDof(file)
PiecesOf(file) == IF file = "F1" THEN {1} ELSE {}

DMin(a, b) == IF a < b THEN a ELSE b
RECURSIVE SetToSeq(_)
SetToSeq(S) == IF S = {} THEN <<>> ELSE LET x == CHOOSE y \in S : TRUE IN <<x>> \o SetToSeq(S \ {x})
SeqSet(s) == {s[i] : i \in DOMAIN s}
ZeroV == [o \in Node |-> {}]

(***************************************************************************)
(* Node state.                                                             *)
(*  pyr   cp.hashData has the root            pst  pyramid chunks stored   *)
(*  st    data chunks stored                                               *)
(*  ctd/ct   ct.presence[root]: overlays and their bit sets (own record = ct[self]) *)
(*  dkey/dd/dv  cd.presence[root] exists / overlays / bit sets             *)
(*  skey/psrc/sd/sv  cs.presence[root]                                     *)
(*  keys  persisted state-store keys <<kind, overlay>>                     *)
(*  hasq/un/ing/ed   the pull queue                                        *)
(*  pend  pending-finder entry     sync  a FindChunkInfo call waits        *)
(*  trig  armed timeout triggers                                           *)
(*  fst/att/fails/ret  the running Init/FindChunkInfo call                 *)
(*  rel   upstream requesters whose pyramid request this node relays       *)
(*  mid.. a response handler parked inside updateChunkInfo                 *)
(*  ans   overlays whose response this node has handled                    *)
(*  late  ... handled while no queue existed (after a deletion)            *)
(*  del / ddel   the file / its discovery was deleted here and no Init     *)
(*        was running or has been started since                            *)
(*  res   the deletion that ran while the last parked handler was parked   *)
(***************************************************************************)
NodeZero == [pyr |-> FALSE, pst |-> FALSE, st |-> {},
             ctd |-> {}, ct |-> ZeroV,
             dkey |-> FALSE, dd |-> {}, dv |-> ZeroV,
             skey |-> FALSE, psrc |-> NoNode, sd |-> {}, sv |-> ZeroV,
             keys |-> {},
             hasq |-> FALSE, un |-> <<>>, ing |-> <<>>, ed |-> <<>>,
             pend |-> FALSE, sync |-> FALSE, trig |-> {},
             fst |-> "idle", att |-> 0, fails |-> 0, ret |-> FALSE,
             rel |-> <<>>, crashed |-> FALSE,
             mid |-> FALSE, mo |-> NoNode, mpd |-> {}, mq |-> FALSE, dpend |-> "-",
             \* history (for the statements of D2 and D4 only; no action reads them)
             ans |-> {}, late |-> {}, del |-> FALSE, ddel |-> FALSE, res |-> "-"]

\* a node that holds the chunk set `have` of the file, learnt from `from` (itself: uploaded)
Holder(me, file, have, from) ==
  [NodeZero EXCEPT !.pyr = TRUE, !.pst = TRUE, !.st = have,
                   !.ctd = {me}, !.ct = [ZeroV EXCEPT ![me] = have],
                   !.skey = TRUE, !.psrc = from, !.sd = IF have = {} THEN {} ELSE {from},
                   !.sv = [ZeroV EXCEPT ![from] = have],
                   !.keys = {<<"chunk", me>>, <<"sourcePyramid", from>>}
                            \cup (IF have = {} THEN {} ELSE {<<"sourceChunk", from>>})]

InitNodes(p) ==
  LET all == IdxOf(p.file)
      a0 == Holder("A", p.file, all, "A")
      adv == IF p.topo = "partial" THEN {"C"} ELSE IF p.topo = "ghosts" THEN Ghosts ELSE {}
      a1 == [a0 EXCEPT !.ctd = @ \cup adv,
                       !.ct = [o \in Node |-> IF o \in adv THEN {1} ELSE a0.ct[o]],
                       !.keys = @ \cup {<<"chunk", o>> : o \in adv}]
  IN [n \in Real |-> IF n = "A" THEN a1
                     ELSE IF n = "C" /\ p.topo = "partial" THEN Holder("C", p.file, {1}, "A")
                     ELSE NodeZero]

(***************************************************************************)
(* Messages.  k: "preq" pyramid request, "presp" its reply (ok: complete), *)
(* "req" chunk-info request, "resp" its reply (pd/pv: presence map).       *)
(* f/t: the two ends of the stream; tg: Target field; rq: Req field.       *)
(***************************************************************************)
Msg(k, f, t, tg, rq) == [k |-> k, f |-> f, t |-> t, tg |-> tg, rq |-> rq, pd |-> {}, pv |-> ZeroV, ok |-> TRUE]
PReq(f, t, tg) == Msg("preq", f, t, tg, NoNode)
PResp(f, t, ok) == [Msg("presp", f, t, NoNode, NoNode) EXCEPT !.ok = ok]
Req(f, t, tg, rq) == Msg("req", f, t, tg, rq)
Resp(f, t, tg, rq, pd, pv) == [Msg("resp", f, t, tg, rq) EXCEPT !.pd = pd, !.pv = pv]

\* first hop towards dst (route table: in topology "relay" B reaches A only through C)
Hop(p, me, dst) == IF p.topo = "relay" /\ me = "B" /\ dst = "A" THEN "C" ELSE dst
Reachable(o) == o \in Real

R(s, out) == [s |-> s, out |-> out]

InQ(s, o) == o \in SeqSet(s.un) \cup SeqSet(s.ing) \cup SeqSet(s.ed)
RemoveAll(q, o) == SelectSeq(q, LAMBDA x : x # o)

(***************************************************************************)
(* queue.go: queueProcess                                                  *)
(***************************************************************************)
QP(s, me, p) ==
  IF ~s.hasq THEN (IF AsIs THEN R([s EXCEPT !.crashed = TRUE], <<>>) ELSE R(s, <<>>))   \* nil queue dereferenced
  ELSE IF Len(s.ed) + Len(s.ing) >= PullMax \/ ~s.pend \/ Len(s.ing) >= PullingMax THEN R(s, <<>>)
  ELSE LET n0 == DMin(PullingMax - Len(s.ing), Len(s.un))
           \* repaired: never pull past PullMax (the code checks the sum, then pulls up to PullingMax more)
           n == IF AsIs THEN n0 ELSE DMin(n0, PullMax - Len(s.ed) - Len(s.ing))
           mv == SubSeq(s.un, 1, n)
           to == SelectSeq(mv, Reachable)
       IN R([s EXCEPT !.un = SubSeq(s.un, n + 1, Len(s.un)), !.ing = s.ing \o mv, !.trig = s.trig \cup SeqSet(mv)],
            [i \in 1..Len(to) |-> Req(me, Hop(p, me, to[i]), to[i], me)])

\* a value for the waiting FindChunkInfo call (msgChan): the call returns it at once
Notify(s, v) == IF s.sync THEN [s EXCEPT !.sync = FALSE, !.fst = "done", !.ret = v] ELSE s

(***************************************************************************)
(* chunkinfo.go: Init / FindChunkInfo loop                                 *)
(***************************************************************************)
Count == 2        \* the download's single target, tried twice (overlays = append(overlays, overlays...))

LoopTop(s, me, p) ==
  IF s.ctd # {}
  THEN \* the pyramid is registered: stop the ticker, publish the result channel, fill the queue, process it
       LET new == IF InQ(s, "A") THEN <<>> ELSE <<"A">>
       IN QP([s EXCEPT !.sync = TRUE, !.pend = TRUE, !.hasq = TRUE, !.un = s.un \o new, !.fst = "wait"], me, p)
  ELSE IF s.att < Count
  THEN R([s EXCEPT !.att = @ + 1, !.fst = "rpc"], <<PReq(me, Hop(p, me, "A"), "A")>>)
  ELSE IF AsIs THEN R([s EXCEPT !.fst = "sel"], <<>>)          \* spins on the ticker for ever
  ELSE R([s EXCEPT !.fst = "done", !.ret = FALSE], <<>>)      \* repaired: nothing left to try

InitCall(s, me, p) ==
  IF s.dkey \/ (me \in s.ctd /\ s.ct[me] = IdxOf(p.file))
  THEN R([s EXCEPT !.fst = "done", !.ret = TRUE], <<>>)
  ELSE LoopTop([s EXCEPT !.att = 0, !.fails = 0, !.fst = "sel", !.del = FALSE, !.ddel = FALSE, !.late = {}], me, p)

\* a pyramid attempt of the running call failed
FailAttempt(s, me, p) ==
  IF s.fails + 1 >= Count THEN R([s EXCEPT !.fails = @ + 1, !.fst = "done", !.ret = FALSE], <<>>)
  ELSE LoopTop([s EXCEPT !.fails = @ + 1], me, p)

(***************************************************************************)
(* chunkpyramid / message.go: pyramid exchange                             *)
(***************************************************************************)
\* onChunkPyramidResp: verify, store, register (peer = the stream's other end)
OnPyramid(s, me, peer, p) ==
  IF s.pyr THEN s
  ELSE LET pcs == PiecesOf(p.file)
           s1 == [s EXCEPT !.pst = TRUE, !.st = @ \cup pcs, !.pyr = TRUE]
           s2 == IF ~s1.skey THEN [s1 EXCEPT !.skey = TRUE, !.psrc = peer, !.keys = @ \cup {<<"sourcePyramid", peer>>}]
                 ELSE IF s1.psrc = NoNode THEN [s1 EXCEPT !.psrc = peer, !.keys = @ \cup {<<"sourcePyramid", peer>>}]
                 ELSE s1
           s3 == IF s2.ctd = {} THEN [s2 EXCEPT !.ctd = {me}, !.ct = [ZeroV EXCEPT ![me] = {}], !.keys = @ \cup {<<"chunk", me>>}]
                 ELSE s2
           \* pieces: source bit (unless some source already has it) and own bit
           fresh == {c \in pcs : \A o \in s3.sd : c \notin s3.sv[o]}
           s4 == IF fresh = {} THEN s3
                 ELSE [s3 EXCEPT !.sd = @ \cup {peer}, !.sv = [@ EXCEPT ![peer] = @ \cup fresh],
                                 !.keys = @ \cup {<<"sourceChunk", peer>>}]
       IN IF pcs = {} \/ me \notin s4.ctd THEN s4
          ELSE [s4 EXCEPT !.ct = [@ EXCEPT ![me] = @ \cup pcs], !.keys = @ \cup {<<"chunk", me>>}]

\* handlerPyramid
OnPReq(s, me, m, p) ==
  IF m.tg = me \/ s.pyr
  THEN R(s, <<PResp(me, m.f, s.pst)>>)                     \* own pyramid (an error if the chunks are gone)
  ELSE R([s EXCEPT !.rel = Append(@, m.f)], <<PReq(me, m.tg, m.tg)>>)   \* relay; the handler waits for the reply

\* the reply to a pyramid request of `me` arrives (m.ok) or the stream fails (~m.ok, also a dropped leg)
OnPResp(s, me, m, p) ==
  IF s.fst = "rpc"
  THEN IF m.ok THEN R([OnPyramid(s, me, m.f, p) EXCEPT !.fst = "sel"], <<>>)
       ELSE FailAttempt(s, me, p)
  ELSE IF s.rel # <<>>
  THEN LET up == Head(s.rel)
           s1 == [s EXCEPT !.rel = Tail(@)]
       IN IF m.ok THEN R(OnPyramid(s1, me, m.f, p), <<PResp(me, up, TRUE)>>)
          ELSE R(s1, <<PResp(me, up, FALSE)>>)
  ELSE R(s, <<>>)

(***************************************************************************)
(* chunkinfodiscover.go: updateChunkInfo ; queue.go: updateQueue ;         *)
(* message.go: handlers of chunk-info requests and responses               *)
(***************************************************************************)
\* getChunkSize succeeds: the pyramid is registered, or can be registered from the local store
CanSize(s) == s.pyr \/ s.pst

UpdCI(s, o, bits) ==
  LET s1 == [s EXCEPT !.dkey = TRUE]
  IN IF o \in s1.dd
     THEN [s1 EXCEPT !.dv = [@ EXCEPT ![o] = @ \cup bits], !.keys = @ \cup {<<"discover", o>>}]
     ELSE IF ~CanSize(s1) THEN s1                           \* the empty entry stays behind
     ELSE [s1 EXCEPT !.pyr = TRUE, !.dd = @ \cup {o}, !.dv = [@ EXCEPT ![o] = bits], !.keys = @ \cup {<<"discover", o>>}]

\* second half of updateQueue, after the discovery record was written; qcap: the queue pointer read at the start
UpdQ(s, me, o, pd, qcap, p) ==
  IF ~qcap THEN R(s, <<>>)
  ELSE IF ~s.hasq
  THEN \* the queue was deleted meanwhile: the handler works on the orphan, then processes the (nil) current queue
       QP(s, me, p)
  ELSE LET new == {x \in pd : x # me /\ ~InQ(s, x) /\ (AsIs \/ x # o)}
           \* Go iterates the map in random order; a canonical order here, the judge compares as sets
           add == SetToSeq(new)
           moved == IF AsIs
                    THEN [s EXCEPT !.un = @ \o add, !.ing = RemoveAll(@, o), !.ed = Append(@, o)]
                    ELSE \* repaired: the overlay is moved, never copied
                         [s EXCEPT !.un = RemoveAll(@, o) \o add, !.ing = RemoveAll(@, o),
                                   !.ed = IF o \in SeqSet(@) THEN @ ELSE Append(@, o)]
       IN QP(moved, me, p)

\* onFindChunkInfo + updateQueue, atomic
OnFind(s, me, o, pd, pv, p) ==
  LET s0 == [s EXCEPT !.ans = @ \cup {o}, !.late = IF s.hasq THEN @ ELSE @ \cup {o}]
      s1 == Notify([s0 EXCEPT !.trig = @ \ {o}], TRUE)
      qcap == s1.hasq
      \* repaired: a response for a root without a discovery in progress is ignored
      s2 == IF o \in pd /\ (AsIs \/ qcap) THEN UpdCI(s1, o, pv[o]) ELSE s1
  IN UpdQ(s2, me, o, pd, qcap, p)

\* handlerChunkInfoReq
OnReq(s, me, m, p) ==
  IF m.tg = me THEN R(s, <<Resp(me, m.f, me, m.rq, s.ctd, [o \in Node |-> IF o \in s.ctd THEN s.ct[o] ELSE {}])>>)
  ELSE IF Reachable(m.tg) THEN R(s, <<Req(me, m.tg, m.tg, m.rq)>>)
  ELSE R(s, <<>>)

\* handlerChunkInfoResp
OnResp(s, me, m, p) ==
  IF m.rq = me THEN OnFind(s, me, m.tg, m.pd, m.pv, p)
  ELSE IF Reachable(m.rq) THEN R(s, <<Resp(me, m.rq, m.tg, m.rq, m.pd, m.pv)>>)
  ELSE R(s, <<>>)

(***************************************************************************)
(* local calls                                                             *)
(***************************************************************************)
Cancel(s) == [s EXCEPT !.pend = FALSE]

NoQueue(s) == [s EXCEPT !.pend = FALSE, !.hasq = FALSE, !.un = <<>>, !.ing = <<>>, !.ed = <<>>]

DropDisc(s) == [s EXCEPT !.dkey = FALSE, !.dd = {}, !.dv = ZeroV,
                         !.keys = {k \in @ : ~(k[1] = "discover" /\ k[2] \in s.dd)}]

\* repaired: a deletion wakes the waiting FindChunkInfo call (it returns false) and disarms the triggers
WakeOnDelete(s) == IF AsIs THEN s ELSE [Notify(s, FALSE) EXCEPT !.trig = {}]

Running(s) == s.fst \in {"rpc", "sel", "wait"}
DelDiscover(s) == [DropDisc(WakeOnDelete(NoQueue(s))) EXCEPT !.ddel = ~Running(s), !.late = {}]

\* DelFile: cancel, queue, then - only if the pyramid can be read from the local store - chunks and all tables
DelFileHead(s) == WakeOnDelete(NoQueue(s))
DelFileOk(s) == s.pst
DelFileChunks(s) == [s EXCEPT !.st = {}, !.pst = FALSE, !.pyr = FALSE]
DelFileTables(s) == [DropDisc(s) EXCEPT !.skey = FALSE, !.psrc = NoNode, !.sd = {}, !.sv = ZeroV,
                                       !.ctd = {}, !.ct = ZeroV,
                                       !.keys = {k \in @ : k[1] = "discover"}]
DelFile(s) == IF DelFileOk(s)
              THEN [DelFileTables(DelFileChunks(DelFileHead(s))) EXCEPT !.del = ~Running(s), !.ddel = ~Running(s), !.late = {}]
              ELSE DelFileHead(s)

\* A data chunk c is fetched from A under the file's context (netstore.Get -> retrieval -> OnChunkRetrieved at the
\* requester, OnChunkTransferred at A).  Only while the pyramid is registered (otherwise the retrieval first starts a
\* pyramid exchange of its own, which is not modelled) and the chunk is not stored yet.
CanRetrieve(s, me, c) == s.pyr /\ me \in s.ctd /\ c \notin s.st
Retrieved(s, me, c) ==
  LET fresh == \A o \in s.sd : c \notin s.sv[o]
  IN [s EXCEPT !.st = @ \cup {c}, !.ct = [@ EXCEPT ![me] = @ \cup {c}], !.keys = @ \cup {<<"chunk", me>>} \cup (IF fresh THEN {<<"sourceChunk", "A">>} ELSE {}),
               !.psrc = IF @ = NoNode THEN "A" ELSE @,
               !.sd = IF fresh THEN @ \cup {"A"} ELSE @, !.sv = IF fresh THEN [@ EXCEPT !["A"] = @ \cup {c}] ELSE @]
Served(a, to, c) == [a EXCEPT !.ctd = @ \cup {to}, !.ct = [@ EXCEPT ![to] = @ \cup {c}], !.keys = @ \cup {<<"chunk", to>>}]

\* timeouttrigger.go: the ticker handles the expired trigger of overlay o
Timeout(s, o) ==
  IF s.hasq
  THEN LET s1 == Notify(s, FALSE)
       IN IF AsIs THEN [s1 EXCEPT !.ing = RemoveAll(@, o), !.un = Append(@, o)]      \* trigger stays armed
          ELSE [s1 EXCEPT !.trig = @ \ {o}, !.ing = RemoveAll(@, o),
                          !.un = IF o \in SeqSet(s1.ing) THEN Append(@, o) ELSE @]
  ELSE \* no queue: the trigger is dropped, nobody is told (repaired: deletions already woke the caller)
       [s EXCEPT !.trig = @ \ {o}]

(***************************************************************************)
(* Forced schedule: the response handler is preempted inside               *)
(* updateChunkInfo's state-store Put (the discovery table's worker holds   *)
(* its lock); a deletion started meanwhile gets as far as the queue (and,  *)
(* for DelFile, the chunks and the pyramid table) and then waits for the   *)
(* worker.                                                                 *)
(***************************************************************************)
CanPark(s, me, m) == m.k = "resp" /\ m.rq = me /\ m.tg \in m.pd /\ s.hasq /\ ~s.mid /\ (m.tg \in s.dd \/ CanSize(s))

ParkResp(s, me, m) ==
  LET s1 == Notify([s EXCEPT !.trig = @ \ {m.tg}], TRUE)
      \* the in-memory record is already written, the persisted key is not
      s2 == [s1 EXCEPT !.dkey = TRUE, !.pyr = TRUE, !.dd = @ \cup {m.tg},
                       !.dv = [@ EXCEPT ![m.tg] = IF m.tg \in s1.dd THEN @ \cup m.pv[m.tg] ELSE m.pv[m.tg]]]
  IN [s2 EXCEPT !.mid = TRUE, !.mo = m.tg, !.mpd = m.pd, !.mq = TRUE, !.ans = @ \cup {m.tg}]

AsyncDelDiscover(s) == [WakeOnDelete(NoQueue(s)) EXCEPT !.dpend = "deldisc"]
AsyncDelFile(s) == IF DelFileOk(s) THEN [DelFileChunks(DelFileHead(s)) EXCEPT !.dpend = "delfile"]
                   ELSE [DelFileHead(s) EXCEPT !.dpend = "none"]

Release(s, me, p) ==
  LET s1 == [s EXCEPT !.keys = @ \cup {<<"discover", s.mo>>}, !.mid = FALSE]      \* the Put completes
      s2 == IF s1.dpend = "deldisc" THEN [DropDisc(s1) EXCEPT !.ddel = ~Running(s1), !.late = {}]
            ELSE IF s1.dpend = "delfile" THEN [DelFileTables(s1) EXCEPT !.keys = {}, !.del = ~Running(s1), !.ddel = ~Running(s1), !.late = {}]
            ELSE s1
      s3 == [s2 EXCEPT !.dpend = "-", !.mo = NoNode, !.mpd = {}, !.mq = FALSE, !.res = s.dpend]
  IN UpdQ(s3, me, s.mo, s.mpd, s.mq, p)

(***************************************************************************)
(* Actions                                                                 *)
(***************************************************************************)
Topos == {"direct", "partial", "relay", "ghosts"}
Pars == {[topo |-> "direct", file |-> "F1"], [topo |-> "direct", file |-> "F2"],
         [topo |-> "partial", file |-> "F2"], [topo |-> "relay", file |-> "F1"], [topo |-> "relay", file |-> "F2"]}
         \cup (IF Ghosts = {} THEN {} ELSE {[topo |-> "ghosts", file |-> "F2"]})

Init == /\ par \in Pars
        /\ ns = InitNodes(par)
        /\ msgs = <<>>

Without(q, i) == SubSeq(q, 1, i - 1) \o SubSeq(q, i + 1, Len(q))
Apply(n, r, rest) == /\ ns' = [ns EXCEPT ![n] = r.s]
                     /\ msgs' = rest \o r.out
                     /\ UNCHANGED par

Alive(n) == ~ns[n].crashed
Idle(n) == ~ns[n].mid            \* no handler of n is parked

Handle(m, s, me, p) == CASE m.k = "preq" -> OnPReq(s, me, m, p)
                         [] m.k = "presp" -> OnPResp(s, me, m, p)
                         [] m.k = "req" -> OnReq(s, me, m, p)
                         [] m.k = "resp" -> OnResp(s, me, m, p)

\* the failure a requester sees when a leg of its pyramid exchange is lost
LostLeg(m) == IF m.k = "preq" THEN PResp(m.t, m.f, FALSE) ELSE [m EXCEPT !.ok = FALSE]

DoInit(n) == /\ Alive(n) /\ Idle(n) /\ ns[n].fst \in {"idle", "done"}
             /\ Apply(n, InitCall(ns[n], n, par), msgs)

DoTick(n) == /\ Alive(n) /\ Idle(n) /\ ns[n].fst = "sel"
             /\ Apply(n, LoopTop(ns[n], n, par), msgs)

Deliver(i) == LET m == msgs[i] IN
              /\ m.t \in Real /\ Alive(m.t) /\ Idle(m.t)
              /\ Apply(m.t, Handle(m, ns[m.t], m.t, par), Without(msgs, i))

Dup(i) == LET m == msgs[i] IN
          /\ m.k \in {"req", "resp"} /\ m.t \in Real /\ Alive(m.t) /\ Idle(m.t)
          /\ Apply(m.t, Handle(m, ns[m.t], m.t, par), msgs)

Drop(i) == LET m == msgs[i] IN
           IF m.k \in {"preq", "presp"}
           THEN LET who == IF m.k = "preq" THEN m.f ELSE m.t
                IN /\ Alive(who) /\ Idle(who)
                   /\ Apply(who, OnPResp(ns[who], who, LostLeg(m), par), Without(msgs, i))
           ELSE msgs' = Without(msgs, i) /\ UNCHANGED <<par, ns>>

DoCancel(n) == Alive(n) /\ Idle(n) /\ Apply(n, R(Cancel(ns[n]), <<>>), msgs)
DoDelDiscover(n) == Alive(n) /\ Idle(n) /\ Apply(n, R(DelDiscover(ns[n]), <<>>), msgs)
DoDelFile(n) == Alive(n) /\ Idle(n) /\ Apply(n, R(DelFile(ns[n]), <<>>), msgs)
DoTimeout(n, o) == Alive(n) /\ Idle(n) /\ o \in ns[n].trig /\ Apply(n, R(Timeout(ns[n], o), <<>>), msgs)

DoRetrieve(n, c) == /\ Alive(n) /\ Idle(n) /\ n # "A" /\ par.topo # "relay" /\ c \in IdxOf(par.file) /\ CanRetrieve(ns[n], n, c)
                    /\ ns' = [ns EXCEPT ![n] = Retrieved(ns[n], n, c), !["A"] = Served(ns["A"], n, c)]
                    /\ UNCHANGED <<par, msgs>>

DoPark(i) == LET m == msgs[i] IN
             /\ m.t \in Real /\ Alive(m.t) /\ CanPark(ns[m.t], m.t, m)
             /\ Apply(m.t, R(ParkResp(ns[m.t], m.t, m), <<>>), Without(msgs, i))
DoAsyncDel(n, file) == /\ Alive(n) /\ ns[n].mid /\ ns[n].dpend = "-"
                       /\ Apply(n, R(IF file THEN AsyncDelFile(ns[n]) ELSE AsyncDelDiscover(ns[n]), <<>>), msgs)
DoRelease(n) == /\ Alive(n) /\ ns[n].mid
                /\ Apply(n, Release(ns[n], n, par), msgs)

Next == \/ \E n \in {"B"} : DoInit(n) \/ DoTick(n) \/ DoCancel(n) \/ DoDelDiscover(n) \/ DoDelFile(n)
                            \/ DoRelease(n) \/ DoAsyncDel(n, TRUE) \/ DoAsyncDel(n, FALSE)
        \/ \E n \in {"B"}, o \in Node : DoTimeout(n, o)
        \/ \E n \in {"B"}, c \in 1..2 : DoRetrieve(n, c)
        \/ \E i \in DOMAIN msgs : Deliver(i) \/ Dup(i) \/ Drop(i) \/ DoPark(i)

Spec == Init /\ [][Next]_vars

(***************************************************************************)
(* Properties                                                              *)
(***************************************************************************)
NoDup(q) == \A i, j \in DOMAIN q : i # j => q[i] # q[j]

\* D1: an overlay is in exactly one of the three queues, once; the bounds
D1Exclusive(s) == /\ NoDup(s.un \o s.ing \o s.ed)
D1Bounds(s) == /\ Len(s.ing) <= PullingMax
               /\ Len(s.ing) + Len(s.ed) <= PullMax
D1 == \A n \in Real : D1Exclusive(ns[n]) /\ D1Bounds(ns[n])
\* what holds as the code is (duplicates inflate Pulled, the sum is checked before pulling up to PullingMax more)
D1Pulling == \A n \in Real : Len(ns[n].ing) <= PullingMax

\* D3: the own availability record never claims a chunk that is not stored (outside a deletion in progress)
D3 == \A n \in Real : ns[n].dpend = "-" => (n \in ns[n].ctd => ns[n].ct[n] \subseteq ns[n].st)

\* D2: discovery records only hold overlays that answered, with vectors over the file's chunks
D2 == \A n \in Real : /\ ns[n].dd \subseteq ns[n].ans
                       /\ \A o \in ns[n].dd : ns[n].dv[o] \subseteq IdxOf(par.file)

\* D4: after the file was deleted (and no download of it is running or was started since) nothing is left of it;
\* after its discovery was deleted no discovery record is left
NoRecords(s) == ~s.dkey /\ s.dd = {} /\ ~s.skey /\ s.sd = {} /\ s.ctd = {} /\ s.keys = {} /\ ~s.hasq
D4File == \A n \in Real : ns[n].del /\ ~ns[n].mid => NoRecords(ns[n])
D4Disc == \A n \in Real : ns[n].ddel /\ ~ns[n].mid => ~ns[n].dkey /\ ns[n].dd = {}
\* what the code as it is guarantees instead: only a chunk-info response handled after the deletion brings
\* records back - the discovery-table entry (and, while the pyramid is still known, the answering overlay's
\* vector and persisted key), nothing else
D4AsIs == \A n \in Real : ~ns[n].mid =>
             /\ (ns[n].del => NoRecords([ns[n] EXCEPT !.dkey = FALSE]) /\ (ns[n].dkey => ns[n].late # {}))
             /\ (ns[n].ddel => ns[n].dd \subseteq ns[n].late /\ (ns[n].dkey => ns[n].late # {}))

\* crash-freedom.  With AsIs the nil queue is reachable, but only through the preempted response handler:
NoCrash == \A n \in Real : ~ns[n].crashed

\* as the code is, a crash needs the preempted response handler and a deletion that ran meanwhile
CrashOnlyWhenResumed == \A n \in Real : ns[n].crashed => ns[n].res \in {"deldisc", "delfile"}

\* persisted keys and in-memory tables agree (outside a parked handler)
KeysAgree == \A n \in Real : ~ns[n].mid /\ ns[n].dpend = "-" =>
               /\ \A o \in Node : (<<"discover", o>> \in ns[n].keys) <=> (o \in ns[n].dd)
               /\ \A o \in Node : (<<"chunk", o>> \in ns[n].keys) <=> (o \in ns[n].ctd)

\* D5 (safety form): a waiting Init can still be woken: its queue exists with an armed trigger, or messages are in flight
CanWake(n) == ns[n].fst = "wait" => \/ msgs # <<>>
                                    \/ (ns[n].hasq /\ ns[n].trig # {})
                                    \/ ns[n].mid
\* ... and a call in its select with the ticker running makes progress at the next tick
Spins(n) == ns[n].fst = "sel" /\ LoopTop(ns[n], n, par).s = ns[n]
D5 == \A n \in Real : CanWake(n) /\ ~Spins(n)

TypeOK == /\ par \in Pars
          /\ \A n \in Real : /\ ns[n].fst \in {"idle", "rpc", "sel", "wait", "done"}
                             /\ ns[n].dd \subseteq Node /\ ns[n].ctd \subseteq Node
                             /\ (~ns[n].hasq => ns[n].un = <<>> /\ ns[n].ing = <<>> /\ ns[n].ed = <<>>)
=============================================================================
