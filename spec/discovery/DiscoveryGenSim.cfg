SPECIFICATION GSpec
CONSTANTS
  PullMax = 200
  PullingMax = 10
  Ghosts <- GGhosts
  AsIs = TRUE
INVARIANT EmitFull
CHECK_DEADLOCK FALSE
