---------------------------- MODULE MCDiscovery ----------------------------
(* Bounded configurations of Discovery.tla for the design check.           *)
EXTENDS Discovery
CONSTANTS MsgBound, QBound, MCTopos

MCGhosts == {"G1", "G2"}
OneGhost == {"G1"}
NoGhosts == {}

\* duplicates and re-armed timeouts make queues and the bag grow without bound: explore up to these sizes
Bound == /\ Len(msgs) <= MsgBound
         /\ \A n \in Real : Len(ns[n].un) <= QBound /\ Len(ns[n].ed) <= QBound /\ Len(ns[n].ing) <= QBound

AllTopos == Topos
QuickTopos == {"direct", "ghosts"}
LiveTopos == {"direct", "partial"}
NoRelayTopos == {"direct", "partial", "ghosts"}
\* quick configurations leave retrievals out (only a retrieval changes the serving node A)
NoRetrieve == ns'["A"] = ns["A"]
MCSpec == (Init /\ par.topo \in MCTopos) /\ [][Next]_vars

(***************************************************************************)
(* D5 as a liveness property: every Init call returns.  Assumptions: the   *)
(* loop's ticker ticks, an armed timeout trigger eventually fires, a       *)
(* queued message is eventually delivered or lost, a parked handler is     *)
(* eventually resumed.  Duplication is left out here (it can keep the bag  *)
(* non-empty for ever, which says nothing about the call).                 *)
(***************************************************************************)
NextLive == \/ \E n \in {"B"} : DoInit(n) \/ DoTick(n) \/ DoCancel(n) \/ DoDelDiscover(n) \/ DoDelFile(n)
                                  \/ DoRelease(n) \/ DoAsyncDel(n, TRUE) \/ DoAsyncDel(n, FALSE)
            \/ \E n \in {"B"}, o \in Node : DoTimeout(n, o)
            \/ \E n \in {"B"}, c \in 1..2 : DoRetrieve(n, c)
            \/ \E i \in DOMAIN msgs : Deliver(i) \/ Drop(i) \/ DoPark(i)
Fair == /\ WF_vars(DoTick("B"))
        /\ WF_vars(\E o \in Node : DoTimeout("B", o))
        /\ WF_vars(\E i \in DOMAIN msgs : Deliver(i) \/ Drop(i))
        /\ WF_vars(DoRelease("B"))
LiveSpec == (Init /\ par.topo \in MCTopos) /\ [][NextLive]_vars /\ Fair
InitReturns == (ns["B"].fst \in {"rpc", "sel", "wait"}) ~> (ns["B"].fst = "done" \/ ns["B"].crashed)

=============================================================================
