---------------------------- MODULE MCDiscovery ----------------------------
(* Bounded configurations of Discovery.tla for the design check.           *)
EXTENDS Discovery
CONSTANTS MsgBound, QBound, MCTopos

MCGhosts == {"G1", "G2"}
OneGhost == {"G1"}
NoGhosts == {}

\* duplicates and re-armed timeouts make queues and the bag grow without bound: explore up to these sizes
Bound == /\ Len(msgs) <= MsgBound
         /\ \A n \in Real : Len(ns[n].un) <= QBound /\ Len(ns[n].ed) <= QBound /\ Len(ns[n].ing) <= QBound

AllTopos == Topos
QuickTopos == {"direct", "ghosts"}
MCSpec == (Init /\ par.topo \in MCTopos) /\ [][Next]_vars

=============================================================================
