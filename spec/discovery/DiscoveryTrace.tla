--------------------------- MODULE DiscoveryTrace ---------------------------
(* Judge of recorded runs of the real chunk-info code (harness/cmd/discdrv) *)
(* against Discovery.tla.  Monitor mode (TraceKit): one step per event.     *)
(*                                                                          *)
(* Verdict clauses (can alarm) are the statements over the recorded dumps:  *)
(*   C17:own_bits_subset_stored, C17:full_claim_implies_all_stored   (D3)   *)
(*   C17:no_record_after_delete                                (D4, records)*)
(*   C37:no_crash_on_malformed_message      (crashes after an injected,     *)
(*                                           malformed message only)        *)
(* Everything else is a conformance note and never alarms: D1 (queue        *)
(* exclusivity and bounds), D2 (discovery records only of overlays that     *)
(* answered, vectors of the file's length), D4 for DelDiscover, a crash     *)
(* caused by an interleaving of well-formed messages, D5 (an Init that can  *)
(* no longer return), and every difference between what the mechanism model *)
(* predicts for the step and what the code did (drift:<group>@<op>).        *)
(*                                                                          *)
(* The model state is resynchronised to the recorded dump after every       *)
(* event; the statement-level history (who answered, what was deleted, was  *)
(* a malformed message injected) is built from the operations only.         *)
EXTENDS Discovery, TraceKit

GGhosts == {"G01", "G02", "G03", "G04", "G05", "G06", "G07", "G08", "G09", "G10", "G11", "G12"}
TAsIs == ~("VERIF_ASIS" \in DOMAIN IOEnv /\ IOEnv.VERIF_ASIS = "0")

VARIABLES l, bad, notes,
          hs,        \* [Real -> [ans, del, ddel, prog]]  statement-level history
          mal,       \* a malformed message was injected in this scenario
          dead       \* the scenario's node process died / a node crashed: nothing more to judge

tvars == <<vars, l, bad, notes, hs, mal, dead>>

(***************************************************************************)
(* the recorded projection -> model values                                 *)
(***************************************************************************)
TRange(t) == {t[i] : i \in DOMAIN t}
Bits(t) == {i \in DOMAIN t : t[i] = 1}
ObsDom(list) == {list[j].o : j \in DOMAIN list} \cap Node
ObsVec(list) == [o \in Node |-> LET J == {j \in DOMAIN list : list[j].o = o}
                                IN IF J = {} THEN {} ELSE Bits(list[CHOOSE j \in J : TRUE].bits)]
Unknown(list) == {list[j].o : j \in DOMAIN list} \ Node

\* hidden part h (call state, parked handler, relays) is kept; the rest is what the dump says
ObsNode(o, me, h) ==
  [h EXCEPT !.pyr = o.pyr, !.pst = o.pst, !.st = Bits(o.stored),
            !.ctd = (IF o.own.has THEN {me} ELSE {}) \cup ObsDom(o.nbr),
            !.ct = [x \in Node |-> IF x = me THEN Bits(o.own.bits) ELSE ObsVec(o.nbr)[x]],
            !.dkey = o.dkey, !.dd = ObsDom(o.disc), !.dv = ObsVec(o.disc),
            !.skey = o.srckey, !.psrc = IF o.pyrsrc = "" THEN NoNode ELSE o.pyrsrc,
            !.sd = ObsDom(o.src), !.sv = ObsVec(o.src),
            !.keys = {<<o.keys[j][1], o.keys[j][2]>> : j \in DOMAIN o.keys},
            !.hasq = o.hasq, !.un = o.un, !.ing = o.ing, !.ed = o.ed,
            !.pend = o.pend, !.sync = o.sync, !.trig = TRange(o.trig), !.crashed = o.crashed,
            !.fst = IF o.init = "none" THEN "idle"
                    ELSE IF o.init \in {"true", "false", "panicked"} THEN "done"
                    ELSE IF h.fst \in {"rpc", "sel", "wait"} THEN h.fst
                    ELSE IF o.sync THEN "wait" ELSE "sel",
            !.ret = IF o.init = "true" THEN TRUE ELSE IF o.init = "false" THEN FALSE ELSE h.ret]

ObsMsg(r) == [k |-> r.k, f |-> r.f, t |-> r.t, tg |-> r.tg, rq |-> r.rq,
              pd |-> ObsDom(r.pres), pv |-> ObsVec(r.pres), ok |-> r.ok]
ObsMsgs(e) == [j \in DOMAIN e.held |-> ObsMsg(e.held[j])]

(***************************************************************************)
(* comparison of a predicted node state with the recorded one, by group    *)
(***************************************************************************)
Collapse(x) == IF x \in GGhosts THEN "G" ELSE x
BagOf(q) == [x \in {Collapse(q[i]) : i \in DOMAIN q} |-> Cardinality({i \in DOMAIN q : Collapse(q[i]) = x})]
SetBag(S) == [x \in {Collapse(y) : y \in S} |-> Cardinality({y \in S : Collapse(y) = x})]
CallOf(s) == IF s.fst = "idle" THEN "none" ELSE IF s.fst = "done" THEN (IF s.ret THEN "true" ELSE "false") ELSE "running"

Diff(p, o) ==
     (IF p.pyr = o.pyr /\ p.pst = o.pst /\ p.st = o.st THEN <<>> ELSE <<"store">>)
  \o (IF p.ctd = o.ctd /\ p.ct = o.ct THEN <<>> ELSE <<"ct">>)
  \o (IF p.dkey = o.dkey /\ p.dd = o.dd /\ p.dv = o.dv THEN <<>> ELSE <<"disc">>)
  \o (IF p.skey = o.skey /\ p.psrc = o.psrc /\ p.sd = o.sd /\ p.sv = o.sv THEN <<>> ELSE <<"src">>)
  \o (IF p.keys = o.keys THEN <<>> ELSE <<"keys">>)
  \o (IF p.hasq = o.hasq /\ BagOf(p.un) = BagOf(o.un) /\ BagOf(p.ing) = BagOf(o.ing) /\ BagOf(p.ed) = BagOf(o.ed)
      THEN <<>> ELSE <<"queue">>)
  \o (IF p.pend = o.pend /\ p.sync = o.sync /\ SetBag(p.trig) = SetBag(o.trig) THEN <<>> ELSE <<"flags">>)
  \o (IF CallOf(p) = CallOf(o) THEN <<>> ELSE <<"init">>)

SameBag(a, b) == /\ Len(a) = Len(b)
                 /\ \A i \in DOMAIN a : Cardinality({j \in DOMAIN a : a[j] = a[i]}) = Cardinality({j \in DOMAIN b : b[j] = a[i]})

(***************************************************************************)
(* prediction: the model's step for the recorded operation                 *)
(***************************************************************************)
SameKey(m, e) == m.k = e.k /\ m.f = e.f /\ m.t = e.t /\ m.tg = e.tg /\ m.rq = e.rq
\* position in msgs of the message the operation names: the idx-th oldest with its key (0: the model has none)
Pos(e) == LET J == {j \in DOMAIN msgs : SameKey(msgs[j], e)}
              want == IF Has(e, "idx") THEN e.idx ELSE 1
              K == {j \in J : Cardinality({x \in J : x <= j}) = want}
          IN IF K = {} THEN 0 ELSE CHOOSE j \in K : TRUE

\* [n |-> acting node, r |-> [s, out], rest |-> remaining bag] ; n = "-": no prediction
NoPred == [n |-> NoNode, r |-> R(NodeZero, <<>>), rest |-> msgs]
\* the one operation that changes a second node: a retrieval also updates the serving node A
Second(e) == IF e.op = "retrieve" /\ ~e.err /\ CanRetrieve(ns[e.n], e.n, e.c) THEN "A" ELSE NoNode
Pred(e) ==
  CASE e.op = "init" -> [n |-> e.n, r |-> InitCall(ns[e.n], e.n, par), rest |-> msgs]
    [] e.op = "tick" -> [n |-> e.n, r |-> LoopTop(ns[e.n], e.n, par), rest |-> msgs]
    [] e.op = "cancel" -> [n |-> e.n, r |-> R(Cancel(ns[e.n]), <<>>), rest |-> msgs]
    [] e.op = "deldisc" -> [n |-> e.n, r |-> R(IF Has(e, "blocked") THEN AsyncDelDiscover(ns[e.n]) ELSE DelDiscover(ns[e.n]), <<>>), rest |-> msgs]
    [] e.op = "delfile" -> [n |-> e.n, r |-> R(IF Has(e, "blocked") THEN AsyncDelFile(ns[e.n]) ELSE DelFile(ns[e.n]), <<>>), rest |-> msgs]
    [] e.op = "release" -> [n |-> e.n, r |-> Release(ns[e.n], e.n, par), rest |-> msgs]
    [] e.op = "retrieve" -> [n |-> e.n, r |-> R(IF ~e.err /\ CanRetrieve(ns[e.n], e.n, e.c) THEN Retrieved(ns[e.n], e.n, e.c) ELSE ns[e.n], <<>>), rest |-> msgs]
    [] e.op = "timeout" -> [n |-> e.n, r |-> R(IF e.o \in ns[e.n].trig THEN Timeout(ns[e.n], e.o) ELSE ns[e.n], <<>>), rest |-> msgs]
    [] e.op \in {"deliver", "dup", "drop", "park"} ->
         LET i == Pos(e) IN
         IF i = 0 \/ ~e.found THEN NoPred
         ELSE LET m == msgs[i]
                  rest == IF e.op = "dup" THEN msgs ELSE Without(msgs, i)
              IN IF e.op = "park" THEN [n |-> m.t, r |-> R(ParkResp(ns[m.t], m.t, m), <<>>), rest |-> rest]
                 ELSE IF e.op = "drop"
                 THEN IF m.k \in {"preq", "presp"}
                      THEN LET who == IF m.k = "preq" THEN m.f ELSE m.t
                           IN [n |-> who, r |-> OnPResp(ns[who], who, LostLeg(m), par), rest |-> rest]
                      ELSE [n |-> m.t, r |-> R(ns[m.t], <<>>), rest |-> rest]
                 ELSE [n |-> m.t, r |-> Handle(m, ns[m.t], m.t, par), rest |-> rest]
    [] OTHER -> NoPred

\* The FindChunkInfo loop sits in its select with a 1 s ticker running after a successful pyramid exchange.  If a
\* tick is already buffered (the exchange took longer than the ticker period) the loop goes round at once: the
\* delivery of the reply and the `tick` are then one observable step.  Both are the model's behaviour (DoTick may
\* follow immediately); the judge takes the alternative that explains the dump.
Ticked(p) == IF p.n # NoNode /\ p.r.s.fst = "sel"
             THEN LET q == LoopTop(p.r.s, p.n, par) IN [n |-> p.n, r |-> R(q.s, p.r.out \o q.out), rest |-> p.rest]
             ELSE p
Explains(e, p) == p.n # NoNode /\ Diff(p.r.s, ObsNode(e.st[p.n], p.n, p.r.s)) = <<>>
BestPred(e) == LET p == Pred(e) IN
               IF e.op = "tick" /\ ns[e.n].fst # "sel" THEN [n |-> e.n, r |-> R(ns[e.n], <<>>), rest |-> msgs]   \* went round earlier
               ELSE IF Explains(e, p) THEN p
               ELSE IF Explains(e, Ticked(p)) THEN Ticked(p) ELSE p

(***************************************************************************)
(* statement-level history                                                 *)
(***************************************************************************)
H0 == [n \in Real |-> [ans |-> {}, del |-> FALSE, ddel |-> FALSE, prog |-> "-"]]

\* was an Init of n running according to the dump before this event (the model holds the previous dump)
WasRunning(n) == ns[n].fst \in {"rpc", "sel", "wait"}

HNext(e) ==
  [n \in Real |->
     LET h == hs[n] IN
     IF e.op \in {"deliver", "dup", "park"} /\ e.found /\ e.k = "resp" /\ e.t = n /\ e.rq = n
     THEN [h EXCEPT !.ans = @ \cup {e.tg}]
     ELSE IF ~Has(e, "n") \/ e.n # n THEN h
     ELSE IF e.op = "retrieve" /\ e.err
     THEN \* the call gave up (deadline) but the retrieval goes on in the background: its bit and its chunk arrive later,
          \* in an order the recording cannot see - the node's record is not judged for the rest of the scenario
          [h EXCEPT !.del = FALSE, !.ddel = FALSE, !.prog = "retrieve"]
     ELSE IF e.op \in {"init", "retrieve"} THEN [h EXCEPT !.del = FALSE, !.ddel = FALSE]   \* a new download may register the file again
     ELSE IF e.op = "delfile" /\ Has(e, "blocked") THEN [h EXCEPT !.prog = IF ns[n].pst THEN "delfile" ELSE "-"]
     ELSE IF e.op = "deldisc" /\ Has(e, "blocked") THEN [h EXCEPT !.prog = "deldisc"]
     ELSE IF e.op = "delfile" /\ e.code = 200 THEN [h EXCEPT !.del = ~WasRunning(n), !.ddel = ~WasRunning(n)]
     ELSE IF e.op = "deldisc" THEN [h EXCEPT !.ddel = ~WasRunning(n)]
     ELSE IF e.op = "release" /\ h.prog # "retrieve" THEN [h EXCEPT !.prog = "-",
                                             !.del = IF h.prog = "delfile" THEN ~WasRunning(n) ELSE @,
                                             !.ddel = IF h.prog \in {"delfile", "deldisc"} THEN ~WasRunning(n) ELSE @]
     ELSE h]

(***************************************************************************)
(* verdict clauses: over the recorded dump o of node n                     *)
(***************************************************************************)
AllOnes(t) == \A i \in DOMAIN t : t[i] = 1
NoRecordsObs(o) == /\ ~o.skey /\ ~o.dkey /\ ~o.srckey /\ ~o.own.has /\ ~o.listed
                   /\ o.nbr = <<>> /\ o.disc = <<>> /\ o.src = <<>> /\ o.keys = <<>>
                   /\ o.pubdisc = 0 /\ o.pubsrv = 0 /\ o.pubsrc = 0 /\ ~o.pubpyrsrc

NodeVerdict(o, h, m) ==
     (IF h.prog = "-" /\ o.own.has
      THEN Clause("C17:own_bits_subset_stored",
                  \A i \in DOMAIN o.own.bits : o.own.bits[i] = 1 => (i \in DOMAIN o.stored /\ o.stored[i] = 1))
        \o Clause("C17:full_claim_implies_all_stored",
                  (o.own.len > 0 /\ AllOnes(o.own.bits)) => (Len(o.stored) = o.own.len /\ AllOnes(o.stored)))
      ELSE <<>>)
  \o (IF h.del /\ ~m /\ ~o.busy THEN Clause("C17:no_record_after_delete", NoRecordsObs(o)) ELSE <<>>)

Verdict(e, h, m) ==
     NodeVerdict(e.st.A, h["A"], m) \o NodeVerdict(e.st.B, h["B"], m) \o NodeVerdict(e.st.C, h["C"], m)
  \o (IF m THEN Clause("C37:no_crash_on_malformed_message", e.crash = "") ELSE <<>>)

(***************************************************************************)
(* conformance notes                                                       *)
(***************************************************************************)
NoDupQ(o) == NoDup(o.un \o o.ing \o o.ed)
NodeNotes(o, h, m, n, nd, held) ==
     (IF ~NoDupQ(o) /\ D1Exclusive(ns[n]) THEN <<"D1:overlay_in_more_than_one_queue_position@" \o n>> ELSE <<>>)
  \o (IF Len(o.ing) > PullingMax \/ Len(o.ing) + Len(o.ed) > PullMax THEN <<"D1:queue_bound_exceeded@" \o n>> ELSE <<>>)
  \o (IF ~m /\ ~(ObsDom(o.disc) \subseteq h.ans) THEN <<"D2:discovery_record_of_an_overlay_that_did_not_answer@" \o n>> ELSE <<>>)
  \o (IF ~m /\ (\E j \in DOMAIN o.disc : o.disc[j].len # nd \/ o.disc[j].nil) THEN <<"D2:discovery_vector_not_of_the_file_length@" \o n>> ELSE <<>>)
  \o (IF o.own.has /\ o.own.len # nd THEN <<"D2:own_vector_not_of_the_file_length@" \o n>> ELSE <<>>)
  \o (IF ~m /\ h.ddel /\ ~h.del /\ ~o.busy /\ (o.dkey \/ o.disc # <<>>) /\ ~ns[n].dkey
      THEN <<"D4:discovery_record_recreated_after_DelDiscover_by_a_late_response@" \o n>> ELSE <<>>)
  \o (IF o.init = "running" /\ o.sync /\ held = <<>> /\ ~(o.hasq /\ o.trig # <<>>) /\ h.prog = "-" /\ ~ns[n].mid
         /\ ~(ns[n].fst = "wait" /\ ns[n].sync /\ ~(ns[n].hasq /\ ns[n].trig # {}) /\ msgs = <<>>)
      THEN <<"D5:init_can_no_longer_return@" \o n>> ELSE <<>>)
  \o (IF Unknown(o.nbr) \cup Unknown(o.disc) \cup Unknown(o.src) # {} THEN <<"unknown_overlay_in_tables@" \o n>> ELSE <<>>)

DriftNotes(e, p) ==
  IF p.n = NoNode THEN (IF e.op \in {"inject", "reset", "crash"} THEN <<>> ELSE <<"drift:no_prediction@" \o e.op>>)
  ELSE LET others == Real \ {p.n}
           dn == Diff(p.r.s, ObsNode(e.st[p.n], p.n, p.r.s))
           exp(n) == IF n = Second(e) THEN Served(ns[n], e.n, e.c) ELSE ns[n]
           od == {n \in others : Diff(exp(n), ObsNode(e.st[n], n, exp(n))) # <<>>}
       IN [i \in DOMAIN dn |-> "drift:" \o dn[i] \o "@" \o e.op]
          \o (IF od = {} THEN <<>> ELSE <<"drift:bystander_changed@" \o e.op>>)
          \o (IF SameBag(p.rest \o p.r.out, ObsMsgs(e)) THEN <<>> ELSE <<"drift:messages@" \o e.op>>)

NoteRec(e, what) == [scn |-> e.scn, i |-> e.i, op |-> e.op, note |-> what]

(***************************************************************************)
(* the monitor                                                             *)
(***************************************************************************)
TInit == /\ l = 1 /\ bad = <<>> /\ notes = <<>>
         /\ par = [topo |-> "direct", file |-> "F1"] /\ ns = InitNodes(par) /\ msgs = <<>>
         /\ hs = H0 /\ mal = FALSE /\ dead = TRUE

TStep ==
  /\ l <= NEvents
  /\ l' = l + 1
  /\ LET e == Trace[l] IN
     IF e.op = "reset"
     THEN LET p == [topo |-> e.topo, file |-> e.file]
              died == Has(e, "died")
              z == InitNodes(p)
              obs == IF died THEN z ELSE [n \in Real |-> ObsNode(e.st[n], n, NodeZero)]
              setup == IF died THEN {} ELSE {n \in Real : Diff(z[n], obs[n]) # <<>>}
          IN /\ par' = p /\ ns' = obs /\ msgs' = <<>>
             /\ hs' = H0 /\ mal' = (Has(e, "mal") /\ e.mal) /\ dead' = FALSE
             /\ bad' = bad
             /\ notes' = IF setup = {} THEN notes ELSE Append(notes, NoteRec(e, "drift:setup_state"))
     ELSE IF e.op = "crash"
     THEN \* the node process died while this scenario ran alone (internal/supervise): a crash of the code under test
          /\ UNCHANGED <<par, ns, msgs, hs, mal>>
          /\ dead' = TRUE
          /\ bad' = IF mal THEN Append(bad, BadRec(l, e, <<"C37:no_crash_on_malformed_message">>)) ELSE bad
          /\ notes' = IF mal THEN notes ELSE Append(notes, NoteRec(e, "D4:node_process_died_on_wellformed_messages"))
     ELSE IF dead THEN UNCHANGED <<par, ns, msgs, hs, mal, dead, bad, notes>>
     ELSE LET m2 == mal \/ e.op = "inject"
              h2 == HNext(e)
              p == IF e.op = "inject" THEN NoPred ELSE BestPred(e)
              cs == Verdict(e, h2, m2)
              held == ObsMsgs(e)
              nts == DriftNotes(e, p)
                     \o NodeNotes(e.st.A, h2["A"], m2, "A", NDof(par.file), held)
                     \o NodeNotes(e.st.B, h2["B"], m2, "B", NDof(par.file), held)
                     \o NodeNotes(e.st.C, h2["C"], m2, "C", NDof(par.file), held)
                     \o (IF e.crash # "" /\ ~m2 THEN <<"D4:crash_by_an_interleaving_of_wellformed_messages:" \o e.ptext>> ELSE <<>>)
                     \o (IF e.late THEN <<"late@" \o e.op>> ELSE <<>>)
                     \o (IF ~e.found THEN <<"no_such_message_queued@" \o e.op>> ELSE <<>>)
              hid == [n \in Real |-> IF n = p.n THEN p.r.s ELSE ns[n]]
          IN /\ UNCHANGED par
             /\ mal' = m2 /\ hs' = h2
             /\ dead' = (e.crash # "")
             /\ bad' = IF cs = <<>> THEN bad ELSE Append(bad, BadRec(l, e, cs))
             /\ notes' = notes \o [i \in DOMAIN nts |-> NoteRec(e, nts[i])]
             /\ ns' = [n \in Real |-> ObsNode(e.st[n], n, hid[n])]       \* resynchronise to the dump
             /\ msgs' = held

TSpec == TInit /\ [][TStep]_tvars

Report == ReportBad(l, bad, notes)
=============================================================================
