\* D5, liveness form, on the mechanism with the proposed repairs: every Init call returns
SPECIFICATION LiveSpec
CONSTANTS
  PullMax = 3
  PullingMax = 2
  Ghosts <- OneGhost
  MsgBound = 2
  QBound = 2
  MCTopos <- LiveTopos
  AsIs = FALSE
CONSTRAINT Bound
ACTION_CONSTRAINT NoRetrieve
PROPERTIES InitReturns
CHECK_DEADLOCK FALSE
