SPECIFICATION TSpec
CONSTANTS
  PullMax = 200
  PullingMax = 10
  Ghosts <- GGhosts
  AsIs <- TAsIs
INVARIANT Report
POSTCONDITION AllConsumed
CHECK_DEADLOCK FALSE
