\* repaired mechanism with retrievals of data chunks interleaved (D3 beyond the pieces of the pyramid)
SPECIFICATION MCSpec
CONSTANTS
  PullMax = 3
  PullingMax = 2
  Ghosts <- OneGhost
  MsgBound = 2
  QBound = 2
  MCTopos <- LiveTopos
  AsIs = FALSE
CONSTRAINT Bound
INVARIANTS TypeOK D1 D2 D3 D4File D4Disc NoCrash KeysAgree D5
CHECK_DEADLOCK FALSE
