\* mechanism as the code has it, larger bounds (3 queued messages), topologies direct, partial, ghosts, no retrievals
SPECIFICATION MCSpec
CONSTANTS
  PullMax = 3
  PullingMax = 2
  Ghosts <- OneGhost
  MsgBound = 3
  QBound = 2
  MCTopos <- NoRelayTopos
  AsIs = TRUE
CONSTRAINT Bound
ACTION_CONSTRAINT NoRetrieve
INVARIANTS TypeOK D1Pulling D2 D3 D4AsIs KeysAgree CrashOnlyWhenResumed
CHECK_DEADLOCK FALSE
