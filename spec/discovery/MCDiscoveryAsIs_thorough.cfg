\* the mechanism as the code has it: what it does guarantee (D2, D3, the queue bounds, the exact shape of what a
\* late response re-creates, crashes only through the preempted response handler)
SPECIFICATION MCSpec
CONSTANTS
  PullMax = 3
  PullingMax = 2
  Ghosts <- MCGhosts
  MsgBound = 3
  QBound = 3
  MCTopos <- AllTopos
  AsIs = TRUE
CONSTRAINT Bound
INVARIANTS TypeOK D1Pulling D2 D3 D4AsIs KeysAgree CrashOnlyWhenResumed
CHECK_DEADLOCK FALSE
