\* NOT a registered design check: on the mechanism as the code has it each of the invariants below is VIOLATED.
\* Run with one invariant at a time to get its counterexample (shortest, by TLC's breadth-first search):
\*   D1      7 states: Init, pyramid exchange, tick, the timeout trigger of A fires twice (it is never disarmed):
\*             A is twice in UnPull.  Also: a duplicated / late response puts the overlay into Pulled again.
\*   D4File  9 states: ... DelFile, then a chunk-info response that was still queued: cd.presence[root] is back (empty).
\*   D4Disc  9 states: ... DelDiscover, then a queued response: discovery record and persisted key are back.
\*   D5      7 states: ... tick (request sent), DelFile/DelDiscover, request lost: the call waits for ever
\*             (the timer finds no queue and tells nobody); also Init; pyramid; DelFile twice: the loop spins on its ticker.
\*   NoCrash 9 states: response handler preempted in updateChunkInfo, DelFile/DelDiscover, handler resumes:
\*             queueProcess dereferences the nil queue.
\* All five were reproduced on the real code by forced schedules (harness/cmd/discdrv; conformance notes D1/D4/D5,
\* known finding C17-late-chunkinfo-response-recreates-discovery-record).
SPECIFICATION MCSpec
CONSTANTS
  PullMax = 3
  PullingMax = 2
  Ghosts <- OneGhost
  MsgBound = 2
  QBound = 2
  MCTopos <- AllTopos
  AsIs = TRUE
CONSTRAINT Bound
INVARIANTS D1 D4File D4Disc D5 NoCrash
CHECK_DEADLOCK FALSE
