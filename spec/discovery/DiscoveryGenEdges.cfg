SPECIFICATION GSpec
CONSTANTS
  PullMax = 200
  PullingMax = 10
  Ghosts <- GGhosts
  AsIs = TRUE
VIEW EdgeView
INVARIANT EmitAll
CHECK_DEADLOCK FALSE
