\* mechanism as the code has it with retrievals of data chunks interleaved
SPECIFICATION MCSpec
CONSTANTS
  PullMax = 3
  PullingMax = 2
  Ghosts <- OneGhost
  MsgBound = 2
  QBound = 2
  MCTopos <- QuickTopos
  AsIs = TRUE
CONSTRAINT Bound
INVARIANTS TypeOK D1Pulling D2 D3 D4AsIs KeysAgree CrashOnlyWhenResumed
CHECK_DEADLOCK FALSE
