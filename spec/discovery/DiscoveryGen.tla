---------------------------- MODULE DiscoveryGen ----------------------------
(* Scenario generator: the actions of Discovery.tla (the mechanism as the   *)
(* code has it, real queue bounds) plus a history of driver operations.     *)
(* Every operation carries what the driver has to wait for before it logs   *)
(* (hm: messages queued after the step, ret: the Init call that returns, w*: *)
(* the acting node's tables) -- synchronisation only, the judge ignores them.*)
(*                                                                          *)
(* VERIF_DISCMODE selects the operations mixed in:                          *)
(*   core     init, tick, deliver, drop, duplicate, retrieval of a chunk    *)
(*   del      core + cancel / DelDiscover / DelFile                         *)
(*   late     a deletion, then a response that was still queued             *)
(*   timeout  core + firing of timeout triggers                             *)
(*   forced   the response handler parked in updateChunkInfo, a deletion    *)
(*            started meanwhile, release (forced schedule of the race)      *)
(*   mal      core + deletions + messages of a peer outside the protocol    *)
(* Modes: edges (cfg with VIEW: pre-state, state, budgets, last operation)  *)
(* and -simulate walks.                                                     *)
EXTENDS Discovery, Json, IOUtils

VARIABLES hist, pre, cnt

GGhosts == {"G01", "G02", "G03", "G04", "G05", "G06", "G07", "G08", "G09", "G10", "G11", "G12"}

Depth == IF "VERIF_DEPTH" \in DOMAIN IOEnv THEN atoi(IOEnv.VERIF_DEPTH) ELSE 8
Mode == IF "VERIF_DISCMODE" \in DOMAIN IOEnv THEN IOEnv.VERIF_DISCMODE ELSE "core"
TopoSel == IF "VERIF_DISCTOPO" \in DOMAIN IOEnv THEN IOEnv.VERIF_DISCTOPO ELSE "all"

Cnt0 == [drop |-> 0, dup |-> 0, local |-> 0, timeout |-> 0, init |-> 0, park |-> 0, inject |-> 0, retr |-> 0]
Budget == CASE Mode = "core" -> [drop |-> 2, dup |-> 2, local |-> 0, timeout |-> 0, init |-> 2, park |-> 0, inject |-> 0, retr |-> 1]
            [] Mode = "del" -> [drop |-> 1, dup |-> 1, local |-> 2, timeout |-> 0, init |-> 2, park |-> 0, inject |-> 0, retr |-> 2]
            [] Mode = "late" -> [drop |-> 0, dup |-> 1, local |-> 1, timeout |-> 0, init |-> 1, park |-> 0, inject |-> 0, retr |-> 1]
            [] Mode = "timeout" -> [drop |-> 2, dup |-> 0, local |-> 1, timeout |-> 2, init |-> 1, park |-> 0, inject |-> 0, retr |-> 0]
            [] Mode = "forced" -> [drop |-> 0, dup |-> 1, local |-> 1, timeout |-> 0, init |-> 2, park |-> 1, inject |-> 0, retr |-> 1]
            [] Mode = "mal" -> [drop |-> 0, dup |-> 0, local |-> 1, timeout |-> 0, init |-> 2, park |-> 0, inject |-> 1, retr |-> 1]
            [] OTHER -> [drop |-> 2, dup |-> 1, local |-> 2, timeout |-> 1, init |-> 2, park |-> 1, inject |-> 0, retr |-> 2]
Can(what) == cnt[what] < Budget[what]
Used(what) == [cnt EXCEPT ![what] = @ + 1]

Shapes == {"resp_short_vector", "resp_long_vector", "resp_key_not_hex", "resp_key_short_addr", "resp_self_target",
           "resp_empty_target", "resp_no_presence", "resp_empty_root", "resp_as_A", "resp_empty_req",
           "req_empty_root", "req_short_root", "req_empty_target", "req_empty_req",
           "preq_empty_root", "preq_short_root", "preq_unknown_target", "raw_garbage"}

\* what the driver waits for at the acting node
WaitOf(n, s) == [wn |-> n, wpyr |-> s.pyr, wown |-> IF n \in s.ctd THEN Cardinality(s.ct[n]) ELSE 0 - 1,
                 wdkey |-> s.dkey, whasq |-> s.hasq]
RetOf(n, s) == IF ns[n].fst # "done" /\ s.fst = "done" THEN n ELSE ""

KeyOf(m) == <<m.k, m.f, m.t, m.tg, m.rq>>
IdxIn(i) == Cardinality({j \in 1..i : KeyOf(msgs[j]) = KeyOf(msgs[i])})
First(i) == \A j \in 1..(i - 1) : msgs[j] # msgs[i]
MsgOp(name, i) == [op |-> name, k |-> msgs[i].k, f |-> msgs[i].f, t |-> msgs[i].t, tg |-> msgs[i].tg, rq |-> msgs[i].rq,
                   idx |-> IdxIn(i)]

Step(n, r, rest, op, c) ==
  /\ Apply(n, r, rest)
  /\ hist' = Append(hist, op @@ WaitOf(n, r.s) @@ [hm |-> Len(rest) + Len(r.out),
                                                   ret |-> IF op.op = "init" /\ r.s.fst = "done" THEN n ELSE RetOf(n, r.s)])
  /\ pre' = ns
  /\ cnt' = c

\* a relayed pyramid request keeps the handler waiting for the nested exchange
Blocks(m) == m.k = "preq" /\ ~(m.tg = m.t \/ ns[m.t].pyr)

GInit == /\ Init
         /\ (TopoSel = "all" \/ par.topo = TopoSel)
         /\ hist = <<>> /\ pre = ns /\ cnt = Cnt0

\* rough effect of an injected message on the victim (only to keep the rest of the scenario meaningful)
InjectEffect(s, me, shape, p) ==
  LET full(o) == [ZeroV EXCEPT ![o] = IdxOf(p.file)] IN
  IF shape \in {"resp_long_vector", "resp_key_not_hex", "resp_key_short_addr", "resp_empty_target"}
  THEN OnFind(s, me, "M", {"M"}, full("M"), p)
  ELSE IF shape = "resp_self_target" THEN OnFind(s, me, me, {me}, full(me), p)
  ELSE IF shape = "resp_as_A"
  THEN OnFind(s, me, "A", {"A", "M"}, [ZeroV EXCEPT !["M"] = IdxOf(p.file), !["A"] = IdxOf(p.file)], p)
  ELSE IF shape = "resp_short_vector"       \* the table entry is created, the vector is refused
  THEN LET r == OnFind(s, me, "M", {}, ZeroV, p) IN R([r.s EXCEPT !.dkey = TRUE], r.out)
  ELSE IF shape = "resp_no_presence" THEN OnFind(s, me, "M", {}, ZeroV, p)
  ELSE R(s, <<>>)

GNext ==
  /\ Len(hist) < Depth
  /\ \/ \E n \in {"B"} :
          \/ /\ Can("init") /\ Alive(n) /\ Idle(n) /\ ns[n].fst \in {"idle", "done"}
             /\ Step(n, InitCall(ns[n], n, par), msgs, [op |-> "init", n |-> n], Used("init"))
          \/ /\ Alive(n) /\ Idle(n) /\ ns[n].fst = "sel"
             /\ Step(n, LoopTop(ns[n], n, par), msgs, [op |-> "tick", n |-> n], cnt)
          \/ /\ Can("local") /\ Alive(n) /\ Idle(n) /\ Mode # "forced"
             /\ \/ Step(n, R(Cancel(ns[n]), <<>>), msgs, [op |-> "cancel", n |-> n], Used("local"))
                \/ Step(n, R(DelDiscover(ns[n]), <<>>), msgs, [op |-> "deldisc", n |-> n], Used("local"))
                \/ Step(n, R(DelFile(ns[n]), <<>>), msgs, [op |-> "delfile", n |-> n], Used("local"))
          \/ /\ Can("local") /\ Alive(n) /\ ns[n].mid /\ ns[n].dpend = "-"
             /\ \/ Step(n, R(AsyncDelFile(ns[n]), <<>>), msgs, [op |-> "delfile", n |-> n, async |-> TRUE], Used("local"))
                \/ Step(n, R(AsyncDelDiscover(ns[n]), <<>>), msgs, [op |-> "deldisc", n |-> n, async |-> TRUE], Used("local"))
          \/ /\ Alive(n) /\ ns[n].mid
             /\ Step(n, Release(ns[n], n, par), msgs, [op |-> "release", n |-> n], cnt)
          \/ /\ Can("timeout") /\ Alive(n) /\ Idle(n)
             /\ \E o \in Real : /\ o \in ns[n].trig
                                /\ Step(n, R(Timeout(ns[n], o), <<>>), msgs, [op |-> "timeout", n |-> n, o |-> o], Used("timeout"))
          \/ /\ Can("retr") /\ Alive(n) /\ Idle(n) /\ par.topo # "relay"
             /\ \E c \in IdxOf(par.file) :
                  /\ CanRetrieve(ns[n], n, c)
                  /\ ns' = [ns EXCEPT ![n] = Retrieved(ns[n], n, c), !["A"] = Served(ns["A"], n, c)]
                  /\ UNCHANGED <<par, msgs>>
                  /\ hist' = Append(hist, [op |-> "retrieve", n |-> n, c |-> c] @@ WaitOf(n, Retrieved(ns[n], n, c)) @@ [hm |-> Len(msgs), ret |-> ""])
                  /\ pre' = ns /\ cnt' = Used("retr")
          \/ /\ Can("inject") /\ Alive(n) /\ Idle(n)
             /\ \E sh \in Shapes : Step(n, InjectEffect(ns[n], n, sh, par), msgs, [op |-> "inject", n |-> n, shape |-> sh], Used("inject"))
     \/ \E i \in DOMAIN msgs : LET m == msgs[i] IN
          /\ First(i)
          /\ \/ /\ m.t \in Real /\ Alive(m.t) /\ Idle(m.t)
                /\ Step(m.t, Handle(m, ns[m.t], m.t, par), Without(msgs, i), MsgOp("deliver", i) @@ [blk |-> Blocks(m)], cnt)
             \/ /\ Can("dup") /\ m.k \in {"req", "resp"} /\ m.t \in Real /\ Alive(m.t) /\ Idle(m.t)
                /\ Step(m.t, Handle(m, ns[m.t], m.t, par), msgs, MsgOp("dup", i), Used("dup"))
             \/ /\ Can("drop")
                /\ IF m.k \in {"preq", "presp"}
                   THEN LET who == IF m.k = "preq" THEN m.f ELSE m.t
                        IN /\ Alive(who) /\ Idle(who)
                           /\ Step(who, OnPResp(ns[who], who, LostLeg(m), par), Without(msgs, i), MsgOp("drop", i), Used("drop"))
                   ELSE Step(m.t, R(ns[m.t], <<>>), Without(msgs, i), MsgOp("drop", i), Used("drop"))
             \/ /\ Can("park") /\ m.t \in Real /\ Alive(m.t) /\ CanPark(ns[m.t], m.t, m)
                /\ Step(m.t, R(ParkResp(ns[m.t], m.t, m), <<>>), Without(msgs, i), MsgOp("park", i), Used("park"))

GSpec == GInit /\ [][GNext]_<<vars, hist, pre, cnt>>

LastOp == IF hist = <<>> THEN [op |-> "none"] ELSE hist[Len(hist)]
EdgeView == <<par, pre, ns, msgs, cnt, LastOp>>

Scn == [par |-> par, ops |-> hist]

\* a scenario is worth running if it does more than start: in forced mode only complete park ... release schedules
Worth == IF Mode = "forced" THEN hist # <<>> /\ LastOp.op = "release"
         ELSE IF Mode = "late" THEN hist # <<>> /\ LastOp.op \in {"deliver", "dup"} /\ LastOp.k = "resp" /\ ns["B"].late # {}
         ELSE IF Mode = "mal" THEN cnt.inject > 0
         ELSE IF Mode = "timeout" THEN cnt.timeout > 0
         ELSE IF Mode = "del" THEN cnt.local > 0
         ELSE Len(hist) >= 3

EmitAll == Worth => PrintT(<<"SCN", ToJson(Scn)>>)
EmitFull == (Len(hist) = Depth /\ Worth) => PrintT(<<"SCN", ToJson(Scn)>>)
=============================================================================
