\* the mechanism with the proposed repairs: D1-D5 hold on every behaviour of the bounded configuration
SPECIFICATION MCSpec
CONSTANTS
  PullMax = 3
  PullingMax = 2
  Ghosts <- OneGhost
  MsgBound = 2
  QBound = 2
  MCTopos <- AllTopos
  AsIs = FALSE
CONSTRAINT Bound
ACTION_CONSTRAINT NoRetrieve
INVARIANTS TypeOK D1 D2 D3 D4File D4Disc NoCrash KeysAgree D5
CHECK_DEADLOCK FALSE
