------------------------------- MODULE MCKad -------------------------------
(* Bounded configurations of Kad for the design check.                     *)
(*  MCKad.cfg    every history of the events over a small universe         *)
(*  MCKadFn.cfg  the pure definitions (depth envelope vs. the code's       *)
(*               algorithm, XOR order, closest peer) on every state        *)
(*               (conn, reachable subset, radius) of a larger universe     *)
EXTENDS Kad

\* --- action-level universe: 2+2+1 peers over 3 bins, one boot node
APeers == {<<0,0>>, <<0,1>>, <<1,0>>, <<1,1>>, <<2,0>>}
ABoots == {<<1,9>>}
ARadii == {1, 31}
AProt  == {{}, {<<0,1>>}}
\* reachability projection: one peer in bin 0, three in bin 1 (depth 1 is reachable with QSat 1)
RPeers == {<<0,0>>, <<1,0>>, <<1,1>>, <<1,2>>}
RProt  == {{}, {<<1,1>>}}
ATargets == {<<1,0>>, <<SelfBin,0>>}

\* --- function-level universes
\* depth lemmas (QSat 2): 2+3+2 peers over 3 bins; thorough: 3+3+2+2 over 4 bins, and a set reaching the deepest bins
FPeers == {<<0,0>>, <<0,5>>, <<1,0>>, <<1,2>>, <<1,3>>, <<2,1>>, <<2,8>>}
TPeers == {<<0,0>>, <<0,5>>, <<0,15>>, <<1,0>>, <<1,2>>, <<1,3>>, <<2,1>>, <<2,8>>, <<3,0>>, <<3,7>>}
DPeers == {<<0,0>>, <<0,5>>, <<1,0>>, <<1,2>>, <<29,8>>, <<30,3>>, <<30,4>>, <<31,0>>, <<31,7>>, <<31,15>>}
FRadii == {0, 2, 31}
DRadii == {1, 30, 31}
\* MCKad.cfg (thorough): every event that touches the connection / depth state together
NextF == \/ \E p \in Peers, f \in BOOLEAN : Connected(p, f)
         \/ \E p \in All : Outbound(p)
         \/ \E p \in Peers : Disconnected(p) \/ DisconnectForce(p)
         \/ \E p \in Peers, b \in BOOLEAN : Reachable(p, b)
         \/ \E r \in Radii : SetRadius(r)
         \/ \E S \in ProtSets : RefreshProtect(S)
         \/ \E p \in Peers : AddPeers({p})
SpecF == Init /\ [][NextF]_vars

\* closest-peer lemmas: ids chosen so that XOR order and numeric order of ids differ
CPeers == {<<0,3>>, <<0,12>>, <<1,5>>, <<1,6>>, <<2,0>>, <<2,15>>}
CTargets == {<<0,4>>, <<1,6>>, <<1,7>>, <<2,8>>, <<5,0>>, <<SelfBin,0>>}
EPeers == {<<0,3>>, <<0,12>>, <<1,5>>, <<1,6>>, <<2,0>>, <<30,9>>, <<31,2>>, <<31,10>>}
ETargets == {<<0,4>>, <<1,6>>, <<2,8>>, <<30,1>>, <<31,2>>, <<31,11>>, <<SelfBin,0>>}

\* function-level exploration: two steps from the initial state to every state of the
\* universe (steps rather than a set of initial states, so that the workers share the work)
FnPickConn == /\ res.op = "init"
              /\ conn' \in SUBSET Peers
              /\ known' = conn'
              /\ res' = [op |-> "fn1"]
              /\ UNCHANGED <<pub, radius, depth, prot, selfPub, stale>>
FnPickRest == /\ res.op = "fn1"
              /\ pub' \in SUBSET conn
              /\ radius' \in Radii
              /\ depth' = Recomputed(conn, pub', radius')
              /\ res' = [op |-> "fn"]
              /\ UNCHANGED <<conn, known, prot, selfPub, stale>>
FnSpec == Init /\ [][FnPickConn \/ FnPickRest]_vars
\* for the closest-peer lemmas the reachable subset only matters through the eligible
\* set, which the skip list already ranges over: two reachable subsets per connected set
FnPickRestC == /\ res.op = "fn1"
               /\ pub' \in {conn, {p \in conn : p[2] % 2 = 1}}
               /\ res' = [op |-> "fn"]
               /\ UNCHANGED <<conn, known, radius, depth, prot, selfPub, stale>>
FnSpecC == Init /\ [][FnPickConn \/ FnPickRestC]_vars
FnDepthLemmas   == res.op = "fn" => DepthLemmas
FnMetricLemmas  == res.op = "init" => MetricLemmas
FnClosestLemmas == res.op = "fn" => ClosestLemmas

\* --- quick action-level configurations: two projections of Next
\* MCKadA.cfg (AllReach = TRUE): connection tracking, boot nodes, protection, admission
NextA == \/ \E p \in Peers, f \in BOOLEAN : Connected(p, f)
         \/ \E p \in All : Outbound(p)
         \/ \E p \in Peers : Disconnected(p) \/ DisconnectForce(p)
         \/ \E r \in Radii : SetRadius(r)
         \/ \E S \in ProtSets : RefreshProtect(S)
         \/ \E p \in Peers : AddPeers({p})
SpecA == Init /\ [][NextA]_vars
\* MCKadR.cfg: reachability changes in both directions, radius, depth recomputation
NextR == \/ \E p \in Peers : Connected(p, FALSE) \/ DisconnectForce(p)
         \/ \E p \in Peers, b \in BOOLEAN : Reachable(p, b)
         \/ \E r \in Radii : SetRadius(r)
SpecR == Init /\ [][NextR]_vars

=============================================================================
