-------------------------------- MODULE Kad --------------------------------
(* The kademlia topology of pkg/topology/kademlia as far as the properties   *)
(*   C22  neighbourhood depth is consistent with the peer set,               *)
(*   C23  closest-peer selection is the XOR-closest eligible peer,           *)
(*   C24  the topology tracks exactly the live connections                   *)
(* talk about it.  One action per public call (Connected, Outbound,          *)
(* Disconnected, DisconnectForce, Reachable, SetRadius, RefreshProtectPeer,  *)
(* AddPeers, UpdateReachability); ClosestPeer(s) and NeighborhoodDepth are   *)
(* pure operators of the state.                                              *)
(*                                                                           *)
(* Addresses.  An abstract address is a pair <<bin, id>>.  Its XOR pattern   *)
(* against the base address ("diff string") is  0^bin 1 id(IDBits) 0...,     *)
(* <<SelfBin, 0>> is the base itself.  harness/internal/kadaddr embeds these *)
(* strings as prefixes of 32-byte overlays; two different abstract addresses *)
(* differ inside the modelled prefix, so every XOR comparison is decided     *)
(* here.  Bits are indexed 1..W.                                             *)
EXTENDS Integers, Sequences, FiniteSets, SequencesExt

CONSTANTS Peers,     \* full-node peers (pairs <<bin, id>>)
          Boots,     \* boot-node peers (only ever met through Outbound)
          Radii,     \* storage radii used by SetRadius
          QSat,      \* quick-saturation number (package default 4; BinMaxPeers/5 when configured)
          OverSat,   \* over-saturation number (default 20; BinMaxPeers rounded up to a multiple of 5)
          AllReach,  \* TRUE: Options.ReachabilityFunc declares every peer reachable
          ProtSets   \* the peer sets RefreshProtectPeer is called with

NN      == 3         \* nnLowWatermark, the "three" of the statement
MaxPO   == 31
IDBits  == 4
W       == MaxPO + 1 + IDBits
SelfBin == 99
SelfAddr == <<SelfBin, 0>>

KMin(a, b) == IF a < b THEN a ELSE b
KMax(a, b) == IF a > b THEN a ELSE b

(***************************************************************************)
(* Addresses, XOR order, proximity.                                        *)
(***************************************************************************)
Pow2(n) == IF n = 0 THEN 1 ELSE IF n = 1 THEN 2 ELSE IF n = 2 THEN 4 ELSE IF n = 3 THEN 8 ELSE 16
IdBit(id, j) == (id \div Pow2(IDBits - j)) % 2          \* j \in 1..IDBits, most significant first

\* bit i of (address XOR base)
Diff(a, i) == IF a[1] = SelfBin THEN 0
              ELSE IF i <= a[1] THEN 0
              ELSE IF i = a[1] + 1 THEN 1
              ELSE IF i <= a[1] + 1 + IDBits THEN IdBit(a[2], i - a[1] - 1)
              ELSE 0

\* first bit (from i on) in which x and y differ; W+1 if none
RECURSIVE FirstDiff(_, _, _)
FirstDiff(x, y, i) == IF i > W THEN W + 1
                      ELSE IF Diff(x, i) # Diff(y, i) THEN i
                      ELSE FirstDiff(x, y, i + 1)

\* x is strictly nearer to t than y (XOR metric): at the first bit where x and
\* y differ, x agrees with t
Closer(t, x, y) == LET i == FirstDiff(x, y, 1) IN i <= W /\ Diff(x, i) = Diff(t, i)

\* proximity order of two addresses: leading equal bits, capped at MaxPO
PO(x, y) == KMin(MaxPO, FirstDiff(x, y, 1) - 1)

BinOf(S, b) == {p \in S : p[1] = b}

(***************************************************************************)
(* C22: the depth envelope.  c = connected peers, rc = the reachable ones  *)
(* among them, rad = storage radius, q = quick-saturation number.          *)
(***************************************************************************)
RECURSIVE FirstEmptyFrom(_, _)
FirstEmptyFrom(c, b) == IF b > MaxPO THEN MaxPO + 1
                        ELSE IF BinOf(c, b) = {} THEN b ELSE FirstEmptyFrom(c, b + 1)
ShallowestEmpty(c) == FirstEmptyFrom(c, 0)          \* MaxPO + 1: no empty bin

D_LeRadius(d, rad)        == d <= rad
D_ZeroWhenFew(d, c)       == Cardinality(c) <= NN => d = 0
D_ThreeBeyond(d, rc)      == d > 0 => Cardinality({p \in rc : p[1] >= d}) >= NN
D_LeShallowestEmpty(d, c) == d <= ShallowestEmpty(c)
D_ShallowerSaturated(d, rc, q) == \A b \in 0..(d-1) : Cardinality(BinOf(rc, b)) >= q

DepthOK(d, c, rc, rad, q) ==
  /\ d \in 0..MaxPO
  /\ D_LeRadius(d, rad)
  /\ D_ZeroWhenFew(d, c)
  /\ D_ThreeBeyond(d, rc)
  /\ D_LeShallowestEmpty(d, c)
  /\ D_ShallowerSaturated(d, rc, q)

\* the deepest depth the envelope admits.  0 is always admitted and the envelope
\* is downward closed (both are checked as design lemmas), so it is found upwards.
RECURSIVE RefDepthFrom(_, _, _, _, _)
RefDepthFrom(d, c, rc, rad, q) ==
  IF d < MaxPO /\ DepthOK(d + 1, c, rc, rad, q) THEN RefDepthFrom(d + 1, c, rc, rad, q) ELSE d
RefDepth(c, rc, rad, q) == RefDepthFrom(0, c, rc, rad, q)

(***************************************************************************)
(* Implementation-shaped depth: a transcription of recalcDepth.  Used for  *)
(* the design lemmas below and for conformance notes; never for a verdict. *)
(***************************************************************************)
RECURSIVE UnsatWalk(_, _, _, _, _)
UnsatWalk(bs, su, cnt, rc, q) ==          \* bs: ascending bins holding reachable peers
  IF bs = <<>> THEN su
  ELSE LET b == Head(bs)  n == Cardinality(BinOf(rc, b))
       IN IF b = su THEN UnsatWalk(Tail(bs), su, cnt + n, rc, q)
          ELSE IF cnt < q THEN su
          ELSE IF b > su + 1 THEN su + 1      \* a bin in between holds no reachable peer (fix 14da1a4)
          ELSE UnsatWalk(Tail(bs), b, n, rc, q)

ImplDepth(c, rc, rad, q) ==
  IF Cardinality(c) <= NN THEN 0
  ELSE LET bins == SetToSortSeq({p[1] : p \in rc}, <)
           su   == UnsatWalk(bins, 0, 0, rc, q)
           se   == ShallowestEmpty(c)
           su2  == IF se <= MaxPO /\ se < su THEN se ELSE su
           cand == IF Cardinality(rc) < NN THEN 0
                   ELSE LET B == {p[1] : p \in rc}             \* bin of the NN-th deepest reachable peer
                        IN CHOOSE b \in B : /\ Cardinality({p \in rc : p[1] >= b}) >= NN
                                            /\ \A b2 \in B : b2 > b => Cardinality({p \in rc : p[1] >= b2}) < NN
       IN KMin(rad, KMin(su2, cand))

\* a bin below d that holds peers, none of them reachable
UnreachableOnlyBinBelow(d, c, rc) == \E b \in 0..(d-1) : BinOf(c, b) # {} /\ BinOf(rc, b) = {}

(***************************************************************************)
(* C24: admission.  k = known peers, rk = the reachable ones among them.   *)
(* A bin is oversaturated when it lies below the potential depth (depth of *)
(* the known-peer set, radius ignored) and holds at least `max` reachable  *)
(* connected peers.  Bins at or beyond that depth are never oversaturated  *)
(* (TestOversaturation: "not limiting more peers in neighborhood depth").  *)
(* The reading uses the envelope's own depth (RefDepth): an implementation *)
(* whose potential depth is deeper refuses more and admits less, which the *)
(* statement ("admitted only if ...") allows.                              *)
(***************************************************************************)
OverSaturated(b, rc, k, rk, max, q) ==
  b < RefDepth(k, rk, MaxPO, q) /\ Cardinality(BinOf(rc, b)) >= max

ImplOverSaturated(b, rc, k, rk, max, q) ==
  b < ImplDepth(k, rk, MaxPO, q) /\ Cardinality(BinOf(rc, b)) >= max

(***************************************************************************)
(* C23: closest peer.                                                      *)
(***************************************************************************)
Eligible(c, rc, skip, filt) == {p \in (IF filt THEN rc ELSE c) : p \notin skip}

Nearest(t, S) == CHOOSE p \in S : \A o \in S \ {p} : Closer(t, p, o)

\* ascending by distance to t (distances of different addresses differ)
ByDistance(t, S) == SetToSortSeq(S, LAMBDA a, b : Closer(t, a, b))

\* The verdict on one ClosestPeer answer.  res \in {"peer","wantself","notfound"}.
\* selfMust: self is certainly a candidate (includeSelf and own reachability
\* public, the rule of the code's contract); selfMay: self may be regarded as
\* one (includeSelf).  With no eligible peer the two "exactly when" clauses of
\* the statement overlap (self is vacuously nearer, yet no peer is eligible):
\* both answers are accepted there.
ClosestOK(res, peer, t, E, selfMust, selfMay) ==
  IF E = {}
  THEN res = "notfound" \/ (selfMay /\ res = "wantself")
  ELSE LET n == Nearest(t, E)  selfNearer == Closer(t, SelfAddr, n)
       IN \/ res = "peer" /\ peer = n /\ ~(selfMust /\ selfNearer)
          \/ res = "wantself" /\ selfMay /\ selfNearer

\* implementation-shaped answer (ClosestPeer's scan), for lemmas and notes
ImplClosest(t, c, rc, skip, filt, incl, selfPub) ==
  IF c = {} THEN [res |-> "notfound", peer |-> SelfAddr]
  ELSE LET E == Eligible(c, rc, skip, filt)
           cands == IF incl /\ selfPub THEN E \cup {SelfAddr} ELSE E
       IN IF cands = {} THEN [res |-> "notfound", peer |-> SelfAddr]
          ELSE LET n == Nearest(t, cands)
               IN IF n = SelfAddr THEN [res |-> "wantself", peer |-> SelfAddr]
                  ELSE [res |-> "peer", peer |-> n]

ClosestN(t, n, E) == SubSeq(ByDistance(t, E), 1, KMin(KMax(n, 0), Cardinality(E)))

(***************************************************************************)
(* C23 while the connected set changes during the call (spec/kad/KadWalk   *)
(* models the call as a walk of several steps).  The statement speaks of   *)
(* "the connected peers"; for a call that overlaps connections and         *)
(* disconnections every linearisation of the call and of those events is   *)
(* legal, and so is a walk that reads bin after bin.  Whatever it chose:   *)
(*   Ethr  eligible peers connected THROUGHOUT the call,                   *)
(*   Eany  eligible peers connected at some point during it;               *)
(* the answer is a peer of Eany that is at least as near as the nearest    *)
(* peer of Ethr.  With Ethr = Eany this is ClosestOK (design lemma         *)
(* ConcLemmas).                                                            *)
(***************************************************************************)
ConcClosestOK(res, peer, t, Ethr, Eany, selfMust, selfMay) ==
  \/ /\ res = "peer" /\ peer \in Eany
     /\ (Ethr # {} => ~Closer(t, Nearest(t, Ethr), peer))
     /\ ~(selfMust /\ Closer(t, SelfAddr, peer))
  \/ /\ res = "wantself" /\ selfMay
     /\ (Ethr # {} => Closer(t, SelfAddr, Nearest(t, Ethr)))
  \/ /\ res = "notfound" /\ Ethr = {}

\* several closest peers: distinct, and "non-decreasing distance" wherever every
\* linearisation demands it: a listed peer that was connected throughout is
\* farther than every peer listed before it
ConcOrderOK(ps, t, Ethr) ==
  \A i, j \in DOMAIN ps : i < j => ps[i] # ps[j] /\ (ps[j] \in Ethr => Closer(t, ps[i], ps[j]))

\* ... each listed peer is at least as near as the nearest peer connected
\* throughout that is not listed before it, and the list is not shorter than what
\* the peers connected throughout alone would give
ConcClosestNOK(ps, t, n, Ethr, Eany) ==
  /\ Len(ps) <= KMax(n, 0)
  /\ Len(ps) >= KMin(KMax(n, 0), Cardinality(Ethr))
  /\ \A i \in DOMAIN ps :
        LET R == Ethr \ {ps[j] : j \in 1..(i - 1)}
        IN ps[i] \in Eany /\ (R # {} => ~Closer(t, Nearest(t, R), ps[i]))

(***************************************************************************)
(* State and actions.                                                      *)
(***************************************************************************)
VARIABLES conn,      \* connected full nodes
          known,     \* known peers
          pub,       \* peers whose last reported reachability is Public
          radius,
          prot,      \* protected peers
          selfPub,   \* own reachability is Public
          depth,     \* implementation-shaped depth (kept by the code as a field)
          stale,     \* depth was not recomputed after a reachability demotion
          res        \* what the last call returned

vars == <<conn, known, pub, radius, prot, selfPub, depth, stale, res>>

All == Peers \cup Boots
RC(c, p) == IF AllReach THEN c ELSE c \cap p

Recomputed(c, p, r) == ImplDepth(c, RC(c, p), r, QSat)

Init == /\ conn = {} /\ known = {} /\ pub = {} /\ radius = MaxPO /\ prot = {}
        /\ selfPub = FALSE /\ depth = 0 /\ stale = FALSE /\ res = [op |-> "init"]

Connected(p, force) ==
  LET over == OverSaturated(p[1], RC(conn, pub), known, RC(known, pub), OverSat, QSat)
      ok   == ~over \/ p \in prot \/ force
  IN /\ conn' = IF ok THEN conn \cup {p} ELSE conn
     /\ known' = IF ok THEN known \cup {p} ELSE known
     /\ depth' = IF ok THEN Recomputed(conn', pub, radius) ELSE depth
     /\ stale' = IF ok THEN FALSE ELSE stale
     /\ res' = [op |-> "connected", p |-> p, force |-> force, ok |-> ok, over |-> over, prot |-> p \in prot]
     /\ UNCHANGED <<pub, radius, prot, selfPub>>

Outbound(p) ==
  /\ IF p \in Boots
     THEN /\ known' = known \ {p}
          /\ UNCHANGED <<conn, depth, stale>>
     ELSE /\ known' = known \cup {p}
          /\ conn' = conn \cup {p}
          /\ depth' = Recomputed(conn', pub, radius)
          /\ stale' = FALSE
  /\ res' = [op |-> "outbound", p |-> p, boot |-> p \in Boots]
  /\ UNCHANGED <<pub, radius, prot, selfPub>>

Disconnected(p) ==
  /\ conn' = conn \ {p}
  /\ depth' = Recomputed(conn', pub, radius)
  /\ stale' = FALSE
  /\ res' = [op |-> "disconnected", p |-> p]
  /\ UNCHANGED <<known, pub, radius, prot, selfPub>>

DisconnectForce(p) ==
  /\ conn' = conn \ {p}
  /\ known' = known \ {p}
  /\ depth' = Recomputed(conn', pub, radius)
  /\ stale' = FALSE
  /\ res' = [op |-> "force", p |-> p]
  /\ UNCHANGED <<pub, radius, prot, selfPub>>

\* the code recomputes the depth on every reachability report (before the fix: only for Public)
Reachable(p, public) ==
  /\ pub' = IF public THEN pub \cup {p} ELSE pub \ {p}
  /\ depth' = Recomputed(conn, pub', radius)
  /\ stale' = FALSE
  /\ res' = [op |-> "reachable", p |-> p, public |-> public]
  /\ UNCHANGED <<conn, known, radius, prot, selfPub>>

SetRadius(r) ==
  /\ r # radius
  /\ radius' = r
  /\ depth' = Recomputed(conn, pub, r)
  /\ stale' = FALSE
  /\ res' = [op |-> "setradius", r |-> r]
  /\ UNCHANGED <<conn, known, pub, prot, selfPub>>

RefreshProtect(S) ==
  /\ prot' = S
  /\ res' = [op |-> "protect", ps |-> S]
  /\ UNCHANGED <<conn, known, pub, radius, selfPub, depth, stale>>

AddPeers(S) ==
  /\ known' = known \cup S
  /\ res' = [op |-> "addpeers", ps |-> S]
  /\ UNCHANGED <<conn, pub, radius, prot, selfPub, depth, stale>>

UpdateReachability(public) ==
  /\ selfPub' = public
  /\ res' = [op |-> "selfreach", public |-> public]
  /\ UNCHANGED <<conn, known, pub, radius, prot, depth, stale>>

Next == \/ \E p \in Peers, f \in BOOLEAN : Connected(p, f)
        \/ \E p \in All : Outbound(p)
        \/ \E p \in Peers : Disconnected(p) \/ DisconnectForce(p)
        \/ \E p \in Peers, b \in BOOLEAN : Reachable(p, b)
        \/ \E r \in Radii : SetRadius(r)
        \/ \E S \in ProtSets : RefreshProtect(S)
        \/ \E p \in Peers : AddPeers({p})
        \/ \E b \in BOOLEAN : UpdateReachability(b)

Spec == Init /\ [][Next]_vars

(***************************************************************************)
(* Properties checked by TLC on the bounded configurations.                *)
(***************************************************************************)
TypeOK == /\ conn \subseteq Peers /\ known \subseteq All /\ pub \subseteq Peers
          /\ radius \in 0..MaxPO /\ prot \subseteq Peers /\ depth \in 0..MaxPO

\* C24: every connected peer is known; boot nodes are never counted
ConnSubsetKnown   == conn \subseteq known
BootsNotConnected == conn \cap Boots = {}

\* C24: an unprotected, unforced inbound peer is admitted only into a bin that is not oversaturated
AdmissionRule == [][res'.op = "connected" /\ res'.ok /\ ~res'.force /\ ~res'.prot => ~res'.over]_vars
\* ... and the connected set changes only as the events say
ConnFrame == [][/\ (conn' \ conn # {} => res'.op \in {"connected", "outbound"} /\ conn' \ conn = {res'.p})
                /\ (conn \ conn' # {} => res'.op \in {"disconnected", "force"} /\ conn \ conn' = {res'.p})]_vars

\* C22, design lemmas about the envelope and the code's algorithm:
\*  the envelope is never empty and RefDepth is inside it;
\*  the code's depth is never shallower than the envelope's deepest value, equals it
\*  unless a bin below it holds only unreachable peers, and is a function of the
\*  current (conn, reachability, radius) whenever it has been recomputed.
DepthLemmas ==
  LET rc == RC(conn, pub)
      ref == RefDepth(conn, rc, radius, QSat)
      imp == ImplDepth(conn, rc, radius, QSat)
  IN /\ DepthOK(0, conn, rc, radius, QSat)
     /\ DepthOK(ref, conn, rc, radius, QSat)
     /\ \A d \in 0..MaxPO : DepthOK(d, conn, rc, radius, QSat) <=> d <= ref     \* downward closed
     /\ imp >= ref
     /\ (imp # ref => UnreachableOnlyBinBelow(imp, conn, rc))
     /\ (DepthOK(imp, conn, rc, radius, QSat) \/ UnreachableOnlyBinBelow(imp, conn, rc))
     /\ (~stale => depth = imp)

\* C23, design lemmas: Closer is a strict total order that agrees with the XOR
\* distance read as a natural number (checked on the leading bits, which decide
\* it in the bounded universe), and the code's scan is inside the verdict.
CONSTANTS Targets, XBits      \* query targets; number of leading bits that hold every modelled bit
XorNat(x, y) == LET RECURSIVE Acc(_, _)
                    Acc(i, v) == IF i > XBits THEN v
                                 ELSE Acc(i + 1, 2 * v + (IF Diff(x, i) # Diff(y, i) THEN 1 ELSE 0))
                IN Acc(1, 0)

MetricLemmas ==
  \A t \in Targets : \A x \in Peers \cup {SelfAddr}, y \in Peers \cup {SelfAddr} :
     /\ (Closer(t, x, y) <=> XorNat(t, x) < XorNat(t, y))
     /\ (x # y => (Closer(t, x, y) <=> ~Closer(t, y, x)))
     /\ PO(x, y) = PO(y, x)

ClosestLemmas ==
  \A t \in Targets, skip \in SUBSET conn, filt \in BOOLEAN, incl \in BOOLEAN, sp \in BOOLEAN :
     LET rc == RC(conn, pub)
         E  == Eligible(conn, rc, skip, filt)
         a  == ImplClosest(t, conn, rc, skip, filt, incl, sp)
         s  == ByDistance(t, E)
     IN /\ ClosestOK(a.res, a.peer, t, E, incl /\ sp, incl)
        /\ Len(s) = Cardinality(E)
        /\ \A i \in 1..Len(s) : s[i] \in E
        /\ \A i, j \in 1..Len(s) : i < j => Closer(t, s[i], s[j])
        /\ (E # {} => s[1] = Nearest(t, E))
=============================================================================
