----------------------------- MODULE KadTrace -----------------------------
(* Judge for C22, C23 and C24: replays the events harness/cmd/kaddrv        *)
(* recorded from a real kademlia.Kad against Kad's definitions.  Monitor    *)
(* mode (TraceKit): one deterministic step per event.                       *)
(*                                                                          *)
(* Every event carries the driver's projection `st` of the exported state:  *)
(*   depth (NeighborhoodDepth), conn / cpo (EachPeer), known (EachKnownPeer)*)
(*   snapc/snapk/snapd/pub (Snapshot), discs (p2p.Disconnect calls).        *)
(* Verdict clauses are transcriptions of the three statements; everything   *)
(* implementation-shaped (exact depth, refusals, known set, ...) is a note. *)
EXTENDS Kad, TraceKit

VARIABLES l, bad, notes,
          cfg,       \* [q, max, allreach] of the running scenario
          seen       \* C22 order-independence: (connected, reachable, radius) -> depth seen in this scenario

tvars == <<vars, l, bad, notes, cfg, seen>>

\* thresholds the constructor derives from Options.BinMaxPeers (0: package defaults)
OverOf(binmax) == IF binmax <= 0 THEN 20
                  ELSE LET b == KMax(binmax, 5) IN IF b % 5 = 0 THEN b ELSE b - (b % 5) + 5
CfgOf(e) == [q |-> IF e.binmax <= 0 THEN 4 ELSE OverOf(e.binmax) \div 5,
             max |-> OverOf(e.binmax), allreach |-> e.allreach]

TRC(c, p, c0) == IF c0.allreach THEN c ELSE c \cap p

M == [conn |-> conn, known |-> known, pub |-> pub, radius |-> radius, prot |-> prot,
      selfPub |-> selfPub, depth |-> depth]
M0 == [conn |-> {}, known |-> {}, pub |-> {}, radius |-> MaxPO, prot |-> {}, selfPub |-> FALSE, depth |-> 0]

\* does the code recompute the depth in this call? (conformance only)
Recomputes(e) == \/ e.op \in {"disconnected", "setradius"}
                 \/ e.op = "connected" /\ e.err = ""
                 \/ e.op = "force" /\ e.err = ""
                 \/ e.op = "outbound" /\ ~e.boot
                 \/ e.op = "reachable"

\* reference model after the event (connection results as observed: a refused
\* inbound connection is not a connection)
Post(e, s, c0) ==
  LET s1 ==
    CASE e.op \in {"reset", "fresh"} -> M0
      [] e.op = "connected"    -> IF e.err = "" THEN [s EXCEPT !.conn = @ \cup {e.p}, !.known = @ \cup {e.p}] ELSE s
      [] e.op = "outbound"     -> IF e.boot THEN [s EXCEPT !.known = @ \ {e.p}]
                                  ELSE [s EXCEPT !.conn = @ \cup {e.p}, !.known = @ \cup {e.p}]
      [] e.op = "disconnected" -> [s EXCEPT !.conn = @ \ {e.p}]
      [] e.op = "force"        -> IF e.err = "" THEN [s EXCEPT !.conn = @ \ {e.p}, !.known = @ \ {e.p}] ELSE s
      [] e.op = "reachable"    -> [s EXCEPT !.pub = IF e.status = "public" THEN @ \cup {e.p} ELSE @ \ {e.p}]
      [] e.op = "setradius"    -> [s EXCEPT !.radius = e.r]
      [] e.op = "protect"      -> [s EXCEPT !.prot = ToSet(e.ps)]
      [] e.op = "addpeers"     -> [s EXCEPT !.known = @ \cup ToSet(e.ps)]
      [] e.op = "selfreach"    -> IF e.status = "unknown" THEN s ELSE [s EXCEPT !.selfPub = (e.status = "public")]
      [] OTHER                 -> s
  IN IF e.op \in {"reset", "fresh"} THEN s1
     ELSE IF Recomputes(e)
          THEN [s1 EXCEPT !.depth = ImplDepth(s1.conn, TRC(s1.conn, s1.pub, c0), s1.radius, c0.q)]
          ELSE s1

ResClass(e) == IF e.err = "" THEN "peer" ELSE IF e.err \in {"wantself", "notfound"} THEN e.err ELSE "error"

(***************************************************************************)
(* Verdict clauses.                                                        *)
(***************************************************************************)
Verdict(e, pre, post, c0, sn) ==
  LET oc  == ToSet(e.st.conn)                  \* the peers the topology reports as connected
      ok  == ToSet(e.st.known)
      rc  == TRC(oc, post.pub, c0)
      d   == e.st.depth
      key == [c |-> oc, r |-> rc, rad |-> post.radius]
  IN
     Clause("no_panic", ~(Has(e, "panicked") /\ e.panicked))
  \* ---- C22: the depth envelope, clause by clause of the statement
  \o Clause("C22:depth_le_radius", D_LeRadius(d, post.radius))
  \o Clause("C22:depth_zero_when_at_most_three_connected", D_ZeroWhenFew(d, oc))
  \o Clause("C22:three_reachable_at_or_beyond_depth", D_ThreeBeyond(d, rc))
  \o Clause("C22:depth_le_shallowest_empty_bin", D_LeShallowestEmpty(d, oc))
  \o Clause("C22:shallower_bins_quick_saturated", D_ShallowerSaturated(d, rc, c0.q))
  \o Clause("C22:depth_depends_only_on_current_set", \A s \in sn : s.k = key => s.d = d)
  \* ---- C24: connection tracking
  \o Clause("C24:connected_is_live_set",
            /\ oc = post.conn
            /\ Len(e.st.conn) = Cardinality(oc)
            /\ e.st.snapc = Cardinality(post.conn))
  \o Clause("C24:connected_subset_known", oc \subseteq ok)
  \o (IF e.op = "connected"
      THEN    Clause("C24:connect_result", e.err \in {"", "oversaturated"})
           \o Clause("C24:admitted_only_if_not_oversaturated",
                     (e.err = "" /\ ~e.force /\ e.p \notin pre.prot)
                       => ~OverSaturated(e.p[1], TRC(pre.conn, pre.pub, c0), pre.known,
                                         TRC(pre.known, pre.pub, c0), c0.max, c0.q))
      ELSE <<>>)
  \o (IF e.op = "pick"
      THEN Clause("C24:admitted_only_if_not_oversaturated",
                  (e.res /\ e.p \notin pre.prot)
                    => ~OverSaturated(e.p[1], TRC(pre.conn, pre.pub, c0), pre.known,
                                      TRC(pre.known, pre.pub, c0), c0.max, c0.q))
      ELSE <<>>)
  \o (IF e.op = "force" THEN Clause("C24:force_disconnect_result", e.err = "") ELSE <<>>)
  \* ---- C23: closest peer(s)
  \o (IF e.op = "closest"
      THEN LET E == Eligible(oc, rc, ToSet(e.skip), e.filt)
           IN Clause("C23:closest_is_xor_nearest_eligible",
                     ClosestOK(ResClass(e), e.peer, e.t, E, e.incl /\ post.selfPub, e.incl))
      ELSE <<>>)
  \o (IF e.op = "closestn"
      THEN LET E == Eligible(oc, rc, ToSet(e.skip), e.filt)
               ps == e.peers
           IN    Clause("C23:peers_distinct_nondecreasing_distance",
                        \A i, j \in DOMAIN ps : i < j => ps[i] # ps[j] /\ Closer(e.t, ps[i], ps[j]))
              \o Clause("C23:peers_are_the_closest_eligible", e.err = "" /\ ps = ClosestN(e.t, e.n, E))
      ELSE <<>>)

(***************************************************************************)
(* Conformance notes: implementation-shaped predictions, never a verdict.  *)
(***************************************************************************)
NotesOf(e, pre, post, c0) ==
  LET oc == ToSet(e.st.conn)
      ok == ToSet(e.st.known)
      rc == TRC(oc, post.pub, c0)
  IN Clause("known_set_as_modelled", ok = post.known)
  \o Clause("depth_as_recalcDepth", e.st.depth = post.depth)
  \o Clause("snapshot_views_agree", e.st.snapd = e.st.depth /\ e.st.snapk = Cardinality(ok))
  \o Clause("binding:po_of_peer_is_its_bin", \A i \in DOMAIN e.st.conn : e.st.cpo[i] = e.st.conn[i][1])
  \o Clause("reachability_as_modelled", ToSet(e.st.pub) = oc \cap post.pub)
  \o (IF e.op = "connected"
      THEN Clause("refusal_as_binSaturated",
                  (e.err = "oversaturated") <=>
                     (/\ ~e.force /\ e.p \notin pre.prot
                      /\ ImplOverSaturated(e.p[1], TRC(pre.conn, pre.pub, c0), pre.known,
                                           TRC(pre.known, pre.pub, c0), c0.max, c0.q)))
      ELSE <<>>)
  \o (IF e.op = "closest"
      THEN LET a == ImplClosest(e.t, oc, rc, ToSet(e.skip), e.filt, e.incl, post.selfPub)
           IN Clause("closest_as_scan", ResClass(e) = a.res /\ (a.res = "peer" => e.peer = a.peer))
      ELSE <<>>)

TInit == /\ l = 1 /\ bad = <<>> /\ notes = <<>> /\ seen = {}
         /\ cfg = [q |-> 4, max |-> 20, allreach |-> FALSE]
         /\ conn = {} /\ known = {} /\ pub = {} /\ radius = MaxPO /\ prot = {} /\ selfPub = FALSE
         /\ depth = 0 /\ stale = FALSE /\ res = [op |-> "init"]

TStep ==
  /\ l <= NEvents
  /\ LET e    == Trace[l]
         c0   == IF e.op = "reset" THEN CfgOf(e) ELSE cfg
         post == Post(e, M, c0)
         sn   == IF e.op = "reset" THEN {} ELSE seen
         cs   == Verdict(e, M, post, c0, sn)
         ns   == NotesOf(e, M, post, c0)
         oc   == ToSet(e.st.conn)
     IN /\ l' = l + 1
        /\ cfg' = c0
        /\ bad' = IF cs = <<>> THEN bad ELSE Append(bad, BadRec(l, e, cs))
        /\ notes' = IF ns = <<>> \/ Len(notes) >= 40 THEN notes
                    ELSE Append(notes, [line |-> l, scn |-> e.scn, i |-> e.i, op |-> e.op, notes |-> ns])
        \* resynchronise to the logged projection
        /\ conn' = oc
        /\ known' = ToSet(e.st.known)
        /\ depth' = e.st.depth
        /\ pub' = post.pub /\ radius' = post.radius /\ prot' = post.prot /\ selfPub' = post.selfPub
        \* remember the depth of this (connected, reachable, radius) unless it is outside the
        \* envelope (no cascade); a contradicted entry is replaced (resynchronisation)
        /\ seen' = LET key == [c |-> oc, r |-> TRC(oc, post.pub, c0), rad |-> post.radius]
                   IN IF DepthOK(e.st.depth, oc, key.r, post.radius, c0.q)
                      THEN {s \in sn : s.k # key} \cup {[k |-> key, d |-> e.st.depth]}
                      ELSE sn
        /\ stale' = FALSE
        /\ res' = [op |-> e.op]

TSpec == TInit /\ [][TStep]_tvars

Report == ReportBad(l, bad, notes)
=============================================================================
