----------------------------- MODULE KadTrace -----------------------------
(* Judge for C22, C23 and C24: replays the events harness/cmd/kaddrv        *)
(* recorded from a real kademlia.Kad against Kad's definitions.  Monitor    *)
(* mode (TraceKit): one deterministic step per event.                       *)
(*                                                                          *)
(* Every event carries the driver's projection `st` of the exported state:  *)
(*   depth (NeighborhoodDepth), conn / cpo (EachPeer), known (EachKnownPeer)*)
(*   snapc/snapk/snapd/pub (Snapshot), discs (p2p.Disconnect calls).        *)
(* Verdict clauses are transcriptions of the three statements; everything   *)
(* implementation-shaped (exact depth, refusals, known set, ...) is a note. *)
EXTENDS Kad, TraceKit

VARIABLES l, bad, notes,
          cfg,       \* [q, max, allreach] of the running scenario
          seen,      \* C22 order-independence: (connected, reachable, radius) -> depth seen in this scenario
          win        \* C23 under churn: the window of the running gated call (see below)

tvars == <<vars, l, bad, notes, cfg, seen, win>>

\* A gated ClosestPeer(s) call is logged as: "wbegin" (the call starts), the events that happened
\* while the walk was held (ordinary events carrying `during`), then the "closest"/"closestn" event
\* with the answer and `conc`.  The window accumulates, over the states observed from wbegin on,
\*   tc / ac  the peers connected throughout / at some point,
\*   tr / ar  the same for the connected reachable peers.
NoWin == [on |-> FALSE, tc |-> {}, ac |-> {}, tr |-> {}, ar |-> {}]
WinOpen(oc, rc) == [on |-> TRUE, tc |-> oc, ac |-> oc, tr |-> rc, ar |-> rc]
WinAdd(w, oc, rc) == IF w.on THEN [on |-> TRUE, tc |-> w.tc \cap oc, ac |-> w.ac \cup oc, tr |-> w.tr \cap rc, ar |-> w.ar \cup rc]
                     ELSE w
Gated(e, w) == Has(e, "conc") /\ e.conc /\ w.on

\* thresholds the constructor derives from Options.BinMaxPeers (0: package defaults)
OverOf(binmax) == IF binmax <= 0 THEN 20
                  ELSE LET b == KMax(binmax, 5) IN IF b % 5 = 0 THEN b ELSE b - (b % 5) + 5
CfgOf(e) == [q |-> IF e.binmax <= 0 THEN 4 ELSE OverOf(e.binmax) \div 5,
             max |-> OverOf(e.binmax), allreach |-> e.allreach]

TRC(c, p, c0) == IF c0.allreach THEN c ELSE c \cap p

M == [conn |-> conn, known |-> known, pub |-> pub, radius |-> radius, prot |-> prot,
      selfPub |-> selfPub, depth |-> depth]
M0 == [conn |-> {}, known |-> {}, pub |-> {}, radius |-> MaxPO, prot |-> {}, selfPub |-> FALSE, depth |-> 0]

\* does the code recompute the depth in this call? (conformance only)
Recomputes(e) == \/ e.op \in {"disconnected", "setradius"}
                 \/ e.op = "connected" /\ e.err = ""
                 \/ e.op = "force" /\ e.err = ""
                 \/ e.op = "outbound" /\ ~e.boot
                 \/ e.op = "reachable"

\* reference model after the event (connection results as observed: a refused
\* inbound connection is not a connection)
Post(e, s, c0) ==
  LET s1 ==
    CASE e.op \in {"reset", "fresh"} -> M0
      [] e.op = "connected"    -> IF e.err = "" THEN [s EXCEPT !.conn = @ \cup {e.p}, !.known = @ \cup {e.p}] ELSE s
      [] e.op = "outbound"     -> IF e.boot THEN [s EXCEPT !.known = @ \ {e.p}]
                                  ELSE [s EXCEPT !.conn = @ \cup {e.p}, !.known = @ \cup {e.p}]
      [] e.op = "disconnected" -> [s EXCEPT !.conn = @ \ {e.p}]
      [] e.op = "force"        -> IF e.err = "" THEN [s EXCEPT !.conn = @ \ {e.p}, !.known = @ \ {e.p}] ELSE s
      [] e.op = "reachable"    -> [s EXCEPT !.pub = IF e.status = "public" THEN @ \cup {e.p} ELSE @ \ {e.p}]
      [] e.op = "setradius"    -> [s EXCEPT !.radius = e.r]
      [] e.op = "protect"      -> [s EXCEPT !.prot = ToSet(e.ps)]
      [] e.op = "addpeers"     -> [s EXCEPT !.known = @ \cup ToSet(e.ps)]
      [] e.op = "selfreach"    -> IF e.status = "unknown" THEN s ELSE [s EXCEPT !.selfPub = (e.status = "public")]
      [] OTHER                 -> s
  IN IF e.op \in {"reset", "fresh"} THEN s1
     ELSE IF Recomputes(e)
          THEN [s1 EXCEPT !.depth = ImplDepth(s1.conn, TRC(s1.conn, s1.pub, c0), s1.radius, c0.q)]
          ELSE s1

ResClass(e) == IF e.err = "" THEN "peer" ELSE IF e.err \in {"wantself", "notfound"} THEN e.err ELSE "error"

(***************************************************************************)
(* Verdict clauses.                                                        *)
(***************************************************************************)
Verdict(e, pre, post, c0, sn, w0) ==
  LET oc  == ToSet(e.st.conn)                  \* the peers the topology reports as connected
      ok  == ToSet(e.st.known)
      rc  == TRC(oc, post.pub, c0)
      d   == e.st.depth
      key == [c |-> oc, r |-> rc, rad |-> post.radius]
      w   == WinAdd(w0, oc, rc)
  IN
     Clause("no_panic", ~(Has(e, "panicked") /\ e.panicked))
  \* ---- C22: the depth envelope, clause by clause of the statement
  \o Clause("C22:depth_le_radius", D_LeRadius(d, post.radius))
  \o Clause("C22:depth_zero_when_at_most_three_connected", D_ZeroWhenFew(d, oc))
  \o Clause("C22:three_reachable_at_or_beyond_depth", D_ThreeBeyond(d, rc))
  \o Clause("C22:depth_le_shallowest_empty_bin", D_LeShallowestEmpty(d, oc))
  \o Clause("C22:shallower_bins_quick_saturated", D_ShallowerSaturated(d, rc, c0.q))
  \o Clause("C22:depth_depends_only_on_current_set", \A s \in sn : s.k = key => s.d = d)
  \* ---- C24: connection tracking
  \o Clause("C24:connected_is_live_set",
            /\ oc = post.conn
            /\ Len(e.st.conn) = Cardinality(oc)
            /\ e.st.snapc = Cardinality(post.conn))
  \o Clause("C24:connected_subset_known", oc \subseteq ok)
  \o (IF e.op = "connected"
      THEN    Clause("C24:connect_result", e.err \in {"", "oversaturated"})
           \o Clause("C24:admitted_only_if_not_oversaturated",
                     (e.err = "" /\ ~e.force /\ e.p \notin pre.prot)
                       => ~OverSaturated(e.p[1], TRC(pre.conn, pre.pub, c0), pre.known,
                                         TRC(pre.known, pre.pub, c0), c0.max, c0.q))
      ELSE <<>>)
  \o (IF e.op = "pick"
      THEN Clause("C24:admitted_only_if_not_oversaturated",
                  (e.res /\ e.p \notin pre.prot)
                    => ~OverSaturated(e.p[1], TRC(pre.conn, pre.pub, c0), pre.known,
                                      TRC(pre.known, pre.pub, c0), c0.max, c0.q))
      ELSE <<>>)
  \o (IF e.op = "force" THEN Clause("C24:force_disconnect_result", e.err = "") ELSE <<>>)
  \* ---- C23: closest peer(s); a call no event overlapped: the statement as it stands
  \o (IF e.op = "closest" /\ ~Gated(e, w)
      THEN LET E == Eligible(oc, rc, ToSet(e.skip), e.filt)
           IN Clause("C23:closest_is_xor_nearest_eligible",
                     ClosestOK(ResClass(e), e.peer, e.t, E, e.incl /\ post.selfPub, e.incl))
      ELSE <<>>)
  \o (IF e.op = "closestn" /\ ~Gated(e, w)
      THEN LET E == Eligible(oc, rc, ToSet(e.skip), e.filt)
               ps == e.peers
           IN    Clause("C23:peers_distinct_nondecreasing_distance",
                        \A i, j \in DOMAIN ps : i < j => ps[i] # ps[j] /\ Closer(e.t, ps[i], ps[j]))
              \o Clause("C23:peers_are_the_closest_eligible", e.err = "" /\ ps = ClosestN(e.t, e.n, E))
      ELSE <<>>)
  \* ---- C23 while peers connect / disconnect during the call: every linearisation is legal, so the
  \* answer is judged against the eligible peers connected throughout (Ethr) and at some point (Eany)
  \o (IF e.op = "closest" /\ Gated(e, w)
      THEN LET Ethr == Eligible(w.tc, w.tr, ToSet(e.skip), e.filt)
               Eany == Eligible(w.ac, w.ar, ToSet(e.skip), e.filt)
           IN Clause("C23:churn_closest_connected_during_call_and_nearest_of_connected_throughout",
                     ConcClosestOK(ResClass(e), e.peer, e.t, Ethr, Eany, e.incl /\ post.selfPub, e.incl))
      ELSE <<>>)
  \o (IF e.op = "closestn" /\ Gated(e, w)
      THEN LET Ethr == Eligible(w.tc, w.tr, ToSet(e.skip), e.filt)
               Eany == Eligible(w.ac, w.ar, ToSet(e.skip), e.filt)
           IN    Clause("C23:churn_peers_distinct_nondecreasing_among_connected_throughout",
                        ConcOrderOK(e.peers, e.t, Ethr))
              \o Clause("C23:churn_peers_connected_during_call_and_nearest_of_connected_throughout",
                        e.err = "" /\ ConcClosestNOK(e.peers, e.t, e.n, Ethr, Eany))
      ELSE <<>>)

(***************************************************************************)
(* Conformance notes: implementation-shaped predictions, never a verdict.  *)
(***************************************************************************)
NotesOf(e, pre, post, c0, w0) ==
  LET oc == ToSet(e.st.conn)
      ok == ToSet(e.st.known)
      rc == TRC(oc, post.pub, c0)
      w  == WinAdd(w0, oc, rc)
  IN Clause("known_set_as_modelled", ok = post.known)
  \o Clause("depth_as_recalcDepth", e.st.depth = post.depth)
  \o Clause("snapshot_views_agree", e.st.snapd = e.st.depth /\ e.st.snapk = Cardinality(ok))
  \o Clause("binding:po_of_peer_is_its_bin", \A i \in DOMAIN e.st.conn : e.st.cpo[i] = e.st.conn[i][1])
  \o Clause("reachability_as_modelled", ToSet(e.st.pub) = oc \cap post.pub)
  \o (IF e.op = "connected"
      THEN Clause("refusal_as_binSaturated",
                  (e.err = "oversaturated") <=>
                     (/\ ~e.force /\ e.p \notin pre.prot
                      /\ ImplOverSaturated(e.p[1], TRC(pre.conn, pre.pub, c0), pre.known,
                                           TRC(pre.known, pre.pub, c0), c0.max, c0.q)))
      ELSE <<>>)
  \o (IF e.op = "closest" /\ ~Gated(e, w)
      THEN LET a == ImplClosest(e.t, oc, rc, ToSet(e.skip), e.filt, e.incl, post.selfPub)
           IN Clause("closest_as_scan", ResClass(e) = a.res /\ (a.res = "peer" => e.peer = a.peer))
      ELSE <<>>)
  \* a gated call: every gate was reached; a single walk looks at no peer twice and at every
  \* peer that stayed connected (copy-on-write slices: a walk sees each bin as it was on entry)
  \o (IF e.op \in {"closest", "closestn"} /\ Gated(e, w)
      THEN    Clause("gates_all_reached", e.left = 0)
           \o (IF e.op = "closest"
               THEN    Clause("walk_visits_distinct", \A i, j \in DOMAIN e.seen : i # j => e.seen[i] # e.seen[j])
                    \o Clause("walk_visits_every_peer_connected_throughout", w.tr \subseteq ToSet(e.seen))
                    \o Clause("walk_visits_only_peers_connected_during_call", ToSet(e.seen) \subseteq w.ar)
               ELSE <<>>)
      ELSE <<>>)

TInit == /\ l = 1 /\ bad = <<>> /\ notes = <<>> /\ seen = {} /\ win = NoWin
         /\ cfg = [q |-> 4, max |-> 20, allreach |-> FALSE]
         /\ conn = {} /\ known = {} /\ pub = {} /\ radius = MaxPO /\ prot = {} /\ selfPub = FALSE
         /\ depth = 0 /\ stale = FALSE /\ res = [op |-> "init"]

TStep ==
  /\ l <= NEvents
  /\ LET e    == Trace[l]
         c0   == IF e.op = "reset" THEN CfgOf(e) ELSE cfg
         post == Post(e, M, c0)
         sn   == IF e.op = "reset" THEN {} ELSE seen
         w0   == IF e.op \in {"reset", "fresh"} THEN NoWin ELSE win
         cs   == Verdict(e, M, post, c0, sn, w0)
         ns   == NotesOf(e, M, post, c0, w0)
         oc   == ToSet(e.st.conn)
     IN /\ l' = l + 1
        /\ win' = IF e.op = "wbegin" THEN WinOpen(oc, TRC(oc, post.pub, c0))
                  ELSE IF e.op \in {"closest", "closestn"} /\ ~Has(e, "during") THEN NoWin
                  ELSE WinAdd(w0, oc, TRC(oc, post.pub, c0))
        /\ cfg' = c0
        /\ bad' = IF cs = <<>> THEN bad ELSE Append(bad, BadRec(l, e, cs))
        /\ notes' = IF ns = <<>> \/ Len(notes) >= 40 THEN notes
                    ELSE Append(notes, [line |-> l, scn |-> e.scn, i |-> e.i, op |-> e.op, notes |-> ns])
        \* resynchronise to the logged projection
        /\ conn' = oc
        /\ known' = ToSet(e.st.known)
        /\ depth' = e.st.depth
        /\ pub' = post.pub /\ radius' = post.radius /\ prot' = post.prot /\ selfPub' = post.selfPub
        \* remember the depth of this (connected, reachable, radius) unless it is outside the
        \* envelope (no cascade); a contradicted entry is replaced (resynchronisation)
        /\ seen' = LET key == [c |-> oc, r |-> TRC(oc, post.pub, c0), rad |-> post.radius]
                   IN IF DepthOK(e.st.depth, oc, key.r, post.radius, c0.q)
                      THEN {s \in sn : s.k # key} \cup {[k |-> key, d |-> e.st.depth]}
                      ELSE sn
        /\ stale' = FALSE
        /\ res' = [op |-> e.op]

TSpec == TInit /\ [][TStep]_tvars

Report == ReportBad(l, bad, notes)
=============================================================================
