SPECIFICATION SpecR
CONSTANTS
  Peers <- RPeers
  Boots = {}
  Radii <- ARadii
  ProtSets = {}
  Targets <- ATargets
  QSat = 1
  OverSat = 2
  AllReach = FALSE
  XBits = 10
INVARIANTS TypeOK ConnSubsetKnown DepthLemmas
PROPERTIES AdmissionRule ConnFrame
