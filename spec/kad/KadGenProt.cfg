SPECIFICATION PSpec
CONSTANTS
  Peers <- GPeers
  Boots <- GBoots
  Radii <- GRadii
  ProtSets <- GProt
  Targets <- GTargets
  QSat <- GQ
  OverSat <- GOver
  AllReach <- GAllReach
  XBits = 10

INVARIANT EmitProt
CHECK_DEADLOCK FALSE
