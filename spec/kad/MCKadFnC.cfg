SPECIFICATION FnSpecC
CONSTANTS
  Peers <- CPeers
  Boots = {}
  Radii = {31}
  ProtSets = {}
  Targets <- CTargets
  QSat = 2
  OverSat = 3
  AllReach = FALSE
  XBits = 10
INVARIANTS FnMetricLemmas FnClosestLemmas
CHECK_DEADLOCK FALSE
