SPECIFICATION Spec
CONSTANTS
  Peers <- APeers
  Boots <- ABoots
  Radii <- ARadii
  ProtSets <- AProt
  Targets <- ATargets
  QSat = 1
  OverSat = 2
  AllReach = FALSE
  XBits = 10
INVARIANTS TypeOK ConnSubsetKnown BootsNotConnected DepthLemmas
PROPERTIES AdmissionRule ConnFrame
