SPECIFICATION SpecF
CONSTANTS
  Peers <- RPeers
  Boots <- ABoots
  Radii = {31}
  ProtSets <- RProt
  Targets <- ATargets
  QSat = 1
  OverSat = 2
  AllReach = FALSE
  XBits = 10
INVARIANTS TypeOK ConnSubsetKnown BootsNotConnected DepthLemmas
PROPERTIES AdmissionRule ConnFrame
