----------------------------- MODULE MCKadWalk -----------------------------
(* Bounded configuration of KadWalk for the design check: from a topology   *)
(* of 3+1 connected peers (plus up to MCPre events before the call) every   *)
(* interleaving of one ClosestPeer / ClosestPeers walk with up to MCEnv     *)
(* connections / disconnections of 6 peers, for a product of queries.       *)
EXTENDS KadWalk
CONSTANTS MCPre, MCEnv

MCStart   == <<<<0,0>>, <<0,5>>, <<0,15>>, <<1,3>>>>
MCPeers   == {<<0,0>>, <<0,5>>, <<0,10>>, <<0,15>>, <<1,3>>, <<1,12>>}
MCTargets == {<<0,14>>, <<0,4>>, <<1,2>>}
MCQueries == {[kind |-> "closest", t |-> t, skip |-> s, n |-> 1, incl |-> i] :
                 t \in MCTargets, s \in {{}, {<<0,15>>, <<1,3>>}}, i \in BOOLEAN}
             \cup {[kind |-> "closestn", t |-> <<0,14>>, skip |-> {}, n |-> n, incl |-> FALSE] : n \in {0, 2, 3}}
             \cup {[kind |-> "closestn", t |-> <<1,2>>, skip |-> {<<0,15>>}, n |-> 2, incl |-> FALSE]}

VARIABLES npre, called
mvars == <<wvars, npre, called>>

MCInit == /\ conn = SeqSet(MCStart) /\ known = SeqSet(MCStart) /\ pub = {} /\ radius = MaxPO /\ prot = {}
          /\ selfPub \in BOOLEAN /\ stale = FALSE /\ res = [op |-> "init"]
          /\ depth = Recomputed(SeqSet(MCStart), {}, MaxPO)
          /\ ord = [b \in WBins |-> SelectSeq(MCStart, LAMBDA p : p[1] = b)] /\ walk = NoWalk
          /\ npre = 0 /\ called = FALSE

MCNext == \/ /\ ~called /\ npre < MCPre
             /\ \E p \in Peers : WConnect(p) \/ WDisconnect(p)
             /\ npre' = npre + 1 /\ UNCHANGED called
          \/ /\ ~called
             /\ \E q \in MCQueries : WalkBegin(q)
             /\ called' = TRUE /\ UNCHANGED npre
          \/ /\ walk.on /\ walk.env < MCEnv
             /\ \E p \in Peers : WConnect(p) \/ WDisconnect(p)
             /\ UNCHANGED <<npre, called>>
          \/ (WalkVisit \/ WalkEnd) /\ UNCHANGED <<npre, called>>
MCSpec == MCInit /\ [][MCNext]_mvars

\* every visited peer is still, or was at some point of the call, connected
VisitsDuringCall == (walk.on /\ walk.i >= 1) => walk.snap[walk.i] \in walk.any
\* the pure lemma once per connected set the prefix reaches
ConcLemmasPre == ~called => ConcLemmas
=============================================================================
