------------------------------ MODULE KadWalk ------------------------------
(* C23 under churn: ClosestPeer / ClosestPeers as a WALK of several steps   *)
(* over the connected peers, interleaved with Connected / Disconnected.     *)
(*                                                                          *)
(* The code (Kad.ClosestPeer -> EachPeerRev -> pslice.EachBinRev) fetches   *)
(* the slice of one bin under the read lock and then visits its elements    *)
(* WITHOUT the lock, shallowest bin first; ClosestPeers repeats that walk   *)
(* once per requested peer with the peers found so far skipped.  Connected  *)
(* and Disconnected (libp2p notifier goroutines) may run between any two    *)
(* visits.  What the model keeps of pslice:                                 *)
(*   ord[b]   the slice of bin b: Add appends, Remove moves the last         *)
(*            element into the gap and shortens the slice; both leave every *)
(*            slice that was handed out before untouched (copy on write /   *)
(*            append beyond the published length) -- a walker that stands   *)
(*            inside a bin keeps seeing the bin as it was when it entered.  *)
(* Steps of a call:                                                         *)
(*   WalkBegin   the call starts (an empty topology answers at once)        *)
(*   WalkVisit   the walk moves to the next peer (entering the next         *)
(*               non-empty bin, i.e. fetching its slice, when the current   *)
(*               one is exhausted; starting the next of ClosestPeers' walks *)
(*               when this one is over) and looks at it.  This is the point *)
(*               where the driver can hold the real walk: the visit calls   *)
(*               the injectable Options.ReachabilityFunc.                   *)
(*   WalkEnd     nothing is left to visit: the call returns.                *)
(* Property (CallOK): whatever the interleaving, the answer satisfies       *)
(* Kad!ConcClosestOK / ConcOrderOK / ConcClosestNOK for the peers connected *)
(* throughout (thr) and at some point during (any) the call.                *)
EXTENDS Kad

VARIABLES ord,      \* [bin -> sequence of the connected peers of the bin]
          walk      \* the running call, or NoWalk

wvars == <<vars, ord, walk>>

None   == <<-1, -1>>
NoWalk == [on |-> FALSE]
WBins  == {p[1] : p \in Peers}

SeqSet(s) == {s[i] : i \in DOMAIN s}
IndexOf(s, p) == CHOOSE i \in DOMAIN s : s[i] = p
OrdAdd(o, p) == IF p \in SeqSet(o[p[1]]) THEN o ELSE [o EXCEPT ![p[1]] = Append(@, p)]
OrdRemove(o, p) ==
  IF p \notin SeqSet(o[p[1]]) THEN o
  ELSE LET s == o[p[1]]  n == Len(s)  i == IndexOf(s, p)
       IN [o EXCEPT ![p[1]] = IF i = n THEN SubSeq(s, 1, n - 1) ELSE [SubSeq(s, 1, n - 1) EXCEPT ![i] = s[n]]]
OrdOK == \A b \in WBins : /\ SeqSet(ord[b]) = BinOf(conn, b)
                          /\ Len(ord[b]) = Cardinality(BinOf(conn, b))

WInit == Init /\ ord = [b \in WBins |-> <<>>] /\ walk = NoWalk

(***************************************************************************)
(* Environment: connections come and go (AllReach: every peer reachable).  *)
(***************************************************************************)
Track(c2) == IF walk.on THEN [walk EXCEPT !.thr = @ \cap c2, !.any = @ \cup c2, !.env = @ + 1] ELSE walk

WConnect(p) == /\ p \notin conn
               /\ Connected(p, TRUE)
               /\ ord' = OrdAdd(ord, p)
               /\ walk' = Track(conn')
WDisconnect(p) == /\ p \in conn
                  /\ Disconnected(p)
                  /\ ord' = OrdRemove(ord, p)
                  /\ walk' = Track(conn')

(***************************************************************************)
(* The call.                                                               *)
(***************************************************************************)
\* q = [kind |-> "closest" | "closestn", t, skip (set), n, incl]
NewWalk(q, out, k, thr, any, env) ==
  [on |-> TRUE, q |-> q, out |-> out, bin |-> -1, snap |-> <<>>, i |-> 0,
   best |-> IF q.kind = "closest" /\ q.incl /\ selfPub THEN SelfAddr ELSE None,
   k |-> k, thr |-> thr, any |-> any, env |-> env]

Answer(w) == IF w.best = None THEN "notfound" ELSE IF w.best = SelfAddr THEN "wantself" ELSE "peer"
Done(w, r, peers) ==
  [op |-> "call", q |-> w.q, res |-> r, peer |-> w.best, peers |-> peers, thr |-> w.thr, any |-> w.any,
   k |-> w.k, env |-> w.env]

WalkBegin(q) ==
  /\ ~walk.on
  /\ IF conn = {} \/ (q.kind = "closestn" /\ q.n <= 0)
     THEN \* connectedPeers.Length() = 0: "not found" without a walk; ClosestPeers(0): no walk at all
          /\ walk' = NoWalk
          /\ res' = Done(NewWalk(q, <<>>, 0, conn, conn, 0), "notfound", <<>>)
     ELSE /\ walk' = NewWalk(q, <<>>, 0, conn, conn, 0)
          /\ res' = [op |-> "wbegin", q |-> q]
  /\ UNCHANGED <<conn, known, pub, radius, prot, selfPub, depth, stale, ord>>

NextBins(b) == {x \in WBins : x > b /\ ord[x] # <<>>}
LeastOf(S)  == CHOOSE x \in S : \A y \in S : x <= y
HasNext(w)  == w.i < Len(w.snap) \/ NextBins(w.bin) # {}

\* look at the next peer of walk w (w has one)
Visit(w) ==
  LET same == w.i < Len(w.snap)
      nb   == IF same THEN w.bin ELSE LeastOf(NextBins(w.bin))
      ns   == IF same THEN w.snap ELSE ord[nb]                 \* entering a bin: its slice as it is now
      ni   == IF same THEN w.i + 1 ELSE 1
      p    == ns[ni]
      skipped == p \in w.q.skip \/ p \in SeqSet(w.out)
      nbest == IF skipped THEN w.best
               ELSE IF w.best = None THEN p
               ELSE IF Closer(w.q.t, p, w.best) THEN p ELSE w.best
  IN [w EXCEPT !.bin = nb, !.snap = ns, !.i = ni, !.best = nbest, !.k = @ + 1]

\* ClosestPeers: this walk is over, is there another one?
Another(w) == /\ w.q.kind = "closestn" /\ w.best # None
              /\ Len(w.out) + 1 < w.q.n /\ conn # {}
Restart(w) == NewWalk(w.q, Append(w.out, w.best), w.k, w.thr, w.any, w.env)

WalkVisit ==
  /\ walk.on
  /\ \/ HasNext(walk) /\ walk' = Visit(walk)
     \/ ~HasNext(walk) /\ Another(walk) /\ walk' = Visit(Restart(walk))
  /\ res' = [op |-> "visit", k |-> walk'.k, at |-> walk'.snap[walk'.i]]
  /\ UNCHANGED <<conn, known, pub, radius, prot, selfPub, depth, stale, ord>>

WalkEnd ==
  /\ walk.on /\ ~HasNext(walk) /\ ~Another(walk)
  /\ res' = IF walk.q.kind = "closest" THEN Done(walk, Answer(walk), <<>>)
            ELSE Done(walk, "", IF walk.best = None THEN walk.out ELSE Append(walk.out, walk.best))
  /\ walk' = NoWalk
  /\ UNCHANGED <<conn, known, pub, radius, prot, selfPub, depth, stale, ord>>

(***************************************************************************)
(* The property.                                                           *)
(***************************************************************************)
CallOK ==
  res.op = "call" =>
    LET q == res.q  Ethr == res.thr \ q.skip  Eany == res.any \ q.skip
    IN IF q.kind = "closest"
       THEN ConcClosestOK(res.res, res.peer, q.t, Ethr, Eany, q.incl /\ selfPub, q.incl)
       ELSE /\ ConcOrderOK(res.peers, q.t, Ethr)
            /\ ConcClosestNOK(res.peers, q.t, q.n, Ethr, Eany)

\* a call that no event overlaps answers exactly as the sequential reading demands
QuietCallOK ==
  (res.op = "call" /\ res.env = 0) =>
    LET q == res.q  E == conn \ q.skip
    IN IF q.kind = "closest"
       THEN ClosestOK(res.res, res.peer, q.t, E, q.incl /\ selfPub, q.incl)
       ELSE res.peers = ClosestN(q.t, q.n, E)

\* with nothing changing the churn reading is the sequential one
ConcLemmas ==
  \A t \in Targets, incl \in BOOLEAN, sp \in BOOLEAN :
    \A r \in {"peer", "wantself", "notfound"}, p \in conn \cup {SelfAddr} :
       ConcClosestOK(r, p, t, conn, conn, incl /\ sp, incl) <=> ClosestOK(r, p, t, conn, incl /\ sp, incl)

WalkTypeOK == walk.on => /\ walk.thr \subseteq conn /\ conn \subseteq walk.any
                         /\ walk.i <= Len(walk.snap)
=============================================================================
