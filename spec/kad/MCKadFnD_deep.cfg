SPECIFICATION FnSpec
CONSTANTS
  Peers <- DPeers
  Boots = {}
  Radii <- DRadii
  ProtSets = {}
  Targets <- CTargets
  QSat = 2
  OverSat = 3
  AllReach = FALSE
  XBits = 10
INVARIANTS TypeOK FnDepthLemmas
CHECK_DEADLOCK FALSE
