SPECIFICATION GSpec
CONSTANTS
  Peers <- GWPeers
  Boots = {}
  Radii = {}
  ProtSets = {}
  Targets = {}
  QSat = 1
  OverSat = 5
  AllReach = TRUE
  XBits = 10

INVARIANTS Emit CallOK OrdOK
CHECK_DEADLOCK FALSE
