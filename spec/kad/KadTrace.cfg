SPECIFICATION TSpec
CONSTANTS
  Peers = {}
  Boots = {}
  Radii = {}
  ProtSets = {}
  Targets = {}
  QSat = 4
  OverSat = 20
  AllReach = FALSE
  XBits = 10
INVARIANT Report
POSTCONDITION AllConsumed
CHECK_DEADLOCK FALSE
