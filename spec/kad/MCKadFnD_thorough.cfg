SPECIFICATION FnSpec
CONSTANTS
  Peers <- TPeers
  Boots = {}
  Radii <- FRadii
  ProtSets = {}
  Targets <- CTargets
  QSat = 2
  OverSat = 3
  AllReach = FALSE
  XBits = 10
INVARIANTS TypeOK FnDepthLemmas
CHECK_DEADLOCK FALSE
