------------------------------- MODULE KadGen -------------------------------
(* Scenario generators for C22, C23, C24: Kad's actions plus a history      *)
(* variable.  The universe and the thresholds come from the environment     *)
(* (registry key `env`): VERIF_UNIV \in {"depth","deep","adm","cp"},        *)
(* VERIF_BINMAX \in {0,5,10} (Options.BinMaxPeers), VERIF_ALLREACH.         *)
(*                                                                          *)
(*  walks   (tlc -simulate; KadGenOrder.cfg, KadGenQuery.cfg, KadGenWalk.cfg)*)
(*          random histories of the events; the emitted scenario appends    *)
(*          - Order: two further constructions of the final (connected,     *)
(*            reachable, radius) on fresh instances, in different orders    *)
(*            (C22 order-independence; one promotes every peer first and    *)
(*            demotes afterwards),                                          *)
(*          - Query: the product of closest-peer queries on the final state *)
(*            (C23).                                                        *)
(*  vectors (KadGenVec.cfg) every bin-occupancy vector over a class menu,   *)
(*          each built in three orders (C22, exhaustive) with radius 0, 1   *)
(*          or MaxPO, followed by a SetRadius sweep over every radius from  *)
(*          the number of bins down to 0 and up again.                      *)
(*  edges   (KadGenEdges.cfg, VIEW) one shortest history per (state,        *)
(*          operation) edge of the state graph modulo peer symmetry (C24).  *)
EXTENDS Kad, TLC, Json, IOUtils
VARIABLES hist, vec,
          ever     \* peers that have been protected at some time (generator bookkeeping for the edge VIEW)

Env(k, d) == IF k \in DOMAIN IOEnv THEN IOEnv[k] ELSE d
Depth   == atoi(Env("VERIF_DEPTH", "12"))
Univ    == Env("VERIF_UNIV", "depth")
BinMax  == atoi(Env("VERIF_BINMAX", "5"))
GAllReach == Env("VERIF_ALLREACH", "0") = "1"

GOver == IF BinMax <= 0 THEN 20 ELSE LET b == KMax(BinMax, 5) IN IF b % 5 = 0 THEN b ELSE b - (b % 5) + 5
GQ    == IF BinMax <= 0 THEN 4 ELSE GOver \div 5
Par   == [binmax |-> BinMax, allreach |-> GAllReach]

Grid(bins, ids) == {<<b, i>> : b \in bins, i \in ids}

GPeers == CASE Univ = "depth" -> Grid(0..3, {0, 1, 2, 5, 9})
            [] Univ = "deep"  -> Grid({0, 1}, {0, 1, 2, 5, 9}) \cup Grid({2, 29, 30, 31}, {0, 3, 6, 12, 15})
            [] Univ = "adm"   -> Grid({0}, 0..7) \cup Grid({1}, 0..3)
            [] OTHER          -> Grid(0..2, {0, 3, 5, 6, 12, 15}) \cup Grid({30, 31}, {2, 9, 10})
GBoots == IF Univ = "adm" THEN {<<0, 15>>, <<1, 15>>} ELSE {<<1, 14>>}
GRadii == IF Univ = "adm" THEN {0, 31} ELSE {0, 1, 2, 3, 30, 31}
GProt  == IF Univ = "adm" THEN {{}, {<<0, 7>>, <<1, 3>>}, {<<1, 3>>}} ELSE {{}}
\* query targets: addresses of peers (distance zero), neighbours inside a bin, a bin without peers, the deepest bins, self
GTargets == {<<0, 3>>, <<0, 13>>, <<1, 4>>, <<2, 12>>, <<5, 0>>, <<30, 8>>, <<31, 10>>, <<SelfBin, 0>>}
GTargetsN == {<<0, 13>>, <<1, 4>>, <<31, 10>>, <<SelfBin, 0>>}

(***************************************************************************)
(* Operations as the driver reads them.                                    *)
(***************************************************************************)
Status(p, public) == IF public THEN "public" ELSE IF p[2] % 2 = 0 THEN "private" ELSE "unknown"
OConn(p, f)   == [op |-> "connected", p |-> p, force |-> f]
OOut(p, b)    == [op |-> "outbound", p |-> p, boot |-> b]
OReach(p, b)  == [op |-> "reachable", p |-> p, status |-> Status(p, b)]
ORadius(r)    == [op |-> "setradius", r |-> r]
OFresh        == [op |-> "fresh"]

Op(r) == CASE r.op = "connected"    -> OConn(r.p, r.force)
           [] r.op = "outbound"     -> OOut(r.p, r.boot)
           [] r.op = "disconnected" -> [op |-> "disconnected", p |-> r.p]
           [] r.op = "force"        -> [op |-> "force", p |-> r.p]
           [] r.op = "reachable"    -> OReach(r.p, r.public)
           [] r.op = "setradius"    -> ORadius(r.r)
           [] r.op = "protect"      -> [op |-> "protect", ps |-> SetToSeq(r.ps)]
           [] r.op = "addpeers"     -> [op |-> "addpeers", ps |-> SetToSeq(r.ps)]
           [] r.op = "selfreach"    -> [op |-> "selfreach", status |-> IF r.public THEN "public" ELSE "private"]
           [] OTHER                 -> r

(***************************************************************************)
(* Walks: Kad's events, enabled where they change something (so that a     *)
(* random walk builds up a populated topology), plus admission probes.     *)
(***************************************************************************)
Pick(p) == /\ res' = [op |-> "pick", p |-> p]
           /\ UNCHANGED <<conn, known, pub, radius, prot, selfPub, depth, stale>>

GStep == \/ \E p \in Peers \ conn, f \in BOOLEAN : Connected(p, f)
         \/ \E p \in Peers \ conn : Outbound(p)
         \/ \E p \in conn : Connected(p, FALSE)                  \* a second connection of a connected peer
         \/ \E p \in Boots : Outbound(p)
         \/ \E p \in conn : Disconnected(p) \/ DisconnectForce(p)
         \/ \E p \in known \ conn : DisconnectForce(p)
         \/ (~AllReach /\ \E p \in (conn \cup known) \ pub : Reachable(p, TRUE))
         \/ (~AllReach /\ \E p \in pub : Reachable(p, FALSE))
         \/ \E r \in Radii : SetRadius(r)
         \/ \E S \in ProtSets \ {prot} : RefreshProtect(S)
         \/ \E p \in Peers \ known : AddPeers({p})
         \/ (Univ = "cp" /\ \E b \in BOOLEAN \ {selfPub} : UpdateReachability(b))
         \/ (Univ = "adm" /\ \E p \in Peers \ conn : Pick(p))

GInit == Init /\ hist = <<>> /\ vec = <<>> /\ ever = {}
GNext == /\ Len(hist) < Depth
         /\ GStep
         /\ hist' = Append(hist, Op(res'))
         /\ ever' = ever \cup prot'
         /\ UNCHANGED vec
GSpec == GInit /\ [][GNext]_<<vars, hist, vec, ever>>

Scn(ops) == PrintT(<<"SCN", ToJson([par |-> Par, ops |-> ops])>>)

\* ---- C24 walks: the history itself
EmitWalk == Len(hist) = Depth => Scn(hist)

\* ---- C22: the walk, then the same final state twice more on fresh instances
Asc(S)  == SetToSortSeq(S, LAMBDA a, b : a[1] < b[1] \/ (a[1] = b[1] /\ a[2] < b[2]))
Desc(S) == SetToSortSeq(S, LAMBDA a, b : a[1] > b[1] \/ (a[1] = b[1] /\ a[2] > b[2]))
RECURSIVE Flat(_)
Flat(ss) == IF ss = <<>> THEN <<>> ELSE Head(ss) \o Flat(Tail(ss))
MapSeq(s, F(_)) == [i \in DOMAIN s |-> F(s[i])]

\* (a) deepest first, outbound connections, reachability reported before the connection, radius first
BuildDesc(c, p, rad) ==
  (IF rad # MaxPO THEN <<ORadius(rad)>> ELSE <<>>)
  \o Flat(MapSeq(Desc(c), LAMBDA x : (IF x \in p THEN <<OReach(x, TRUE)>> ELSE <<>>) \o <<OOut(x, FALSE)>>))
\* (b) shallowest first, inbound; every peer is promoted, the unreachable ones demoted afterwards; radius last
BuildPromoteDemote(c, p, rad) ==
     MapSeq(Asc(c), LAMBDA x : OConn(x, TRUE))
  \o MapSeq(Asc(c), LAMBDA x : OReach(x, TRUE))
  \o MapSeq(Desc(c \ p), LAMBDA x : OReach(x, FALSE))
  \o (IF rad # MaxPO THEN <<ORadius(rad)>> ELSE <<>>)
\* (c) canonical: shallowest first, each peer connected then (if reachable) promoted; radius last
BuildAsc(c, p, rad) ==
     Flat(MapSeq(Asc(c), LAMBDA x : <<OConn(x, TRUE)>> \o (IF x \in p THEN <<OReach(x, TRUE)>> ELSE <<>>)))
  \o (IF rad # MaxPO THEN <<ORadius(rad)>> ELSE <<>>)

ThreeOrders(c, p, rad) ==
  BuildDesc(c, p, rad) \o <<OFresh>> \o BuildPromoteDemote(c, p, rad) \o <<OFresh>> \o BuildAsc(c, p, rad)
OrderTail(c, p, rad) == <<OFresh>> \o ThreeOrders(c, p, rad)

EmitOrder == Len(hist) = Depth => Scn(hist \o OrderTail(conn, IF AllReach THEN {} ELSE conn \cap pub, radius))

\* ---- C23: the walk, then the product of queries on its final state
SkipSets(c) == IF Cardinality(c) <= 4 THEN SUBSET c
               ELSE {s \in SUBSET c : Cardinality(s) <= 1 \/ Cardinality(s) >= Cardinality(c) - 1}
                    \cup {c \cap pub, c \ pub, BinOf(c, 0), c \ BinOf(c, 0)}
QClosest(c) == {[op |-> "closest", t |-> t, incl |-> i, filt |-> f, skip |-> SetToSeq(s)] :
                  t \in Targets, i \in BOOLEAN, f \in BOOLEAN, s \in SkipSets(c)}
QClosestN(c) == {[op |-> "closestn", t |-> t, n |-> n, filt |-> f, skip |-> SetToSeq(s)] :
                  t \in GTargetsN, n \in {0, 1, 3, Cardinality(c), Cardinality(c) + 2}, f \in BOOLEAN,
                  s \in {{}, BinOf(c, 0), c \cap pub}}
Queries(c) == SetToSeq(QClosest(c)) \o SetToSeq(QClosestN(c))
FlipSelf   == [op |-> "selfreach", status |-> IF selfPub THEN "private" ELSE "public"]
\* one of the successors of the last step of a walk (they share the prefix)
EmitQuery == (Len(hist) = Depth /\ Cardinality(conn) <= 7 /\ res.op \in {"connected", "reachable", "disconnected"} /\ res.p[2] % 3 = 0)
               => Scn(hist \o Queries(conn) \o <<FlipSelf>> \o SetToSeq(QClosest(conn)))

\* ---- C24 edges: peers of one bin are interchangeable for connection tracking and admission
Cnt(S, b) == Cardinality(BinOf(S, b))
UBins == {p[1] : p \in Peers}
OpClass(r) == IF "p" \in DOMAIN r
              THEN <<r.op, r.p[1], r.p \in conn, r.p \in known, r.p \in prot, r.p \in ever,
                     IF "force" \in DOMAIN r THEN r.force ELSE FALSE>>
              ELSE <<r.op>>
\* the class of the last operation is taken against the state it produced
\* formerly protected peers are kept apart: a refresh must REPLACE the protected set
EdgeViewSym == <<[b \in UBins |-> <<Cnt(conn, b), Cnt(known \ conn, b), Cnt(prot \cap conn, b), Cnt(prot \ conn, b),
                                    Cnt((ever \ prot) \ conn, b)>>],
                 Cardinality(known \cap Boots), radius, prot = {}, OpClass(res)>>
EmitAll == hist # <<>> => Scn(hist)
\* edges from a populated topology: three peers in bin 1 and Prefill peers in bin 0 are connected first, so
\* that a few more steps reach the over-saturation boundary (5 with BinMaxPeers 5)
Prefill == atoi(Env("VERIF_PREFILL", "0"))
PreSet  == IF Prefill = 0 THEN {} ELSE Grid({1}, 0..2) \cup Grid({0}, 0..(Prefill - 1))
EInit == /\ conn = PreSet /\ known = PreSet /\ pub = {} /\ radius = MaxPO /\ prot = {}
         /\ selfPub = FALSE /\ stale = FALSE /\ res = [op |-> "init"]
         /\ depth = Recomputed(PreSet, {}, MaxPO)
         /\ hist = MapSeq(Desc(PreSet), LAMBDA x : OConn(x, TRUE)) /\ vec = <<>> /\ ever = {}
ENext == /\ Len(hist) < Depth + Cardinality(PreSet)
         /\ GStep
         /\ hist' = Append(hist, Op(res'))
         /\ ever' = ever \cup prot'
         /\ UNCHANGED vec
ESpec == EInit /\ [][ENext]_<<vars, hist, vec, ever>>

(***************************************************************************)
(* Vectors (C22, exhaustive): a class <<total, reachable>> per bin.        *)
(***************************************************************************)
VBins    == 0..(atoi(Env("VERIF_VBINS", "3")) - 1)
VClasses == IF Env("VERIF_VCLASSES", "quick") = "quick"
            THEN {<<0,0>>, <<GQ,GQ>>, <<3,3>>, <<GQ+1,GQ>>, <<2,0>>}
            ELSE {<<0,0>>, <<1,1>>, <<1,0>>, <<3,3>>, <<GQ,GQ>>, <<GQ+1,GQ+1>>, <<GQ+1,GQ>>, <<GQ,GQ-1>>, <<GQ,0>>}
\* radius the three constructions are made with (0: below every positive saturation-derived depth)
VRadii   == {0, 1, MaxPO}
\* ... and, on the last construction, SetRadius through every radius from the number of bins down to 0
\* and up again: radii strictly below, at and above whatever depth the saturation of the bins gives
VB       == Cardinality(VBins)
RadiusSweep == [i \in 1..(VB + 1) |-> ORadius(VB + 1 - i)] \o [i \in 1..VB |-> ORadius(i)] \o <<ORadius(MaxPO)>>
VConn(v) == UNION {{<<b, i>> : i \in 0..(v[b][1] - 1)} : b \in DOMAIN v}
VPub(v)  == UNION {{<<b, i>> : i \in 0..(v[b][2] - 1)} : b \in DOMAIN v}
VInit == /\ Init /\ hist = <<>> /\ ever = {}
         /\ vec \in [v : [VBins -> VClasses], rad : VRadii]
VSpec == VInit /\ [][FALSE]_<<vars, hist, vec, ever>>
EmitVec == LET c == VConn(vec.v)  p == VPub(vec.v)
           IN Scn(ThreeOrders(c, p, vec.rad) \o RadiusSweep)

(***************************************************************************)
(* Disconnections below the depth (C22, exhaustive over a class menu): a   *)
(* vector of classes in which a bin may mix reachable and unreachable      *)
(* peers; on every vector with a positive depth one reachable and one      *)
(* unreachable peer of every bin is disconnected (Disconnected, then       *)
(* DisconnectForce), each observed immediately and then re-connected.      *)
(***************************************************************************)
DClasses == {<<0,0>>, <<GQ,GQ>>, <<GQ+1,GQ>>, <<GQ+1,GQ+1>>, <<GQ+2,GQ+1>>}
DInit == /\ Init /\ hist = <<>> /\ ever = {}
         /\ vec \in [v : [VBins -> DClasses], rad : {MaxPO}]
DSpec == DInit /\ [][FALSE]_<<vars, hist, vec, ever>>
MaxId(S) == CHOOSE x \in S : \A y \in S : y[2] <= x[2]
Reps(c, p) == UNION {(IF BinOf(p, b) = {} THEN {} ELSE {MaxId(BinOf(p, b))})
                     \cup (IF BinOf(c \ p, b) = {} THEN {} ELSE {MaxId(BinOf(c \ p, b))}) : b \in VBins}
DiscOps(x) == <<[op |-> "disconnected", p |-> x], OConn(x, TRUE), [op |-> "force", p |-> x], OConn(x, TRUE)>>
EmitDisc == LET c == VConn(vec.v)  p == VPub(vec.v)
            IN RefDepth(c, p, vec.rad, GQ) > 0
                 => Scn(BuildAsc(c, p, vec.rad) \o Flat(MapSeq(Asc(Reps(c, p)), DiscOps)))

(***************************************************************************)
(* Protection refreshes (C24, exhaustive): on a topology whose bin 0 is    *)
(* over-saturated (PreSet), every pair of successive RefreshProtectPeer    *)
(* sets (the second REPLACES the first: shrinking, emptying, growing),     *)
(* with an admission probe of a peer after each refresh and finally its    *)
(* inbound connection.                                                     *)
(***************************************************************************)
PProbes == {<<0, 7>>, <<0, 6>>, <<1, 3>>}
PInit == /\ Init /\ hist = <<>> /\ ever = {}
         /\ vec \in [s1 : ProtSets, s2 : ProtSets, p : PProbes, f : BOOLEAN]
PSpec == PInit /\ [][FALSE]_<<vars, hist, vec, ever>>
OProt(S) == [op |-> "protect", ps |-> SetToSeq(S)]
OPick(x) == [op |-> "pick", p |-> x]
EmitProt == Scn(MapSeq(Desc(PreSet), LAMBDA x : OConn(x, TRUE))
                \o <<OProt(vec.s1), OPick(vec.p), OProt(vec.s2), OPick(vec.p), OConn(vec.p, vec.f)>>)
=============================================================================
