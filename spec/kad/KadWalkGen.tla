----------------------------- MODULE KadWalkGen -----------------------------
(* Scenario generator for C23 under churn (KadWalk): TLC enumerates the     *)
(* interleavings of one ClosestPeer / ClosestPeers call, taken as a walk of *)
(* visits, with Connected / Disconnected events.                            *)
(*                                                                          *)
(* A scenario: the connections of the initial topology (in slice order),    *)
(* up to VERIF_PREENV events before the call, then ONE call operation       *)
(*   [op |-> "closest"|"closestn", t, incl, filt |-> TRUE, skip, n,         *)
(*    gates |-> << [k |-> visit number, o |-> event] ... >>]                *)
(* whose gates say: while the walk stands on its k-th visit, let event o    *)
(* happen.  The driver holds the real walk there (Options.ReachabilityFunc  *)
(* is called once per visit).  Events are placed at no more than            *)
(* VERIF_GATES different visits, no more than VERIF_ENV in all.             *)
(* exh mode: every complete interleaving is one scenario.                   *)
EXTENDS KadWalk, TLC, Json, IOUtils

VARIABLES hist,
          gates,    \* visits at which events were placed in the running call
          pre,      \* events before the call
          done

Env(k, d) == IF k \in DOMAIN IOEnv THEN IOEnv[k] ELSE d
WUniv    == Env("VERIF_UNIV", "w1")
MaxGates == atoi(Env("VERIF_GATES", "1"))
MaxEnv   == atoi(Env("VERIF_ENV", "2"))
MaxPre   == atoi(Env("VERIF_PREENV", "0"))
Par      == [binmax |-> 5, allreach |-> TRUE]

\* initial topology, in the order of connection (= slice order)
WStart == CASE WUniv = "w1" -> <<<<0,0>>, <<0,5>>, <<0,15>>, <<1,3>>>>
            [] WUniv = "w2" -> <<<<0,0>>, <<0,5>>, <<0,12>>, <<0,15>>, <<1,3>>, <<1,9>>>>
            [] OTHER        -> <<<<0,0>>, <<0,5>>, <<0,15>>, <<1,3>>, <<2,6>>>>
\* peers that may join
WFree  == CASE WUniv = "w1" -> {<<0,10>>}
            [] WUniv = "w2" -> {<<0,10>>, <<1,12>>}
            [] OTHER        -> {<<0,10>>, <<1,12>>}
GWPeers == SeqSet(WStart) \cup WFree

Q1(t, skip)    == [kind |-> "closest", t |-> t, skip |-> skip, n |-> 1, incl |-> FALSE]
QN(t, n, skip) == [kind |-> "closestn", t |-> t, skip |-> skip, n |-> n, incl |-> FALSE]
\* targets next to the last / the first / a middle peer of bin 0, and in bin 1
WQueries == CASE WUniv = "w1" -> {Q1(<<0,14>>, {}), Q1(<<0,1>>, {}), QN(<<0,14>>, 2, {})}
              [] WUniv = "w2" -> {Q1(<<0,14>>, {}), Q1(<<0,1>>, {}), Q1(<<0,13>>, {<<0,15>>}), Q1(<<1,8>>, {}),
                                  QN(<<0,14>>, 3, {}), QN(<<0,4>>, 2, {<<0,5>>})}
              [] OTHER        -> {Q1(<<0,14>>, {}), Q1(<<0,4>>, {}), Q1(<<2,7>>, {<<2,6>>}), QN(<<0,1>>, 3, {})}

OConn(p) == [op |-> "connected", p |-> p, force |-> TRUE]
ODisc(p) == [op |-> "disconnected", p |-> p]
EvOp(r)  == IF r.op = "connected" THEN OConn(r.p) ELSE ODisc(r.p)
OCall(q) == [op |-> q.kind, t |-> q.t, incl |-> q.incl, filt |-> TRUE, skip |-> SetToSeq(q.skip), n |-> q.n, gates |-> <<>>]

StartOrd == [b \in WBins |-> SelectSeq(WStart, LAMBDA p : p[1] = b)]
GInit == /\ conn = SeqSet(WStart) /\ known = SeqSet(WStart) /\ pub = {} /\ radius = MaxPO /\ prot = {}
         /\ selfPub = FALSE /\ stale = FALSE /\ res = [op |-> "init"]
         /\ depth = Recomputed(SeqSet(WStart), {}, MaxPO)
         /\ ord = StartOrd /\ walk = NoWalk
         /\ hist = [i \in DOMAIN WStart |-> OConn(WStart[i])]
         /\ gates = {} /\ pre = 0 /\ done = FALSE

EnvStep == \/ \E p \in Peers \ conn : WConnect(p)
           \/ \E p \in conn : WDisconnect(p)

GNext ==
  /\ ~done
  /\ \/ \* before the call
        /\ ~walk.on /\ pre < MaxPre /\ res.op # "wbegin"
        /\ EnvStep
        /\ hist' = Append(hist, EvOp(res'))
        /\ pre' = pre + 1 /\ UNCHANGED <<gates, done>>
     \/ \E q \in WQueries :
          /\ WalkBegin(q) /\ walk'.on
          /\ hist' = Append(hist, OCall(q))
          /\ UNCHANGED <<gates, pre, done>>
     \/ \* an event while the walk stands on visit walk.k
        /\ walk.on /\ walk.k >= 1 /\ walk.env < MaxEnv
        /\ (walk.k \in gates \/ Cardinality(gates) < MaxGates)
        /\ EnvStep
        /\ hist' = [hist EXCEPT ![Len(hist)].gates = Append(@, [k |-> walk.k, o |-> EvOp(res')])]
        /\ gates' = gates \cup {walk.k}
        /\ UNCHANGED <<pre, done>>
     \/ WalkVisit /\ UNCHANGED <<hist, gates, pre, done>>
     \/ WalkEnd /\ done' = TRUE /\ UNCHANGED <<hist, gates, pre>>
GSpec == GInit /\ [][GNext]_<<wvars, hist, gates, pre, done>>

Emit == done => PrintT(<<"SCN", ToJson([par |-> Par, ops |-> hist])>>)
=============================================================================
