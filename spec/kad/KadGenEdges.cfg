SPECIFICATION ESpec
CONSTANTS
  Peers <- GPeers
  Boots <- GBoots
  Radii <- GRadii
  ProtSets <- GProt
  Targets <- GTargets
  QSat <- GQ
  OverSat <- GOver
  AllReach <- GAllReach
  XBits = 10
VIEW EdgeViewSym
INVARIANT EmitAll
CHECK_DEADLOCK FALSE
