SPECIFICATION FnSpecC
CONSTANTS
  Peers <- EPeers
  Boots = {}
  Radii = {31}
  ProtSets = {}
  Targets <- ETargets
  QSat = 2
  OverSat = 3
  AllReach = FALSE
  XBits = 10
INVARIANTS FnClosestLemmas
CHECK_DEADLOCK FALSE
