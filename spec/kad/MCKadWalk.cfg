SPECIFICATION MCSpec
CONSTANTS
  Peers <- MCPeers
  Boots = {}
  Radii = {}
  ProtSets = {}
  Targets <- MCTargets
  QSat = 1
  OverSat = 5
  AllReach = TRUE
  XBits = 10
  MCPre = 0
  MCEnv = 2
INVARIANTS OrdOK WalkTypeOK CallOK QuietCallOK ConcLemmasPre VisitsDuringCall
CHECK_DEADLOCK FALSE
