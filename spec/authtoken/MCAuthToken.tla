----------------------------- MODULE MCAuthToken -----------------------------
EXTENDS AuthTokenSM, IOUtils
MCSlots == {1, 2}
Thorough == "VERIF_THOROUGH" \in DOMAIN IOEnv /\ IOEnv.VERIF_THOROUGH = "1"
MCRoles == IF Thorough THEN {"consumer", "creator", "maintainer", "master", "nobody"} ELSE {"consumer", "nobody"}
MCKeys == {1, 2}
MCDamage == IF Thorough THEN {"flip_body", "trunc5", "ext1"} ELSE {"flip_body", "trunc5"}
MCJunk == {"random"}
MCDurs == {"pos", "neg", "short"}
MCPaths == {<<"apiPort">>, <<"v1", "topology">>, <<"bytes", "x">>, <<"bytes">>}
MCMethods == {"GET", "POST"}

\* Enforce does not change the slots: the design check explores the changing operations and evaluates the
\* enforce outcome of every stored token in every state (VIEW = slots: the last operation is not state)
Next == SMChange
SlotsView == slots
Spec == SMInit /\ [][Next]_smvars

InvNoRevival == NoRevival(MCPaths, MCMethods)
InvOnlyOwn == OnlyOwnUnaltered(MCPaths, MCMethods)
InvOutcome == OutcomeIsStatement(MCPaths, MCMethods)

\* spot checks of the transcribed policy (each line: role, path, method, expected)
PolicySpotChecks ==
  /\ PolicyAllows("consumer", <<"bytes", "abc">>, "GET")
  /\ PolicyAllows("consumer", <<"bytes", "">>, "GET")
  /\ ~PolicyAllows("consumer", <<"bytes">>, "GET")
  /\ PolicyAllows("creator", <<"bytes">>, "POST")
  /\ ~PolicyAllows("consumer", <<"bytes">>, "POST")
  /\ PolicyAllows("consumer", <<"v1", "bytes", "abc">>, "GET")
  /\ ~PolicyAllows("consumer", <<"v2", "bytes", "abc">>, "GET")
  /\ PolicyAllows("creator", <<"soc", "o">>, "POST")            \* keyMatch stops at the first star
  /\ ~PolicyAllows("creator", <<"soc">>, "POST")
  /\ PolicyAllows("master", <<"topology", "group">>, "GET")
  /\ ~PolicyAllows("master", <<"nothing">>, "GET")
  /\ ~PolicyAllows("nobody", <<"apiPort">>, "GET")
  /\ PolicyAllows("maintainer", <<"route", "findunderlay", "t">>, "DELETE")   \* via /route/*
  /\ ~PolicyAllows("maintainer", <<"apiPort">>, "GET")
  /\ PolicyAllows("creator", <<"pins", "r">>, "DELETE")
  /\ ~PolicyAllows("creator", <<"pins", "r">>, "PUT")
  /\ ~PolicyAllows("consumer", <<"apiPort">>, "get")
ASSUME PolicySpotChecks
=============================================================================
