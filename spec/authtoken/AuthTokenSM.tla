----------------------------- MODULE AuthTokenSM -----------------------------
(* The token life cycle as a state machine over a few token slots: issue,     *)
(* refresh, damage, replace by junk.  Shared by the design check (MCAuthToken) *)
(* and the generator of refresh sequences (AuthTokenGen).                     *)
EXTENDS AuthToken

CONSTANTS Slots,      \* token slots the driver keeps
          SMRoles,    \* roles tokens are issued for
          SMKeys,     \* node keys (1 = this node)
          SMDamage,   \* damage classes applied by Tamper
          SMJunk,     \* junk classes
          SMDurs      \* expiry durations used when issuing / refreshing ("pos", "neg", "short")

Self == 1

VARIABLES slots,      \* Slots -> token
          last        \* the last operation with its model outcome

smvars == <<slots, last>>

SMInit == slots = [s \in Slots |-> None] /\ last = [op |-> "init"]

\* GenerateKey(role, duration) on node `key`
GenTok(s, key, role, dur) ==
  /\ slots' = [slots EXCEPT ![s] = Issue(key, role, dur)]
  /\ last' = [op |-> "gen", slot |-> s, key |-> key, role |-> role, dur |-> dur]

\* RefreshKey(slots[src], duration) on this node; the result (if any) goes to dst
RefreshTok(src, dst, dur) ==
  /\ slots[src] # None
  /\ LET out == RefreshOutcome(Self, slots[src])
     IN /\ slots' = IF out = "ok" THEN [slots EXCEPT ![dst] = Refreshed(slots[src], dur)] ELSE slots
        /\ last' = [op |-> "refresh", src |-> src, dst |-> dst, dur |-> dur, out |-> out]

\* the clock moves past every short expiry
WaitTok ==
  /\ "short" \in SMDurs
  /\ slots' = [s \in Slots |-> Expire(slots[s])]
  /\ last' = [op |-> "wait"]

\* damage a stored token string
TamperTok(s, cls) ==
  /\ slots[s].kind = "sealed" /\ slots[s].dmg = "none"
  /\ slots' = [slots EXCEPT ![s] = Damaged(slots[s], cls)]
  /\ last' = [op |-> "tamper", slot |-> s, cls |-> cls]

JunkTok(s, cls) ==
  /\ slots' = [slots EXCEPT ![s] = Junk(cls)]
  /\ last' = [op |-> "junk", slot |-> s, cls |-> cls]

\* Enforce(slots[s], path, method) on this node
EnforceTok(s, path, method) ==
  /\ slots[s] # None
  /\ slots' = slots
  /\ last' = [op |-> "enforce", slot |-> s, path |-> path, method |-> method,
              out |-> EnforceOutcome(Self, slots[s], path, method)]

\* the operations that change the slots
SMChange ==
  \/ \E s \in Slots, k \in SMKeys, r \in SMRoles, d \in SMDurs : GenTok(s, k, r, d)
  \/ \E a, b \in Slots, d \in SMDurs : RefreshTok(a, b, d)
  \/ WaitTok
  \/ \E s \in Slots, c \in SMDamage : TamperTok(s, c)
  \/ \E s \in Slots, c \in SMJunk : JunkTok(s, c)

SMNext(Paths, Methods) ==
  \/ SMChange
  \/ \E s \in Slots, p \in Paths, m \in Methods : EnforceTok(s, p, m)

(***************************************************************************)
(* Properties of the life cycle (second sentence of C35).                  *)
(***************************************************************************)
\* refreshing keeps the role
RefreshKeepsRole == \A s \in Slots : slots[s].kind = "sealed" => slots[s].role = slots[s].root
\* an expired token is never revived: nothing that is honoured descends from an expired token
NoRevival(Paths, Methods) ==
  \A s \in Slots, p \in Paths, m \in Methods :
     Honoured(Self, slots[s], p, m) => (~slots[s].viaExpired /\ slots[s].exp = "future")
\* only this node's unaltered tokens are honoured
OnlyOwnUnaltered(Paths, Methods) ==
  \A s \in Slots, p \in Paths, m \in Methods :
     Honoured(Self, slots[s], p, m) => (slots[s].kind = "sealed" /\ slots[s].key = Self /\ slots[s].dmg = "none")
\* the enforce outcome agrees with the statement, for every stored token
OutcomeIsStatement(Paths, Methods) ==
  \A s \in Slots, p \in Paths, m \in Methods :
     slots[s] # None => ((EnforceOutcome(Self, slots[s], p, m) = "allowed") <=> Honoured(Self, slots[s], p, m))
=============================================================================
