---------------------------- MODULE AuthTokenTrace ----------------------------
(* Judge for C35: replays what auth.Authenticator did with generated token     *)
(* histories against AuthToken's definitions.  Monitor mode (TraceKit).        *)
EXTENDS AuthTokenSM, TraceKit

TSlots == {1, 2}
TNone == {}

VARIABLES l, bad, notes

\* ---- observations -------------------------------------------------------------
\* outcome class of an Enforce result as logged: [a]llowed, e[x]piry error, other [e]rror, [p]anicked
ObsEnforce(r) == IF r.p THEN "panicked" ELSE IF r.a THEN "allowed" ELSE IF r.x THEN "expired" ELSE IF r.e THEN "error" ELSE "denied"
ObsOfEvent(e) == ObsEnforce([a |-> e.allowed, x |-> e.expired, e |-> e.err # "", p |-> e.panicked])
ObsRefresh(e) == IF e.panicked THEN "panicked" ELSE IF e.ok THEN "ok" ELSE IF e.expired THEN "expired" ELSE "error"

\* the stored-token projection the driver logs after each changing operation: per slot either
\* [set |-> FALSE] or [set |-> TRUE, c |-> r, r |-> r, m |-> r] with r a probe result as above.
\* A probe that panicked counts as "error" here: panics are judged on the explicit operations.
Soft(o) == IF o = "panicked" THEN "error" ELSE o
Short(t) == t.kind = "sealed" /\ t.ttl = "short"
StMatches(st, sl) ==
  \A s \in Slots :
     IF sl[s] = None THEN ~st[s].set
     ELSE /\ st[s].set
          /\ LET ok(t) == LET pr == Projection(Self, t)
                           IN /\ Soft(ObsEnforce(st[s].c)) = pr.c
                              /\ Soft(ObsEnforce(st[s].r)) = pr.r
                              /\ Soft(ObsEnforce(st[s].m)) = pr.m
             IN IF Short(sl[s]) THEN ok([sl[s] EXCEPT !.exp = "future"]) \/ ok([sl[s] EXCEPT !.exp = "past"])
                ELSE ok(sl[s])

Path(e) == e.path      \* JSON array of strings -> tuple of strings

\* Real time.  For a token with a short expiry the driver logs where the call fell relative to the expiry,
\* with a safety margin: "alive", "expired", or "edge" (too close to tell: the event is not judged).  The
\* model's own view (Expire at every "wait") must agree; where the machine was too slow it does not, and the
\* clock wins.
AtCall(t, e) == IF t.kind = "sealed" /\ t.ttl = "short" /\ Has(e, "fresh") /\ e.fresh \in {"alive", "expired"}
                THEN [t EXCEPT !.exp = IF e.fresh = "alive" THEN "future" ELSE "past"]
                ELSE t
Edge(t, e) == t.kind = "sealed" /\ t.ttl = "short" /\ Has(e, "fresh") /\ e.fresh = "edge"


\* ---- model step ------------------------------------------------------------------
Post(e, sl) ==
  CASE e.op = "reset"   -> [s \in Slots |-> None]
    [] e.op = "gen"     -> IF e.ok THEN [sl EXCEPT ![e.slot] = Issue(e.key, e.role, e.dur)] ELSE sl
    [] e.op = "refresh" -> LET src == AtCall(sl[e.src], e)
                               s1 == [sl EXCEPT ![e.src] = src]
                           IN IF ObsRefresh(e) = "ok"
                              THEN [s1 EXCEPT ![e.dst] = IF src.kind = "sealed" THEN Refreshed(src, e.dur) ELSE Junk("random")]
                              ELSE s1
    [] e.op = "enforce" -> [sl EXCEPT ![e.slot] = AtCall(sl[e.slot], e)]
    [] e.op = "wait"    -> [s \in Slots |-> Expire(sl[s])]
    [] e.op = "tamper"  -> [sl EXCEPT ![e.slot] = Damaged(sl[e.slot], e.cls)]
    [] e.op = "junk"    -> [sl EXCEPT ![e.slot] = Junk(e.cls)]
    [] OTHER            -> sl

Verdict(e, pre, post) ==
     (IF e.op = "enforce"
      THEN LET want == EnforceOutcome(Self, AtCall(pre[e.slot], e), Path(e), e.method)
               got  == ObsOfEvent(e)
           IN IF Edge(pre[e.slot], e) THEN Clause("C35:no_panic", got # "panicked") ELSE
                 Clause("C35:no_panic", got # "panicked")
              \o Clause("C35:honoured_iff_own_unaltered_unexpired_and_policy_allows", (got = "allowed") = (want = "allowed"))
              \o Clause("C35:expired_token_gets_expiry_error", want = "expired" => got = "expired")
              \o Clause("C35:malformed_or_foreign_token_gets_error", want = "error" => got = "error")
      ELSE <<>>)
  \o (IF e.op = "refresh"
      THEN LET want == RefreshOutcome(Self, AtCall(pre[e.src], e))
               got  == ObsRefresh(e)
           IN IF Edge(pre[e.src], e) THEN Clause("C35:no_panic", got # "panicked") ELSE
                 Clause("C35:no_panic", got # "panicked")
              \o Clause("C35:refresh_only_of_own_unaltered_unexpired", (got = "ok") = (want = "ok"))
              \o Clause("C35:refresh_cannot_revive_expired", want = "expired" => got = "expired")
              \o Clause("C35:refresh_of_malformed_or_foreign_token_gets_error", want = "error" => got = "error")
      ELSE <<>>)
  \o (IF e.op = "gen" THEN Clause("C35:no_panic", ~e.panicked) ELSE <<>>)
  \o (IF Has(e, "st") /\ e.op # "reset"
      THEN Clause("C35:stored_tokens_keep_role_and_expiry", StMatches(e.st, post))
      ELSE <<>>)

Note(l_, e) ==
  IF e.op = "gen" /\ ~e.ok
  THEN <<[line |-> l_, scn |-> e.scn, note |-> "token_not_issued", op |-> e.op]>>
  ELSE IF e.op \in {"enforce", "refresh"} /\ Has(e, "fresh") /\ e.fresh \in {"alive", "expired", "edge"}
          /\ LET t == slots[IF e.op = "enforce" THEN e.slot ELSE e.src]
             IN Short(t) /\ (e.fresh = "edge" \/ (e.fresh = "alive") # (t.exp = "future"))
  THEN <<[line |-> l_, scn |-> e.scn, note |-> "call_not_on_the_modelled_side_of_a_short_expiry", op |-> e.op]>>
  ELSE <<>>

TInit == l = 1 /\ bad = <<>> /\ notes = <<>> /\ slots = [s \in Slots |-> None] /\ last = [op |-> "init"]

TStep == /\ l <= NEvents
         /\ LET e == Trace[l]
                post == Post(e, slots)
                cs == Verdict(e, slots, post)
            IN /\ l' = l + 1
               /\ bad' = IF cs = <<>> THEN bad ELSE Append(bad, BadRec(l, e, cs))
               /\ notes' = IF Len(notes) < 20 THEN notes \o Note(l, e) ELSE notes
               /\ slots' = post
               /\ last' = [op |-> e.op]

TSpec == TInit /\ [][TStep]_<<smvars, l, bad, notes>>

Report == ReportBad(l, bad, notes)
=============================================================================
