SPECIFICATION GSpec
CONSTANTS
  Slots <- GSlots
  SMRoles <- LifeRoles
  SMKeys <- GKeys
  SMDamage <- LifeDamage
  SMDurs <- LifeDurs
  SMJunk <- LifeJunk
INVARIANT Emit
CHECK_DEADLOCK FALSE
