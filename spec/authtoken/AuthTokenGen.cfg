SPECIFICATION GSpec
CONSTANTS
  Slots <- GSlots
  SMRoles <- LifeRoles
  SMKeys <- GKeys
  SMDamage <- LifeDamage
  SMJunk <- LifeJunk
INVARIANT Emit
CHECK_DEADLOCK FALSE
