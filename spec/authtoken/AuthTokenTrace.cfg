SPECIFICATION TSpec
CONSTANTS
  Slots <- TSlots
  SMRoles <- TNone
  SMKeys <- TNone
  SMDamage <- TNone
  SMDurs <- TNone
  SMJunk <- TNone
INVARIANT Report
POSTCONDITION AllConsumed
CHECK_DEADLOCK FALSE
