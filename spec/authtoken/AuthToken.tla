------------------------------ MODULE AuthToken ------------------------------
(* API access tokens (pkg/auth/auth.go).  Property C35.                       *)
(*                                                                            *)
(* A token is the symbolic term Seal(key, [role, expiry]): an AEAD box that   *)
(* opens only with the same key and only if no byte was changed.  TLC never   *)
(* sees AES-GCM, base64 or the clock: expiry is "future" or "past" (a token   *)
(* issued with a negative duration is born expired), damage is a class name.  *)
(* The policy is the table of applyPolicies, transcribed as data, with        *)
(* casbin's keyMatch (everything after the first * matches) and the matcher's *)
(* "/v1" + pattern alternative and "master" role.  Paths are sequences of     *)
(* segments ("/bytes/abc" = <<"bytes","abc">>, "/bytes/" = <<"bytes","">>).   *)
EXTENDS Integers, Sequences, FiniteSets, TLC

(***************************************************************************)
(* Policy table (pkg/auth/auth.go applyPolicies), one line per entry.      *)
(***************************************************************************)
G == {"GET"}   P == {"POST"}   D == {"DELETE"}
Pol(r, p, m) == [r |-> r, p |-> p, m |-> m]

Policies == {
  Pol("consumer",   <<"apiPort">>, G),
  Pol("consumer",   <<"bytes", "*">>, G),
  Pol("creator",    <<"bytes">>, P),
  Pol("consumer",   <<"chunks", "*">>, G),
  Pol("creator",    <<"chunks">>, P),
  Pol("creator",    <<"soc", "*", "*">>, P),
  Pol("consumer",   <<"aurora">>, G),
  Pol("creator",    <<"aurora">>, P),
  Pol("consumer",   <<"aurora", "*">>, G),
  Pol("creator",    <<"aurora", "*">>, D),
  Pol("consumer",   <<"aurora", "*", "*">>, G),
  Pol("consumer",   <<"manifest", "*">>, G),
  Pol("consumer",   <<"manifest", "*", "*">>, G),
  Pol("creator",    <<"pins", "*">>, G \cup D \cup P),
  Pol("consumer",   <<"group", "peers", "*">>, G),
  Pol("consumer",   <<"group", "multicast", "*">>, P),
  Pol("consumer",   <<"group", "send", "*", "*">>, P),
  Pol("consumer",   <<"group", "notify", "*", "*">>, P),
  Pol("consumer",   <<"group", "join", "*">>, D \cup P),
  Pol("consumer",   <<"group", "observe", "*">>, D \cup P),
  Pol("maintainer", <<"pins">>, G),
  \* debug api
  Pol("maintainer", <<"addresses">>, G),
  Pol("maintainer", <<"pingpong", "*">>, P),
  Pol("maintainer", <<"connect", "*">>, P),
  Pol("maintainer", <<"peers">>, G),
  Pol("maintainer", <<"peers", "*">>, D),
  Pol("maintainer", <<"blocklist">>, G),
  Pol("maintainer", <<"blocklist", "*">>, D \cup P),
  Pol("maintainer", <<"chunks", "*">>, G \cup D),
  Pol("maintainer", <<"topology">>, G),
  Pol("maintainer", <<"route", "*">>, G \cup D \cup P),
  Pol("maintainer", <<"route", "findunderlay", "*">>, G),
  Pol("maintainer", <<"welcome-message">>, G \cup P),
  Pol("maintainer", <<"chunk", "discover", "*">>, G),
  Pol("maintainer", <<"chunk", "server", "*">>, G),
  Pol("maintainer", <<"chunk", "init", "*">>, G),
  Pol("maintainer", <<"chunk", "source", "*">>, G),
  Pol("maintainer", <<"aco", "*">>, G),
  Pol("maintainer", <<"keystore">>, G \cup P),
  Pol("maintainer", <<"privatekey">>, G),
  Pol("maintainer", <<"transaction">>, P),
  \* multicast
  Pol("maintainer", <<"topology", "group">>, G) }

\* position of the first "*" segment of a pattern, 0 if none
FirstStar(pat) == IF \E i \in 1..Len(pat) : pat[i] = "*"
                  THEN CHOOSE i \in 1..Len(pat) : pat[i] = "*" /\ \A j \in 1..(i-1) : pat[j] # "*"
                  ELSE 0

\* casbin util.KeyMatch on "/"-joined segments: no star -> equality; otherwise the text before the
\* first star (which ends in "/") must be a prefix of the path
KeyMatch(path, pat) ==
  LET i == FirstStar(pat)
  IN IF i = 0 THEN path = pat
     ELSE Len(path) >= i /\ SubSeq(path, 1, i - 1) = SubSeq(pat, 1, i - 1)

\* m = (r.sub == p.sub || r.sub == "master") && (keyMatch(r.obj, p.obj) || keyMatch(r.obj, '/v1'+p.obj)) && regexMatch(r.act, p.act)
PolicyAllows(role, path, method) ==
  \E pol \in Policies : /\ (role = pol.r \/ role = "master")
                        /\ (KeyMatch(path, pol.p) \/ KeyMatch(path, <<"v1">> \o pol.p))
                        /\ method \in pol.m

(***************************************************************************)
(* Tokens.                                                                 *)
(***************************************************************************)
None == [kind |-> "none"]

\* a sealed token; root / viaExpired are history (ghost) fields: the role the first issue of this token's
\* lineage carried, and whether an expired token occurs among its ancestors
\* ttl: "long" (expiry far away / born expired) or "short" (a real expiry of a second or two: such a token
\* is alive when issued and expires while the history runs, see Expire)
SealT(key, role, exp, ttl) == [kind |-> "sealed", key |-> key, role |-> role, exp |-> exp, ttl |-> ttl, dmg |-> "none",
                               root |-> role, viaExpired |-> FALSE]
Seal(key, role, exp) == SealT(key, role, exp, "long")

\* damage classes of a sealed token (bytes before base64: 12 nonce, ciphertext, 16 tag)
SealedDamage == {"flip_nonce", "flip_body", "flip_tag", "trunc0", "trunc5", "trunc11", "trunc12", "trunc13", "trunc27", "ext1"}
\* strings that never were a token
JunkClasses == {"notbase64", "random", "emptystr"}
Junk(cls) == [kind |-> "junk", cls |-> cls]

Damaged(t, cls) == [t EXCEPT !.dmg = cls]

\* the box opens: issued with this node's key and not altered
Opens(self, t) == t.kind = "sealed" /\ t.key = self /\ t.dmg = "none"

\* outcome classes of Enforce
EnforceOutcome(self, t, path, method) ==
  IF ~Opens(self, t) THEN "error"
  ELSE IF t.exp = "past" THEN "expired"
  ELSE IF PolicyAllows(t.role, path, method) THEN "allowed"
  ELSE "denied"

\* statement of C35, first sentence
Honoured(self, t, path, method) == Opens(self, t) /\ t.exp = "future" /\ PolicyAllows(t.role, path, method)

\* durations: "pos" (far future), "neg" (born expired), "short" (alive now, expires within the history)
RefreshOutcome(self, t) == IF ~Opens(self, t) THEN "error" ELSE IF t.exp = "past" THEN "expired" ELSE "ok"
ExpOf(dur) == IF dur = "neg" THEN "past" ELSE "future"
TtlOf(dur) == IF dur = "short" THEN "short" ELSE "long"
Issue(key, role, dur) == SealT(key, role, ExpOf(dur), TtlOf(dur))
Refreshed(t, dur) == [t EXCEPT !.exp = ExpOf(dur), !.ttl = TtlOf(dur), !.viaExpired = t.viaExpired \/ t.exp = "past"]
\* time passes beyond the short expiries
Expire(t) == IF t.kind = "sealed" /\ t.ttl = "short" THEN [t EXCEPT !.exp = "past"] ELSE t

(***************************************************************************)
(* Observable projection of a token: the three role probes and expiry.     *)
(***************************************************************************)
ProbeC == [path |-> <<"apiPort">>, method |-> "GET"]         \* consumer (and master)
ProbeR == [path |-> <<"bytes">>, method |-> "POST"]          \* creator
ProbeM == [path |-> <<"topology">>, method |-> "GET"]        \* maintainer
Projection(self, t) ==
  [c |-> EnforceOutcome(self, t, ProbeC.path, ProbeC.method),
   r |-> EnforceOutcome(self, t, ProbeR.path, ProbeR.method),
   m |-> EnforceOutcome(self, t, ProbeM.path, ProbeM.method)]
=============================================================================
