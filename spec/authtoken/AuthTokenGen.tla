----------------------------- MODULE AuthTokenGen -----------------------------
(* Scenario generators for C35.  Three families (VERIF_FAMILY):               *)
(*  policy   one scenario per (role, expiry): a genuine token enforced on      *)
(*           every (path, method) of the test universe                         *)
(*  classes  one scenario per (token class, role): issue, damage / replace,    *)
(*           enforce, refresh, enforce the refreshed slot                      *)
(*  life     histories of the token life cycle (AuthTokenSM) with a history    *)
(*           variable: exhaustive to VERIF_DEPTH or random walks (-simulate)   *)
EXTENDS AuthTokenSM, SequencesExt, Json, IOUtils
VARIABLE hist

Family == IF "VERIF_FAMILY" \in DOMAIN IOEnv THEN IOEnv.VERIF_FAMILY ELSE "policy"
Depth  == IF "VERIF_DEPTH" \in DOMAIN IOEnv THEN atoi(IOEnv.VERIF_DEPTH) ELSE 4

GRoles == {"consumer", "creator", "maintainer", "master", "nobody", ""}
GMethods == {"GET", "POST", "DELETE", "PUT", "get", ""}
\* every policy line has an instance, a near miss and a /v1 variant somewhere in here
GPaths == {
  <<>>, <<"">>, <<"v1">>,
  <<"apiPort">>, <<"apiPort", "">>, <<"v1", "apiPort">>, <<"v2", "apiPort">>, <<"ApiPort">>,
  <<"bytes">>, <<"bytes", "abc">>, <<"bytes", "">>, <<"v1", "bytes", "abc">>, <<"v1", "v1", "bytes", "abc">>, <<"bytesX", "abc">>,
  <<"chunks">>, <<"chunks", "abc">>,
  <<"soc">>, <<"soc", "o">>, <<"soc", "o", "i">>,
  <<"aurora">>, <<"aurora", "ref">>, <<"aurora", "ref", "p", "q">>,
  <<"manifest">>, <<"manifest", "x">>, <<"manifest", "x", "y">>,
  <<"pins">>, <<"pins", "r">>,
  <<"group">>, <<"group", "peers">>, <<"group", "peers", "g">>, <<"group", "multicast", "g">>, <<"group", "send", "g", "t">>,
  <<"group", "notify", "g", "t">>, <<"group", "join", "g">>, <<"group", "observe", "g">>, <<"group", "other", "g">>,
  <<"addresses">>, <<"pingpong", "p">>, <<"connect", "a">>, <<"peers">>, <<"peers", "p">>,
  <<"blocklist">>, <<"blocklist", "p">>, <<"topology">>, <<"topology", "group">>, <<"topology", "other">>,
  <<"route", "t">>, <<"route", "findunderlay", "t">>, <<"welcome-message">>,
  <<"chunk", "discover", "r">>, <<"chunk", "server", "r">>, <<"chunk", "init", "r">>, <<"chunk", "source", "r">>, <<"chunk", "other", "r">>,
  <<"aco", "t">>, <<"keystore">>, <<"privatekey">>, <<"transaction">>, <<"v1", "transaction">>, <<"transaction", "x">> }

GSlots == {1, 2}
GKeys == {1, 2}
GDamage == SealedDamage
GJunk == JunkClasses
LifeRoles == {"consumer", "maintainer", "master"}
LifeDamage == {"flip_tag", "trunc13"}
LifeJunk == {"random"}
LifeDurs == {"pos", "neg"}
LifePaths == {ProbeC.path, <<"v1", "topology">>}
LifeMethods == {"GET"}

OpGen(s, k, r, d) == [op |-> "gen", slot |-> s, key |-> k, role |-> r, dur |-> d]
OpEnf(s, p, m)    == [op |-> "enforce", slot |-> s, path |-> p, method |-> m]
OpRef(a, b, d)    == [op |-> "refresh", src |-> a, dst |-> b, dur |-> d]
OpTam(s, c)       == [op |-> "tamper", slot |-> s, cls |-> c]
OpJunk(s, c)      == [op |-> "junk", slot |-> s, cls |-> c]

PolicyScenario(role, dur) ==
  [par |-> [family |-> "policy", role |-> role, dur |-> dur],
   ops |-> <<OpGen(1, 1, role, dur)>> \o SetToSeq({OpEnf(1, p, m) : p \in GPaths, m \in GMethods})]

\* slot 2 starts with a token of a role without rights, so that it is defined whether or not the refresh succeeds
ClassTail == <<OpGen(2, 1, "nobody", "pos"), OpEnf(1, ProbeC.path, ProbeC.method), OpEnf(1, <<"v1", "bytes", "x">>, "GET"), OpEnf(1, <<"nothing">>, "PUT"),
               OpRef(1, 2, "pos"), OpEnf(2, ProbeC.path, ProbeC.method), OpRef(1, 1, "neg"), OpEnf(1, ProbeC.path, ProbeC.method)>>

ClassScenarios ==
       {[par |-> [family |-> "classes", cls |-> c, role |-> r], ops |-> <<OpGen(1, 1, r, "pos"), OpTam(1, c)>> \o ClassTail] :
           c \in GDamage, r \in {"consumer", "master"}}
  \cup {[par |-> [family |-> "classes", cls |-> c, role |-> r], ops |-> <<OpGen(1, 1, r, "pos"), OpJunk(1, c)>> \o ClassTail] :
           c \in GJunk, r \in {"consumer"}}
  \cup {[par |-> [family |-> "classes", cls |-> "otherkey", role |-> r], ops |-> <<OpGen(1, 2, r, "pos")>> \o ClassTail] :
           r \in {"consumer", "master"}}
  \cup {[par |-> [family |-> "classes", cls |-> "genuine", role |-> r], ops |-> <<OpGen(1, 1, r, "pos")>> \o ClassTail] :
           r \in {"consumer", "master"}}
  \cup {[par |-> [family |-> "classes", cls |-> "bornexpired", role |-> r], ops |-> <<OpGen(1, 1, r, "neg")>> \o ClassTail] :
           r \in {"consumer", "master"}}

\* ---- family realtime: tokens with a real expiry of a couple of seconds; "wait" lets the clock pass it.
\* (the driver runs these scenarios concurrently, so the tier pays the waiting time once)
OpWait == [op |-> "wait"]
PC == OpEnf(1, ProbeC.path, ProbeC.method)
PC2 == OpEnf(2, ProbeC.path, ProbeC.method)
RT(name, role, ops) == [par |-> [family |-> "realtime", history |-> name, role |-> role],
                        ops |-> <<OpGen(2, 1, "nobody", "pos")>> \o ops]
RealtimeScenarios ==
  UNION {{
    \* used while alive, expires, is refreshed: the refresh must fail and nothing refreshed may be honoured
    RT("use_expire_refresh", r, <<OpGen(1, 1, r, "short"), PC, OpWait, OpRef(1, 2, "pos"), PC2, PC, OpRef(1, 1, "pos"), PC>>),
    \* expires unused, is enforced, then refreshed
    RT("expire_enforce_refresh", r, <<OpGen(1, 1, r, "short"), OpWait, PC, OpRef(1, 2, "pos"), PC2, PC>>),
    \* expires unused and is refreshed at once
    RT("expire_refresh", r, <<OpGen(1, 1, r, "short"), OpWait, OpRef(1, 2, "pos"), PC2, PC>>),
    \* refreshed while alive, then the old one expires: old refused, new honoured
    RT("refresh_alive_expire", r, <<OpGen(1, 1, r, "short"), OpRef(1, 2, "pos"), PC, PC2, OpWait, PC, PC2, OpRef(1, 1, "pos"), OpRef(2, 1, "pos"), PC>>),
    \* refreshed while alive into another short token: both expire
    RT("refresh_short_expire", r, <<OpGen(1, 1, r, "short"), PC, OpRef(1, 2, "short"), PC2, OpWait, PC, PC2, OpRef(2, 1, "pos"), OpRef(1, 2, "pos"), PC, PC2>>),
    \* a damaged copy of a token that was used while alive
    RT("use_tamper_expire", r, <<OpGen(1, 1, r, "short"), PC, OpRef(1, 2, "short"), OpTam(2, "flip_tag"), PC2, OpWait, PC2, OpRef(2, 1, "pos"), PC>>)
  } : r \in {"consumer", "master"}}

\* ---- families policy / classes / realtime: one scenario per state
EnumInit == hist = <<>> /\ slots = [s \in Slots |-> None] /\ last = [op |-> "init"]
EnumNext == /\ hist = <<>>
            /\ UNCHANGED smvars
            /\ \/ /\ Family = "policy"
                  /\ \E r \in GRoles, d \in {"pos", "neg"} : hist' = PolicyScenario(r, d)
               \/ /\ Family = "classes"
                  /\ \E sc \in ClassScenarios : hist' = sc
               \/ /\ Family = "realtime"
                  /\ \E sc \in RealtimeScenarios : hist' = sc

\* ---- family life: the state machine with its history
LifeOp(r) == IF r.op = "refresh" THEN OpRef(r.src, r.dst, r.dur)
             ELSE IF r.op = "enforce" THEN OpEnf(r.slot, r.path, r.method)
             ELSE r
\* issuing is restricted (slot 1: consumer, slot 2: maintainer; the other node only issues unexpired tokens) so
\* that random walks are not dominated by the many ways of issuing a token
LifeRole(s) == IF s = 1 THEN "consumer" ELSE "maintainer"
LifeChange ==
  \/ \E s \in Slots, kd \in {<<1, "pos">>, <<1, "neg">>, <<2, "pos">>} : GenTok(s, kd[1], LifeRole(s), kd[2])
  \/ \E a, b \in Slots, d \in {"pos", "neg"} : RefreshTok(a, b, d)
  \/ \E s \in Slots, c \in SMDamage : TamperTok(s, c)
  \/ \E s \in Slots, c \in SMJunk : JunkTok(s, c)
LifeNext == /\ Len(hist) < Depth
            /\ \/ LifeChange
               \/ \E s \in Slots, p \in LifePaths, m \in LifeMethods : EnforceTok(s, p, m)
            /\ hist' = Append(hist, LifeOp(last'))

GInit == EnumInit
GNext == IF Family = "life" THEN LifeNext ELSE EnumNext
GSpec == GInit /\ [][GNext]_<<smvars, hist>>

\* policy / classes: every non-initial state is a scenario; life: full-depth histories only
Emit == IF Family = "life"
        THEN (Len(hist) = Depth => PrintT(<<"SCN", ToJson([par |-> [family |-> "life"], ops |-> hist])>>))
        ELSE (hist # <<>> => PrintT(<<"SCN", ToJson(hist)>>))
=============================================================================
