SPECIFICATION Spec
CONSTANTS
  Slots <- MCSlots
  SMRoles <- MCRoles
  SMKeys <- MCKeys
  SMDamage <- MCDamage
  SMJunk <- MCJunk
VIEW SlotsView
INVARIANTS RefreshKeepsRole InvNoRevival InvOnlyOwn InvOutcome
CHECK_DEADLOCK FALSE
