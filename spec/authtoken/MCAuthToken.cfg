SPECIFICATION Spec
CONSTANTS
  Slots <- MCSlots
  SMRoles <- MCRoles
  SMKeys <- MCKeys
  SMDamage <- MCDamage
  SMDurs <- MCDurs
  SMJunk <- MCJunk
VIEW SlotsView
INVARIANTS RefreshKeepsRole InvNoRevival InvOnlyOwn InvOutcome
CHECK_DEADLOCK FALSE
