INIT SeqInit
NEXT SeqNext
INVARIANT EmitFull
CHECK_DEADLOCK FALSE
