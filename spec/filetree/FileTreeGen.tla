---------------------------- MODULE FileTreeGen ----------------------------
(* Scenario generators for C01 / C02 / C07 (history variable hist, see BUILDING.md).            *)
(*                                                                                              *)
(*   Up      (exh)    size class x encrypt x write-split class: <<upload, open, readall>>       *)
(*   ReadAt  (exh)    size class x encrypt x offset class x (len, cap) class: <<open, readat>>  *)
(*   Seq     (edges)  Read / Seek / ReadAt / ReadAll sequences after open; VIEW = file, class   *)
(*                    of the position, last operation: one shortest history per such edge       *)
(*   Seq     (sim)    random walks of the same machine                                          *)
(*   Scaled  (exh)    branching x chunk count x last-chunk length x split for the writer that   *)
(*                    the driver assembles by hand with 128-byte chunks                         *)
(*                                                                                              *)
(* Every upload of unencrypted content carries the SHAPE of its tree (FileTree!ShapeOf of the   *)
(* declaratively defined Tree) for the driver's independent evaluator.  The orchestrator only   *)
(* concatenates histories of the same file (tools/reg/file.py).                                 *)
EXTENDS Joiner, TLC, Json, IOUtils

VARIABLES gen,     \* which generator this history belongs to: "up" | "readat" | "seq" | "scaled"
          par,     \* the file (or the scaled writer) of this scenario
          pos,     \* model position of the reader
          hist     \* operations so far

gvars == <<gen, par, pos, hist>>

Env(k, d) == IF k \in DOMAIN IOEnv THEN IOEnv[k] ELSE d
Seed      == atoi(Env("VERIF_SEED", "1")) % 10007
Depth     == atoi(Env("VERIF_DEPTH", "3"))
CS        == BASE
One       == <<0, 1>>

\* seed-dependent remainders in 2..CS-2
SeedR(k) == 2 + ((Seed * 7919 + k * 104729) % (CS - 3))

(***************************************************************************)
(* Classes                                                                 *)
(***************************************************************************)
SizesQuick    == << <<0, 0>>, <<0, 1>>, <<0, 31>>, <<0, 32>>, <<0, 33>>, <<0, CS - 1>>, <<1, 0>>, <<1, 1>>,
                    <<1, CS - 1>>, <<2, 0>>, <<2, 1>>, <<3, SeedR(1)>>, <<7, SeedR(2)>>, <<70, SeedR(3)>> >>
SizesThorough == SizesQuick \o << <<4, 0>>, <<16, SeedR(4)>>, <<129, SeedR(5)>> >>
\* the only sizes that reach a third level with the real constants
SizesBigPlain == IF Env("FT_BIGONE", "0") = "1" THEN << <<8192, 1>> >> ELSE << <<8192, 0>>, <<8192, 1>> >>
SizesBigEnc   == << <<4096, 1>> >>

SizeSeq == CASE Env("FT_SIZES", "quick") = "quick"    -> SizesQuick
             [] Env("FT_SIZES", "quick") = "thorough" -> SizesThorough
             [] Env("FT_SIZES", "quick") = "bigplain" -> SizesBigPlain
             [] Env("FT_SIZES", "quick") = "bigenc"   -> SizesBigEnc
             [] OTHER -> SizesQuick
CidBase == CASE Env("FT_SIZES", "quick") = "bigplain" -> 100 [] Env("FT_SIZES", "quick") = "bigenc" -> 200 [] OTHER -> 0

Encs == CASE Env("FT_ENC", "both") = "plain" -> {FALSE}
          [] Env("FT_ENC", "both") = "enc"   -> {TRUE}
          [] OTHER -> {FALSE, TRUE}

FilePar(i, e) == [kind |-> "file", s |-> SizeSeq[i], enc |-> e, cid |-> CidBase + i]

\* write-split classes
SplitsAll == << [kind |-> "one"],
                [kind |-> "pieces", w |-> CS - 1],
                [kind |-> "pieces", w |-> CS + 1],
                [kind |-> "zeros", w |-> 100003],
                [kind |-> "rand", salt |-> 1, max |-> 2 * CS],
                [kind |-> "rand", salt |-> 2, max |-> 70000],
                [kind |-> "pieces", w |-> 3 * CS + 17],
                [kind |-> "feed", w |-> 65537, eofWithData |-> FALSE],
                [kind |-> "feed", w |-> CS, eofWithData |-> TRUE],
                [kind |-> "pieces", w |-> 1] >>
\* byte-wise writing only for tiny contents; in the quick tier the larger contents get four of the classes
\* ("quick"), in the thorough tier the larger encrypted contents do ("thorough": encrypting and decrypting costs
\* some 50 ms per chunk)
SplitOk(k, size, enc) ==
  /\ (k = 10 => (size[1] = 0 /\ size[2] <= 40))
  /\ ((Env("FT_SPLITS", "all") = "quick" /\ size[1] >= 16) => k \in {1, 2, 5, 8})
  /\ ((Env("FT_SPLITS", "all") = "quick" /\ enc /\ size[1] >= 2) => k \in {1, 5, 8})
  /\ ((Env("FT_SPLITS", "all") = "quick" /\ enc /\ size[1] >= 16) => k = 5)
  /\ ((Env("FT_SPLITS", "all") = "thorough" /\ enc /\ size[1] >= 16) => k \in {1, 2, 5, 8})
SplitIdx == CASE Env("FT_SPLITS", "all") = "two"    -> {1, 5}
              [] Env("FT_SPLITS", "all") = "one"    -> {1 + (Seed % 2) * 4}
              [] Env("FT_SPLITS", "all") = "bigone" -> {5}
              [] OTHER -> 1..Len(SplitsAll)

\* (len, cap) classes of read buffers
LenCapsCap == << <<0, 0>>, <<0, 16>>, <<1, 1>>, <<10, 100>>, <<CS, CS>>, <<CS - 1, 2 * CS>>, <<100, 3 * CS>>,
                 <<CS + 1, CS + 1>>, <<33, 33>> >>
LenCapsEq  == << <<0, 0>>, <<1, 1>>, <<33, 33>>, <<CS - 1, CS - 1>>, <<CS, CS>>, <<CS + 1, CS + 1>>,
                 <<2 * CS + 1, 2 * CS + 1>> >>
LenCaps == IF Env("FT_CAPS", "0") = "1" THEN LenCapsCap ELSE LenCapsEq

\* offset classes of a file: start, chunk edges, the edge of the last chunk, the end (all -1 / 0 / +1)
LastEdge(size) == IF size[2] > 0 THEN <<size[1], 0>> ELSE <<size[1] - 1, 0>>
Offsets(size) ==
  {x \in { BigZero, One, <<0, CS - 1>>, <<1, 0>>, <<1, 1>>,
           BigSub(LastEdge(size), One), LastEdge(size), BigAdd(LastEdge(size), One),
           BigSub(size, One), size, BigAdd(size, One) } : BigLe(BigZero, x)}

SeekArgs(size) ==
     {<<0, o>> : o \in Offsets(size) \cup {<<0 - 1, CS - 1>>}}
  \cup {<<1, o>> : o \in {<<0 - 1, CS - 1>>, BigZero, One, <<1, 0>>, <<0 - 1, 0>>, size}}
  \cup {<<2, o>> : o \in {<<0 - 1, CS - 1>>, BigZero, One, <<1, 0>>, size, BigAdd(size, One)}}

(***************************************************************************)
(* Operations as they are handed to the driver                             *)
(***************************************************************************)
FileTree8192(size) == Tree(8192, CS, BigChunks(size), BigLast(size))

UploadOp(p, sp) == IF p.enc THEN [op |-> "upload", split |-> sp]
                   ELSE [op |-> "upload", split |-> sp, shape |-> ShapeOf(FileTree8192(p.s))]
OpenOp          == [op |-> "open"]
ReadOp(lc)      == [op |-> "read", len |-> lc[1], cap |-> lc[2]]
ReadAtOp(o, lc) == [op |-> "readat", off |-> o, len |-> lc[1], cap |-> lc[2]]
SeekOp(w, o)    == [op |-> "seek", whence |-> w, off |-> o]
ReadAllOp       == [op |-> "readall", blen |-> CS]

NoNext == FALSE /\ UNCHANGED gvars

(***************************************************************************)
(* Up: one scenario per (file, split)                                      *)
(***************************************************************************)
UpTail == IF Env("FT_UPTAIL", "readall") = "readall" THEN <<OpenOp, ReadAllOp>> ELSE <<>>
UpInit == \E i \in DOMAIN SizeSeq, e \in Encs, k \in SplitIdx :
             /\ SplitOk(k, SizeSeq[i], e)
             /\ gen = "up"
             /\ par = FilePar(i, e)
             /\ pos = BigZero
             /\ hist = <<UploadOp(FilePar(i, e), SplitsAll[k])>> \o UpTail

(***************************************************************************)
(* ReadAt: one scenario per (file, offset, len/cap)                        *)
(***************************************************************************)
RaInit == \E i \in DOMAIN SizeSeq, e \in Encs, k \in DOMAIN LenCaps :
            \E o \in Offsets(SizeSeq[i]) :
               /\ gen = "readat"
               /\ par = FilePar(i, e)
               /\ pos = BigZero
               /\ hist = <<OpenOp, ReadAtOp(o, LenCaps[k])>>

(***************************************************************************)
(* Seq: the reader as a state machine                                      *)
(***************************************************************************)
SeqInit == \E i \in DOMAIN SizeSeq, e \in Encs :
              /\ gen = "seq" /\ par = FilePar(i, e) /\ pos = BigZero /\ hist = <<OpenOp>>

Size == par.s

SeqRead(k) == /\ hist' = Append(hist, ReadOp(LenCaps[k]))
              /\ pos' = BigAdd(pos, BigOf(ReadN(Size, pos, LenCaps[k][1])))
              /\ UNCHANGED <<gen, par>>

SeqSeek(a) == LET t == SeekTarget(a[1], a[2], pos, Size)
              IN /\ hist' = Append(hist, SeekOp(a[1], a[2]))
                 /\ pos' = IF InFile(t, Size) THEN t ELSE pos
                 /\ UNCHANGED <<gen, par>>

\* ReadAt in between: must neither move nor depend on the position
SeqReadAt(o, k) == /\ hist' = Append(hist, ReadAtOp(o, LenCaps[k]))
                   /\ UNCHANGED <<gen, par, pos>>

SeqReadAll == /\ hist' = Append(hist, ReadAllOp)
              /\ pos' = IF BigLt(pos, Size) THEN Size ELSE pos
              /\ UNCHANGED <<gen, par>>

SeqNext == /\ gen = "seq"
           /\ Len(hist) < Depth + 1
           /\ \/ \E k \in DOMAIN LenCaps : SeqRead(k)
              \/ \E a \in SeekArgs(Size) : SeqSeek(a)
              \/ \E o \in {BigZero, LastEdge(Size)} \cap Offsets(Size), k \in {3, 4} : SeqReadAt(o, k)
              \/ (Size[1] <= 8 /\ SeqReadAll)

PosClass == <<pos[1] = 0, pos[1] = Size[1], IF pos[2] \in {0, 1, CS - 1} THEN pos[2] ELSE 2,
              BigLt(pos, Size), pos = Size>>
SeqView == <<par, PosClass, hist[Len(hist)]>>

(***************************************************************************)
(* Scaled: the hand-assembled writer                                       *)
(***************************************************************************)
SCS == 128
ScaledN(b) ==
  CASE Env("FT_SCALED", "quick") = "small" ->
         (CASE b = 2 -> 1..130 [] b = 3 -> 1..28 [] b = 4 -> 1..17 [] OTHER -> {})
    [] Env("FT_SCALED", "quick") = "quick" ->
         (CASE b = 2 -> 1..130 [] b = 3 -> 1..82 [] b = 4 -> 1..257 [] OTHER -> {})
    [] Env("FT_SCALED", "quick") = "thorough" ->
         (CASE b = 2 -> 1..130 [] b = 3 -> 1..82 [] b = 4 -> 1..257 [] b = 5 -> 1..126 [] OTHER -> {})
    [] Env("FT_SCALED", "quick") = "deep" ->
         (CASE b = 3 -> {243, 244, 729, 730, 2187, 2188} [] b = 4 -> {1024, 1025, 4096, 4097} [] b = 5 -> {625, 626, 3125, 3126}
            [] OTHER -> {})
    [] OTHER -> {}
ScaledSplits == << [kind |-> "one"],
                   [kind |-> "pieces", w |-> SCS - 1],
                   [kind |-> "pieces", w |-> SCS + 1],
                   [kind |-> "zeros", w |-> 50],
                   [kind |-> "rand", salt |-> 3, max |-> 300],
                   [kind |-> "pieces", w |-> 3 * SCS + 5],
                   [kind |-> "pieces", w |-> 1] >>
\* "rot": one split per (branching, count, last), rotating with the seed; byte-wise writing only for tiny trees
ScaledSplitIdx(b, n, last) ==
  IF Env("FT_SCSPLITS", "rot") = "rot"
  THEN LET k == 1 + ((n + last + b + Seed) % Len(ScaledSplits)) IN IF k = 7 /\ n > 5 THEN {1} ELSE {k}
  ELSE IF n > 5 THEN 1..(Len(ScaledSplits) - 1) ELSE 1..Len(ScaledSplits)
ScaledPar(b) == [kind |-> "scaled", B |-> b, cs |-> SCS]
TreeOp(b, n, last, sp) == [op |-> "tree", n |-> n, last |-> last, split |-> sp,
                           shape |-> ShapeOf(Tree(b, SCS, n, last))]

ScInit == \E b \in 2..5 : \E n \in ScaledN(b) : \E last \in {0, 1, SCS} :
            \E k \in ScaledSplitIdx(b, n, last) :
               /\ (last = 0 => n = 1)
               /\ gen = "scaled"
               /\ par = ScaledPar(b)
               /\ pos = BigZero
               /\ hist = <<TreeOp(b, n, last, ScaledSplits[k])>>

(***************************************************************************)
(* Emission                                                                *)
(***************************************************************************)
\* several generators in one TLC run: FT_GENS is a string such as "up,readat,seq"
Gens == Env("FT_GENS", "up")
HasGen(g) == \E i \in 1..(Len(Gens) - Len(g) + 1) : SubSeq(Gens, i, i + Len(g) - 1) = g
AllInit == \/ (HasGen("up") /\ UpInit)
           \/ (HasGen("readat") /\ RaInit)
           \/ (HasGen("seq") /\ SeqInit)
           \/ (HasGen("scaled") /\ ScInit)
AllNext == SeqNext
\* edges mode: the reader machine is explored per (file, position class, last operation); the other generators
\* are plain products (every initial state is its own scenario)
AllView == IF gen = "seq" THEN <<gen, par, PosClass, hist[Len(hist)]>> ELSE <<gen, par, hist>>

Scn == [par |-> par, ops |-> hist]
EmitAll  == PrintT(<<"SCN", ToJson(Scn)>>)
EmitFull == Len(hist) = Depth + 1 => PrintT(<<"SCN", ToJson(Scn)>>)
=============================================================================
