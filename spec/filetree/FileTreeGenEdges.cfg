INIT AllInit
NEXT AllNext
VIEW AllView
INVARIANT EmitAll
CHECK_DEADLOCK FALSE
