---------------------------- MODULE FileTreeTrace ----------------------------
(* Judge for C01, C02 and C07: replays what cmd/filedrv recorded from the real pipeline and the   *)
(* real joiner against FileTree (format) and Joiner (reader contract).  Monitor mode (TraceKit).  *)
(*                                                                                                *)
(* Model state m: the file of the scenario (size as a Big, encrypted or not), the reader's        *)
(* position, and the reference of the first unencrypted upload of this content (all uploads of a  *)
(* scenario write the same bytes with different write splits).                                    *)
(*                                                                                                *)
(* Readings written down (DESIGN 7.1):                                                            *)
(*  - a Seek that reports an error is not a repositioning: the Read sequence continues where it   *)
(*    was ("sequential reads neither skip nor repeat");                                           *)
(*  - at/after the end a read must report end-of-file with 0 bytes; before the end it must return *)
(*    min(len, size-off) bytes and may additionally report end-of-file only if it reached the end;*)
(*  - C01 speaks about content, C07 about the buffer: C01's read clauses look at reads whose      *)
(*    buffer has cap = len, C07's at all of them;                                                 *)
(*  - the hash trie documents a capacity (a reference reaching level 8 closes it): scaled-down    *)
(*    uploads beyond branching^7 chunks are expected to be refused and only noted.                *)
EXTENDS Joiner, TraceKit

VARIABLES l, m, bad, notes

CS == BASE

MInit == [kind |-> "none", size |-> BigZero, enc |-> FALSE, pos |-> BigZero, gref |-> "", B |-> 0, cs |-> 0]

\* reference length and branching of the two pipelines the builder makes
RefLen(enc) == IF enc THEN 64 ELSE 32

Note(name, holds) == IF holds THEN <<>> ELSE <<name>>

(***************************************************************************)
(* upload (real constants) and tree (scaled writer)                        *)
(***************************************************************************)
UploadTree(s)   == Tree(8192, CS, BigChunks(s), BigLast(s))
ScaledTotal(e)  == BigOf((e.n - 1) * e.cs + e.last)
ScaledTree(e)   == Tree(e.B, e.cs, e.n, e.last)
WithinCapacity(e) == e.n <= TrieCapacity(e.B)

\* clauses shared by both kinds of upload; t = the format tree, total = content length, plain = unencrypted
WriterVerdict(e, t, total, plain, refLen, pre) ==
     Clause("C01:upload_succeeds",
            e.err = "" /\ ~e.panicked /\ e.wroteOk /\ e.wsum = total /\ e.refLen = refLen)
  \o (IF plain
      THEN    Clause("C01:tree_chunks_stored", e.treeStored)
           \o Clause("C02:evaluated_shape_is_format_tree",
                     e.evalNodes = FormatRecs(t, refLen) /\ e.evalBytes = total)
           \o Clause("C02:ref_is_tree_hash", e.refExpected # "" /\ e.ref = e.refExpected)
           \o Clause("C02:ref_independent_of_split", pre.gref = "" \/ e.ref = pre.gref)
      ELSE <<>>)

UploadVerdict(e, pre) ==
     WriterVerdict(e, UploadTree(pre.size), pre.size, ~pre.enc, RefLen(pre.enc), pre)
  \o Clause("C01:size_reported", e.jerr = "" /\ e.jsize = pre.size /\ e.sizeFn = pre.size)

UploadNotes(e, pre) ==
  IF pre.enc THEN <<>>
  ELSE Note("stores_exactly_the_tree_chunks_children_first", e.puts = FormatRecs(UploadTree(pre.size), 32))

TreeVerdict(e, pre) ==
  IF WithinCapacity(e) THEN WriterVerdict(e, ScaledTree(e), ScaledTotal(e), TRUE, 32, [pre EXCEPT !.gref = ""])
  ELSE <<>>

\* the algorithm model of FileTree, run on one write of the whole content (MCFileTree: any split is the same)
AlgoRun(e) == PipeRun(e.cs, e.B, <<(e.n - 1) * e.cs + e.last>>)
TreeNotes(e) ==
  IF WithinCapacity(e)
  THEN    Note("stores_exactly_the_tree_chunks_children_first", e.puts = FormatRecs(ScaledTree(e), 32))
       \o (IF e.n > 300 THEN <<>>             \* the literal buffer/cursor model is only replayed on small trees
           ELSE Note("writer_algorithm_model_predicts_puts",
                     LET a == AlgoRun(e) IN a.err = "" /\ e.puts = RecsOfTerms(a.h.out, 32)))
  ELSE Note("trie_full_is_reported_beyond_capacity", e.err \in {"write: trie full", "sum: trie full"})

(***************************************************************************)
(* reads                                                                   *)
(***************************************************************************)
\* a Read / ReadAt of a buffer (len, cap) at file offset `at`
ReadVerdict(e, at, pre) ==
  LET size == pre.size
      want == ReadN(size, at, e.len)
      ok   == IF AtEnd(size, at)
              THEN e.n = 0 /\ e.eof /\ e.err = ""
              ELSE e.n = want /\ e.err = "" /\ (e.eof => BigAdd(at, BigOf(e.n)) = size)
  IN    Clause("C07:no_panic", ~e.panicked)
     \o Clause("C07:never_reports_or_writes_beyond_len", e.n >= 0 /\ e.n <= e.len /\ e.tailUntouched)
     \o Clause("C07:n_is_min_len_remaining_or_eof", ok)
     \o Clause("C07:bytes_equal_content", e.bytesMatch)
     \o (IF e.cap = e.len
         THEN Clause("C01:read_returns_the_content", ok /\ e.bytesMatch /\ ~e.panicked)
         ELSE <<>>)

\* where the reader must stand after the event
PostPos(e, pre) ==
  CASE e.op = "read"    -> BigAdd(e.pos, BigOf(e.n))
    [] e.op = "readall" -> BigAdd(e.pos, e.total)
    [] e.op = "seek"    -> IF e.failed THEN pre.pos ELSE SeekTarget(e.whence, e.off, pre.pos, pre.size)
    [] e.op = "open"    -> BigZero
    [] OTHER            -> pre.pos

SeekVerdict(e, pre) ==
  LET t == SeekTarget(e.whence, e.off, pre.pos, pre.size)
  IN    Clause("C07:no_panic", ~e.panicked)
     \o Clause("C07:seek_lands_on_requested_or_errors", e.failed \/ (e.ret = t /\ e.st = t))
     \o Clause("C01:seek_lands_on_requested_or_errors", e.failed \/ (e.ret = t /\ e.st = t))
SeekNotes(e, pre) ==
  Note("seek_fails_exactly_outside_the_file",
       e.failed <=> ~InFile(SeekTarget(e.whence, e.off, pre.pos, pre.size), pre.size))

ReadAllVerdict(e, pre) ==
  LET rest == IF AtEnd(pre.size, e.pos) THEN BigZero ELSE BigSub(pre.size, e.pos)
      ok   == ~e.panicked /\ e.err = "" /\ e.allMatch /\ e.total = rest /\ e.ended = "eof"
  IN    Clause("C01:sequential_reads_return_the_whole_content", ok)
     \o Clause("C07:sequential_reads_neither_skip_nor_repeat", ok)

\* sequential position bookkeeping, for every operation on an open file
Sequential(e, pre) ==
     (IF e.op \in {"read", "readall"}
      THEN    Clause("C07:read_continues_at_current_position", e.pos = pre.pos)
           \o Clause("C01:read_continues_at_current_position", e.pos = pre.pos)
      ELSE <<>>)
  \o Clause("C07:position_after_operation", e.st = PostPos(e, pre))
  \o (IF e.op = "readat" /\ e.cap # e.len THEN <<>>
      ELSE Clause("C01:position_after_operation", e.st = PostPos(e, pre)))

(***************************************************************************)
(* verdict / notes / model update per event                                *)
(***************************************************************************)
Verdict(e, pre) ==
  CASE e.op = "reset"   -> <<>>
    [] e.op = "upload"  -> UploadVerdict(e, pre)
    [] e.op = "tree"    -> TreeVerdict(e, pre)
    [] e.op = "open"    -> Clause("C01:open_succeeds", e.err = "" /\ ~e.panicked) \o Sequential(e, pre)
    [] e.op = "read"    -> ReadVerdict(e, e.pos, pre) \o Sequential(e, pre)
    [] e.op = "readat"  -> ReadVerdict(e, e.off, pre) \o Sequential(e, pre)
    [] e.op = "seek"    -> SeekVerdict(e, pre) \o Sequential(e, pre)
    [] e.op = "readall" -> ReadAllVerdict(e, pre) \o Sequential(e, pre)
    \* the process running the scenario died inside the code under test (a goroutine of the joiner or of the
    \* pipeline panicked): nothing that was uploaded through the pipeline may make reading it back crash
    [] e.op = "crash"   -> <<"C01:reading_back_does_not_crash", "C02:pipeline_does_not_crash", "C07:reader_does_not_crash">>
    [] OTHER            -> <<"unknown_operation">>

NotesOf(e, pre) ==
  CASE e.op = "upload" -> UploadNotes(e, pre)
    [] e.op = "tree"   -> TreeNotes(e)
    [] e.op = "seek"   -> SeekNotes(e, pre)
    [] OTHER           -> <<>>

\* the model after the event; the position is always resynchronised to the observed one (e.st), so that one
\* deviation does not cascade
Post(e, pre) ==
  CASE e.op = "reset" ->
         IF e.kind = "file"
         THEN [MInit EXCEPT !.kind = "file", !.size = e.s, !.enc = e.enc]
         ELSE [MInit EXCEPT !.kind = "scaled", !.B = e.B, !.cs = e.cs]
    [] e.op = "upload" ->
         [pre EXCEPT !.gref = IF pre.gref = "" /\ ~pre.enc /\ e.err = "" THEN e.ref ELSE @, !.pos = e.st]
    [] e.op \in {"tree", "crash"} -> pre
    [] OTHER -> [pre EXCEPT !.pos = e.st]

TInit == l = 1 /\ m = MInit /\ bad = <<>> /\ notes = <<>>

TStep == /\ l <= NEvents
         /\ LET e  == Trace[l]
                cs == Verdict(e, m)
                ns == NotesOf(e, m)
            IN /\ l' = l + 1
               /\ bad' = IF cs = <<>> THEN bad ELSE Append(bad, BadRec(l, e, cs))
               /\ notes' = IF ns = <<>> \/ Len(notes) >= 50 THEN notes
                           ELSE Append(notes, [line |-> l, scn |-> e.scn, op |-> e.op, notes |-> ns])
               /\ m' = Post(e, m)

TSpec == TInit /\ [][TStep]_<<l, m, bad, notes>>

Report == ReportBad(l, bad, notes)
=============================================================================
