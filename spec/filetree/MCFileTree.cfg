SPECIFICATION Spec
CONSTANTS
  Bs = {2, 3, 4}
  CSm = 3
  ChunkCap <- CapQuick
VIEW View
INVARIANTS FeederCanonical CursorsOrdered ErrorOnlyWhenFull FullIffCapacity AlgorithmIsFormat JoinerReadsTree ContractArithmetic
CHECK_DEADLOCK FALSE
