------------------------------- MODULE Joiner -------------------------------
(* The reader of a stored file (pkg/file/joiner): Size, ReadAt, Read, Seek.                      *)
(*                                                                                               *)
(*  1. Contract   what the calls must return, as pure operators over the file size and the       *)
(*                position (Big numbers) -- the statement of C07 / the read half of C01.         *)
(*  2. Walk       the ALGORITHM readAtOffset/subtrieSection transcribed over FileTree terms: it  *)
(*                never looks at a child's span before fetching it, it brute-forces the size of  *)
(*                the equal-sized left branches from the parent's span.  MCFileTree checks       *)
(*                Walk == Contract on every tree it builds (design check, small integers).       *)
EXTENDS FileTree

(***************************************************************************)
(* 1. Contract                                                             *)
(***************************************************************************)
\* a read at `off` of a file of `size` bytes is at or past the end
AtEnd(size, off) == BigLe(size, off)

\* the number of bytes a read of a buffer of length len at off returns
ReadN(size, off, len) == IF AtEnd(size, off) THEN 0 ELSE BigMinInt(BigSub(size, off), len)

\* the position a Seek asks for (end offsets are counted backwards: the project's definition)
SeekTarget(whence, off, pos, size) ==
  CASE whence = 0 -> off
    [] whence = 1 -> BigAdd(pos, off)
    [] whence = 2 -> BigSub(size, off)
    [] OTHER      -> <<0 - 1, 0>>

\* positions a reader can stand on
InFile(t, size) == BigLe(BigZero, t) /\ BigLe(t, size)

(***************************************************************************)
(* 2. Walk (plain integers: used on scaled-down trees only)                *)
(***************************************************************************)
\* subtrieSection: size of the branch at reference index idx (0-based) of an intermediate chunk with `refs`
\* references and span `size`; cs = chunk size, bj = the joiner's branching (chunk size / reference length)
RECURSIVE BranchSize(_, _, _, _)
BranchSize(bs, bj, refs, size) ==
  IF size - bs * (refs - 1) <= bs THEN bs ELSE BranchSize(bs * bj, bj, refs, size)
Section(cs, bj, refs, idx, size) ==
  LET bs == BranchSize(cs, bj, refs, size)
  IN IF idx = refs - 1 THEN size - (refs - 1) * bs ELSE bs

\* the copies readAtOffset performs, left to right: records [bo |-> offset in the caller's buffer, src |-> absolute
\* file offset of the first byte copied, n |-> bytes].  t = the chunk just fetched, sz = its span (read from the
\* chunk itself), cur = file offset of its first byte.  (The code runs the branches concurrently; they write
\* disjoint parts of the buffer, which is part of what WalkIsContract establishes.)
RECURSIVE WalkAt(_, _, _, _, _, _, _, _), WalkRefs(_, _, _, _, _, _, _, _, _)
WalkAt(cs, bj, t, sz, cur, off, bo, want) ==
  IF t.k = "L"                                              \* subTrieSize <= len(data)
  THEN LET start == off - cur
           avail == t.n - start
           n     == IF want > avail THEN avail ELSE want
       IN <<[bo |-> bo, src |-> cur + start, n |-> n]>>
  ELSE WalkRefs(cs, bj, t, sz, 0, cur, off, bo, want)

WalkRefs(cs, bj, t, sz, i, cur, off, bo, want) ==
  IF i >= t.n \/ want = 0 THEN <<>>
  ELSE LET sec == Section(cs, bj, t.n, i, sz)
       IN IF cur + sec < off THEN WalkRefs(cs, bj, t, sz, i + 1, cur + sec, off, bo, want)
          ELSE LET crs0 == sec - (off - cur)
                   crs  == FtMin(FtMin(crs0, want), sec)
                   kid  == t.c[i + 1]
               IN WalkAt(cs, bj, kid, BigInt(kid.s), cur, off, bo, crs)      \* the goroutine for this branch
                  \o WalkRefs(cs, bj, t, sz, i + 1, cur + sec, cur + sec, bo + crs, want - crs)

\* ReadAt(buffer of length len, off) on the file whose root chunk is t
WalkRead(cs, bj, t, off, len) ==
  LET size == BigInt(t.s)
  IN IF off >= size THEN <<>>
     ELSE WalkAt(cs, bj, t, size, 0, off, 0, FtMin(len, size - off))

\* the walk copies exactly the bytes [off, off+n) to buffer positions [0, n): consecutive copies are adjacent in
\* the buffer, start at 0, end at n, and every copy comes from the file position that corresponds to its place
WalkIsContract(cs, bj, t, off, len) ==
  LET size == BigInt(t.s)
      n    == IF off >= size THEN 0 ELSE FtMin(len, size - off)
      w    == WalkRead(cs, bj, t, off, len)
  IN IF w = <<>> THEN n = 0
     ELSE /\ w[1].bo = 0
          /\ \A i \in 1..Len(w) : w[i].n >= 0 /\ w[i].src = off + w[i].bo
          /\ \A i \in 1..(Len(w) - 1) : w[i + 1].bo = w[i].bo + w[i].n
          /\ w[Len(w)].bo + w[Len(w)].n = n

\* every branch size the joiner derives from a parent's span is the span stored in that child
RECURSIVE SectionsExact(_, _, _)
SectionsExact(cs, bj, t) ==
  t.k = "L" \/ \A i \in 1..t.n : /\ Section(cs, bj, t.n, i - 1, BigInt(t.s)) = BigInt(t.c[i].s)
                                 /\ SectionsExact(cs, bj, t.c[i])
=============================================================================
