----------------------------- MODULE MCFileTree -----------------------------
(* Design check: the writer algorithm (chunkFeeder + hashTrieWriter with its shared buffer and    *)
(* cursors) builds exactly the declaratively defined tree, for every content length and every     *)
(* segmentation of the writes, on scaled-down parameters; and the joiner's span arithmetic reads  *)
(* every such tree back.  One action per public call of pipeline.Interface: Write, Sum.           *)
EXTENDS Joiner, TLC

CONSTANTS Bs,          \* branching factors explored
          CSm,         \* model chunk size in bytes
          ChunkCap     \* function B -> largest number of chunks explored for that B

VARIABLES B,           \* branching of this behaviour
          p,           \* the pipeline (FileTree!PipeInit)
          total,       \* bytes written so far
          phase        \* "writing" | "done"

vars == <<B, p, total, phase>>

\* chunkFeeder.wrote is only ever tested for zero and never decreases, and ret is the result of the last call:
\* two states that differ in nothing else behave alike, the VIEW identifies them (states then are a function of
\* the byte count, which is the segmentation independence of C02 seen on the state graph)
View == <<B, total, phase, [p EXCEPT !.f.wrote = IF @ = 0 THEN 0 ELSE 1, !.f.ret = 0]>>

WriteLens == {0, 1, CSm - 1, CSm, CSm + 1, 2 * CSm, 3 * CSm + 1}

Init == /\ B \in Bs
        /\ p = PipeInit(B)
        /\ total = 0 /\ phase = "writing"

Write(l) == /\ phase = "writing" /\ p.err = ""
            /\ total + l <= CSm * ChunkCap[B]
            /\ p' = PipeWrite(CSm, B, p, l)
            /\ Assert(p'.err # "" \/ p'.f.ret = l, "Write must report len(b)")
            /\ Assert(p'.f.wrote >= p.f.wrote, "wrote never decreases")
            /\ total' = total + l
            /\ UNCHANGED <<B, phase>>

Sum == /\ phase = "writing" /\ p.err = ""
       /\ p' = PipeSum(CSm, B, p)
       /\ phase' = "done"
       /\ UNCHANGED <<B, total>>

Next == (\E l \in WriteLens : Write(l)) \/ Sum
Spec == Init /\ [][Next]_vars

----------------------------------------------------------------------------
Lens   == ChunkLens(CSm, total)
Want   == TreeOfLens(B, Lens)
NChunk == Len(Lens)

\* C02 at the model level, feeder half: what has been handed down depends on the byte count only
FeederCanonical ==
  (phase = "writing" /\ p.err = "") =>
     /\ p.f.idx = total % CSm
     /\ p.f.out = [i \in 1..(total \div CSm) |-> CSm]

\* the shared buffer: cursors are ordered (higher level, lower cursor), no level ever holds B references
\* between calls, and the buffer the code allocates (ChunkWithSpanSize*9*2 bytes) is never exceeded:
\* at most 8*B references of refLen+8 bytes = 2 621 440 (plain) / 2 359 296 (encrypted) < 4 718 736
CursorsOrdered ==
  (phase = "writing" /\ p.err = "") =>
     /\ \A k \in 1..(MaxLevel - 1) : p.h.cur[k] >= p.h.cur[k + 1]
     /\ \A k \in 1..(MaxLevel - 1) : LevelSize(p.h, k) < B
     /\ p.h.cur[1] <= MaxLevel * B
ASSUME 8 * 8192 * (32 + 8) <= (262144 + 8) * 9 * 2 /\ 8 * 4096 * (64 + 8) <= (262144 + 8) * 9 * 2

\* the only error is the documented capacity limit
ErrorOnlyWhenFull == p.err # "" => (p.err = "trie full" /\ Len(p.f.out) > TrieCapacity(B))
FullIffCapacity   == (phase = "writing" /\ p.err = "") => (p.h.full <=> Len(p.f.out) >= TrieCapacity(B))

\* C02 / C01 at the model level: algorithm == format
AlgorithmIsFormat ==
  (phase = "done" /\ p.err = "") =>
     /\ p.f.out = Lens                                     \* chunking is canonical (segmentation independent)
     /\ p.root = Want                                      \* same grouping, spans and carries
     /\ p.h.out = PostOrder(Want)                          \* every chunk of the tree stored, once, children first
     /\ Want.s = BigOf(total)                              \* root span = content length
     /\ Height(Want) <= MaxLevel

\* the reader: branch sizes derived from parent spans are exact, an intermediate chunk is never mistaken for
\* a data chunk (span > chunk size >= payload), and the walk copies exactly the requested bytes
ReadOffsets == {0, 1, CSm - 1, CSm, CSm + 1, total - CSm - 1, total - 1, total, total + 1} \cap (0..(total + 1))
ReadLens    == {0, 1, CSm, CSm + 1, 2 * CSm + 1, total + 2}
RECURSIVE NodesExceedChunk(_)
NodesExceedChunk(t) == t.k = "L" \/ (BigInt(t.s) > CSm /\ \A i \in 1..t.n : NodesExceedChunk(t.c[i]))
JoinerReadsTree ==
  (phase = "done" /\ p.err = "") =>
     /\ SectionsExact(CSm, B, p.root)
     /\ NodesExceedChunk(p.root)
     /\ \A off \in ReadOffsets, len \in ReadLens : WalkIsContract(CSm, B, p.root, off, len)

\* reader contract sanity (Big arithmetic against plain integers on the small universe)
ContractArithmetic ==
  phase = "done" =>
    \A off \in ReadOffsets, len \in ReadLens :
       /\ ReadN(BigOf(total), BigOf(off), len) = (IF off >= total THEN 0 ELSE FtMin(len, total - off))
       /\ AtEnd(BigOf(total), BigOf(off)) = (off >= total)

CapTiny     == (2 :> 20) @@ (3 :> 20) @@ (4 :> 20)
CapQuick    == (2 :> 130) @@ (3 :> 82) @@ (4 :> 70)
CapThorough == (2 :> 131) @@ (3 :> 250) @@ (4 :> 1030) @@ (5 :> 630)
=============================================================================
