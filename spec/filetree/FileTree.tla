------------------------------ MODULE FileTree ------------------------------
(* The Aurora file tree (pkg/file/pipeline, pkg/file/joiner).  Properties C01, C02, C07.        *)
(*                                                                                              *)
(*  1. Big      64-bit quantities as pairs <<q, r>> = q*262144 + r (TLC integers are 32 bit).   *)
(*  2. Format   the tree as a DECLARATIVE recursive definition: chunk the content, group every   *)
(*              level into runs of at most B references, a run of >= 2 becomes an intermediate  *)
(*              chunk whose span is the sum of its children's spans, a lone reference is        *)
(*              carried up unchanged, the root is what remains.                                 *)
(*  3. Writer   the ALGORITHM of the code, transcribed: chunkFeeder.Write/Sum (buffer index,    *)
(*              span accounting, early return) and hashTrieWriter (one shared buffer, per-level *)
(*              cursors, wrapFullLevel's cursor shifting, Sum's carry by cursor assignment).    *)
(*              MCFileTree shows Writer == Format for B in 2..5 (design check).                 *)
(*  4. Records  what a recording store sees: post-order <<spanq, spanr, payload length, count>>.*)
(*                                                                                              *)
(* Everything below is a pure operator so that generator and judge share it; MCFileTree wraps   *)
(* the Writer into actions (one per public call: Write, Sum).                                   *)
EXTENDS Integers, Sequences, FiniteSets

(***************************************************************************)
(* 1. Big numbers                                                          *)
(***************************************************************************)
BASE == 262144

BigOf(n)     == <<n \div BASE, n % BASE>>                 \* n an integer (floor division: r in 0..BASE-1)
BigZero      == <<0, 0>>
BigAdd(a, b) == LET r == a[2] + b[2] IN <<a[1] + b[1] + (r \div BASE), r % BASE>>
BigSub(a, b) == LET r == a[2] - b[2] IN <<a[1] - b[1] + (r \div BASE), r % BASE>>
BigLt(a, b)  == a[1] < b[1] \/ (a[1] = b[1] /\ a[2] < b[2])
BigLe(a, b)  == a = b \/ BigLt(a, b)
BigInt(a)    == a[1] * BASE + a[2]                        \* only for |a| < 2^31
\* min(a, n) as an integer, for a Big a >= 0 and an integer n >= 0
BigMinInt(a, n) == IF BigLe(BigOf(n), a) THEN n ELSE BigInt(a)
IsBig(a)     == /\ a \in Seq(Int) /\ Len(a) = 2 /\ a[2] >= 0 /\ a[2] < BASE

FtMin(a, b) == IF a < b THEN a ELSE b

(***************************************************************************)
(* 2. Format                                                               *)
(***************************************************************************)
\* terms.  k: "L" data chunk / "N" intermediate chunk; s: span; n: payload bytes (L) or number of
\* children (N); c: children
RECURSIVE SumRange(_, _, _)
SumRange(seq, lo, hi) ==
  IF lo = hi THEN seq[lo].s
  ELSE LET mid == (lo + hi) \div 2 IN BigAdd(SumRange(seq, lo, mid), SumRange(seq, mid + 1, hi))
SumSpans(seq) == IF seq = <<>> THEN BigZero ELSE SumRange(seq, 1, Len(seq))

Leaf(len)  == [k |-> "L", s |-> BigOf(len), n |-> len, c |-> <<>>]
Node(kids) == [k |-> "N", s |-> SumSpans(kids), n |-> Len(kids), c |-> kids]

\* the lengths of the data chunks of a content of `total` bytes (an empty content is one empty chunk)
ChunkLens(cs, total) ==
  IF total = 0 THEN <<0>>
  ELSE [i \in 1..((total + cs - 1) \div cs) |-> IF i * cs <= total THEN cs ELSE total - (i - 1) * cs]

\* one level up: consecutive runs of at most B references; a lone reference is carried unchanged
RunsOf(seq, B) ==
  [g \in 1..((Len(seq) + B - 1) \div B) |-> SubSeq(seq, (g - 1) * B + 1, FtMin(g * B, Len(seq)))]
WrapRun(run) == IF Len(run) = 1 THEN run[1] ELSE Node(run)
LevelUp(seq, B) == LET runs == RunsOf(seq, B) IN [g \in DOMAIN runs |-> WrapRun(runs[g])]

RECURSIVE RootOf(_, _)
RootOf(seq, B) == IF Len(seq) = 1 THEN seq[1] ELSE RootOf(LevelUp(seq, B), B)

\* the tree of n data chunks, all of cs bytes except the last one (B >= 2, n >= 1)
Tree(B, cs, n, last) == RootOf([i \in 1..n |-> Leaf(IF i < n THEN cs ELSE last)], B)
TreeOfLens(B, lens)  == RootOf([i \in DOMAIN lens |-> Leaf(lens[i])], B)

\* number and last length of the data chunks of a content whose size is a Big with chunk size BASE
BigChunks(size) == IF size = BigZero THEN 1 ELSE size[1] + (IF size[2] > 0 THEN 1 ELSE 0)
BigLast(size)   == IF size = BigZero THEN 0 ELSE IF size[2] > 0 THEN size[2] ELSE BASE

\* number of levels above the data chunks (the first child is never shorter than its siblings: only the
\* last reference of a chunk can have been carried up)
RECURSIVE Height(_)
Height(t) == IF t.k = "L" THEN 0 ELSE 1 + Height(t.c[1])

(***************************************************************************)
(* 4. Records (defined before the writer, which emits terms)               *)
(***************************************************************************)
RECURSIVE ConcatRange(_, _, _)
ConcatRange(ss, lo, hi) ==
  IF lo > hi THEN <<>>
  ELSE IF lo = hi THEN ss[lo]
  ELSE LET mid == (lo + hi) \div 2 IN ConcatRange(ss, lo, mid) \o ConcatRange(ss, mid + 1, hi)
ConcatAll(ss) == ConcatRange(ss, 1, Len(ss))

\* record of one chunk; R = reference length
RecOf(t, R) == <<t.s[1], t.s[2], IF t.k = "L" THEN t.n ELSE t.n * R, 1>>

\* post-order: every chunk right after its last descendant (the order in which the writer stores them)
RECURSIVE PostOrder(_)
PostOrder(t) == IF t.k = "L" THEN <<t>>
                ELSE ConcatAll([i \in 1..Len(t.c) |-> PostOrder(t.c[i])]) \o <<t>>

\* run-length compaction of adjacent equal records (count in position 4)
SameRec(x, y) == x[1] = y[1] /\ x[2] = y[2] /\ x[3] = y[3]
JoinRuns(a, b) ==
  IF a = <<>> THEN b ELSE IF b = <<>> THEN a
  ELSE LET x == a[Len(a)]  y == b[1]
       IN IF SameRec(x, y)
          THEN SubSeq(a, 1, Len(a) - 1) \o << <<x[1], x[2], x[3], x[4] + y[4]>> >> \o Tail(b)
          ELSE a \o b
RECURSIVE CompactRange(_, _, _)
CompactRange(s, lo, hi) ==
  IF lo = hi THEN <<s[lo]>>
  ELSE LET mid == (lo + hi) \div 2 IN JoinRuns(CompactRange(s, lo, mid), CompactRange(s, mid + 1, hi))
CompactRecs(s) == IF s = <<>> THEN <<>> ELSE CompactRange(s, 1, Len(s))

RecsOfTerms(ts, R) == CompactRecs([i \in DOMAIN ts |-> RecOf(ts[i], R)])
\* what a recording store sees when the tree t is written
FormatRecs(t, R) == RecsOfTerms(PostOrder(t), R)

\* the shape handed to the driver's evaluator: leaf runs [l, x], intermediate chunks [q, r, c]
FtSetMin(S) == CHOOSE x \in S : \A y \in S : x <= y
LeadRun(kids) ==
  IF kids[1].k # "L" THEN 0
  ELSE LET other == {i \in 1..Len(kids) : kids[i] # kids[1]}
       IN IF other = {} THEN Len(kids) ELSE FtSetMin(other) - 1
RECURSIVE ShapeOf(_)
ShapeOf(t) ==
  IF t.k = "L" THEN [l |-> t.n, x |-> 1]
  ELSE LET lead == LeadRun(t.c)
       IN [q |-> t.s[1], r |-> t.s[2],
           c |-> (IF lead >= 1 THEN <<[l |-> t.c[1].n, x |-> lead]>> ELSE <<>>)
                 \o [i \in 1..(Len(t.c) - lead) |-> ShapeOf(t.c[lead + i])]]

(***************************************************************************)
(* 3. Writer: the algorithm                                                *)
(***************************************************************************)
\* ---- chunkFeeder (feeder.go).  idx = bufferIdx, wrote = wrote, out = lengths of the chunks handed to
\* ---- the next writer, ret = result of the last Write
FeederInit == [idx |-> 0, wrote |-> 0, out |-> <<>>, ret |-> 0]

\* the for loop of Write: i bytes of the l-byte argument consumed, sp = span of the chunk being filled,
\* w = the count that will be returned
RECURSIVE FeedLoop(_, _, _, _, _, _)
FeedLoop(cs, f, l, i, sp, w) ==
  IF i >= l THEN [f EXCEPT !.wrote = @ + w, !.ret = w]
  ELSE IF sp + (l - i) < cs
       THEN [f EXCEPT !.idx = l - i, !.ret = w + (l - i)]         \* buffer the rest and return (wrote untouched)
       ELSE LET n   == FtMin(cs - f.idx, l - i)                   \* copy(d[span+bufferIdx:], b[i:])
                sp1 == sp + n
            IN FeedLoop(cs, [f EXCEPT !.idx = 0, !.out = Append(@, sp1)], l, i + n, 0, w + sp1)

FeederWrite(cs, f, l) ==
  IF l + f.idx < cs THEN [f EXCEPT !.idx = @ + l, !.ret = l]
  ELSE FeedLoop(cs, f, l, 0, f.idx, 0 - f.idx)

FeederSum(f) ==
  LET f1 == IF f.idx > 0 THEN [f EXCEPT !.out = Append(@, f.idx), !.wrote = @ + f.idx + 8] ELSE f
  IN IF f1.wrote = 0 THEN [f1 EXCEPT !.out = Append(@, 0), !.wrote = 8] ELSE f1

\* ---- hashTrieWriter (hashtrie.go).  One buffer shared by all levels, in units of one reference
\* ---- (span+hash[+key]); cur[k] = write cursor of level k; level k occupies buf[cur[k+1] .. cur[k]).
\* ---- Higher levels have lower cursors.  out = chunks stored through the short pipeline.
MaxLevel == 8
NoRef == [k |-> "-", s |-> BigZero, n |-> 0, c |-> <<>>]
TrieInit(B) == [cur |-> [k \in 1..MaxLevel |-> 0], buf |-> [i \in 1..(MaxLevel * B + 2) |-> NoRef],
                full |-> FALSE, out |-> <<>>, err |-> ""]

LevelSize(h, lvl) == IF lvl = MaxLevel THEN h.cur[MaxLevel] ELSE h.cur[lvl] - h.cur[lvl + 1]
LevelData(h, lvl) == [i \in 1..(h.cur[lvl] - h.cur[lvl + 1]) |-> h.buf[h.cur[lvl + 1] + i]]   \* buffer[cur[l+1]:cur[l]]

RECURSIVE WriteToLevel(_, _, _, _), WrapFullLevel(_, _, _)
WriteToLevel(B, h, lvl, ref) ==
  LET h1 == [h EXCEPT !.buf[h.cur[lvl] + 1] = ref, !.cur[lvl] = @ + 1]
  IN IF LevelSize(h1, lvl) = B THEN WrapFullLevel(B, h1, lvl) ELSE h1

WrapFullLevel(B, h, lvl) ==
  LET node == Node(LevelData(h, lvl))                       \* spans summed, hashes concatenated (copied out)
      h1   == [h EXCEPT !.out = Append(@, node)]            \* short pipeline: bmt -> store
      h2   == WriteToLevel(B, h1, lvl + 1, node)
  IN [h2 EXCEPT !.cur[lvl] = h2.cur[lvl + 1],               \* "truncate" the wrapped level
                !.full = @ \/ (lvl + 1 = MaxLevel)]

\* ChainWrite of one reference coming from the store writer
TrieWrite(B, h, ref) == IF h.full THEN [h EXCEPT !.err = "trie full"] ELSE WriteToLevel(B, h, 1, ref)

RECURSIVE SumLoop(_, _, _)
SumLoop(B, h, i) ==
  IF i >= MaxLevel THEN h
  ELSE LET l == LevelSize(h, i)
       IN IF l = 0 THEN SumLoop(B, h, i + 1)
          ELSE IF l = B THEN SumLoop(B, WrapFullLevel(B, h, i), i + 1)
          ELSE IF l = 1 THEN SumLoop(B, [h EXCEPT !.cur[i + 1] = h.cur[i]], i + 1)   \* carry by cursor assignment
          ELSE SumLoop(B, WrapFullLevel(B, h, i), i + 1)

\* ---- the pipeline feeder -> (bmt) -> store -> hash trie, as the builder composes it.
\* ---- h.out = every chunk handed to a store writer, in order; err = error returned to the caller
PipeInit(B) == [f |-> FeederInit, h |-> TrieInit(B), err |-> "", root |-> NoRef]

\* the chunks the feeder hands down, one after the other: store (Put), then hash trie
RECURSIVE PipeFeed(_, _, _, _)
PipeFeed(B, p, lens, i) ==
  IF i > Len(lens) \/ p.err # "" THEN p
  ELSE LET leaf == Leaf(lens[i])
           h1   == TrieWrite(B, [p.h EXCEPT !.out = Append(@, leaf)], leaf)
       IN PipeFeed(B, [p EXCEPT !.h = h1, !.err = h1.err], lens, i + 1)

NewChunks(f0, f1) == SubSeq(f1.out, Len(f0.out) + 1, Len(f1.out))

\* public call Write(b) with len(b) = l
PipeWrite(cs, B, p, l) ==
  LET f1 == FeederWrite(cs, p.f, l) IN PipeFeed(B, [p EXCEPT !.f = f1], NewChunks(p.f, f1), 1)

\* public call Sum()
PipeSum(cs, B, p) ==
  LET f1 == FeederSum(p.f)
      p1 == PipeFeed(B, [p EXCEPT !.f = f1], NewChunks(p.f, f1), 1)
  IN IF p1.err # "" THEN p1
     ELSE LET h1 == SumLoop(B, p1.h, 1)
          IN IF LevelSize(h1, MaxLevel) # 1
             THEN [p1 EXCEPT !.h = h1, !.err = "inconsistent references"]
             ELSE [p1 EXCEPT !.h = h1, !.root = h1.buf[1]]          \* buffer[0:cursors[8]][8:]

RECURSIVE PipeWrites(_, _, _, _, _)
PipeWrites(cs, B, p, ws, i) == IF i > Len(ws) THEN p ELSE PipeWrites(cs, B, PipeWrite(cs, B, p, ws[i]), ws, i + 1)

\* a whole upload: the writes, then Sum
PipeRun(cs, B, ws) == PipeSum(cs, B, PipeWrites(cs, B, PipeInit(B), ws, 1))

\* capacity of the hash trie: a reference reaching level 8 closes it
RECURSIVE FtPow(_, _)
FtPow(b, e) == IF e = 0 THEN 1 ELSE b * FtPow(b, e - 1)
TrieCapacity(B) == FtPow(B, MaxLevel - 1)
==============================================================================
