SPECIFICATION Spec
CONSTANTS
  Bs = {2, 3, 4, 5}
  CSm = 3
  ChunkCap <- CapThorough
VIEW View
INVARIANTS FeederCanonical CursorsOrdered ErrorOnlyWhenFull FullIffCapacity AlgorithmIsFormat JoinerReadsTree ContractArithmetic
CHECK_DEADLOCK FALSE
