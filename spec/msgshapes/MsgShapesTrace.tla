---------------------------- MODULE MsgShapesTrace ----------------------------
(* Judge for C37.  Every event is one delivery of a shaped message (or raw     *)
(* bytes) to a stream handler / client read path of the real code, one local   *)
(* follow-up operation, or the death of the process that ran the scenario      *)
(* (`crash`: a panic in a goroutine the service started itself).  The verdict  *)
(* is the statement: nothing panics, during or after handling, and the         *)
(* handler returns.  The session machine of MsgShapes checks that the recorded *)
(* operations come in the order prepare -> message(s) -> follow-ups.           *)
EXTENDS MsgShapes, TraceKit

VARIABLES l, bad, notes

IsDelivery(e) == e.op \in {"msg", "raw"}

Verdict(e) ==
     (IF e.op \in {"msg", "raw", "follow", "crash"} THEN Clause("C37:no_panic", ~e.panicked) ELSE <<>>)
  \o (IF IsDelivery(e) THEN Clause("C37:handler_returns", e.returned \/ e.panicked) ELSE <<>>)
  \o (IF IsDelivery(e) THEN Clause("C37:message_type_known", e.mt \in MTIds /\ WellShaped(MTOf(e.mt), e.f)) ELSE <<>>)
  \o (IF e.op = "follow" THEN Clause("C37:follow_up_after_a_message", phase \in {"delivered", "followed"}) ELSE <<>>)

Note(l_, e) ==
  IF e.op = "follow" /\ ~e.returned /\ ~e.panicked
  THEN <<[line |-> l_, scn |-> e.scn, note |-> "follow_up_did_not_return_in_time", op |-> e.what]>>
  ELSE IF e.op = "crash" /\ ~e.attributed
  THEN <<[line |-> l_, scn |-> e.scn, note |-> "crash_not_reproduced_alone", op |-> e.op]>>
  ELSE <<>>

PostPhase(e) == CASE e.op = "reset" -> "prepared"
                  [] IsDelivery(e)  -> "delivered"
                  [] e.op = "follow" -> "followed"
                  [] OTHER -> phase

TInit == l = 1 /\ bad = <<>> /\ notes = <<>> /\ SInit

TStep == /\ l <= NEvents
         /\ LET e == Trace[l]
                cs == IF e.op = "reset" THEN <<>> ELSE Verdict(e)
            IN /\ l' = l + 1
               /\ bad' = IF cs = <<>> THEN bad ELSE Append(bad, BadRec(l, e, cs))
               /\ notes' = IF Len(notes) < 20 /\ e.op # "reset" THEN notes \o Note(l, e) ELSE notes
               /\ phase' = PostPhase(e)
               /\ UNCHANGED session

TSpec == TInit /\ [][TStep]_<<msvars, l, bad, notes>>

Report == ReportBad(l, bad, notes)
=============================================================================
