------------------------------ MODULE MsgShapes ------------------------------
(* Peer messages of every protocol a node serves or initiates, as records of  *)
(* field *shapes*, plus the local follow-up operations that read state a      *)
(* message may have created.  Property C37.                                   *)
(*                                                                            *)
(* TLA+ contributes the enumeration (all single-field deviations from a       *)
(* well-formed message, the full product of field shapes, raw byte classes)   *)
(* and the message -> follow-up sequencing; it does not model the decoders.   *)
(* The driver turns a shape into bytes ("ok" = a well-formed value chosen     *)
(* from the scenario's context: an address the node knows, a valid chunk...). *)
EXTENDS Integers, Sequences, FiniteSets, TLC

(***************************************************************************)
(* The shape lattice, per kind of field.  The first shape of each kind is  *)
(* its well-formed default.                                                *)
(***************************************************************************)
ShapesOf(kind) ==
  CASE kind = "addr"   -> <<"ok", "absent", "one", "b31", "b33", "big">>            \* 32-byte address of somebody else
    [] kind = "addrS"  -> <<"self", "ok", "absent", "one", "b31", "b33", "big">>    \* ... where equality with the node's own address matters
    [] kind = "addrK"  -> <<"known", "ok", "absent", "one", "b31", "b33", "big">>   \* ... an address the node has state for (root / chunk / group / neighbour)
    [] kind = "bytes"  -> <<"ok", "absent", "one", "big">>
    [] kind = "chunk"  -> <<"valid", "absent", "one", "seven", "eight", "other", "big">>  \* chunk payloads (span + data)
    [] kind = "sig"    -> <<"ok", "absent", "one", "b64", "b66", "garbage65">>
    [] kind = "under"  -> <<"ok", "absent", "one", "nop2p", "garbage">>            \* multiaddr bytes
    [] kind = "i32"    -> <<"two", "zero", "one", "three", "thirty", "thirtyone", "neg", "max", "min">>
    [] kind = "u64"    -> <<"one", "zero", "max">>
    [] kind = "list"   -> <<"one_ok", "none", "one_empty", "one_short", "one_long", "self", "many", "huge">>   \* repeated bytes (addresses)
    [] kind = "poslist"-> <<"some", "none", "neg", "big", "many">>                   \* repeated int32 proximity orders
    [] kind = "sub"    -> <<"ok", "absent", "empty">>                                \* nested message
    [] kind = "map"    -> <<"hexok", "absent", "nothex", "oddhex", "emptykey", "selfkey", "peerkey_short", "peerkey_long", "peerkey_ok", "many">>
    [] kind = "json"   -> <<"ok", "absent", "null", "empty", "notjson", "nofields", "nopayout", "badtypes", "array", "big">>
    [] kind = "str"    -> <<"ok", "absent", "big">>
    [] kind = "mode"   -> <<"full", "absent", "light", "boot", "big">>                  \* node-mode bit vector
    [] kind = "net"    -> <<"match", "other", "zero">>
    [] kind = "count"  -> <<"one", "none", "many">>                                  \* number of repeated sub-messages / stream messages
    [] kind = "flag"   -> <<"yes", "no">>
    [] kind = "paths"  -> <<"one", "none", "withself", "long", "emptyitems", "oddlen", "single", "many", "bigsign">>  \* routing paths
    [] kind = "ulist"  -> <<"none", "valid", "junk", "empty", "many">>                \* underlay records in routing messages
    [] kind = "name"   -> <<"ok", "absent", "unknown", "big">>                        \* protocol / stream names in relay requests

\* raw (not even well-framed) byte classes sent instead of a message
RawClasses == {"eof", "hugelen", "over1mib", "truncvarint", "shortbody", "random", "garbagebody", "zerolen", "twice"}

F(n, k) == <<n, k>>

(***************************************************************************)
(* Message types.  side: "handler" = the node's stream handler reads it;   *)
(* "client" = a read path of a stream the node itself opened (the local    *)
(* operation that opens it is part of the message type).  pre: local state *)
(* the scenario prepares first.  follow: local operations run afterwards.  *)
(***************************************************************************)
CIFollow == <<"ci.GetChunkInfo", "ci.GetChunkInfoDiscoverOverlays", "ci.GetChunkInfoServerOverlays", "ci.GetFileList",
              "ci.IsDiscover", "ci.GetChunkInfoSource", "ci.GetChunkPyramid", "ci.OnChunkTransferred", "ci.CancelFindChunkInfo", "ci.DelDiscover">>
RTFollow == <<"rt.GetRoute", "rt.GetNextHop", "rt.GetTargetNeighbor", "rt.IsNeighbor", "rt.DelRoute", "rt.book">>
MCFollow == <<"mc.Snapshot", "mc.GetGroupPeers", "mc.GetOptimumPeer", "mc.Multicast", "mc.RemoveGroup">>
KadFollow == <<"kad.Snapshot", "kad.ClosestPeer", "kad.EachKnownPeer", "book.Addresses">>
TRFollow == <<"tr.LastReceivedCheque", "tr.TrafficInfo", "tr.TrafficCheques">>

MT(id, proto, side, fields, pres, follow) == [id |-> id, proto |-> proto, side |-> side, fields |-> fields, pres |-> pres, follow |-> follow]

MsgTypes == <<
  MT("hs.handle", "handshake", "handler",
     <<F("syn", "under"), F("ack", "sub"), F("address", "sub"), F("underlay", "under"), F("overlay", "addr"), F("signature", "sig"),
       F("net", "net"), F("mode", "mode"), F("welcome", "str")>>, {"nopicker", "picker"}, <<>>),
  MT("hs.handshake", "handshake", "client",
     <<F("synsub", "sub"), F("syn", "under"), F("ack", "sub"), F("address", "sub"), F("underlay", "under"), F("overlay", "addr"),
       F("signature", "sig"), F("net", "net"), F("mode", "mode"), F("welcome", "str")>>, {"nopicker"}, <<>>),
  MT("ping.ping", "pingpong", "handler", <<F("greeting", "str"), F("n", "count")>>, {"fresh"}, <<>>),
  MT("ping.pong", "pingpong", "client", <<F("response", "str"), F("n", "count")>>, {"fresh"}, <<>>),
  MT("hive.req", "hive2", "handler", <<F("target", "addr"), F("pos", "poslist"), F("limit", "i32")>>, {"peers"}, KadFollow),
  MT("hive.peers", "hive2", "client", <<F("n", "count"), F("underlay", "under"), F("signature", "sig"), F("overlay", "addr")>>, {"peers"}, KadFollow),
  MT("retr.req", "retrieval", "handler", <<F("target", "addrS"), F("root", "addrK"), F("chunk", "addrK")>>, {"fresh", "file"}, CIFollow),
  MT("retr.delivery", "retrieval", "client", <<F("data", "chunk")>>, {"fresh", "file"}, CIFollow),
  MT("ci.req", "chunkinfo", "handler", <<F("rootcid", "addrK"), F("target", "addrS"), F("req", "addr")>>, {"fresh", "file"}, CIFollow),
  MT("ci.resp", "chunkinfo", "handler", <<F("rootcid", "addrK"), F("target", "addr"), F("req", "addrS"), F("presence", "map")>>,
     {"fresh", "file", "queue"}, CIFollow),
  MT("ci.pyreq", "chunkinfo", "handler", <<F("rootcid", "addrK"), F("target", "addrS")>>, {"fresh", "file"}, CIFollow),
  MT("ci.pyresp", "chunkinfo", "client", <<F("n", "count"), F("hash", "addrK"), F("chunk", "chunk"), F("done", "flag")>>, {"fresh", "file"}, CIFollow),
  MT("rt.req", "routetab", "handler", <<F("dest", "addrS"), F("alpha", "i32"), F("paths", "paths"), F("utype", "i32"), F("ulist", "ulist")>>,
     {"peers"}, RTFollow),
  MT("rt.resp", "routetab", "handler", <<F("dest", "addrS"), F("paths", "paths"), F("utype", "i32"), F("ulist", "ulist")>>, {"peers", "pending"}, RTFollow),
  MT("rt.under", "routetab", "handler", <<F("dest", "addrK")>>, {"peers"}, RTFollow),
  MT("rt.underresp", "routetab", "client", <<F("dest", "addrK"), F("underlay", "under"), F("signature", "sig")>>, {"peers"}, RTFollow),
  MT("rt.chain", "routetab", "handler",
     <<F("src", "addr"), F("srcmode", "mode"), F("dest", "addrS"), F("pname", "name"), F("pversion", "name"), F("sname", "name"),
       F("data", "bytes"), F("paths", "list")>>, {"peers"}, RTFollow),
  MT("tr.cheque", "traffic", "handler", <<F("address", "bytes"), F("cheque", "json")>>, {"fresh", "known"}, TRFollow),
  MT("tr.init", "traffic", "handler", <<F("address", "bytes"), F("cheque", "json")>>, {"fresh", "known"}, TRFollow),
  MT("mc.hs", "multicast", "handler", <<F("gids", "list")>>, {"nogroup", "joined"}, MCFollow),
  MT("mc.hsresp", "multicast", "client", <<F("gids", "list")>>, {"nogroup", "joined"}, MCFollow),
  MT("mc.find", "multicast", "handler", <<F("gid", "addrK"), F("limit", "i32"), F("ttl", "i32"), F("paths", "list")>>, {"nogroup", "joined"}, MCFollow),
  MT("mc.findresp", "multicast", "client", <<F("addresses", "list")>>, {"joined"}, MCFollow),
  MT("mc.multicast", "multicast", "handler", <<F("id", "u64"), F("time", "u64"), F("origin", "addrS"), F("gid", "addrK"), F("data", "bytes")>>,
     {"nogroup", "joined"}, MCFollow),
  MT("mc.notify", "multicast", "handler", <<F("status", "i32"), F("gids", "list")>>, {"nogroup", "joined"}, MCFollow),
  MT("mc.message", "multicast", "handler", <<F("gid", "addrK"), F("data", "bytes"), F("type", "i32"), F("err", "str")>>,
     {"nogroup", "joined"}, MCFollow)
>>

MTIds == {MsgTypes[i].id : i \in DOMAIN MsgTypes}
MTOf(id) == MsgTypes[CHOOSE i \in DOMAIN MsgTypes : MsgTypes[i].id = id]

FieldNames(mt) == {mt.fields[i][1] : i \in DOMAIN mt.fields}
KindOf(mt, n) == mt.fields[CHOOSE i \in DOMAIN mt.fields : mt.fields[i][1] = n][2]
ShapeSet(kind) == {ShapesOf(kind)[i] : i \in DOMAIN ShapesOf(kind)}
DefaultShape(kind) == ShapesOf(kind)[1]

\* the well-formed message
Baseline(mt) == [n \in FieldNames(mt) |-> DefaultShape(KindOf(mt, n))]
\* all single-field deviations from it (the baseline included)
DevOf(mt, base) == UNION {{[base EXCEPT ![n] = s] : s \in ShapeSet(KindOf(mt, n))} : n \in FieldNames(mt)}
Deviations(mt) == {Baseline(mt)} \cup DevOf(mt, Baseline(mt))
\* pairs of deviations (two fields off at once)
PairDeviations(mt) == UNION {DevOf(mt, b) : b \in Deviations(mt)}
\* the full product
Product(mt) == {f \in [FieldNames(mt) -> UNION {ShapeSet(KindOf(mt, n)) : n \in FieldNames(mt)}] :
                  \A n \in FieldNames(mt) : f[n] \in ShapeSet(KindOf(mt, n))}
WellShaped(mt, f) == DOMAIN f = FieldNames(mt) /\ \A n \in FieldNames(mt) : f[n] \in ShapeSet(KindOf(mt, n))

(***************************************************************************)
(* The session a scenario walks through: prepare local state, deliver one  *)
(* or two messages (or raw bytes), run the follow-ups.                     *)
(***************************************************************************)
VARIABLES phase,     \* "start" | "prepared" | "delivered" | "followed"
          session    \* [mt, pre, net, sent, followed]

msvars == <<phase, session>>

SInit == phase = "start" /\ session = [mt |-> "-", pre |-> "-", sent |-> 0, followed |-> 0]

Prepare(id, pre) == /\ phase = "start"
                    /\ pre \in MTOf(id).pres
                    /\ phase' = "prepared"
                    /\ session' = [mt |-> id, pre |-> pre, sent |-> 0, followed |-> 0]

Deliver == /\ phase \in {"prepared", "delivered"}
           /\ session.sent < 2
           /\ phase' = "delivered"
           /\ session' = [session EXCEPT !.sent = @ + 1]

Follow == /\ phase \in {"delivered", "followed"}
          /\ session.followed < Len(MTOf(session.mt).follow)
          /\ phase' = "followed"
          /\ session' = [session EXCEPT !.followed = @ + 1]

SNext == \/ \E id \in MTIds : \E pre \in MTOf(id).pres : Prepare(id, pre)
         \/ Deliver
         \/ Follow
SSpec == SInit /\ [][SNext]_msvars

\* follow-ups only ever run after a message was delivered, in the protocol of that message
FollowUpsHaveCause == phase = "followed" => (session.sent >= 1 /\ session.followed <= Len(MTOf(session.mt).follow))
\* the lattice is well-formed: every kind has a default, every message type's baseline is inside its product
LatticeOK == \A i \in DOMAIN MsgTypes :
                LET mt == MsgTypes[i] IN
                /\ WellShaped(mt, Baseline(mt))
                /\ \A f \in Deviations(mt) : WellShaped(mt, f)
                /\ mt.pres # {}
                /\ \A j \in DOMAIN MsgTypes : (MsgTypes[j].id = mt.id) => j = i
=============================================================================
