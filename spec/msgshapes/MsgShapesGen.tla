----------------------------- MODULE MsgShapesGen -----------------------------
(* Scenario generators for C37 (VERIF_FAMILY; VERIF_MT restricts to one        *)
(* message type):                                                               *)
(*  dev      every single-field deviation from the well-formed message, per     *)
(*           message type and prepared local state, then all follow-ups         *)
(*  raw      raw byte classes instead of a message                              *)
(*  pair     two fields deviating at once                                       *)
(*  product  the full product of field shapes of one message type               *)
(*  seq      two messages in a row (stateful protocols), then the follow-ups    *)
EXTENDS MsgShapes, SequencesExt, Json, IOUtils
VARIABLE hist

Family == IF "VERIF_FAMILY" \in DOMAIN IOEnv THEN IOEnv.VERIF_FAMILY ELSE "dev"
OnlyMT == IF "VERIF_MT" \in DOMAIN IOEnv THEN IOEnv.VERIF_MT ELSE "all"
Chosen == IF OnlyMT = "all" THEN MTIds ELSE {OnlyMT} \cap MTIds

FollowOps(mt) == [i \in DOMAIN mt.follow |-> [op |-> "follow", what |-> mt.follow[i]]]
MsgOp(mt, f)  == [op |-> "msg", mt |-> mt.id, f |-> f]
RawOp(mt, c)  == [op |-> "raw", mt |-> mt.id, cls |-> c, f |-> Baseline(mt)]
Par(mt, pre, fam) == [mt |-> mt.id, proto |-> mt.proto, side |-> mt.side, pre |-> pre, family |-> fam]

OneMsg(mt, pre, f, fam) == [par |-> Par(mt, pre, fam), ops |-> <<MsgOp(mt, f)>> \o FollowOps(mt)]

Dev(id)     == {OneMsg(MTOf(id), pre, f, "dev") : pre \in MTOf(id).pres, f \in Deviations(MTOf(id))}
PairOf(id)  == {OneMsg(MTOf(id), pre, f, "pair") : pre \in MTOf(id).pres, f \in PairDeviations(MTOf(id))}
Prod(id)    == {OneMsg(MTOf(id), pre, f, "product") : pre \in MTOf(id).pres, f \in Product(MTOf(id))}
RawOf(id)   == {[par |-> Par(MTOf(id), pre, "raw"), ops |-> <<RawOp(MTOf(id), c)>> \o FollowOps(MTOf(id))] :
                  pre \in MTOf(id).pres, c \in RawClasses}

\* two messages of the same node session; the second message type must accept the first one's prepared state
SeqPairs == {<<"ci.resp", "ci.resp">>, <<"ci.pyresp", "ci.resp">>, <<"ci.resp", "ci.req">>, <<"tr.init", "tr.cheque">>, <<"tr.cheque", "tr.init">>,
             <<"mc.notify", "mc.find">>, <<"mc.hs", "mc.multicast">>, <<"rt.req", "rt.resp">>, <<"rt.resp", "rt.req">>,
             <<"hive.peers", "hive.req">>, <<"retr.delivery", "ci.resp">>}
TwoMsgs(a, b) == {[par |-> Par(MTOf(a), pre, "seq"),
               ops |-> <<MsgOp(MTOf(a), f1), MsgOp(MTOf(b), f2)>> \o FollowOps(MTOf(b))] :
                 pre \in MTOf(a).pres \cap MTOf(b).pres, f1 \in Deviations(MTOf(a)), f2 \in Deviations(MTOf(b))}

Scenarios ==
  CASE Family = "dev"     -> UNION {Dev(id) : id \in Chosen}
    [] Family = "raw"     -> UNION {RawOf(id) : id \in Chosen}
    [] Family = "pair"    -> UNION {PairOf(id) : id \in Chosen}
    [] Family = "product" -> UNION {Prod(id) : id \in Chosen}
    [] Family = "seq"     -> UNION {TwoMsgs(p[1], p[2]) : p \in {q \in SeqPairs : OnlyMT = "all" \/ q[1] = OnlyMT \/ q[2] = OnlyMT}}

GInit == hist = <<>> /\ SInit
GNext == /\ hist = <<>>
         /\ UNCHANGED msvars
         /\ \E sc \in Scenarios : hist' = sc
GSpec == GInit /\ [][GNext]_<<msvars, hist>>

Emit == hist # <<>> => PrintT(<<"SCN", ToJson(hist)>>)
=============================================================================
