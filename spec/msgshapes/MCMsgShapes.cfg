SPECIFICATION SSpec
INVARIANTS FollowUpsHaveCause LatticeOK
CHECK_DEADLOCK FALSE
