\* quick tier: sequential calls, 2 calls, 1 fault, 1 settlement
SPECIFICATION Spec
CONSTANTS
  Nodes <- MCNodes
  Chunks <- MCChunks
  Holder0 <- MCHolder
  Funds <- MCFunds
  Thr = 2
  Tol = 1
  FaultKinds <- AllFaults
  MaxFaults = 1
  MaxTop = 2
  MaxSettle = 1
  Requesters <- MCRequesters
  RouteLists <- MCRoutes
  Concurrent = FALSE
  Timeouts = FALSE
INVARIANTS TypeOK P1_StoredOnlyAfterValidDelivery P2_CreditedOncePerAcceptedDelivery P2_BooksAreCredits
  P3_DebitedOncePerDelivery P4_NoRequestWithoutReserve P5_RelayCachesAndAccounts P6_AttemptBound
  NoOverspend PayRequests HolderKnows
CHECK_DEADLOCK FALSE
