\* P6, liveness part: under fairness of the protocol steps every call returns
SPECIFICATION FairSpec
CONSTANTS
  Nodes <- MCNodes
  Chunks <- MCChunks
  Holder0 <- MCHolder
  Funds <- MCFunds
  Thr = 2
  Tol = 1
  FaultKinds <- AllFaults
  MaxFaults = 1
  MaxTop = 2
  MaxSettle = 0
  Requesters <- MCRequesters
  RouteLists <- MCRoutesLive
  Concurrent = FALSE
  Timeouts = FALSE
PROPERTIES Terminates
CHECK_DEADLOCK FALSE
