------------------------------ MODULE Retrieval ------------------------------
(* The retrieval protocol with accounting between a few nodes                *)
(* (pkg/retrieval/retrieval.go, pkg/accounting/accounting.go,                *)
(* pkg/netstore/netstore.go).  Growth of C06 (only valid chunks are stored /  *)
(* handed over) and C32 (per-peer debt tracking), properties P1..P6 below.    *)
(*                                                                            *)
(* One action per step of the code:                                           *)
(*   netstore.Get            Start (local hit | no route | RetrieveChunk)     *)
(*   RetrieveChunk loop      Pick (spawn retrieveChunk for the next route),   *)
(*                           Report (result read from resultC: return / next  *)
(*                           route / next attempt / ErrNotFound), Timeout     *)
(*   retrieveChunk           Reserve, Open (NewStream + request), Recv (read  *)
(*                           delivery + cac/soc validation), Credit,          *)
(*                           CiRetrieved (chunkinfo.OnChunkRetrieved, fetches *)
(*                           the pyramid from the link node when the file is  *)
(*                           unknown), Put (ModePutRequest)                   *)
(*   handler                 SrvGet (Get ModeGetRequest | fail | forward =    *)
(*                           nested RetrieveChunkFromNode), SrvFwdDone,       *)
(*                           SrvWrite (delivery), SrvDebit, SrvTransferred    *)
(*   settlement (stub)       Settle (a cheque for everything unpaid reaches   *)
(*                           the peer)                                        *)
(* The network may refuse a stream ("noconn"), lose a delivery after the      *)
(* server wrote it ("lose"), deliver altered bytes ("corrupt", "other" = a    *)
(* valid chunk of another address), fail the server's write ("wfail") or      *)
(* refuse the requester's pyramid request ("cifail").  A server that refuses  *)
(* the debit (tolerance reached) resets the stream: a delivery that was not   *)
(* read yet may or may not survive.                                           *)
(*                                                                            *)
(* Every file has one data chunk; RootOf(c) = c (a chunk names its file).     *)
(* Amounts are in units of the 256 traffic units retrieval accounts per chunk.*)
EXTENDS Integers, Sequences, FiniteSets

CONSTANTS Nodes,        \* node names
          Chunks,       \* chunk names
          Holder0,      \* [Nodes -> SUBSET Chunks]: who holds what initially (uploaded)
          Funds,        \* [Nodes -> Nat]: balance of the settlement layer
          Thr,          \* payment threshold (units)
          Tol,          \* payment tolerance (units)
          FaultKinds,   \* subset of {"noconn","lose","corrupt","other","wfail","cifail"}
          MaxFaults,    \* bound: faults per behaviour
          MaxTop,       \* bound: netstore.Get calls per behaviour
          MaxSettle,    \* bound: Settle steps per behaviour
          RouteLists,   \* the route lists a call may get (sequences of <<link, target>>)
          Requesters,   \* the nodes that call netstore.Get
          Concurrent,   \* BOOLEAN: calls of different nodes may overlap
          Timeouts      \* BOOLEAN: the 10 s ticker of RetrieveChunk may fire

VARIABLES has,      \* [Nodes -> SUBSET Chunks]   valid copies in the local store
          known,    \* [Nodes -> SUBSET Chunks]   files registered with chunk-info (pyramid known)
          unpaid,   \* [Nodes -> [Nodes -> Int]]  accounting: unPaidTraffic per peer
          spent,    \* [Nodes -> Int]             settlement: total retrieve traffic (all peers)
          net,      \* [Nodes -> [Nodes -> Int]]  settlement: transferred - cheques received, per peer
          payreq,   \* [Nodes -> [Nodes -> Int]]  payment requests issued (Pay calls)
          calls,    \* sequence of call records
          atts,     \* sequence of attempt (= stream) records
          nfaults, nsettle, ntop,
          base      \* [has, spent] when the finished calls were last forgotten (see Start)

vars == <<has, known, unpaid, spent, net, payreq, calls, atts, nfaults, nsettle, ntop, base>>

NoFault == "none"

(***************************************************************************)
(* Records.                                                                *)
(***************************************************************************)
\* a call: netstore.Get -> RetrieveChunk (top) or RetrieveChunkFromNode (nested in a handler)
NewCall(n, c, rs, maxatt, parent) ==
  [node |-> n, chunk |-> c, routes |-> rs, maxatt |-> maxatt, att |-> 1, idx |-> 1,
   pc |-> "pick", res |-> "none", parent |-> parent, local |-> FALSE, natt |-> 0]

\* an attempt: one run of retrieveChunk for one route; the stream it opens and the handler serving it
NewAtt(k, n, link, tgt, c) ==
  [call |-> k, cli |-> n, srv |-> link, tgt |-> tgt, chunk |-> c, fault |-> NoFault,
   cpc |-> "reserve", spc |-> "none", resv |-> FALSE, opened |-> FALSE,
   written |-> FALSE, dlv |-> "none", lost |-> FALSE, got |-> "none",
   credited |-> 0, debits |-> 0, recorded |-> 0, refused |-> FALSE, child |-> 0,
   reported |-> FALSE, availAt |-> 0, unpaidAt |-> 0]

CallIds == 1..Len(calls)
AttIds  == 1..Len(atts)
AttsOf(k) == {a \in AttIds : atts[a].call = k}

(***************************************************************************)
(* Pure operators, shared with the judge.                                  *)
(***************************************************************************)
Avail(f, sp) == f - sp
ReserveOK(av, unp) == av >= unp + 1          \* accounting.Reserve(peer, 256): available >= unpaid + 256
DebitRefused(tolerance, served) == tolerance <= served  \* accounting.Debit: tolerance.Cmp(traffic) <= 0
PayDue(threshold, unp) == unp >= threshold              \* accounting.Credit: unpaid >= threshold
Bump(f, a, b) == [f EXCEPT ![a][b] = @ + 1]
DlvClass(fault) == IF fault \in {"corrupt", "other"} THEN "invalid" ELSE "valid"

Quiet == /\ \A k \in CallIds : calls[k].pc = "done"
         /\ \A a \in AttIds : /\ atts[a].cpc \in {"ok", "fail"} /\ atts[a].reported
                              /\ atts[a].spc \in {"none", "done", "fail"}
TopCalls == {k \in CallIds : calls[k].parent = 0}
Busy(n) == \E k \in TopCalls : calls[k].node = n /\ calls[k].pc # "done"

(***************************************************************************)
(* Initial state.                                                          *)
(***************************************************************************)
Init == /\ has = Holder0
        /\ known = Holder0
        /\ unpaid = [n \in Nodes |-> [p \in Nodes |-> 0]]
        /\ spent = [n \in Nodes |-> 0]
        /\ net = [n \in Nodes |-> [p \in Nodes |-> 0]]
        /\ payreq = [n \in Nodes |-> [p \in Nodes |-> 0]]
        /\ calls = <<>> /\ atts = <<>>
        /\ nfaults = 0 /\ nsettle = 0 /\ ntop = 0
        /\ base = [has |-> Holder0, spent |-> [n \in Nodes |-> 0]]

(***************************************************************************)
(* Client side.                                                            *)
(***************************************************************************)
\* netstore.Get(ctx{root, targets}, ModeGetRequest, c).  When the calls do not overlap, the records of the
\* finished calls and attempts (history, only read by the invariants, which have been checked on them) are
\* forgotten here and the invariants continue relative to `base`.
Start(n, c, rs) ==
  /\ ntop < MaxTop
  /\ n \in Requesters
  /\ ~Busy(n)
  /\ Concurrent \/ Quiet
  /\ \A i \in 1..Len(rs) : rs[i][1] # n /\ rs[i][2] # n
  /\ ntop' = ntop + 1
  /\ LET b0 == NewCall(n, c, rs, 2, 0)
         call == IF c \in has[n] THEN [b0 EXCEPT !.pc = "done", !.res = "ok", !.local = TRUE]
                 ELSE IF rs = <<>> THEN [b0 EXCEPT !.pc = "done", !.res = "err"]
                 ELSE b0
     IN IF Concurrent
        THEN calls' = Append(calls, call) /\ atts' = atts /\ base' = base
        ELSE calls' = <<call>> /\ atts' = <<>> /\ base' = [has |-> has, spent |-> spent]
  /\ UNCHANGED <<has, known, unpaid, spent, net, payreq, nfaults, nsettle>>

\* the loop body of RetrieveChunk / RetrieveChunkFromNode: go retrieveChunk(route)
Pick(k) ==
  /\ calls[k].pc = "pick"
  /\ LET r == calls[k].routes[calls[k].idx]
     IN atts' = Append(atts, NewAtt(k, calls[k].node, r[1], r[2], calls[k].chunk))
  /\ calls' = [calls EXCEPT ![k].pc = "wait", ![k].natt = @ + 1]
  /\ UNCHANGED <<has, known, unpaid, spent, net, payreq, nfaults, nsettle, ntop, base>>

\* accounting.Reserve(link, 256)
Reserve(a) ==
  /\ atts[a].cpc = "reserve"
  /\ LET n == atts[a].cli  p == atts[a].srv
         av == Avail(Funds[n], spent[n])
         ok == ReserveOK(av, unpaid[n][p])
     IN atts' = [atts EXCEPT ![a].cpc = IF ok THEN "open" ELSE "fail", ![a].resv = ok,
                             ![a].availAt = av, ![a].unpaidAt = unpaid[n][p]]
  /\ UNCHANGED <<has, known, unpaid, spent, net, payreq, calls, nfaults, nsettle, ntop, base>>

\* streamer.NewStream + write RequestChunk; the network picks what will go wrong on this stream
Open(a, f) ==
  /\ atts[a].cpc = "open"
  /\ f = NoFault \/ (f \in FaultKinds /\ nfaults < MaxFaults)
  /\ nfaults' = IF f = NoFault THEN nfaults ELSE nfaults + 1
  /\ atts' = IF f = "noconn"
             THEN [atts EXCEPT ![a].cpc = "fail", ![a].fault = f]
             ELSE [atts EXCEPT ![a].cpc = "await", ![a].fault = f, ![a].opened = TRUE, ![a].spc = "get"]
  /\ UNCHANGED <<has, known, unpaid, spent, net, payreq, calls, nsettle, ntop, base>>

\* read the delivery (or the reset of the stream); cac.Valid || soc.Valid
Recv(a) ==
  /\ atts[a].cpc = "await"
  /\ \/ /\ atts[a].written /\ ~atts[a].lost
        /\ atts' = [atts EXCEPT ![a].got = atts[a].dlv,
                                ![a].cpc = IF atts[a].dlv = "valid" THEN "credit" ELSE "fail"]
     \/ /\ \/ atts[a].written /\ atts[a].lost
           \/ ~atts[a].written /\ atts[a].spc = "fail"
        /\ atts' = [atts EXCEPT ![a].got = "err", ![a].cpc = "fail"]
  /\ UNCHANGED <<has, known, unpaid, spent, net, payreq, calls, nfaults, nsettle, ntop, base>>

\* accounting.Credit(link, 256)
Credit(a) ==
  /\ atts[a].cpc = "credit"
  /\ LET n == atts[a].cli  p == atts[a].srv
     IN /\ unpaid' = Bump(unpaid, n, p)
        /\ spent' = [spent EXCEPT ![n] = @ + 1]
        /\ payreq' = IF PayDue(Thr, unpaid[n][p] + 1) THEN Bump(payreq, n, p) ELSE payreq
  /\ atts' = [atts EXCEPT ![a].cpc = "ciret", ![a].credited = @ + 1]
  /\ UNCHANGED <<has, known, net, calls, nfaults, nsettle, ntop, base>>

\* chunkinfo.OnChunkRetrieved: registers the file (pyramid from the link node) when unknown
CiRetrieved(a) ==
  /\ atts[a].cpc = "ciret"
  /\ LET n == atts[a].cli  c == atts[a].chunk
     IN IF c \in known[n] \/ atts[a].fault # "cifail"
        THEN /\ known' = [known EXCEPT ![n] = @ \cup {c}]
             /\ atts' = [atts EXCEPT ![a].cpc = "put"]
        ELSE /\ known' = known
             /\ atts' = [atts EXCEPT ![a].cpc = "fail"]
  /\ UNCHANGED <<has, unpaid, spent, net, payreq, calls, nfaults, nsettle, ntop, base>>

\* storer.Put(ModePutRequest) under the file context
Put(a) ==
  /\ atts[a].cpc = "put"
  /\ has' = [has EXCEPT ![atts[a].cli] = @ \cup {atts[a].chunk}]
  /\ atts' = [atts EXCEPT ![a].cpc = "ok"]
  /\ UNCHANGED <<known, unpaid, spent, net, payreq, calls, nfaults, nsettle, ntop, base>>

\* what the loop does after a failed route (also after the ticker fired)
Advance(cl) ==
  IF cl.idx < Len(cl.routes) THEN [cl EXCEPT !.idx = @ + 1, !.pc = "pick"]
  ELSE IF cl.att < cl.maxatt THEN [cl EXCEPT !.att = @ + 1, !.idx = 1, !.pc = "pick"]
  ELSE [cl EXCEPT !.pc = "done", !.res = "err"]

\* the attempt's goroutine sends its result to resultC; the loop (if still waiting) reads it
Report(a) ==
  /\ atts[a].cpc \in {"ok", "fail"} /\ ~atts[a].reported
  /\ LET k == atts[a].call
     IN /\ calls[k].pc \in {"wait", "done"}
        /\ calls' = IF calls[k].pc = "done" THEN calls
                    ELSE IF atts[a].cpc = "ok" THEN [calls EXCEPT ![k].pc = "done", ![k].res = "ok"]
                    ELSE [calls EXCEPT ![k] = Advance(@)]
  /\ atts' = [atts EXCEPT ![a].reported = TRUE]
  /\ UNCHANGED <<has, known, unpaid, spent, net, payreq, nfaults, nsettle, ntop, base>>

\* the retry ticker fires while the attempt is still running: next route, the attempt goes on
Timeout(k) ==
  /\ Timeouts
  /\ calls[k].pc = "wait"
  /\ \E a \in AttsOf(k) : ~atts[a].reported /\ atts[a].cpc \notin {"ok", "fail"}
  /\ calls' = [calls EXCEPT ![k] = Advance(@)]
  /\ UNCHANGED <<has, known, unpaid, spent, net, payreq, atts, nfaults, nsettle, ntop, base>>

(***************************************************************************)
(* Server side (handler of the stream opened by attempt a).                *)
(***************************************************************************)
\* storer.Get(ModeGetRequest); absent: fail if we are the target, else forward
SrvGet(a) ==
  /\ atts[a].spc = "get"
  /\ LET s == atts[a].srv  c == atts[a].chunk
     IN IF c \in has[s]
        THEN /\ atts' = [atts EXCEPT ![a].spc = "write"]
             /\ calls' = calls
        ELSE IF s = atts[a].tgt
        THEN /\ atts' = [atts EXCEPT ![a].spc = "fail"]
             /\ calls' = calls
        ELSE /\ calls' = Append(calls, NewCall(s, c, <<<<atts[a].tgt, atts[a].tgt>>>>, 1, a))
             /\ atts' = [atts EXCEPT ![a].spc = "fwd", ![a].child = Len(calls) + 1]
  /\ UNCHANGED <<has, known, unpaid, spent, net, payreq, nfaults, nsettle, ntop, base>>

\* RetrieveChunkFromNode returned
SrvFwdDone(a) ==
  /\ atts[a].spc = "fwd"
  /\ calls[atts[a].child].pc = "done"
  /\ atts' = [atts EXCEPT ![a].spc = IF calls[atts[a].child].res = "ok" THEN "write" ELSE "fail"]
  /\ UNCHANGED <<has, known, unpaid, spent, net, payreq, calls, nfaults, nsettle, ntop, base>>

\* write the delivery
SrvWrite(a) ==
  /\ atts[a].spc = "write"
  /\ atts' = IF atts[a].fault = "wfail"
             THEN [atts EXCEPT ![a].spc = "fail"]
             ELSE [atts EXCEPT ![a].spc = "debit", ![a].written = TRUE, ![a].dlv = DlvClass(atts[a].fault),
                               ![a].lost = (atts[a].fault = "lose")]
  /\ UNCHANGED <<has, known, unpaid, spent, net, payreq, calls, nfaults, nsettle, ntop, base>>

\* accounting.Debit(peer, 256); refusal resets the stream (an unread delivery may die with it)
SrvDebit(a) ==
  /\ atts[a].spc = "debit"
  /\ LET s == atts[a].srv  p == atts[a].cli
     IN IF DebitRefused(Tol, net[s][p])
        THEN /\ net' = net
             /\ \E kill \in BOOLEAN :
                  /\ kill => atts[a].cpc = "await"
                  /\ atts' = [atts EXCEPT ![a].spc = "fail", ![a].debits = @ + 1, ![a].refused = TRUE,
                                          ![a].lost = @ \/ kill]
        ELSE /\ net' = Bump(net, s, p)
             /\ atts' = [atts EXCEPT ![a].spc = "xfer", ![a].debits = @ + 1, ![a].recorded = @ + 1]
  /\ UNCHANGED <<has, known, unpaid, spent, payreq, calls, nfaults, nsettle, ntop, base>>

\* chunkinfo.OnChunkTransferred (the server knows the file: it holds the chunk)
SrvTransferred(a) ==
  /\ atts[a].spc = "xfer"
  /\ atts' = [atts EXCEPT ![a].spc = "done"]
  /\ UNCHANGED <<has, known, unpaid, spent, net, payreq, calls, nfaults, nsettle, ntop, base>>

(***************************************************************************)
(* Settlement: a cheque over everything n owes p is issued and reaches p.  *)
(***************************************************************************)
Settle(n, p) ==
  /\ nsettle < MaxSettle
  /\ Quiet
  /\ unpaid[n][p] > 0
  /\ nsettle' = nsettle + 1
  /\ net' = [net EXCEPT ![p][n] = @ - unpaid[n][p]]
  /\ unpaid' = [unpaid EXCEPT ![n][p] = 0]
  /\ UNCHANGED <<has, known, spent, payreq, calls, atts, nfaults, ntop, base>>

Next == \/ \E n \in Nodes, c \in Chunks, rs \in RouteLists : Start(n, c, rs)
        \/ \E k \in CallIds : Pick(k) \/ Timeout(k)
        \/ \E a \in AttIds : \/ Reserve(a) \/ Recv(a) \/ Credit(a) \/ CiRetrieved(a) \/ Put(a) \/ Report(a)
                             \/ SrvGet(a) \/ SrvFwdDone(a) \/ SrvWrite(a) \/ SrvDebit(a) \/ SrvTransferred(a)
                             \/ \E f \in FaultKinds \cup {NoFault} : Open(a, f)
        \/ \E n, p \in Nodes : Settle(n, p)

\* everything except the environment's Start / Settle is fair
Progress == \/ \E k \in CallIds : Pick(k)
            \/ \E a \in AttIds : \/ Reserve(a) \/ Recv(a) \/ Credit(a) \/ CiRetrieved(a) \/ Put(a) \/ Report(a)
                                 \/ SrvGet(a) \/ SrvFwdDone(a) \/ SrvWrite(a) \/ SrvDebit(a) \/ SrvTransferred(a)
                                 \/ Open(a, NoFault)

Spec == Init /\ [][Next]_vars
FairSpec == Spec /\ WF_vars(Progress)

(***************************************************************************)
(* Properties.                                                             *)
(***************************************************************************)
Small == 0..8
TypeOK ==
  /\ has \in [Nodes -> SUBSET Chunks] /\ known \in [Nodes -> SUBSET Chunks]
  /\ \A n, p \in Nodes : unpaid[n][p] \in Small /\ payreq[n][p] \in Small /\ net[n][p] \in -8..8
  /\ \A n \in Nodes : spent[n] \in Small
  /\ \A a \in AttIds : /\ atts[a].cpc \in {"reserve", "open", "await", "credit", "ciret", "put", "ok", "fail"}
                       /\ atts[a].spc \in {"none", "get", "fwd", "write", "debit", "xfer", "done", "fail"}
  /\ \A k \in CallIds : calls[k].pc \in {"pick", "wait", "done"}

Accepted(a) == atts[a].got = "valid"          \* a valid delivery was read by the requester

\* P1: a chunk is stored, or returned, only after a valid delivery
P1_StoredOnlyAfterValidDelivery ==
  /\ \A a \in AttIds : atts[a].cpc \in {"put", "ok"} => Accepted(a)
  /\ \A n \in Nodes : \A c \in has[n] \ base.has[n] :
        \E a \in AttIds : atts[a].cli = n /\ atts[a].chunk = c /\ Accepted(a) /\ atts[a].cpc = "ok"
  /\ \A k \in CallIds : calls[k].res = "ok" =>
        \/ calls[k].local /\ calls[k].chunk \in has[calls[k].node]
        \/ \E a \in AttsOf(k) : Accepted(a) /\ atts[a].cpc = "ok"
  \* what is accepted was written by a server that held a valid copy and was not altered on the way
  /\ \A a \in AttIds : Accepted(a) => /\ atts[a].written /\ atts[a].dlv = "valid" /\ ~atts[a].lost
                                      /\ atts[a].chunk \in has[atts[a].srv]

\* P2: Credit is called exactly once per accepted delivery, never for an invalid / failed one
P2_CreditedOncePerAcceptedDelivery ==
  \A a \in AttIds : /\ atts[a].credited \in {0, 1}
                    /\ atts[a].credited = 1 => Accepted(a)
                    /\ (Accepted(a) /\ atts[a].cpc # "credit") => atts[a].credited = 1

\* the requester's books are the credits
P2_BooksAreCredits ==
  \A n \in Nodes : spent[n] = base.spent[n] + Cardinality({a \in AttIds : atts[a].cli = n /\ atts[a].credited = 1})

\* P3: the server debits exactly the peers it served, once per delivery
P3_DebitedOncePerDelivery ==
  \A a \in AttIds : /\ atts[a].debits \in {0, 1}
                    /\ atts[a].debits = 1 => atts[a].written
                    /\ (atts[a].written /\ atts[a].spc # "debit") => atts[a].debits = 1
                    /\ atts[a].recorded = (IF atts[a].debits = 1 /\ ~atts[a].refused THEN 1 ELSE 0)
                    /\ atts[a].spc \in {"xfer", "done"} => atts[a].recorded = 1

\* P4: a failing Reserve means that no request is sent
P4_NoRequestWithoutReserve ==
  \A a \in AttIds : /\ atts[a].opened => atts[a].resv
                    /\ atts[a].cpc # "reserve" => (atts[a].resv <=> ReserveOK(atts[a].availAt, atts[a].unpaidAt))
                    /\ ~atts[a].resv => atts[a].spc = "none" /\ atts[a].credited = 0 /\ ~atts[a].written

\* P5: a relay (neither holder nor requester) ends up with the chunk cached and both hops are accounted consistently
Done(a) == atts[a].cpc \in {"ok", "fail"} /\ atts[a].spc \in {"none", "done", "fail"}
P5_RelayCachesAndAccounts ==
  \A a \in AttIds :
    /\ (atts[a].child # 0 /\ atts[a].spc \in {"write", "debit", "xfer", "done"}) =>
          /\ atts[a].chunk \in has[atts[a].srv]
          /\ \E b \in AttsOf(atts[a].child) : atts[b].credited = 1 /\ atts[b].cli = atts[a].srv /\ atts[b].srv = atts[a].tgt
    \* hop consistency of every finished stream: both sides booked it, or the difference has a cause
    /\ Done(a) => /\ (atts[a].credited = 1 /\ atts[a].recorded = 0) => atts[a].refused
                  /\ (atts[a].recorded = 1 /\ atts[a].credited = 0) => (atts[a].lost \/ atts[a].dlv = "invalid")
                  /\ (atts[a].fault = NoFault /\ ~atts[a].refused /\ atts[a].written) =>
                        (atts[a].credited = 1 /\ atts[a].recorded = 1)

\* P6: every call terminates within the attempt bound (safety part; the liveness part is Termination)
P6_AttemptBound ==
  \A k \in CallIds : /\ calls[k].natt <= calls[k].maxatt * Len(calls[k].routes)
                     /\ calls[k].natt = Cardinality(AttsOf(k))
\* (liveness part: Terminates in MCRetrieval.tla, checked under FairSpec)

\* with the calls of one node in sequence the node never spends more than it has (Reserve reserves nothing:
\* this does NOT hold for overlapping calls of one node, which the model excludes)
NoOverspend == \A n \in Nodes : spent[n] <= Funds[n]

\* a payment is requested whenever a credit leaves the balance at or above the threshold
PayRequests == \A n, p \in Nodes : payreq[n][p] <= spent[n]

HolderKnows == \A n \in Nodes : has[n] \subseteq known[n]
=============================================================================
