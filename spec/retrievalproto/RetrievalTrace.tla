--------------------------- MODULE RetrievalTrace ---------------------------
(* Judge of the retrieval protocol with accounting (monitor mode, TraceKit).  *)
(* The driver (harness/cmd/retrdrv) logs every step of the protocol where it  *)
(* happens on three real nodes: accounting calls with their results, streams  *)
(* opened, requests and deliveries seen by the switchboard (with the class of *)
(* the bytes that were delivered), store gets/puts made by retrieval, chunk-  *)
(* info callbacks, Pay requests, and a dump of the stores and of the          *)
(* settlement stub's books when a call has returned and everything is quiet.  *)
(*                                                                            *)
(* The judge keeps the statement-level history of the scenario (what was      *)
(* reserved, requested, delivered, credited, debited, stored, settled; never  *)
(* resynchronised from the implementation) and evaluates per event:           *)
(*   C06:  P1  a chunk is stored / returned only after a valid delivery       *)
(*   C32:  P2  Credit exactly once per accepted delivery, never otherwise     *)
(*         P3  Debit exactly once per delivery written, for that peer         *)
(*         P4  no request without a successful Reserve; Reserve refuses       *)
(*             exactly when the balance is insufficient                       *)
(*         +   refusal exactly at the tolerance and not recorded; books =     *)
(*             credits / recorded debits; payment requested iff threshold     *)
(*   notes P5  the relay keeps the chunk, P6 termination / attempt bound      *)
(* Amounts are the raw traffic units of the code (256 per chunk).             *)
EXTENDS Integers, Sequences, FiniteSets, TraceKit

VARIABLES l, bad, notes, js

NodeSeq == <<"A", "R", "B">>
ChunkSeq == <<"c1", "c2">>
N == {"A", "R", "B"}
C == {"c1", "c2"}
NIdx(n) == CHOOSE i \in 1..3 : NodeSeq[i] = n
CIdx(c) == CHOOSE i \in 1..2 : ChunkSeq[i] = c

\* the same predicates as Retrieval.tla, on raw amounts
ReserveOK(av, unp, amt) == av >= unp + amt
DebitRefused(tolerance, served) == tolerance <= served
PayDue(threshold, unp) == unp >= threshold

Zero2 == [n \in N |-> [p \in N |-> 0]]
HasOf(st) == [n \in N |-> [c \in C |-> st.has[n][CIdx(c)]]]

NewAtt(n, p, ok) ==
  [cli |-> n, srv |-> p, resv |-> ok, sid |-> 0, openok |-> FALSE, tgt |-> "", c |-> "",
   written |-> FALSE, werr |-> FALSE, cls |-> "none", lost |-> FALSE, fault |-> "none",
   credits |-> 0, debits |-> 0, debitok |-> FALSE, fwd |-> FALSE, puts |-> 0]

Init0 == [thr |-> 0, tol |-> 0, funds |-> [n \in N |-> 0], unpaid |-> Zero2, net |-> Zero2,
          retr |-> Zero2, xfer |-> Zero2, pays |-> Zero2, due |-> Zero2,
          cur |-> [n |-> "", c |-> "", nroutes |-> 0, active |-> FALSE],
          haspre |-> [n \in N |-> [c \in C |-> "absent"]], atts |-> <<>>]

LastOf(S) == IF S = {} THEN 0 ELSE CHOOSE i \in S : \A j \in S : j <= i
Idx(s) == DOMAIN s.atts
\* the attempt a stream belongs to / the open stream between a requester and a server
Reserved(s, n, p) == LastOf({i \in Idx(s) : s.atts[i].cli = n /\ s.atts[i].srv = p /\ s.atts[i].resv /\ s.atts[i].sid = 0})
BySid(s, sid) == LastOf({i \in Idx(s) : s.atts[i].sid = sid})
Stream(s, n, p) == LastOf({i \in Idx(s) : s.atts[i].cli = n /\ s.atts[i].srv = p /\ s.atts[i].openok})
FirstOf(S) == IF S = {} THEN 0 ELSE CHOOSE i \in S : \A j \in S : i <= j
\* A handler runs on after the requester has read (and maybe rejected) the delivery and moved to its next route, so
\* two streams of one pair can be open at the server: a Debit belongs to the earliest delivery to that peer that has
\* none yet, a Credit to the earliest valid delivery that has none yet (else to the latest stream, and the clause fails).
DebitOf(s, srv, cli) ==
  LET S == {i \in Idx(s) : s.atts[i].cli = cli /\ s.atts[i].srv = srv /\ s.atts[i].written /\ s.atts[i].debits = 0}
  IN IF S # {} THEN FirstOf(S) ELSE Stream(s, cli, srv)
CreditOf(s, cli, srv) ==
  LET S == {i \in Idx(s) : s.atts[i].cli = cli /\ s.atts[i].srv = srv /\ s.atts[i].written /\ s.atts[i].cls = "valid"
                           /\ ~s.atts[i].lost /\ s.atts[i].credits = 0}
  IN IF S # {} THEN FirstOf(S) ELSE Stream(s, cli, srv)
Served(s, srv) == LastOf({i \in Idx(s) : s.atts[i].srv = srv /\ s.atts[i].openok /\ ~s.atts[i].written /\ ~s.atts[i].werr})

\* a delivery the requester can have accepted: valid bytes arrived
Arrived(a) == a.written /\ a.cls = "valid" /\ ~a.lost
Set(s, i, f, v) == [s EXCEPT !.atts[i] = [@ EXCEPT ![f] = v]]

(***************************************************************************)
(* The statement-level history after the event.                            *)
(***************************************************************************)
Post(e, s) ==
  CASE e.op = "reset" ->
         [Init0 EXCEPT !.thr = e.thr, !.tol = e.tol, !.funds = [n \in N |-> e.funds[NIdx(n)]], !.haspre = HasOf(e.st)]
    [] e.op = "funds" -> [s EXCEPT !.funds[e.n] = e.v]
    [] e.op = "get" ->
         [s EXCEPT !.cur = [n |-> e.n, c |-> e.c, nroutes |-> Len(e.routes), active |-> TRUE],
                   !.haspre = HasOf(e.st), !.atts = <<>>, !.pays = Zero2, !.due = Zero2]
    [] e.op = "reserve" -> [s EXCEPT !.atts = Append(@, NewAtt(e.n, e.p, e.ok))]
    [] e.op = "open" ->
         LET i == Reserved(s, e.n, e.p)
         IN IF i = 0 THEN [s EXCEPT !.atts = Append(@, [NewAtt(e.n, e.p, FALSE) EXCEPT !.sid = e.sid, !.openok = e.ok, !.fault = e.fault])]
            ELSE [s EXCEPT !.atts[i] = [@ EXCEPT !.sid = e.sid, !.openok = e.ok, !.fault = e.fault]]
    [] e.op = "req" ->
         LET i == BySid(s, e.sid) IN IF i = 0 THEN s ELSE [s EXCEPT !.atts[i] = [@ EXCEPT !.tgt = e.tgt, !.c = e.c]]
    [] e.op = "sget" ->
         LET i == Served(s, e.n) IN IF i = 0 \/ e.found THEN s ELSE Set(s, i, "fwd", s.atts[i].tgt # e.n)
    [] e.op = "dlv" ->
         LET i == BySid(s, e.sid)
         IN IF i = 0 THEN s
            ELSE [s EXCEPT !.atts[i] = [@ EXCEPT !.written = ~e.werr, !.werr = e.werr, !.cls = e.cls, !.lost = e.lost]]
    [] e.op = "debit" ->
         LET i == DebitOf(s, e.n, e.p)
             s1 == IF i = 0 THEN s ELSE [s EXCEPT !.atts[i] = [@ EXCEPT !.debits = @ + 1, !.debitok = e.ok]]
         IN IF e.ok THEN [s1 EXCEPT !.net[e.n][e.p] = @ + e.amt, !.xfer[e.n][e.p] = @ + e.amt] ELSE s1
    [] e.op = "credit" ->
         LET i == CreditOf(s, e.n, e.p)
             s1 == IF i = 0 THEN s ELSE [s EXCEPT !.atts[i] = [@ EXCEPT !.credits = @ + 1]]
         IN IF e.ok
            THEN [s1 EXCEPT !.unpaid[e.n][e.p] = @ + e.amt, !.retr[e.n][e.p] = @ + e.amt,
                            !.due[e.n][e.p] = IF PayDue(s.thr, s.unpaid[e.n][e.p] + e.amt) THEN @ + 1 ELSE @]
            ELSE s1
    [] e.op = "put" ->
         LET i == LastOf({j \in Idx(s) : s.atts[j].cli = e.n /\ s.atts[j].c = e.c /\ s.atts[j].openok})
         IN IF i = 0 THEN s ELSE Set(s, i, "puts", s.atts[i].puts + 1)
    [] e.op = "pay" -> [s EXCEPT !.pays[e.n][e.p] = @ + 1]
    [] e.op = "settle" ->
         [s EXCEPT !.unpaid[e.n][e.p] = IF @ > e.amt THEN @ - e.amt ELSE 0, !.net[e.p][e.n] = @ - e.amt]
    [] e.op = "ret" -> [s EXCEPT !.cur.active = FALSE, !.haspre = HasOf(e.st)]
    [] OTHER -> s

(***************************************************************************)
(* Verdict clauses.                                                        *)
(***************************************************************************)
Spent(s, n) == s.retr[n]["A"] + s.retr[n]["R"] + s.retr[n]["B"]
ValidFor(s, n, c) == \E i \in Idx(s) : s.atts[i].cli = n /\ s.atts[i].c = c /\ Arrived(s.atts[i])
Books(e, n, f, p) == e.st.books[n][f][NIdx(p)]

Verdict(e, s, t) ==
  CASE e.op = "reserve" ->
            \* P4 (value part): Reserve refuses exactly when the available balance cannot cover unpaid + this chunk
            Clause("C32:reserve_refuses_iff_balance_insufficient",
                   e.ok = ReserveOK(e.avail, s.unpaid[e.n][e.p], e.amt) /\ (~e.ok => e.low))
    [] e.op = "open" ->
            \* P4: no request is sent unless the Reserve made for it succeeded
            Clause("C32:no_request_without_successful_reserve", Reserved(s, e.n, e.p) # 0)
    [] e.op = "debit" ->
            LET i == DebitOf(s, e.n, e.p)
            IN \* P3: only a peer that was served is debited, once per delivery
                  Clause("C32:debit_only_for_a_delivery_written_to_that_peer", i # 0 /\ s.atts[i].written)
               \o Clause("C32:debit_once_per_delivery", i = 0 \/ s.atts[i].debits = 0)
               \* C32: refused exactly when the unsettled served traffic has reached the tolerance
               \o Clause("C32:debit_refused_iff_tolerance_reached",
                         e.ok = ~DebitRefused(s.tol, s.net[e.n][e.p]) /\ (~e.ok => e.blocked))
    [] e.op = "credit" ->
            LET i == CreditOf(s, e.n, e.p)
            IN \* P2: Credit only for a valid delivery that arrived, once
                  Clause("C32:credit_only_for_a_valid_delivery", i # 0 /\ Arrived(s.atts[i]))
               \o Clause("C32:credit_once_per_delivery", i = 0 \/ s.atts[i].credits = 0)
               \o Clause("C32:credit_succeeds", e.ok)
    [] e.op = "put" ->
            \* P1: stored only after a valid delivery of that chunk to that node, and the bytes are the chunk's
               Clause("C06:stored_only_after_valid_delivery", ValidFor(s, e.n, e.c))
            \o Clause("C06:stored_bytes_are_the_chunk", e.match)
    [] e.op = "ret" ->
            \* P1: what is returned is the chunk, and it came from the local store or from a valid delivery
               Clause("C06:returned_chunk_is_valid", e.ok => e.match)
            \o Clause("C06:returned_only_after_valid_delivery",
                      e.ok => (s.haspre[e.n][e.c] = "good" \/ ValidFor(s, e.n, e.c)))
            \* P1 on the stores themselves: nothing invalid, nothing new without a valid delivery
            \o Clause("C06:stores_hold_only_valid_chunks", \A n \in N, c \in C : t.haspre[n][c] # "bad")
            \o Clause("C06:store_gains_only_by_valid_delivery",
                      \A n \in N, c \in C : (t.haspre[n][c] = "good" /\ s.haspre[n][c] # "good") => ValidFor(s, n, c))
            \* P2 / P3 counted over every stream of the call, when everything has come to rest
            \o Clause("C32:credited_exactly_once_per_accepted_delivery",
                      \A i \in Idx(s) : LET a == s.atts[i]
                                       IN /\ a.credits <= 1
                                          /\ ~Arrived(a) => a.credits = 0
                                          /\ (Arrived(a) /\ a.debitok /\ ~e.slow /\ e.quiet) => a.credits = 1)
            \o Clause("C32:debited_exactly_once_per_delivery",
                      \A i \in Idx(s) : LET a == s.atts[i]
                                       IN /\ a.debits <= 1
                                          /\ ~a.written => a.debits = 0
                                          /\ (a.written /\ e.quiet) => a.debits = 1)
            \* the books of the settlement layer are exactly the credits / the debits that were not refused
            \o Clause("C32:retrieved_traffic_booked_is_the_credits",
                      \A n \in N, p \in N : Books(e, n, "retr", p) = s.retr[n][p])
            \o Clause("C32:served_traffic_booked_is_the_accepted_debits",
                      \A n \in N, p \in N : Books(e, n, "xfer", p) = s.xfer[n][p])
            \* C32: a payment is requested whenever a credit leaves the unpaid balance at or above the threshold
            \o Clause("C32:payment_requested_iff_threshold_reached",
                      e.quiet => \A n \in N, p \in N : s.pays[n][p] = s.due[n][p])
    [] OTHER -> <<>>

(***************************************************************************)
(* Conformance notes (never alarm): P5, P6, shape of the run.              *)
(***************************************************************************)
Note(name, holds) == IF holds THEN <<>> ELSE <<name>>
NotesOf(e, s, t) ==
  CASE e.op = "ret" ->
            Note("P6:call_terminates", ~e.hung)
         \o Note("P6:attempts_within_bound",
                 Cardinality({i \in Idx(s) : s.atts[i].cli = e.n}) <= 2 * s.cur.nroutes)
         \o Note("P5:relay_keeps_the_chunk_it_forwarded",
                 \A i \in Idx(s) : (s.atts[i].fwd /\ s.atts[i].written) => t.haspre[s.atts[i].srv][s.atts[i].c] = "good")
         \o Note("P5:relay_hops_accounted_consistently",
                 \A i \in Idx(s) : (s.atts[i].fwd /\ s.atts[i].written) =>
                     \E j \in Idx(s) : s.atts[j].cli = s.atts[i].srv /\ s.atts[j].srv = s.atts[i].tgt /\ s.atts[j].credits = 1)
         \o Note("quiet_after_call", e.quiet)
    [] e.op = "req" -> Note("request_names_the_chunk_of_the_call", e.c = s.cur.c)
    [] e.op = "settle" -> Note("cheque_covers_the_unpaid_balance", e.amt = s.unpaid[e.n][e.p])
    [] e.op = "reserve" -> Note("available_is_funds_minus_retrieved", e.avail = s.funds[e.n] - Spent(s, e.n))
    [] OTHER -> <<>>

TInit == l = 1 /\ bad = <<>> /\ notes = <<>> /\ js = Init0

TStep == /\ l <= NEvents
         /\ LET e == Trace[l]
            IN /\ js' = Post(e, js)
               /\ LET cs == Verdict(e, js, js')
                      ns == NotesOf(e, js, js')
                  IN /\ bad' = IF cs = <<>> THEN bad ELSE Append(bad, BadRec(l, e, cs))
                     /\ notes' = IF ns = <<>> \/ Len(notes) >= 20 THEN notes ELSE Append(notes, BadRec(l, e, ns))
         /\ l' = l + 1

TSpec == TInit /\ [][TStep]_<<l, bad, notes, js>>

Report == ReportBad(l, bad, notes)
=============================================================================
