\* NOT a registered check; an observation outside the listed properties, kept for the record.
\* accounting.Reserve reserves nothing (it only compares): when two attempts of one node overlap -- here the relay R
\* forwarding for A while it retrieves for itself -- both pass Reserve against the same balance and both are credited:
\* TLC reports NoOverspend violated (spent[R] = 2 with Funds[R] = 1).  With the calls of a node in sequence the
\* invariant holds (MCRetrieval.cfg / MCRetrievalQ.cfg check it).
SPECIFICATION Spec
CONSTANTS
  Nodes <- MCNodes
  Chunks <- MCChunks1
  Holder0 <- MCHolder1
  Funds <- ObsFunds
  Thr = 2
  Tol = 2
  FaultKinds <- LoseOnly
  MaxFaults = 0
  MaxTop = 2
  MaxSettle = 0
  Requesters <- MCRequesters
  RouteLists <- MCRoutesConc
  Concurrent = TRUE
  Timeouts = FALSE
INVARIANTS NoOverspend
CHECK_DEADLOCK FALSE
