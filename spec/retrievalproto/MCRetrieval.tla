---------------------------- MODULE MCRetrieval ----------------------------
(* Bounded configurations of Retrieval.tla: requester A, relay R, holder B,  *)
(* two chunks, every fault kind.                                              *)
EXTENDS Retrieval, TLC

MCNodes == {"A", "R", "B"}
MCChunks == {"c1", "c2"}
MCHolder == [n \in MCNodes |-> IF n = "B" THEN MCChunks ELSE {}]
MCFunds == [n \in MCNodes |-> IF n = "A" THEN 3 ELSE IF n = "R" THEN 2 ELSE 0]
MCRequesters == {"A", "R"}
MCFundsRich == [n \in MCNodes |-> 6]
AllFaults == {"noconn", "lose", "corrupt", "other", "wfail", "cifail"}
\* direct, via the relay, relay first then direct, a non-holder as target, nothing
MCRoutes == {<<>>, <<<<"B", "B">>>>, <<<<"R", "B">>>>, <<<<"R", "B">>, <<"B", "B">>>>, <<<<"R", "R">>, <<"B", "B">>>>}
MCRoutesSmall == {<<<<"B", "B">>>>, <<<<"R", "B">>>>, <<<<"R", "R">>, <<"B", "B">>>>}
MCRoutesLive == {<<<<"R", "B">>>>, <<<<"R", "R">>, <<"B", "B">>>>}

ConcFaults == {"lose", "corrupt", "cifail"}
MCRoutesConc == {<<<<"B", "B">>>>, <<<<"R", "B">>>>}

MCChunks1 == {"c1"}
MCHolder1 == [n \in MCNodes |-> IF n = "B" THEN MCChunks1 ELSE {}]
OnlyA == {"A"}
TickFaults == {"lose", "corrupt"}
LoseOnly == {"lose"}
MCRoutesTick == {<<<<"R", "R">>, <<"B", "B">>>>}

ObsFunds == [n \in MCNodes |-> 1]   \* MCRetrievalObs.cfg

CallDone(k) == k \in CallIds /\ calls[k].pc = "done"
Terminates == \A k \in 1..8 : (k \in CallIds) ~> CallDone(k)
============================================================================
