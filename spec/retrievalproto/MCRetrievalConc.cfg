\* overlapping calls of A (through the relay or directly) and of the relay R itself
SPECIFICATION Spec
CONSTANTS
  Nodes <- MCNodes
  Chunks <- MCChunks1
  Holder0 <- MCHolder1
  Funds <- MCFundsRich
  Thr = 2
  Tol = 2
  FaultKinds <- LoseOnly
  MaxFaults = 1
  MaxTop = 2
  MaxSettle = 0
  Requesters <- MCRequesters
  RouteLists <- MCRoutesConc
  Concurrent = TRUE
  Timeouts = FALSE
INVARIANTS TypeOK P1_StoredOnlyAfterValidDelivery P2_CreditedOncePerAcceptedDelivery P2_BooksAreCredits
  P3_DebitedOncePerDelivery P4_NoRequestWithoutReserve P5_RelayCachesAndAccounts P6_AttemptBound
  PayRequests HolderKnows
CHECK_DEADLOCK FALSE
