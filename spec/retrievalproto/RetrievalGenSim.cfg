SPECIFICATION GSpec
CONSTANTS
  Nodes <- GNodes
  Chunks <- GChunks
  Holder0 <- GHolder
  Funds <- GFunds
  Thr <- GThr
  Tol <- GTol
  FaultKinds <- GFaults
  MaxFaults <- GMaxFaults
  MaxTop <- GMaxTop
  MaxSettle <- GMaxSettle
  Requesters <- GRequesters
  RouteLists <- GRoutes
  Concurrent = FALSE
  Timeouts = FALSE

INVARIANT EmitQuiet
CHECK_DEADLOCK FALSE
