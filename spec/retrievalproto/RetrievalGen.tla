---------------------------- MODULE RetrievalGen ----------------------------
(* Scenario generator: Retrieval's actions plus a history variable.           *)
(* A scenario is what the driver can force: the sequence of netstore.Get       *)
(* calls (node, chunk, route list) and settlements, and for every call the     *)
(* fault of each retrieval stream in the order the streams are opened.  The    *)
(* interleaving of requester and server steps is not forced by the driver, so  *)
(* the generator walks ONE canonical interleaving (server steps first, then    *)
(* requester steps, then the next route); only the environment branches.       *)
(*  edges    (cfg with VIEW): one shortest history per (state, step) edge      *)
(*  simulate (tlc -simulate): random walks                                     *)
EXTENDS Retrieval, TLC, Json, IOUtils
VARIABLES hist, pre

Env(name, default) == IF name \in DOMAIN IOEnv THEN atoi(IOEnv[name]) ELSE default

GNodes == {"A", "R", "B"}
GChunks == {"c1", "c2"}
GHolder == [n \in GNodes |-> IF n = "B" THEN GChunks ELSE {}]
GFunds == [n \in GNodes |-> IF n = "A" THEN Env("VERIF_FUNDS_A", 3) ELSE IF n = "R" THEN Env("VERIF_FUNDS_R", 2) ELSE 0]
GThr == Env("VERIF_THR", 2)
GTol == Env("VERIF_TOL", 2)
GMaxTop == Env("VERIF_MAXTOP", 2)
GMaxFaults == Env("VERIF_MAXFAULTS", 1)
GMaxSettle == Env("VERIF_MAXSETTLE", 1)
GFaults == {"noconn", "lose", "corrupt", "other", "wfail", "cifail"}
GRequesters == {"A", "R"}
GRoutes == {<<>>, <<<<"B", "B">>>>, <<<<"R", "B">>>>, <<<<"R", "B">>, <<"B", "B">>>>, <<<<"R", "R">>, <<"B", "B">>>>}
MinOps == Env("VERIF_MINOPS", 1)

Via(rs) == IF \A i \in 1..Len(rs) : rs[i][1] = rs[i][2] THEN "targets" ELSE "ci"

SrvSteps == \E a \in AttIds : SrvGet(a) \/ SrvFwdDone(a) \/ SrvWrite(a) \/ SrvDebit(a) \/ SrvTransferred(a)
CliSteps == \E a \in AttIds : \/ Reserve(a) \/ Recv(a) \/ Credit(a) \/ CiRetrieved(a) \/ Put(a) \/ Report(a)
                              \/ \E f \in FaultKinds \cup {NoFault} : Open(a, f)
PickSteps == \E k \in CallIds : Pick(k)
EnvSteps == \/ \E n \in Nodes, c \in Chunks, rs \in RouteLists : Start(n, c, rs)
            \/ \E n, p \in Nodes : Settle(n, p)

\* enabledness of the protocol steps, spelled out (ENABLED is slow in TLC)
SrvReady(a) == \/ atts[a].spc \in {"get", "write", "debit", "xfer"}
               \/ atts[a].spc = "fwd" /\ calls[atts[a].child].pc = "done"
CliReady(a) == \/ atts[a].cpc \in {"reserve", "open", "credit", "ciret", "put"}
               \/ atts[a].cpc = "await" /\ (atts[a].written \/ atts[a].spc = "fail")
               \/ atts[a].cpc \in {"ok", "fail"} /\ ~atts[a].reported /\ calls[atts[a].call].pc \in {"wait", "done"}

Proto == IF \E a \in AttIds : SrvReady(a) THEN SrvSteps
         ELSE IF \E a \in AttIds : CliReady(a) THEN CliSteps
         ELSE IF \E k \in CallIds : calls[k].pc = "pick" THEN PickSteps
         ELSE EnvSteps

\* what the step adds to the history
Hist ==
  IF Len(calls') > 0 /\ ntop' = ntop + 1
  THEN LET cl == calls'[Len(calls')]
       IN Append(hist, [op |-> "get", n |-> cl.node, c |-> cl.chunk, via |-> Via(cl.routes), routes |-> cl.routes,
                        faults |-> <<>>])
  ELSE IF nsettle' = nsettle + 1
  THEN LET np == CHOOSE np \in Nodes \X Nodes : unpaid[np[1]][np[2]] > 0 /\ unpaid'[np[1]][np[2]] = 0
       IN Append(hist, [op |-> "settle", n |-> np[1], p |-> np[2]])
  ELSE IF Len(atts') = Len(atts) /\ \E a \in AttIds : atts[a].cpc = "open" /\ atts'[a].cpc # "open"
  THEN LET a == CHOOSE a \in AttIds : atts[a].cpc = "open" /\ atts'[a].cpc # "open"
       IN [hist EXCEPT ![Len(hist)].faults = Append(@, atts'[a].fault)]
  ELSE hist

GInit == Init /\ hist = <<>> /\ pre = <<>>
GNext == /\ Proto
         \* the driver's switchboard makes the server's write wait for the reader: a refused debit kills no delivery
         /\ \A a \in DOMAIN atts' : atts'[a].lost = (atts'[a].written /\ atts'[a].fault = "lose")
         /\ hist' = Hist
         /\ pre' = vars
GSpec == GInit /\ [][GNext]_<<vars, hist, pre>>

Last == IF hist = <<>> THEN <<>> ELSE hist[Len(hist)]
EdgeView == <<pre, vars, Last>>

Scn == [par |-> [thr |-> Thr, tol |-> Tol, funds |-> Funds, big |-> (Env("VERIF_BIG", 0) = 1)], ops |-> hist]
EmitQuiet == (Quiet /\ Len(hist) >= MinOps) => PrintT(<<"SCN", ToJson(Scn)>>)
=============================================================================
