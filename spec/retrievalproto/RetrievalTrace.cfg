SPECIFICATION TSpec
INVARIANT Report
POSTCONDITION AllConsumed
CHECK_DEADLOCK FALSE
