\* one call with the retry ticker: abandoned attempts run on, late results are read by a later wait
SPECIFICATION Spec
CONSTANTS
  Nodes <- MCNodes
  Chunks <- MCChunks1
  Holder0 <- MCHolder1
  Funds <- MCFundsRich
  Thr = 2
  Tol = 2
  FaultKinds <- LoseOnly
  MaxFaults = 0
  MaxTop = 1
  MaxSettle = 0
  Requesters <- OnlyA
  RouteLists <- MCRoutesTick
  Concurrent = FALSE
  Timeouts = TRUE
INVARIANTS TypeOK P1_StoredOnlyAfterValidDelivery P2_CreditedOncePerAcceptedDelivery P2_BooksAreCredits
  P3_DebitedOncePerDelivery P4_NoRequestWithoutReserve P5_RelayCachesAndAccounts P6_AttemptBound
  PayRequests HolderKnows
CHECK_DEADLOCK FALSE
