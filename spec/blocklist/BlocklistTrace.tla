--------------------------- MODULE BlocklistTrace ---------------------------
(* Judge for C25: replays the events blocklistdrv recorded from the real       *)
(* blocklist against the statement, written over the request history (Blocklist*)
(* operators MustBlocked / MustUnblocked).  Monitor mode (see TraceKit).        *)
(*                                                                             *)
(* Observables per event: the result of the call, and `st`: for every peer the *)
(* answer of Exists at now + Offs[j] (probed without side effects).            *)
EXTENDS Blocklist, TraceKit

MCPeers == {1, 2}
MCDurs  == {0, 1, 2, 3, 7, 10}
MCSteps == {1, 2, 3, 5, 11}

\* probe offsets; must equal `offs` in harness/cmd/blocklistdrv/main.go
Offs == <<0, 1, 2, 3, 4, 5, 6, 7, 8, 9, 10, 11, 12, 16, 24, 50, 1000000>>
NOffs == Len(Offs)

VARIABLES l, obs, bad, notes

NoObs == [p \in Peers |-> [j \in 1..NOffs |-> FALSE]]
ObsOf(e) == [p \in Peers |-> [j \in 1..NOffs |-> e.st[p][j]]]

\* clock, request history and mechanism after the event (arguments from the event)
PostNow(e, n) == CASE e.op = "reset" -> 0 [] e.op = "tick" -> n + e.s [] OTHER -> n

PostHist(e, h, n) ==
  CASE e.op = "reset"  -> [p \in Peers |-> NoHist]
    [] e.op = "add"    -> [h EXCEPT ![e.p] = HistAdd(h[e.p], n, e.d)]
    [] e.op = "remove" -> [h EXCEPT ![e.p] = NoHist]
    [] OTHER           -> h

PostEnt(e, x, n) ==
  CASE e.op = "reset"  -> [p \in Peers |-> NoEnt]
    [] e.op = "add"    -> [x EXCEPT ![e.p] = AddEnt(x[e.p], n, e.d)]
    [] e.op = "remove" -> [x EXCEPT ![e.p] = NoEnt]
    [] e.op = "exists" -> [x EXCEPT ![e.p] = ExistsEnt(x[e.p], n)]
    [] OTHER           -> x

\* the projection, judged against the statement at every probed instant
ProjClause(name, o, h, n, Pred(_, _), want) ==
  Clause(name, \A p \in Peers, j \in 1..NOffs : Pred(h[p], n + Offs[j]) => (o[p][j] = want))

ReqPeriod(h, t) == InRequestedPeriod(h, t)
ReqForever(h, t) == RequestedForever(h)
NotReq(h, t) == NothingRequested(h)
Beyond(h, t) == BeyondLongest(h, t)

Verdict(e, preNow, preHist, postNow, postHist, preObs, o) ==
     Clause("C25:no_unexpected_error", e.err = "")
  \o ProjClause("C25:blocked_during_every_requested_period", o, postHist, postNow, ReqPeriod, TRUE)
  \o ProjClause("C25:zero_duration_blocks_forever", o, postHist, postNow, ReqForever, TRUE)
  \o ProjClause("C25:unblocked_as_soon_as_removed", o, postHist, postNow, NotReq, FALSE)
  \o ProjClause("C25:never_beyond_latest_request_plus_longest_duration", o, postHist, postNow, Beyond, FALSE)
  \o (IF e.op = "exists"
      THEN    Clause("C25:exists_true_when_requested", MustBlocked(preHist[e.p], preNow) => e.res)
           \o Clause("C25:exists_false_when_removed_or_beyond", MustUnblocked(preHist[e.p], preNow) => ~e.res)
      ELSE <<>>)
  \o (IF e.op = "add"
      THEN Clause("C25:add_never_shortens_existing_block",
                  \A j \in 1..NOffs : preObs[e.p][j] => o[e.p][j])
      ELSE <<>>)
  \o (IF e.op = "peers"
      THEN Clause("C25:listing_agrees_with_exists",
                  /\ {e.ps[i] : i \in DOMAIN e.ps} = {p \in Peers : o[p][1]}
                  /\ e.n = Cardinality({p \in Peers : o[p][1]})
                  /\ e.unknown = 0)
      ELSE <<>>)

\* conformance (never alarms): the mechanism model predicts the whole projection
Predicted(x, n) == [p \in Peers |-> [j \in 1..NOffs |-> EntBlocked(x[p], n + Offs[j])]]

\* a mechanism state with the observed blocked instants (resynchronisation after drift)
EntFromObs(o, n) ==
  [p \in Peers |->
     IF o[p][NOffs] THEN [since |-> n, dur |-> 0]
     ELSE LET J == {j \in 1..NOffs : o[p][j]}
          IN IF J = {} THEN NoEnt
             ELSE [since |-> n, dur |-> Offs[CHOOSE j \in J : \A k \in J : k <= j]]]

TInit == /\ l = 1 /\ now = 0 /\ bad = <<>> /\ notes = <<>>
         /\ ent = [p \in Peers |-> NoEnt]
         /\ hist = [p \in Peers |-> NoHist]
         /\ obs = NoObs
         /\ res = [op |-> "init"]

\* primed variables are bound first and the verdict refers to them: TLC then evaluates each once
TStep == /\ l <= NEvents
         /\ LET e == Trace[l] IN
               /\ l' = l + 1
               /\ now' = PostNow(e, now)
               /\ hist' = PostHist(e, hist, now)
               /\ obs' = ObsOf(e)
               /\ res' = [op |-> e.op]
               /\ LET px == PostEnt(e, ent, now)
                      drift == Predicted(px, now') # obs'
                      cs == Verdict(e, now, hist, now', hist', IF e.op = "reset" THEN NoObs ELSE obs, obs')
                  IN /\ ent' = IF drift THEN EntFromObs(obs', now') ELSE px     \* resynchronise
                     /\ bad' = IF cs = <<>> THEN bad ELSE Append(bad, BadRec(l, e, cs))
                     /\ notes' = IF drift /\ Len(notes) < 20
                                 THEN Append(notes, [line |-> l, scn |-> e.scn, i |-> e.i, op |-> e.op,
                                                     note |-> "blocked instants differ from the max-merge model"])
                                 ELSE notes

TSpec == TInit /\ [][TStep]_<<vars, l, obs, bad, notes>>

Report == ReportBad(l, bad, notes)
=============================================================================
