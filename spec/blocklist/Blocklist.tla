------------------------------- MODULE Blocklist -------------------------------
(* pkg/p2p/libp2p/internal/blocklist: per-peer entry (timestamp, duration) in a   *)
(* state store, maximum-duration merge on Add, lazy expiry on Exists/Peers.       *)
(* Property C25.                                                                  *)
(*                                                                                *)
(* One action per public call (Add, Remove, Exists, Peers) plus the clock (Tick). *)
(* Durations and clock values are natural numbers of an abstract unit; 0 = block  *)
(* forever.  `hist` is the history the *statement* talks about (what was          *)
(* requested since the last removal); `ent` is the mechanism.                     *)
EXTENDS Integers, Sequences, FiniteSets

CONSTANTS Peers,     \* finite set of peers (small integers)
          Durs,      \* durations a caller may request (naturals, 0 = forever)
          Steps,     \* clock increments
          MaxNow     \* bound on the clock (design check / generator only)

VARIABLES now,       \* the clock
          ent,       \* Peers -> NoEnt or [since, dur]     (the stored entry)
          hist,      \* Peers -> summary of the requests since the last Remove
          res        \* what the last call returned

vars == <<now, ent, hist, res>>

NoEnt  == [since |-> -1, dur |-> -1]
NoHist == [any |-> FALSE, forever |-> FALSE, cover |-> -1, lastT |-> -1, maxD |-> -1]

BMax(a, b) == IF a > b THEN a ELSE b

(***************************************************************************)
(* The mechanism (pure; shared with the judge for conformance notes).      *)
(***************************************************************************)
\* Exists/Peers: "timeNow().Sub(timestamp) > duration && duration != 0" means expired
EntBlocked(e, t) == e # NoEnt /\ (e.dur = 0 \/ t - e.since <= e.dur)

\* Add: keep the larger of the stored and the requested duration, forever is absorbing,
\* the timestamp always moves to the time of the call (an expired entry that was
\* not yet deleted still contributes its duration)
AddEnt(e, t, d) ==
  LET old == IF e = NoEnt THEN -1 ELSE e.dur
      nd  == IF (d < old /\ d # 0) \/ old = 0 THEN old ELSE d
  IN [since |-> t, dur |-> nd]

\* Exists deletes an expired entry
ExistsEnt(e, t) == IF e # NoEnt /\ ~EntBlocked(e, t) THEN NoEnt ELSE e

(***************************************************************************)
(* The statement, over the request history (pure; the judge's verdict).    *)
(*  any     - something was requested since the last removal               *)
(*  forever - some request had duration 0                                  *)
(*  cover   - latest end  t + d  of a requested period                     *)
(*  lastT   - latest request time;  maxD - longest requested duration      *)
(***************************************************************************)
HistAdd(h, t, d) ==
  [any |-> TRUE, forever |-> h.forever \/ d = 0,
   cover |-> BMax(h.cover, t + d), lastT |-> t, maxD |-> BMax(h.maxD, d)]

\* for instants t at or after the current clock (every request time is <= t):
InRequestedPeriod(h, t) == h.any /\ ~h.forever /\ t <= h.cover
RequestedForever(h)     == h.any /\ h.forever
NothingRequested(h)     == ~h.any
BeyondLongest(h, t)     == h.any /\ ~h.forever /\ t > h.lastT + h.maxD

MustBlocked(h, t)   == RequestedForever(h) \/ InRequestedPeriod(h, t)
MustUnblocked(h, t) == NothingRequested(h) \/ BeyondLongest(h, t)

(***************************************************************************)
(* Actions.                                                                *)
(***************************************************************************)
Init == /\ now = 0
        /\ ent = [p \in Peers |-> NoEnt]
        /\ hist = [p \in Peers |-> NoHist]
        /\ res = [op |-> "init"]

Add(p, d) == /\ ent' = [ent EXCEPT ![p] = AddEnt(ent[p], now, d)]
             /\ hist' = [hist EXCEPT ![p] = HistAdd(hist[p], now, d)]
             /\ res' = [op |-> "add", p |-> p, d |-> d]
             /\ UNCHANGED now

Remove(p) == /\ ent' = [ent EXCEPT ![p] = NoEnt]
             /\ hist' = [hist EXCEPT ![p] = NoHist]
             /\ res' = [op |-> "remove", p |-> p]
             /\ UNCHANGED now

Exists(p) == /\ ent' = [ent EXCEPT ![p] = ExistsEnt(ent[p], now)]
             /\ res' = [op |-> "exists", p |-> p, res |-> EntBlocked(ent[p], now)]
             /\ UNCHANGED <<now, hist>>

ListPeers == /\ res' = [op |-> "peers", ps |-> {p \in Peers : EntBlocked(ent[p], now)}]
             /\ UNCHANGED <<now, ent, hist>>

Tick(s) == /\ now + s <= MaxNow
           /\ now' = now + s
           /\ res' = [op |-> "tick", s |-> s]
           /\ UNCHANGED <<ent, hist>>

Next == \/ \E p \in Peers, d \in Durs : Add(p, d)
        \/ \E p \in Peers : Remove(p) \/ Exists(p)
        \/ ListPeers
        \/ \E s \in Steps : Tick(s)

Spec == Init /\ [][Next]_vars

(***************************************************************************)
(* Properties (design check).  Instants: from now to beyond every period.  *)
(***************************************************************************)
Far == MaxNow + 1000
Instants == (now .. MaxNow + 12) \cup {Far}

\* blocked during every requested period, forever after a zero duration
BlockedWhenRequested ==
  \A p \in Peers, t \in Instants : MustBlocked(hist[p], t) => EntBlocked(ent[p], t)

\* unblocked as soon as removed; never beyond latest request + longest duration
UnblockedOtherwise ==
  \A p \in Peers, t \in Instants : MustUnblocked(hist[p], t) => ~EntBlocked(ent[p], t)

\* the answers themselves
AnswersOK ==
  /\ res.op = "exists" =>
       /\ MustBlocked(hist[res.p], now) => res.res
       /\ MustUnblocked(hist[res.p], now) => ~res.res
  /\ res.op = "peers" => res.ps = {p \in Peers : EntBlocked(ent[p], now)}

\* an Add never shortens an existing block (pointwise over instants), and touches one peer
AddNeverShortens ==
  [][\A p \in Peers, d \in Durs : Add(p, d) =>
        /\ \A t \in Instants : EntBlocked(ent[p], t) => EntBlocked(ent'[p], t)
        /\ \A q \in Peers \ {p} : ent'[q] = ent[q]]_vars

\* queries only ever delete expired entries: the blocked instants are unchanged
QueriesArePure ==
  [][(res'.op \in {"exists", "peers", "tick"}) =>
        \A p \in Peers, t \in Instants : t >= now' => (EntBlocked(ent[p], t) <=> EntBlocked(ent'[p], t))]_vars

TypeOK == /\ now \in 0..MaxNow
          /\ \A p \in Peers : ent[p] = NoEnt \/ (ent[p].since \in 0..MaxNow /\ ent[p].dur \in Durs)
=============================================================================
