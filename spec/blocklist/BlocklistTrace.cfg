SPECIFICATION TSpec
CONSTANTS
  Peers <- MCPeers
  Durs <- MCDurs
  Steps <- MCSteps
  MaxNow = 1000000
INVARIANT Report
POSTCONDITION AllConsumed
CHECK_DEADLOCK FALSE
