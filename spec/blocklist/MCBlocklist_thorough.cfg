SPECIFICATION Spec
CONSTANTS
  Peers <- MCPeers
  Durs <- MCDurs
  Steps <- MCStepsT
  MaxNow = 8
INVARIANTS TypeOK BlockedWhenRequested UnblockedOtherwise AnswersOK
PROPERTIES AddNeverShortens QueriesArePure
