SPECIFICATION Spec
CONSTANTS
  Peers <- MCPeers
  Durs <- MCDurs
  Steps <- MCStepsT
  MaxNow = 9
INVARIANTS TypeOK BlockedWhenRequested UnblockedOtherwise AnswersOK
PROPERTIES AddNeverShortens QueriesArePure
