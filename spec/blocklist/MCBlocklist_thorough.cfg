SPECIFICATION Spec
CONSTANTS
  Peers <- MCPeers
  Durs <- MCDursT
  Steps <- MCStepsT
  MaxNow = 9
INVARIANTS TypeOK BlockedWhenRequested UnblockedOtherwise AnswersOK
PROPERTIES AddNeverShortens QueriesArePure
