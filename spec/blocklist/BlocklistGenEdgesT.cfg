SPECIFICATION GSpec
CONSTANTS
  Peers <- MCPeers
  Durs <- MCDurs
  Steps <- MCSteps
  MaxNow = 8
VIEW EdgeView
INVARIANT EmitAll
CHECK_DEADLOCK FALSE
