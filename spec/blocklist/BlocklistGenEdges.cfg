SPECIFICATION GSpec
CONSTANTS
  Peers <- MCPeers
  Durs <- MCDurs
  Steps <- MCSteps
  MaxNow = 3
VIEW EdgeView
INVARIANT EmitAll
CHECK_DEADLOCK FALSE
