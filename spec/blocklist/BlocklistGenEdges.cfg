SPECIFICATION GSpec
CONSTANTS
  Peers <- MCPeers
  Durs <- MCDurs
  Steps <- MCSteps
  MaxNow = 4
VIEW EdgeView
INVARIANT EmitAll
CHECK_DEADLOCK FALSE
