SPECIFICATION GSpec
CONSTANTS
  Peers <- MCPeers
  Durs <- MCDursT
  Steps <- MCStepsT
  MaxNow = 100000
INVARIANT EmitFull
CHECK_DEADLOCK FALSE
