---------------------------- MODULE BlocklistGen ----------------------------
(* Scenario generator for C25: Blocklist's actions plus the operation list.    *)
(*  edges (cfg with VIEW): one shortest history per (mechanism state, call)    *)
(*  sim   (tlc -simulate): random walks of length Depth                        *)
EXTENDS Blocklist, TLC, Json, IOUtils
VARIABLE ops

MCPeers == {1, 2}
MCDurs  == {0, 1, 3, 10}
MCSteps == {1, 2, 5}
MCDursT  == {0, 1, 2, 3, 7, 10}
MCStepsT == {1, 2, 3, 5, 11}

Depth == IF "VERIF_DEPTH" \in DOMAIN IOEnv THEN atoi(IOEnv.VERIF_DEPTH) ELSE 6

\* what the driver needs of a call: its name and arguments (not the model's answer)
Op(r) == CASE r.op = "exists" -> [op |-> "exists", p |-> r.p]
           [] r.op = "peers"  -> [op |-> "peers"]
           [] OTHER           -> r

GInit == Init /\ ops = <<>>
GNext == /\ Len(ops) < Depth
         /\ Next
         /\ ops' = Append(ops, Op(res'))
GSpec == GInit /\ [][GNext]_<<vars, ops>>

\* mechanism state + last call: the request history is a function of the path and left out
EdgeView == <<now, ent, res>>

EmitAll  == ops # <<>> => PrintT(<<"SCN", ToJson(ops)>>)
EmitFull == Len(ops) = Depth => PrintT(<<"SCN", ToJson(ops)>>)
=============================================================================
