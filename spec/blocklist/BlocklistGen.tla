---------------------------- MODULE BlocklistGen ----------------------------
(* Scenario generator for C25: Blocklist's actions plus the operation list.    *)
(*  edges (cfg with VIEW): one shortest history per (mechanism state, call)    *)
(*  sim   (tlc -simulate): random walks of length Depth                        *)
EXTENDS Blocklist, TLC, Json, IOUtils
VARIABLES ops, pre

MCPeers == {1, 2}
MCDurs  == {0, 1, 3, 10}
MCSteps == {1, 2, 5}
MCDursT  == {0, 1, 2, 3, 7, 10}
MCStepsT == {1, 2, 3, 5, 11}

Depth == IF "VERIF_DEPTH" \in DOMAIN IOEnv THEN atoi(IOEnv.VERIF_DEPTH) ELSE 6

\* what the driver needs of a call: its name and arguments (not the model's answer)
Op(r) == CASE r.op = "exists" -> [op |-> "exists", p |-> r.p]
           [] r.op = "peers"  -> [op |-> "peers"]
           [] OTHER           -> r

\* `pre` is the mechanism state the last call started from
GInit == Init /\ ops = <<>> /\ pre = <<>>
GNext == /\ Len(ops) < Depth
         /\ Next
         /\ ops' = Append(ops, Op(res'))
         /\ pre' = <<now, ent>>
GSpec == GInit /\ [][GNext]_<<vars, ops, pre>>

\* source state + call (+ target state): one history per (source state, call) edge -- a cover per
\* (target state, call) would keep `remove` of an absent entry and drop `remove` of a present one.
\* The request history is a function of the path and left out.
EdgeView == <<now, ent, pre, res>>

EmitAll  == ops # <<>> => PrintT(<<"SCN", ToJson(ops)>>)
EmitFull == Len(ops) = Depth => PrintT(<<"SCN", ToJson(ops)>>)
=============================================================================
