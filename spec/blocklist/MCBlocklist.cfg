SPECIFICATION Spec
CONSTANTS
  Peers <- MCPeers
  Durs <- MCDurs
  Steps <- MCSteps
  MaxNow = 5
INVARIANTS TypeOK BlockedWhenRequested UnblockedOtherwise AnswersOK
PROPERTIES AddNeverShortens QueriesArePure
