SPECIFICATION GSpecB
CONSTANTS
  Addr <- GAddrB
  Roots <- GRootsB
  MaxPin = 2
VIEW EdgeView
INVARIANT EmitAll
CHECK_DEADLOCK FALSE
