SPECIFICATION SpecB
CONSTANTS
  Addr <- BAddr
  Roots <- QRoots
  MaxPin = 2
INVARIANTS TypeOK C11_Exist C11_BatchIsSequence
PROPERTIES C11_Frame C14_GCKeepsPinned
