SPECIFICATION GSpec
CONSTANTS
  Addr <- GAddr
  Roots <- GRoots
  MaxPin = 2
VIEW EdgeView
INVARIANT EmitAll
CHECK_DEADLOCK FALSE
