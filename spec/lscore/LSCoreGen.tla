------------------------------ MODULE LSCoreGen ------------------------------
EXTENDS LSCore, Json, IOUtils
VARIABLES hist, pre   \* pre: model state before the last operation (edge cover is per SOURCE state)
GAddr == {"A", "B"}
GAddr3 == {"A", "B", "C"}
GRoots == {"-", "A", "R"}
Depth == IF "VERIF_DEPTH" \in DOMAIN IOEnv THEN atoi(IOEnv.VERIF_DEPTH) ELSE 4
Mode == IF "VERIF_LSMODE" \in DOMAIN IOEnv THEN IOEnv.VERIF_LSMODE ELSE "c11"

Op(r) == IF r.op = "put" /\ "size" \in DOMAIN r THEN [op |-> "put", mode |-> r.mode, root |-> r.root, chs |-> r.chs, size |-> r.size]
         ELSE IF r.op = "put" THEN [op |-> "put", mode |-> r.mode, root |-> r.root, chs |-> r.chs]
         ELSE IF r.op = "get" THEN [op |-> "get", mode |-> r.mode, a |-> r.a]
         ELSE r

GInit == Init /\ hist = <<>> /\ pre = <<>>
GNext == /\ Len(hist) < Depth
         /\ IF Mode = "c14" THEN NextC14 ELSE IF Mode = "c14f" THEN NextC14F ELSE NextC11
         /\ hist' = Append(hist, Op(res'))
         /\ pre' = <<m, pin, cached>>
GSpec == GInit /\ [][GNext]_<<vars, hist, pre>>
\* focused C14 generator: start where the file context "A" already counts two cached chunks (from then on
\* pinning under that context rewrites the gc entry outside the batch, i.e. operations have several storage writes)
FPrefix == << [op |-> "put", mode |-> "request", root |-> "A", chs |-> <<<<"A", 1>>>>],
              [op |-> "put", mode |-> "request", root |-> "A", chs |-> <<<<"B", 1>>>>] >>
GInitF == /\ m = [a \in Addr |-> IF a \in {"A", "B"} THEN 1 ELSE Absent]
          /\ pin = [a \in Addr |-> 0]
          /\ cached = [r \in Roots |-> IF r = "A" THEN {"A", "B"} ELSE {}]
          /\ res = [op |-> "init"] /\ hist = FPrefix /\ pre = <<>>
GNextF == /\ Len(hist) < Depth /\ NextC14F /\ hist' = Append(hist, Op(res')) /\ pre' = <<m, pin, cached>>
GSpecF == GInitF /\ [][GNextF]_<<vars, hist, pre>>
\* large-batch C14 generator: one put call of BulkN full-size chunks (20 MiB for 80) per history, so that any
\* size-dependent splitting of the call's storage batch becomes a crash point; edge cover over the small machine
\* NextC14B. VERIF_LSBULK = "q": pinning upload without a context and request put under a stored root only.
BulkN == IF "VERIF_BULKN" \in DOMAIN IOEnv THEN atoi(IOEnv.VERIF_BULKN) ELSE 80
BulkSel == IF "VERIF_LSBULK" \in DOMAIN IOEnv THEN IOEnv.VERIF_LSBULK ELSE "q"
GAddrB == {"A"} \cup {BulkName(i) : i \in 1..BulkN}
GRootsB == {"-", "A"}
\* "q": the pinning upload without a context on the empty store, the request put under a context right after its
\* root was stored, and nothing after the bulk put; otherwise every mode/context and one more operation on the bulk chunks
BulkCase(mode, root) == BulkSel # "q" \/ (<<mode, root>> \in {<<"uploadpin", "-">>, <<"request", "A">>} /\ (root = "-") = (m["A"] = Absent))
GNextB == /\ Len(hist) < Depth
          /\ NextC14B(BulkN, PutModes, GRootsB)
          /\ (res'.op = "put" /\ "size" \in DOMAIN res') => BulkCase(res'.mode, res'.root)
          /\ BulkSel = "q" => m[BulkName(1)] = Absent
          /\ hist' = Append(hist, Op(res'))
          /\ pre' = <<m, pin, cached>>
GSpecB == GInit /\ [][GNextB]_<<vars, hist, pre>>
EdgeView == <<pre, m, pin, cached, res>>
Scn == [par |-> [mode |-> IF Mode = "c11" THEN "c11" ELSE "c14"], ops |-> hist]
EmitAll  == hist # <<>> => PrintT(<<"SCN", ToJson(Scn)>>)
EmitFull == Len(hist) = Depth => PrintT(<<"SCN", ToJson(Scn)>>)
==============================================================================
