------------------------------ MODULE LSCoreGen ------------------------------
EXTENDS LSCore, Json, IOUtils
VARIABLE hist
GAddr == {"A", "B"}
GAddr3 == {"A", "B", "C"}
GRoots == {"-", "A", "R"}
Depth == IF "VERIF_DEPTH" \in DOMAIN IOEnv THEN atoi(IOEnv.VERIF_DEPTH) ELSE 4
Mode == IF "VERIF_LSMODE" \in DOMAIN IOEnv THEN IOEnv.VERIF_LSMODE ELSE "c11"

Op(r) == IF r.op = "put" THEN [op |-> "put", mode |-> r.mode, root |-> r.root, chs |-> r.chs]
         ELSE IF r.op = "get" THEN [op |-> "get", mode |-> r.mode, a |-> r.a]
         ELSE r

GInit == Init /\ hist = <<>>
GNext == /\ Len(hist) < Depth
         /\ IF Mode = "c14" THEN NextC14 ELSE IF Mode = "c14f" THEN NextC14F ELSE NextC11
         /\ hist' = Append(hist, Op(res'))
GSpec == GInit /\ [][GNext]_<<vars, hist>>
EdgeView == <<m, pin, cached, res>>
Scn == [par |-> [mode |-> IF Mode = "c11" THEN "c11" ELSE "c14"], ops |-> hist]
EmitAll  == hist # <<>> => PrintT(<<"SCN", ToJson(Scn)>>)
EmitFull == Len(hist) = Depth => PrintT(<<"SCN", ToJson(Scn)>>)
==============================================================================
