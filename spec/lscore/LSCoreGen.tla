------------------------------ MODULE LSCoreGen ------------------------------
EXTENDS LSCore, Json, IOUtils
VARIABLES hist, pre   \* pre: model state before the last operation (edge cover is per SOURCE state)
GAddr == {"A", "B"}
GAddr3 == {"A", "B", "C"}
GRoots == {"-", "A", "R"}
Depth == IF "VERIF_DEPTH" \in DOMAIN IOEnv THEN atoi(IOEnv.VERIF_DEPTH) ELSE 4
Mode == IF "VERIF_LSMODE" \in DOMAIN IOEnv THEN IOEnv.VERIF_LSMODE ELSE "c11"

Op(r) == IF r.op = "put" THEN [op |-> "put", mode |-> r.mode, root |-> r.root, chs |-> r.chs]
         ELSE IF r.op = "get" THEN [op |-> "get", mode |-> r.mode, a |-> r.a]
         ELSE r

GInit == Init /\ hist = <<>> /\ pre = <<>>
GNext == /\ Len(hist) < Depth
         /\ IF Mode = "c14" THEN NextC14 ELSE IF Mode = "c14f" THEN NextC14F ELSE NextC11
         /\ hist' = Append(hist, Op(res'))
         /\ pre' = <<m, pin, cached>>
GSpec == GInit /\ [][GNext]_<<vars, hist, pre>>
\* focused C14 generator: start where the file context "A" already counts two cached chunks (from then on
\* pinning under that context rewrites the gc entry outside the batch, i.e. operations have several storage writes)
FPrefix == << [op |-> "put", mode |-> "request", root |-> "A", chs |-> <<<<"A", 1>>>>],
              [op |-> "put", mode |-> "request", root |-> "A", chs |-> <<<<"B", 1>>>>] >>
GInitF == /\ m = [a \in Addr |-> IF a \in {"A", "B"} THEN 1 ELSE Absent]
          /\ pin = [a \in Addr |-> 0]
          /\ cached = [r \in Roots |-> IF r = "A" THEN {"A", "B"} ELSE {}]
          /\ res = [op |-> "init"] /\ hist = FPrefix /\ pre = <<>>
GNextF == /\ Len(hist) < Depth /\ NextC14F /\ hist' = Append(hist, Op(res')) /\ pre' = <<m, pin, cached>>
GSpecF == GInitF /\ [][GNextF]_<<vars, hist, pre>>
EdgeView == <<pre, m, pin, cached, res>>
Scn == [par |-> [mode |-> IF Mode = "c11" THEN "c11" ELSE "c14"], ops |-> hist]
EmitAll  == hist # <<>> => PrintT(<<"SCN", ToJson(Scn)>>)
EmitFull == Len(hist) = Depth => PrintT(<<"SCN", ToJson(Scn)>>)
==============================================================================
