SPECIFICATION GSpec
CONSTANTS
  Addr <- GAddr3
  Roots <- GRoots
  MaxPin = 3
INVARIANT EmitFull
CHECK_DEADLOCK FALSE
