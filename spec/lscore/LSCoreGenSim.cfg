SPECIFICATION GSpec
CONSTANTS
  Addr <- GAddr
  Roots <- GRoots
  MaxPin = 3
INVARIANT EmitFull
CHECK_DEADLOCK FALSE
