SPECIFICATION TSpec
CONSTANTS
  Addr <- TAddr
  Roots <- TRoots
  MaxPin = 9
INVARIANT Report
POSTCONDITION AllConsumed
CHECK_DEADLOCK FALSE
