------------------------------ MODULE MCLSCore ------------------------------
EXTENDS LSCore
MCAddr == {"A", "B"}
MCRoots == {"-", "A", "R"}
QRoots == {"-", "A"}
BAddr == {"A", "K1", "K2"}   \* large-batch design check: one ordinary chunk (the context root) and two bulk chunks
=============================================================================
