------------------------------- MODULE LSCore -------------------------------
(* pkg/localstore.DB alone, at the level of its public calls (C11) and of    *)
(* its storage writes (C14).                                                 *)
(*                                                                           *)
(* C11: for any history of puts (every mode, single or batched, with or      *)
(* without a file context), lookups, pins and removals, a chunk is present   *)
(* with its exact bytes iff it was put and not removed since; a put reports  *)
(* "already existed" exactly for chunks already present; a batched put has   *)
(* the effect of the single puts.                                            *)
(* C14: every operation is a sequence of storage-driver writes (direct puts  *)
(* and batch commits); a crash keeps a prefix; reopening must find every     *)
(* chunk entirely before or entirely after the interrupted operation.        *)
EXTENDS Integers, Sequences, FiniteSets, TLC

CONSTANTS Addr,      \* chunk addresses
          Roots,     \* file contexts a call may carry ("-" = none)
          MaxPin     \* bound on pin counters (model checking only)

Vars2 == {1, 2}      \* two payloads per address (a second put must not overwrite)
Absent == 0

VARIABLES m,     \* Addr -> 0 (absent) | payload variant stored
          pin,   \* Addr -> pin counter
          cached,\* Root -> chunks put by request under that context (feeds the chunk-info stub / gc)
          res    \* what the caller observed

vars == <<m, pin, cached, res>>

PutModes == {"request", "requestpin", "upload", "uploadpin"}
GetModes == {"request", "sync", "lookup"}
SetModes == {"pin", "unpin", "remove"}   \* ModeSetSync is a legacy mode no property talks about

(***************************************************************************)
(* Pure operators shared with the judge                                    *)
(***************************************************************************)
\* exist flags of a put of the chunk list chs = << <<addr, variant>>, ... >>
ExistFlags(s, chs) == [i \in DOMAIN chs |-> s[chs[i][1]] # Absent \/ \E j \in 1..(i-1) : chs[j][1] = chs[i][1]]

\* the store after the put: absent addresses take the variant of their first occurrence
RECURSIVE PutAll(_, _, _)
PutAll(s, chs, i) == IF i > Len(chs) THEN s
                     ELSE PutAll(IF s[chs[i][1]] = Absent THEN [s EXCEPT ![chs[i][1]] = chs[i][2]] ELSE s, chs, i + 1)
PutPost(s, chs) == PutAll(s, chs, 1)

\* removal: a chunk whose pin counter is above one only loses one pin (documented at setRemove)
RemovePost(s, a, pinBefore) == IF s[a] # Absent /\ pinBefore <= 1 THEN [s EXCEPT ![a] = Absent] ELSE s

Init == /\ m = [a \in Addr |-> Absent] /\ pin = [a \in Addr |-> 0]
        /\ cached = [r \in Roots |-> {}] /\ res = [op |-> "init"]

ChunkLists == {<<<<a, v>>>> : a \in Addr, v \in Vars2}
              \cup {<<<<a, 1>>, <<b, v>>>> : a \in Addr, b \in Addr, v \in Vars2}
              \cup {<<<<a, 1>>, <<b, 1>>, <<a, 2>>>> : a \in Addr, b \in Addr}

PutBody(mode, root, chs) ==
  LET new == {chs[i][1] : i \in {j \in DOMAIN chs : m[chs[j][1]] = Absent}} IN
  /\ m' = PutPost(m, chs)
  /\ pin' = [a \in Addr |->
               IF mode = "uploadpin" /\ a \in {chs[i][1] : i \in DOMAIN chs} THEN pin[a] + 1
               ELSE IF mode = "requestpin" /\ a \in new THEN pin[a] + 1 ELSE pin[a]]
  /\ \A a \in Addr : pin'[a] <= MaxPin
  /\ cached' = IF mode = "request" /\ root # "-" THEN [cached EXCEPT ![root] = @ \cup new] ELSE cached
Put(mode, root, chs) ==
  /\ PutBody(mode, root, chs)
  /\ res' = [op |-> "put", mode |-> mode, root |-> root, chs |-> chs, exist |-> ExistFlags(m, chs)]

\* C14, large batches: ONE put call of n distinct chunks that all carry a full-size (256 KiB) payload. For the
\* contract it is a put of a long list; it is an action of its own because the amount of data the single storage
\* batch of the call has to carry is what is being exercised: the call must still be one step for a crash.
\* Bulk addresses are "K1", "K2", ... (enabled only where the address universe contains them).
BulkName(i) == "K" \o ToString(i)
BulkChs(n) == [i \in 1..n |-> <<BulkName(i), 1>>]
PutBulk(mode, root, n) ==
  /\ n >= 1 /\ \A i \in 1..n : BulkName(i) \in Addr
  /\ PutBody(mode, root, BulkChs(n))
  /\ res' = [op |-> "put", mode |-> mode, root |-> root, chs |-> BulkChs(n), exist |-> ExistFlags(m, BulkChs(n)), size |-> "full"]

Get(mode, a) == /\ UNCHANGED <<m, pin, cached>>
                /\ res' = [op |-> "get", mode |-> mode, a |-> a, v |-> m[a]]

GetMulti(mode, as) == /\ UNCHANGED <<m, pin, cached>>
                      /\ res' = [op |-> "getmulti", mode |-> mode, as |-> as]

Has(a) == UNCHANGED <<m, pin, cached>> /\ res' = [op |-> "has", a |-> a]
HasMulti(as) == UNCHANGED <<m, pin, cached>> /\ res' = [op |-> "hasmulti", as |-> as]

SetOne(mode, root, a) ==
  /\ CASE mode = "pin"    -> /\ m[a] # Absent => pin' = [pin EXCEPT ![a] = @ + 1]
                             /\ m[a] = Absent => pin' = pin
                             /\ m' = m
       [] mode = "unpin"  -> /\ pin' = [pin EXCEPT ![a] = IF @ > 0 THEN @ - 1 ELSE 0]
                             /\ m' = m
       [] mode = "remove" -> /\ m' = RemovePost(m, a, pin[a])
                             /\ pin' = [pin EXCEPT ![a] = IF m[a] # Absent /\ @ > 0 THEN @ - 1 ELSE @]
       [] OTHER           -> UNCHANGED <<m, pin>>
  /\ \A b \in Addr : pin'[b] <= MaxPin
  /\ cached' = IF mode = "remove" /\ m'[a] = Absent THEN [r \in Roots |-> cached[r] \ {a}] ELSE cached
  /\ res' = [op |-> "set", mode |-> mode, root |-> root, as |-> <<a>>]

\* a two-address call: only generated when it cannot fail half-way (both present)
SetTwo(mode, root, a, b) ==
  /\ a # b /\ m[a] # Absent /\ m[b] # Absent /\ mode = "pin"
  /\ pin' = IF mode = "pin" THEN [pin EXCEPT ![a] = @ + 1, ![b] = @ + 1] ELSE pin
  /\ \A c \in Addr : pin'[c] <= MaxPin
  /\ UNCHANGED <<m, cached>>
  /\ res' = [op |-> "set", mode |-> mode, root |-> root, as |-> <<a, b>>]

\* a collection run (C14 histories only): evicts cached contexts; pinned chunks stay
Collect(cap) ==
  LET victims == {a \in UNION {cached[r] : r \in Roots} : pin[a] = 0} IN
  /\ m' = [a \in Addr |-> IF a \in victims THEN Absent ELSE m[a]]
  /\ cached' = [r \in Roots |-> {}]
  /\ UNCHANGED pin
  /\ res' = [op |-> "gc", cap |-> cap]

NextC11 == \/ \E mode \in PutModes, root \in Roots, chs \in ChunkLists : Put(mode, root, chs)
           \/ \E mode \in GetModes, a \in Addr : Get(mode, a)
           \/ \E mode \in GetModes, a \in Addr, b \in Addr : GetMulti(mode, <<a, b>>)
           \/ \E a \in Addr : Has(a)
           \/ \E a \in Addr, b \in Addr : HasMulti(<<a, b>>)
           \/ \E mode \in SetModes, root \in Roots, a \in Addr : SetOne(mode, root, a)
           \/ \E mode \in SetModes, root \in Roots, a \in Addr, b \in Addr : SetTwo(mode, root, a, b)

NextC14 == \/ \E mode \in PutModes, root \in Roots, chs \in ChunkLists : Put(mode, root, chs)
           \/ \E mode \in SetModes, root \in Roots, a \in Addr : SetOne(mode, root, a)
           \/ \E mode \in SetModes, root \in Roots, a \in Addr, b \in Addr : SetTwo(mode, root, a, b)
           \/ \E cap \in {1, 2} : Collect(cap)

\* C14, focused: everything under one file context, where operations consist of several storage writes
\* (the file's gc entry is rewritten outside the batch once it counts more than one cached chunk)
Singles == {<<<<a, v>>>> : a \in Addr, v \in {1}}
NextC14F == \/ \E mode \in {"request", "requestpin", "uploadpin"}, chs \in Singles : Put(mode, "A", chs)
            \/ \E mode \in {"request", "requestpin"}, a \in Addr, b \in Addr : a # b /\ Put(mode, "A", <<<<a, 1>>, <<b, 1>>>>)
            \/ \E mode \in SetModes, a \in Addr : SetOne(mode, "A", a)
            \/ \E a \in Addr, b \in Addr : SetTwo("pin", "A", a, b)
            \/ \E cap \in {1, 2} : Collect(cap)

\* C14, large batches: bulk puts (every mode; without a context and under the context of a stored chunk "A"),
\* a small put that stores the context's root first, and operations on the bulk chunks afterwards
NextC14B(n, modes, roots) ==
           \/ \E mode \in modes, root \in roots :
                 /\ root # "-" => m[root] # Absent      \* a request put under an unstored root fails before it stores anything
                 /\ m[BulkName(1)] = Absent             \* one bulk put per history
                 /\ PutBulk(mode, root, n)
           \/ m["A"] = Absent /\ Put("request", "A", <<<<"A", 1>>>>)
           \/ \E mode \in SetModes, root \in roots : m[BulkName(1)] # Absent /\ SetOne(mode, root, BulkName(1))
           \/ m[BulkName(1)] # Absent /\ Collect(1)

Next == NextC11 \/ NextC14 \/ \E mode \in PutModes, root \in Roots, n \in 1..2 : PutBulk(mode, root, n)
Spec == Init /\ [][Next]_vars
\* the large-batch histories alone (design check over a universe that holds bulk addresses: MCLSCoreB.cfg)
SpecB == Init /\ [][NextC14B(2, PutModes, Roots)]_vars

(***************************************************************************)
(* Properties of the design                                                *)
(***************************************************************************)
TypeOK == m \in [Addr -> {0, 1, 2}] /\ pin \in [Addr -> 0..MaxPin]

\* presence changes only by put (absent -> present, first variant wins) and remove / gc
C11_Frame == [][\A a \in Addr :
                  /\ (m[a] = Absent /\ m'[a] # Absent) => res'.op = "put" /\ \E i \in DOMAIN res'.chs : res'.chs[i] = <<a, m'[a]>>
                  /\ (m[a] # Absent /\ m'[a] # m[a]) => (m'[a] = Absent /\ res'.op \in {"set", "gc"})]_vars

\* exist flags are exact
C11_Exist == res.op = "put" =>
               \A i \in DOMAIN res.chs : res.exist[i] => m[res.chs[i][1]] # Absent

\* a batched put equals the sequence of single puts
RECURSIVE SeqPut(_, _, _)
SeqPut(s, chs, i) == IF i > Len(chs) THEN s ELSE SeqPut(PutPost(s, <<chs[i]>>), chs, i + 1)
C11_BatchIsSequence == \A chs \in ChunkLists : PutPost(m, chs) = SeqPut(m, chs, 1)

\* a collection never removes a pinned chunk
C14_GCKeepsPinned == [][res'.op = "gc" => \A a \in Addr : (pin[a] > 0 /\ m[a] # Absent) => m'[a] = m[a]]_vars
=============================================================================
