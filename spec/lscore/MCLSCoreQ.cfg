SPECIFICATION Spec
CONSTANTS
  Addr <- MCAddr
  Roots <- QRoots
  MaxPin = 1
INVARIANTS TypeOK C11_Exist C11_BatchIsSequence
PROPERTIES C11_Frame C14_GCKeepsPinned
