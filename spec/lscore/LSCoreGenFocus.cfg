SPECIFICATION GSpecF
CONSTANTS
  Addr <- GAddr3
  Roots <- GRoots
  MaxPin = 2
VIEW EdgeView
INVARIANT EmitAll
CHECK_DEADLOCK FALSE
