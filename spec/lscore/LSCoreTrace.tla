----------------------------- MODULE LSCoreTrace -----------------------------
(* Judge for C11 and C14 over recordings of harness/cmd/lscoredrv.            *)
EXTENDS LSCore, TraceKit

\* "K1", "K2", ...: the chunks of large-batch puts (LSCore!PutBulk); a recording mentions them only in such histories
TBulkMax == 160
TAddr == {"A", "B", "C"} \cup {BulkName(i) : i \in 1..TBulkMax}
TRoots == {"-", "A", "R"}
\* every address the recording projects: "A", "B", "C", "R" and the bulk chunks of the history
Universe(e) == DOMAIN e.st.per

VARIABLES l, bad, prev, agree
tvars == <<vars, l, bad, prev, agree>>

ToSetT(s) == {s[i] : i \in DOMAIN s}
ObsM(st) == [a \in Addr |->
               LET J == {i \in DOMAIN st.data : st.data[i][1] = a}
               IN IF J = {} THEN Absent ELSE st.data[CHOOSE i \in J : TRUE][2]]
PinBefore(st, a) == st.per[a][4]

\* what the statement lets a caller compare between two stores
Same(x, y) == /\ ToSetT(x.data) = ToSetT(y.data) /\ ToSetT(x.pin) = ToSetT(y.pin)
              /\ ToSetT(x.gcroots) = ToSetT(y.gcroots) /\ x.gcsize = y.gcsize
\* the same without pin counters: what a pinning put does for an address that occurs twice in one call
\* is not settled by the statement (the code documents only storage and the exist flags for that case)
\* (pinning under a file context also moves that file's cached-chunk count, so neither is compared then)
SameNoPin(x, y) == ToSetT(x.data) = ToSetT(y.data)
Distinct(chs) == \A i, j \in DOMAIN chs : i # j => chs[i][1] # chs[j][1]

Post(e, s) ==
  CASE e.op = "put" /\ e.err = "" -> PutPost(s, e.chs)
    [] e.op = "set" /\ e.mode = "remove" /\ ~e.failed /\ Len(e.as) = 1 -> RemovePost(s, e.as[1], PinBefore(prev, e.as[1]))
    [] e.op \in {"gc", "crash"} -> IF e.op = "gc" THEN ObsM(e.st) ELSE s
    [] OTHER -> s

C11(e, pre, post) ==
  IF e.op = "crash" THEN <<>> ELSE
     (IF e.op = "put"
      THEN    \* a put may fail (e.g. a request put under a file context whose root chunk is not stored);
              \* then nothing may have been stored: covered by present_iff_put_and_not_removed with post = pre
              Clause("C11:put_reports_already_existed_exactly", e.err = "" => e.exist = ExistFlags(pre, e.chs))
           \o (IF "tw" \in DOMAIN e /\ Len(e.chs) > 1 /\ agree
               THEN Clause("C11:batched_put_equals_single_puts",
                           IF Distinct(e.chs) \/ e.mode \in {"request", "upload"}
                           THEN Same(e.st, e.tw) ELSE SameNoPin(e.st, e.tw)) ELSE <<>>)
      ELSE <<>>)
  \o (IF e.op = "get"
      THEN Clause("C11:get_returns_exact_bytes_iff_present",
                  e.err = "" /\ e.found = (pre[e.a] # Absent) /\ (e.found => e.v = pre[e.a]))
      ELSE <<>>)
  \o (IF e.op = "getmulti"
      THEN Clause("C11:getmulti_returns_exact_bytes_iff_all_present",
                  e.err = "" /\ e.ok = (\A i \in DOMAIN e.as : pre[e.as[i]] # Absent)
                  /\ (e.ok => \A i \in DOMAIN e.as : e.vs[i] = pre[e.as[i]]))
      ELSE <<>>)
  \o (IF e.op = "has" THEN Clause("C11:has_iff_present", e.has = (pre[e.a] # Absent)) ELSE <<>>)
  \o (IF e.op = "hasmulti"
      THEN Clause("C11:has_iff_present", \A i \in DOMAIN e.as : e.has[i] = (pre[e.as[i]] # Absent))
      ELSE <<>>)
  \o (IF e.op # "gc" THEN Clause("C11:present_iff_put_and_not_removed", ObsM(e.st) = post) ELSE <<>>)

C14(e) ==
  IF e.op # "crash" THEN <<>> ELSE
     Clause("C14:store_reopens_after_crash", e.reopened)
  \o (IF e.reopened
      THEN    Clause("C14:chunk_entirely_before_or_after",
                     \A a \in Universe(e) : e.st.per[a] = e.pre.per[a] \/ e.st.per[a] = e.post.per[a])
           \o Clause("C14:pin_count_before_or_after",
                     \A a \in Universe(e) : e.st.per[a][4] \in {e.pre.per[a][4], e.post.per[a][4]})
           \o Clause("C14:counter_at_least_recomputed_total", e.st.gcsize >= e.st.gcsum)
      ELSE <<>>)

\* clauses of the accounting / collection properties that are visible at this level (multi-address Set calls,
\* pinning puts under a file context and similar histories are only reachable through the store's own API)
PinSetT(st) == ToSetT(st.pin)
C13(e) == IF e.op = "crash" THEN <<>>
          ELSE Clause("C13:counter_equals_recorded_total",           \* relative: only the step that breaks it
                      prev.gcsize = prev.gcsum => e.st.gcsize = e.st.gcsum)
C12(e) == IF e.op # "gc" THEN <<>>
          ELSE    Clause("C12:gc_keeps_pinned_chunks",
                         \A a \in Addr \cap DOMAIN prev.per : (prev.per[a][4] > 0 /\ prev.per[a][1] # 0) => e.st.per[a][1] = prev.per[a][1])
               \o Clause("C12:gc_changes_no_pin_count", PinSetT(e.st) = PinSetT(prev))

TInit == /\ l = 1 /\ bad = <<>> /\ prev = [x |-> 0] /\ agree = TRUE
         /\ m = [a \in Addr |-> Absent] /\ pin = [a \in Addr |-> 0] /\ cached = [r \in Roots |-> {}] /\ res = [op |-> "init"]

TStep ==
  /\ l <= NEvents
  /\ l' = l + 1
  /\ LET e == Trace[l] IN
     IF e.op = "reset"
     THEN /\ m' = [a \in Addr |-> Absent] /\ prev' = e.st /\ agree' = TRUE /\ bad' = bad
          /\ UNCHANGED <<pin, cached>> /\ res' = [op |-> "reset"]
     ELSE LET post == Post(e, m)
              cs == C11(e, m, post) \o C14(e) \o C13(e) \o C12(e)
          IN /\ bad' = IF cs = <<>> THEN bad
                         ELSE Append(bad, BadRecI(l, e, cs, [prevgcroots |-> IF "gcroots" \in DOMAIN prev THEN prev.gcroots ELSE <<>>,
                                                        prevgc |-> IF "gc" \in DOMAIN prev THEN prev.gc ELSE <<>>]))
             /\ m' = IF e.op = "crash" THEN m ELSE IF cs = <<>> THEN post ELSE ObsM(e.st)   \* resynchronise
             /\ prev' = IF e.op = "crash" THEN prev ELSE e.st
             /\ agree' = IF "tw" \in DOMAIN e THEN Same(e.st, e.tw) ELSE agree
             /\ UNCHANGED <<pin, cached>> /\ res' = [op |-> e.op]

TSpec == TInit /\ [][TStep]_tvars
Report == ReportBad(l, bad, <<>>)
==============================================================================
