SPECIFICATION Spec
CONSTANTS
  Addr <- MCAddr
  Roots <- MCRoots
  MaxPin = 2
INVARIANTS TypeOK C11_Exist C11_BatchIsSequence
PROPERTIES C11_Frame C14_GCKeepsPinned
