SPECIFICATION TSpec
CONSTANTS
  Keys <- MCKeys
  Vals <- MCVals
  Pfx <- MCPfx
INVARIANT Report
POSTCONDITION AllConsumed
CHECK_DEADLOCK FALSE
