SPECIFICATION GSpec
CONSTANTS
  Keys <- MCKeys
  Vals <- MCVals
  Pfx <- MCPrefixes
VIEW EdgeView
INVARIANT EmitAll
CHECK_DEADLOCK FALSE
