--------------------------------- MODULE KV ---------------------------------
(* State stores (pkg/statestore/leveldb, pkg/statestore/mock) as one          *)
(* persistent string-keyed map with prefix iteration.  Property C18.          *)
(*                                                                            *)
(* Keys are sequences of byte codes.  One action per public call of           *)
(* storage.StateStorer; Reopen closes and reopens a persistent store.         *)
EXTENDS Integers, Sequences, FiniteSets, SequencesExt, Lex

CONSTANTS Keys,      \* finite set of keys (sequences of byte codes)
          Vals,      \* finite set of values (positive integers)
          Pfx   \* prefixes used by Iterate

None == 0            \* "absent"

VARIABLES m,         \* the map: Keys -> Vals \cup {None}
          res        \* result of the last call (what the caller observes)

vars == <<m, res>>

Empty == [k \in Keys |-> None]

(***************************************************************************)
(* Pure definitions, shared with the trace specification.                  *)
(***************************************************************************)
Present(s) == {k \in Keys : s[k] # None}

\* keys matching a prefix, in ascending byte order
Matching(s, p) == LexSort({k \in Present(s) : IsPrefixOf(p, k)})

\* Iterate with a callback script: kind \in {"none","stop","err","stoperr"}; the callback
\* asks to stop / returns an error / does both (the usual "abort" idiom: return true, err)
\* at its at-th invocation.
IterVisited(s, p, kind, at) ==
  LET all == Matching(s, p)
  IN IF kind = "none" \/ at > Len(all) THEN all ELSE SubSeq(all, 1, at)

IterErr(s, p, kind, at) == kind \in {"err", "stoperr"} /\ at <= Len(Matching(s, p))

PutIn(s, k, v) == [s EXCEPT ![k] = v]
DelIn(s, k)    == [s EXCEPT ![k] = None]

(***************************************************************************)
(* Actions.                                                                *)
(***************************************************************************)
Init == m = Empty /\ res = [op |-> "init"]

Put(k, v) == /\ m' = PutIn(m, k, v)
             /\ res' = [op |-> "put", k |-> k, v |-> v]

Get(k) == /\ m' = m
          /\ res' = [op |-> "get", k |-> k, v |-> m[k]]

Delete(k) == /\ m' = DelIn(m, k)
             /\ res' = [op |-> "del", k |-> k]

Iterate(p, kind, at) ==
  /\ m' = m
  /\ res' = [op |-> "iter", p |-> p, kind |-> kind, at |-> at,
             visited |-> IterVisited(m, p, kind, at), err |-> IterErr(m, p, kind, at)]

Reopen == /\ m' = m          \* everything written is durable after Close
          /\ res' = [op |-> "reopen"]

IterKinds == {<<"none", 0>>, <<"stop", 1>>, <<"stop", 2>>, <<"err", 1>>, <<"err", 2>>, <<"stoperr", 1>>, <<"stoperr", 2>>}

Next == \/ \E k \in Keys, v \in Vals : Put(k, v)
        \/ \E k \in Keys : Get(k) \/ Delete(k)
        \/ \E p \in Pfx, ka \in IterKinds : Iterate(p, ka[1], ka[2])
        \/ Reopen

Spec == Init /\ [][Next]_vars

(***************************************************************************)
(* Properties (checked by TLC on the bounded configuration).               *)
(***************************************************************************)
TypeOK == m \in [Keys -> Vals \cup {None}]

\* what an iteration returns is characterised independently of LexSort:
IterContract ==
  res.op = "iter" =>
    LET v == res.visited  all == {k \in Present(m) : IsPrefixOf(res.p, k)}
    IN /\ \A i \in 1..Len(v) : v[i] \in all
       /\ \A i, j \in 1..Len(v) : i < j => LexLess(v[i], v[j])       \* ascending, no repeats
       /\ \A k \in all : (\E i \in 1..Len(v) : v[i] = k)              \* nothing skipped ...
                         \/ (Len(v) > 0 /\ LexLess(v[Len(v)], k)       \* ... before the stop point
                             /\ res.kind # "none" /\ Len(v) = res.at)
       /\ (res.kind = "none" => Len(v) = Cardinality(all))
       /\ (res.err <=> (res.kind \in {"err", "stoperr"} /\ Len(v) = res.at))

GetContract == res.op = "get" => res.v = m[res.k]

\* action property: only Put/Delete change the map, and only at their key
FrameOK == [][\A k \in Keys : m'[k] # m[k] => (res'.op \in {"put", "del"} /\ res'.k = k)]_vars
=============================================================================
