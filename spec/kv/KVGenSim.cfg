SPECIFICATION GSpec
CONSTANTS
  Keys <- MCKeys
  Vals <- MCVals
  Pfx <- MCPrefixes
INVARIANT EmitFull
CHECK_DEADLOCK FALSE
