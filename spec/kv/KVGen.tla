------------------------------- MODULE KVGen -------------------------------
(* Scenario generator: KV's actions plus a history variable.  Modes:        *)
(*  edges     (cfg with VIEW): one shortest history per (state, operation)  *)
(*  simulate  (tlc -simulate): random walks of length Depth                 *)
EXTENDS KV, TLC, Json, IOUtils
VARIABLES hist, pre   \* pre: the model state before the last operation (edge cover is per SOURCE state)

MCKeys == {<<97>>, <<97,45>>, <<97,98>>, <<98>>, <<98,97>>}
MCVals == {1, 2}
MCPrefixes == {<<>>, <<97>>, <<98>>, <<97,98>>, <<45>>}

Depth == IF "VERIF_DEPTH" \in DOMAIN IOEnv THEN atoi(IOEnv.VERIF_DEPTH) ELSE 4

Op(r) == IF r.op = "iter" THEN [op |-> "iter", p |-> r.p, kind |-> r.kind, at |-> r.at]
         ELSE IF r.op = "put" THEN [op |-> "put", k |-> r.k, v |-> r.v, enc |-> IF r.v = 2 THEN "bin" ELSE "json"]
         ELSE r

GInit == Init /\ hist = <<>> /\ pre = Empty
GNext == /\ Len(hist) < Depth
         /\ Next
         /\ hist' = Append(hist, Op(res'))
         /\ pre' = m
GSpec == GInit /\ [][GNext]_<<vars, hist, pre>>

EdgeView == <<pre, m, res>>

\* every reached state prints its history (edges mode: prefixes are removed by the orchestrator)
EmitAll  == hist # <<>> => PrintT(<<"SCN", ToJson(hist)>>)
\* only full-length histories (simulate mode)
EmitFull == Len(hist) = Depth => PrintT(<<"SCN", ToJson(hist)>>)
=============================================================================
