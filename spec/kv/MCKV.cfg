SPECIFICATION Spec
CONSTANTS
  Keys <- MCKeys
  Vals <- MCVals
  Pfx <- MCPrefixes
INVARIANTS TypeOK IterContract GetContract
PROPERTIES FrameOK
