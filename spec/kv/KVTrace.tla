------------------------------ MODULE KVTrace ------------------------------
(* Judge for C18: replays the events a driver recorded from the real state   *)
(* stores against KV's definitions.  Monitor mode (see TraceKit).            *)
EXTENDS KV, TraceKit

MCKeys == {<<97>>, <<97,45>>, <<97,98>>, <<98>>, <<98,97>>}
MCVals == {1, 2}
MCPfx == {<<>>, <<97>>, <<98>>, <<97,98>>, <<45>>}

VARIABLES l, bad

\* the driver's projection of the store (list of <<key, value>> for the present keys)

ObsMap(e) == [k \in Keys |->
               LET J == {j \in DOMAIN e.st : e.st[j][1] = k}
               IN IF J = {} THEN None ELSE e.st[CHOOSE j \in J : TRUE][2]]

\* reference model after the event
Post(e, s) == CASE e.op = "reset"  -> Empty
                [] e.op = "put"    -> PutIn(s, e.k, e.v)
                [] e.op = "del"    -> DelIn(s, e.k)
                [] OTHER           -> s

\* verdict clauses: the statement of C18 over what the caller observed
Verdict(e, pre, post) ==
     Clause("no_unexpected_error", e.err = "")
  \o (IF e.op = "get"
      THEN Clause("get_returns_value_written", e.found = (pre[e.k] # None) /\ e.v = pre[e.k])
      ELSE <<>>)
  \o (IF e.op = "iter"
      THEN    Clause("iterate_visits_matching_keys_ascending_until_stop",
                     e.visited = IterVisited(pre, e.p, e.kind, e.at))
           \o Clause("iterate_returns_callback_error",
                     e.cberr = IterErr(pre, e.p, e.kind, e.at))
      ELSE <<>>)
  \o Clause(IF e.op = "reopen" THEN "values_survive_reopen" ELSE "store_is_the_map", ObsMap(e) = post)

TInit == l = 1 /\ m = Empty /\ res = [op |-> "init"] /\ bad = <<>>

TStep == /\ l <= NEvents
         /\ LET e == Trace[l]
                post == Post(e, m)
                cs == Verdict(e, m, post)
            IN /\ l' = l + 1
               /\ bad' = IF cs = <<>> THEN bad ELSE Append(bad, BadRec(l, e, cs))
               /\ m' = IF cs = <<>> THEN post ELSE ObsMap(e)     \* resynchronise
               /\ res' = [op |-> e.op]

TSpec == TInit /\ [][TStep]_<<vars, l, bad>>

Report == ReportBad(l, bad, <<>>)
=============================================================================
