SPECIFICATION Spec
CONSTANTS
  Notifiers <- MCNotifiers
  Keys <- MCKeys
  TwoQueues = TRUE
  SkipAfterDelete = TRUE
  MaxCalls = 4
INVARIANTS TypeOK EveryLaterMessage StaysSubscribed NoneAfterUnsubscribedInOrder
