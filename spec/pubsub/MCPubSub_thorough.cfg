SPECIFICATION Spec
CONSTANTS
  Notifiers <- MCNotifiers
  Keys <- MCKeys
  TwoQueues = TRUE
  SkipAfterDelete = TRUE
  MaxCalls = 4
  MaxPubs = 1
  SplitPub = FALSE
INVARIANTS TypeOK EveryLaterMessage NoDuplicateDelivery NoneToThoseWhoLeftInOrder StaysSubscribed NoneAfterUnsubscribedInOrder
CHECK_DEADLOCK FALSE
