----------------------------- MODULE PubSubTrace -----------------------------
(* Judge for C40: replays what pubsubdrv recorded from the real pkg/subscribe.    *)
(* Monitor mode (see TraceKit), deterministic: every application of a queued      *)
(* subscription / unsubscription is logged (`ap`, from the verifApplied hook) and *)
(* is the linearisation point the statement speaks of ("has taken effect").       *)
(*                                                                                *)
(* Statement-level history (from the driver's own calls and the `ap` records only;*)
(* never resynchronised to the implementation):                                   *)
(*   reg    set of <<n, k>> whose subscription has taken effect                   *)
(*   fired  notifiers whose error channel fired                                   *)
(*   ncallk <<n, k>> -> number of Subscribe calls (each starts one goroutine that  *)
(*          queues one unsubscription when the channel fires)                     *)
(*   pq     queued, not yet applied subscriptions (<<n, k>>, in call order)       *)
(*   pun    <<n, k>> -> queued, not yet applied unsubscriptions                   *)
(*   ov     notifiers with an unsubscription applied before its subscription      *)
(*   idle   the node had nothing left to process after the previous event (the    *)
(*          driver logs the number of queued items it OBSERVED, `pend`): a fired   *)
(*          notifier has then left, however many unsubscriptions the node queued  *)
(* Mechanism (conformance notes only): subs = the lists PubSub.tla predicts.      *)
EXTENDS Integers, Sequences, FiniteSets, TraceKit

Notifiers == {1, 2, 3}
Keys == {0, 1, 2}
TwoQueues == TRUE
SkipAfterDelete == TRUE

VARIABLES l, reg, fired, ncallk, pq, pun, ov, subs, bad, notes, idle,
          nreg,     \* <<n, k>> -> number of subscriptions that have taken effect
          flight    \* the publication held inside a Notify (NoFlight: none): p, m, deliveries so far, and
                    \* who was registered / had left when it began
tvars == <<l, reg, fired, ncallk, pq, pun, ov, subs, bad, notes, idle, nreg, flight>>

SplitPub == TRUE
P == INSTANCE PubSub WITH qs <- <<>>, qu <- <<>>, calls <- <<>>, clock <- 0, out <- <<>>,
                          res <- [op |-> "judge"], MaxCalls <- 0, MaxPubs <- 0, nsub <- nreg,
                          fly <- [p |-> -1], npub <- 0

NK == Notifiers \X Keys
CountIn(q, x) == Cardinality({i \in DOMAIN q : q[i] = x})
PendingOf(pu, n) == LET S(k) == pu[<<n, k>>] IN S(0) + S(1) + S(2)
Quiet(f, pu, n) == n \in f /\ PendingOf(pu, n) = 0

RECURSIVE DropFirst(_, _)
DropFirst(q, x) == IF q = <<>> THEN <<>> ELSE IF Head(q) = x THEN Tail(q) ELSE <<Head(q)>> \o DropFirst(Tail(q), x)

\* --- effect of the driver's own call (queues) -------------------------------------------
EnqPq(e) == IF e.op = "sub" THEN Append(pq, <<e.n, e.k>>) ELSE pq
EnqFired(e) == IF e.op = "fire" THEN fired \cup {e.n} ELSE fired
EnqNcallk(e) == IF e.op = "sub" THEN [ncallk EXCEPT ![<<e.n, e.k>>] = @ + 1] ELSE ncallk
EnqPun(e) ==
  CASE e.op = "sub" /\ e.n \in fired -> [pun EXCEPT ![<<e.n, e.k>>] = @ + 1]
    [] e.op = "fire" /\ e.n \notin fired -> [x \in NK |-> IF x[1] = e.n THEN pun[x] + ncallk[x] ELSE pun[x]]
    [] OTHER -> pun

\* --- effect of the logged application (at most one per event) ----------------------------
HasAp(e) == Len(e.ap) > 0
ApKind(e) == e.ap[1][1]
ApNK(e) == <<e.ap[1][2], e.ap[1][3]>>
IsSubAp(e) == HasAp(e) /\ ApKind(e) = "sub"
IsUnsubAp(e) == HasAp(e) /\ ApKind(e) # "sub"

(***************************************************************************)
(* verdict (pub events; evaluated on the history before the event)         *)
(***************************************************************************)
\* A publication is judged when it ends, on all its deliveries D = <<n, k, m>>...:
\*  reg0   the <<n, k>> registered, with n's error channel not fired, when it began
\*  quiet0 the notifiers that had left (fired, every unsubscription applied) when it began and did not
\*         subscribe anew while it was in flight
\* For a publication that is one event (op "pub") the beginning and the end coincide.
NoFlight == [p |-> -1]
QuietNow == {n \in Notifiers : Quiet(fired, pun, n)} \cup (IF idle THEN fired ELSE {})
RegNow == {r \in reg : r[1] \notin fired}
CountD(D, x) == Cardinality({i \in DOMAIN D : D[i][1] = x[1] /\ D[i][2] = x[2]})

VerdictPublication(p, m, D, reg0, quiet0, firedEnd, ovEnd, nregEnd) ==
     Clause("C40:every_later_message_delivered",
            \A r \in reg0 : (r[1] \notin firedEnd /\ r[2] \in {0, p}) => CountD(D, r) >= 1)
  \o Clause("C40:no_duplicate_delivery", \A x \in NK : CountD(D, x) <= nregEnd[x])
  \o Clause("C40:in_publication_order", \A i \in DOMAIN D : D[i][3] = m)
  \o Clause("C40:none_after_unsubscribed",
            \A i \in DOMAIN D : ~(D[i][1] \in quiet0 /\ D[i][1] \notin ovEnd))
  \o Clause("C40:none_after_unsubscribed[unsubscription_overtook_subscription]",
            \A i \in DOMAIN D : ~(D[i][1] \in quiet0 /\ D[i][1] \in ovEnd))

VerdictPub(e) == VerdictPublication(e.p, e.m, e.dl, RegNow, QuietNow, fired, ov, nreg)

\* pubstart only records; its deliveries must carry its message
VerdictPubStart(e) == Clause("C40:in_publication_order", \A i \in DOMAIN e.dl : e.dl[i][3] = e.m)

VerdictPubEnd(e, firedEnd, ovEnd, nregEnd) ==
  IF flight = NoFlight THEN <<>>
  ELSE VerdictPublication(flight.p, flight.m, flight.dl \o e.dl, flight.reg0, flight.quiet0, firedEnd, ovEnd, nregEnd)

VerdictOther(e) ==
  Clause("C40:in_publication_order", Len(e.dl) = 0)       \* nothing is delivered outside a Publish

(***************************************************************************)
(* conformance notes: the subscriber lists                                 *)
(***************************************************************************)
ObsSubs(e) == [k \in Keys |-> e.st[k + 1]]
PostSubs(e) ==
  IF ~HasAp(e) THEN subs
  ELSE IF ApKind(e) = "sub" THEN [subs EXCEPT ![e.ap[1][3]] = Append(@, e.ap[1][2])]
  ELSE [subs EXCEPT ![e.ap[1][3]] = P!RemoveFrom(@, e.ap[1][2])]

Zero == [x \in NK |-> 0]

TInit == /\ l = 1 /\ reg = {} /\ fired = {} /\ ncallk = Zero
         /\ pq = <<>> /\ pun = Zero /\ ov = {} /\ subs = [k \in Keys |-> <<>>]
         /\ bad = <<>> /\ notes = <<>> /\ idle = TRUE
         /\ nreg = Zero /\ flight = NoFlight

TStep ==
  /\ l <= NEvents
  /\ LET e == Trace[l] IN
     IF e.op = "reset"
     THEN /\ l' = l + 1 /\ reg' = {} /\ fired' = {} /\ ncallk' = Zero
          /\ pq' = <<>> /\ pun' = Zero /\ ov' = {} /\ subs' = [k \in Keys |-> <<>>]
          /\ bad' = bad /\ notes' = notes /\ nreg' = Zero /\ flight' = NoFlight /\ idle' = TRUE
     ELSE
       /\ l' = l + 1
       /\ idle' = ("pend" \in DOMAIN e /\ e.pend = 0)
       /\ fired' = EnqFired(e)
       /\ ncallk' = EnqNcallk(e)
       /\ LET pq1 == EnqPq(e)
              pu1 == EnqPun(e)
              pq2 == IF IsSubAp(e) THEN DropFirst(pq1, ApNK(e)) ELSE pq1
              pu2 == IF IsUnsubAp(e) THEN [pu1 EXCEPT ![ApNK(e)] = IF @ > 0 THEN @ - 1 ELSE 0] ELSE pu1
              nr2 == IF IsSubAp(e) THEN [nreg EXCEPT ![ApNK(e)] = @ + 1] ELSE nreg
              ov2 == IF IsUnsubAp(e) /\ pu2[ApNK(e)] < CountIn(pq2, ApNK(e)) THEN ov \cup {ApNK(e)[1]} ELSE ov
              cs  == CASE e.op = "pub" -> VerdictPub(e)
                       [] e.op = "pubstart" -> VerdictPubStart(e)
                       [] e.op = "pubend" -> VerdictPubEnd(e, fired', ov2, nr2)
                       [] OTHER -> VerdictOther(e)
              ps  == PostSubs(e)
          IN /\ pq' = pq2
             /\ pun' = pu2
             /\ reg' = IF IsSubAp(e) THEN reg \cup {ApNK(e)} ELSE reg
             /\ ov' = ov2
             /\ nreg' = nr2
             /\ flight' = CASE e.op = "pubstart" -> [p |-> e.p, m |-> e.m, dl |-> e.dl, reg0 |-> RegNow, quiet0 |-> QuietNow]
                             [] e.op = "pubend" -> NoFlight
                             [] e.op = "sub" /\ flight # NoFlight -> [flight EXCEPT !.quiet0 = @ \ {e.n}]
                             [] OTHER -> flight
             /\ bad' = IF cs = <<>> THEN bad ELSE Append(bad, BadRec(l, e, cs))
             /\ subs' = ObsSubs(e)                                   \* resynchronise the mechanism only
             /\ notes' = IF ps # ObsSubs(e) /\ Len(notes) < 20
                         THEN Append(notes, [line |-> l, scn |-> e.scn, i |-> e.i, op |-> e.op,
                                             note |-> "subscriber lists differ from the PubSub model"])
                         ELSE notes

TSpec == TInit /\ [][TStep]_tvars

Report == ReportBad(l, bad, notes)
=============================================================================
