----------------------------- MODULE PubSubTrace -----------------------------
(* Judge for C40: replays what pubsubdrv recorded from the real pkg/subscribe.    *)
(* Monitor mode (see TraceKit), deterministic: every application of a queued      *)
(* subscription / unsubscription is logged (`ap`, from the verifApplied hook) and *)
(* is the linearisation point the statement speaks of ("has taken effect").       *)
(*                                                                                *)
(* Statement-level history (from the driver's own calls and the `ap` records only;*)
(* never resynchronised to the implementation):                                   *)
(*   reg    set of <<n, k>> whose subscription has taken effect                   *)
(*   fired  notifiers whose error channel fired                                   *)
(*   ncallk <<n, k>> -> number of Subscribe calls (each starts one goroutine that  *)
(*          queues one unsubscription when the channel fires)                     *)
(*   pq     queued, not yet applied subscriptions (<<n, k>>, in call order)       *)
(*   pun    <<n, k>> -> queued, not yet applied unsubscriptions                   *)
(*   ov     notifiers with an unsubscription applied before its subscription      *)
(* Mechanism (conformance notes only): subs = the lists PubSub.tla predicts.      *)
EXTENDS Integers, Sequences, FiniteSets, TraceKit

Notifiers == {1, 2, 3}
Keys == {0, 1, 2}
TwoQueues == TRUE
SkipAfterDelete == TRUE

VARIABLES l, reg, fired, ncallk, pq, pun, ov, subs, bad, notes
tvars == <<l, reg, fired, ncallk, pq, pun, ov, subs, bad, notes>>

P == INSTANCE PubSub WITH qs <- <<>>, qu <- <<>>, calls <- <<>>, clock <- 0, out <- <<>>,
                          res <- [op |-> "judge"], MaxCalls <- 0

NK == Notifiers \X Keys
CountIn(q, x) == Cardinality({i \in DOMAIN q : q[i] = x})
PendingOf(pu, n) == LET S(k) == pu[<<n, k>>] IN S(0) + S(1) + S(2)
Quiet(f, pu, n) == n \in f /\ PendingOf(pu, n) = 0

RECURSIVE DropFirst(_, _)
DropFirst(q, x) == IF q = <<>> THEN <<>> ELSE IF Head(q) = x THEN Tail(q) ELSE <<Head(q)>> \o DropFirst(Tail(q), x)

\* --- effect of the driver's own call (queues) -------------------------------------------
EnqPq(e) == IF e.op = "sub" THEN Append(pq, <<e.n, e.k>>) ELSE pq
EnqFired(e) == IF e.op = "fire" THEN fired \cup {e.n} ELSE fired
EnqNcallk(e) == IF e.op = "sub" THEN [ncallk EXCEPT ![<<e.n, e.k>>] = @ + 1] ELSE ncallk
EnqPun(e) ==
  CASE e.op = "sub" /\ e.n \in fired -> [pun EXCEPT ![<<e.n, e.k>>] = @ + 1]
    [] e.op = "fire" /\ e.n \notin fired -> [x \in NK |-> IF x[1] = e.n THEN pun[x] + ncallk[x] ELSE pun[x]]
    [] OTHER -> pun

\* --- effect of the logged application (at most one per event) ----------------------------
HasAp(e) == Len(e.ap) > 0
ApKind(e) == e.ap[1][1]
ApNK(e) == <<e.ap[1][2], e.ap[1][3]>>
IsSubAp(e) == HasAp(e) /\ ApKind(e) = "sub"
IsUnsubAp(e) == HasAp(e) /\ ApKind(e) # "sub"

(***************************************************************************)
(* verdict (pub events; evaluated on the history before the event)         *)
(***************************************************************************)
Dl(e) == {<<e.dl[i][1], e.dl[i][2]>> : i \in DOMAIN e.dl}

VerdictPub(e) ==
     Clause("C40:every_later_message_delivered",
            \A r \in reg : (r[1] \notin fired /\ r[2] \in {0, e.p}) => r \in Dl(e))
  \o Clause("C40:in_publication_order", \A i \in DOMAIN e.dl : e.dl[i][3] = e.m)
  \o Clause("C40:none_after_unsubscribed",
            \A i \in DOMAIN e.dl : ~(Quiet(fired, pun, e.dl[i][1]) /\ e.dl[i][1] \notin ov))
  \o Clause("C40:none_after_unsubscribed[unsubscription_overtook_subscription]",
            \A i \in DOMAIN e.dl : ~(Quiet(fired, pun, e.dl[i][1]) /\ e.dl[i][1] \in ov))

VerdictOther(e) ==
  Clause("C40:in_publication_order", Len(e.dl) = 0)       \* nothing is delivered outside a Publish

(***************************************************************************)
(* conformance notes: the subscriber lists                                 *)
(***************************************************************************)
ObsSubs(e) == [k \in Keys |-> e.st[k + 1]]
PostSubs(e) ==
  IF ~HasAp(e) THEN subs
  ELSE IF ApKind(e) = "sub" THEN [subs EXCEPT ![e.ap[1][3]] = Append(@, e.ap[1][2])]
  ELSE [subs EXCEPT ![e.ap[1][3]] = P!RemoveFrom(@, e.ap[1][2])]

Zero == [x \in NK |-> 0]

TInit == /\ l = 1 /\ reg = {} /\ fired = {} /\ ncallk = Zero
         /\ pq = <<>> /\ pun = Zero /\ ov = {} /\ subs = [k \in Keys |-> <<>>]
         /\ bad = <<>> /\ notes = <<>>

TStep ==
  /\ l <= NEvents
  /\ LET e == Trace[l] IN
     IF e.op = "reset"
     THEN /\ l' = l + 1 /\ reg' = {} /\ fired' = {} /\ ncallk' = Zero
          /\ pq' = <<>> /\ pun' = Zero /\ ov' = {} /\ subs' = [k \in Keys |-> <<>>]
          /\ bad' = bad /\ notes' = notes
     ELSE
       /\ l' = l + 1
       /\ fired' = EnqFired(e)
       /\ ncallk' = EnqNcallk(e)
       /\ LET pq1 == EnqPq(e)
              pu1 == EnqPun(e)
              pq2 == IF IsSubAp(e) THEN DropFirst(pq1, ApNK(e)) ELSE pq1
              pu2 == IF IsUnsubAp(e) THEN [pu1 EXCEPT ![ApNK(e)] = IF @ > 0 THEN @ - 1 ELSE 0] ELSE pu1
              cs  == IF e.op = "pub" THEN VerdictPub(e) ELSE VerdictOther(e)
              ps  == PostSubs(e)
          IN /\ pq' = pq2
             /\ pun' = pu2
             /\ reg' = IF IsSubAp(e) THEN reg \cup {ApNK(e)} ELSE reg
             /\ ov' = IF IsUnsubAp(e) /\ pu2[ApNK(e)] < CountIn(pq2, ApNK(e)) THEN ov \cup {ApNK(e)[1]} ELSE ov
             /\ bad' = IF cs = <<>> THEN bad ELSE Append(bad, BadRec(l, e, cs))
             /\ subs' = ObsSubs(e)                                   \* resynchronise the mechanism only
             /\ notes' = IF ps # ObsSubs(e) /\ Len(notes) < 20
                         THEN Append(notes, [line |-> l, scn |-> e.scn, i |-> e.i, op |-> e.op,
                                             note |-> "subscriber lists differ from the PubSub model"])
                         ELSE notes

TSpec == TInit /\ [][TStep]_tvars

Report == ReportBad(l, bad, notes)
=============================================================================
