SPECIFICATION Spec
CONSTANTS
  Notifiers <- MCNotifiers
  Keys <- MCKeys
  TwoQueues = TRUE
  SkipAfterDelete = TRUE
  MaxCalls = 3
INVARIANTS TypeOK EveryLaterMessage StaysSubscribed NoneAfterUnsubscribedInOrder
