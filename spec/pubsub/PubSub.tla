-------------------------------- MODULE PubSub --------------------------------
(* pkg/subscribe: Subscribe queues a subscription and starts a goroutine that    *)
(* queues one unsubscription when the notifier's error channel fires; one        *)
(* process goroutine applies queued subscriptions and unsubscriptions one at a   *)
(* time; Publish delivers synchronously to the subscribers of the namespace-wide *)
(* key and of the specific key.  Property C40.                                   *)
(*                                                                               *)
(* Keys: 0 is the namespace-wide key, k > 0 the key with parameter k.            *)
(* TwoQueues = TRUE is the code: subscriptions and unsubscriptions travel in two *)
(* channels and process() selects either when both are ready.  TwoQueues = FALSE *)
(* is one ordered queue (an unsubscription is applied after every subscription   *)
(* queued before it, and vice versa).                                            *)
(* SkipAfterDelete = TRUE is the code's removal loop: after deleting element j   *)
(* it moves on to j+1, which now holds the element after the next one.           *)
EXTENDS Integers, Sequences, FiniteSets

CONSTANTS Notifiers, Keys, TwoQueues, SkipAfterDelete,
          MaxCalls       \* bound on the number of Subscribe calls (design check / generator)

VARIABLES subs,    \* Keys -> Seq(Notifiers): the applied subscriptions (duplicates allowed)
          qs,      \* queued subscriptions: Seq of [n, k, at]   (at = position among all queued items)
          qu,      \* queued unsubscriptions: Seq of [n, k, at]  (taken in any order when TwoQueues)
          fired,   \* notifiers whose error channel has fired
          calls,   \* Seq of <<n, k>>: every Subscribe call so far
          clock,   \* number of items queued so far
          reg,     \* history: set of <<n, k>> whose subscription has taken effect
          ov,      \* history: notifiers one of whose unsubscriptions was applied before the subscription it belongs to (Stuck)
          out,     \* deliveries of the last Publish: Seq of <<n, k>>
          res      \* last action

vars == <<subs, qs, qu, fired, calls, clock, reg, ov, out, res>>

(***************************************************************************)
(* pure operators (shared with generator and judge)                        *)
(***************************************************************************)
RECURSIVE RemoveSkipping(_, _)
RemoveSkipping(s, n) ==       \* for j := 0; j < len; j++ { if s[j] == n { delete s[j] } }
  IF s = <<>> THEN <<>>
  ELSE IF Head(s) = n
       THEN IF Len(s) >= 2 THEN <<s[2]>> \o RemoveSkipping(SubSeq(s, 3, Len(s)), n) ELSE <<>>
       ELSE <<Head(s)>> \o RemoveSkipping(Tail(s), n)

RemoveEvery(s, n) == SelectSeq(s, LAMBDA x : x # n)

RemoveFrom(s, n) == IF SkipAfterDelete THEN RemoveSkipping(s, n) ELSE RemoveEvery(s, n)

Members(s) == {s[i] : i \in DOMAIN s}
DropAt(s, i) == SubSeq(s, 1, i - 1) \o SubSeq(s, i + 1, Len(s))

\* what Publish(param p) delivers, in order: namespace-wide key first, then the specific key
Deliveries(sb, p) ==
  [i \in 1..Len(sb[0]) |-> <<sb[0][i], 0>>]
  \o (IF p = 0 THEN <<>> ELSE [i \in 1..Len(sb[p]) |-> <<sb[p][i], p>>])

\* fewer unsubscriptions than subscriptions of (n, k) are still queued: an unsubscription was
\* consumed before the subscription it belongs to, which will therefore never be removed
CountNK(q, n, k) == Cardinality({i \in DOMAIN q : q[i].n = n /\ q[i].k = k})
Stuck(s, u, n, k) == CountNK(u, n, k) < CountNK(s, n, k)

PendingUnsubs(q, n) == Cardinality({i \in DOMAIN q : q[i].n = n})
Quiet(f, q, n) == n \in f /\ PendingUnsubs(q, n) = 0     \* fired, and every unsubscription it triggered was applied

(***************************************************************************)
(* actions                                                                 *)
(***************************************************************************)
Init == /\ subs = [k \in Keys |-> <<>>]
        /\ qs = <<>> /\ qu = <<>> /\ fired = {} /\ calls = <<>> /\ clock = 0
        /\ reg = {} /\ ov = {} /\ out = <<>>
        /\ res = [op |-> "init"]

\* Subscribe(n, k): queue the subscription; if n's error channel already fired its goroutine
\* queues the unsubscription right away
Subscribe(n, k) ==
  /\ Len(calls) < MaxCalls
  /\ calls' = Append(calls, <<n, k>>)
  /\ qs' = Append(qs, [n |-> n, k |-> k, at |-> clock + 1])
  /\ IF n \in fired
     THEN qu' = Append(qu, [n |-> n, k |-> k, at |-> clock + 2]) /\ clock' = clock + 2
     ELSE qu' = qu /\ clock' = clock + 1
  /\ out' = <<>> /\ res' = [op |-> "sub", n |-> n, k |-> k]
  /\ UNCHANGED <<subs, fired, reg, ov>>

\* the error channel of n fires (is closed): every goroutine started for n queues its unsubscription
Fire(n) ==
  /\ n \notin fired
  /\ fired' = fired \cup {n}
  /\ LET mine == SelectSeq(calls, LAMBDA c : c[1] = n)
     IN /\ qu' = qu \o [i \in 1..Len(mine) |-> [n |-> n, k |-> mine[i][2], at |-> clock + i]]
        /\ clock' = clock + Len(mine)
  /\ out' = <<>> /\ res' = [op |-> "fire", n |-> n]
  /\ UNCHANGED <<subs, qs, calls, reg, ov>>

\* process(): case info := <-subInfoChan
ApplySub ==
  /\ qs # <<>>
  /\ IF TwoQueues THEN TRUE ELSE \A i \in DOMAIN qu : qu[i].at > Head(qs).at
  /\ LET it == Head(qs)
     IN /\ subs' = [subs EXCEPT ![it.k] = Append(@, it.n)]
        /\ reg' = reg \cup {<<it.n, it.k>>}
        /\ res' = [op |-> "applysub", n |-> it.n, k |-> it.k]
  /\ qs' = Tail(qs)
  /\ out' = <<>>
  /\ UNCHANGED <<qu, fired, calls, clock, ov>>

\* process(): case info := <-unsubInfoChan  (the i-th queued one: the goroutines send in any order)
ApplyUnsub(i) ==
  /\ i \in DOMAIN qu
  /\ IF TwoQueues THEN TRUE
     ELSE (\A j \in DOMAIN qu : qu[j].at >= qu[i].at) /\ (IF qs = <<>> THEN TRUE ELSE Head(qs).at > qu[i].at)
  /\ LET it == qu[i]
     IN /\ subs' = [subs EXCEPT ![it.k] = RemoveFrom(@, it.n)]
        /\ ov' = IF Stuck(qs, DropAt(qu, i), it.n, it.k) THEN ov \cup {it.n} ELSE ov
        /\ res' = [op |-> "applyunsub", n |-> it.n, k |-> it.k]
  /\ qu' = DropAt(qu, i)
  /\ out' = <<>>
  /\ UNCHANGED <<qs, fired, calls, clock, reg>>

Publish(p) ==
  /\ out' = Deliveries(subs, p)
  /\ res' = [op |-> "pub", p |-> p]
  /\ UNCHANGED <<subs, qs, qu, fired, calls, clock, reg, ov>>

Next == \/ \E n \in Notifiers, k \in Keys : Subscribe(n, k)
        \/ \E n \in Notifiers : Fire(n)
        \/ ApplySub
        \/ \E i \in DOMAIN qu : ApplyUnsub(i)
        \/ \E p \in Keys : Publish(p)

Spec == Init /\ [][Next]_vars

(***************************************************************************)
(* properties                                                              *)
(***************************************************************************)
\* a subscriber whose registration has taken effect and whose error channel has not fired
\* receives every message published for its key or the namespace-wide key ...
EveryLaterMessage ==
  res.op = "pub" =>
    \A r \in reg : (r[1] \notin fired /\ r[2] \in {0, res.p}) => \E i \in DOMAIN out : out[i] = r

\* ... (mechanism form: it is on the list)
StaysSubscribed == \A r \in reg : r[1] \notin fired => r[1] \in Members(subs[r[2]])

\* after its error channel fired and every unsubscription this triggered has been applied, it
\* receives nothing -- provided no unsubscription overtook the subscription it belongs to
NoneAfterUnsubscribedInOrder ==
  \A n \in Notifiers : (Quiet(fired, qu, n) /\ n \notin ov) =>
      (\A k \in Keys : n \notin Members(subs[k])) /\ (\A i \in DOMAIN qs : qs[i].n # n)

\* the statement without the proviso (holds for one ordered queue, not for the code's two channels)
NoneAfterUnsubscribed ==
  \A n \in Notifiers : Quiet(fired, qu, n) =>
      (\A k \in Keys : n \notin Members(subs[k])) /\ (\A i \in DOMAIN qs : qs[i].n # n)

Overtaking == ov # {}      \* reachable with two channels (checked by the generator), never with one queue
NoOvertaking == ov = {}

TypeOK == /\ \A k \in Keys : \A i \in DOMAIN subs[k] : subs[k][i] \in Notifiers
          /\ fired \subseteq Notifiers /\ ov \subseteq fired
=============================================================================
