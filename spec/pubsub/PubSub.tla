-------------------------------- MODULE PubSub --------------------------------
(* pkg/subscribe: Subscribe queues a subscription and starts a goroutine that    *)
(* queues one unsubscription when the notifier's error channel fires; one        *)
(* process goroutine applies queued subscriptions and unsubscriptions one at a   *)
(* time; Publish delivers synchronously to the subscribers of the namespace-wide *)
(* key and of the specific key.  Property C40.                                   *)
(*                                                                               *)
(* Publish takes no lock: it loads the subscriber list of a key and then calls   *)
(* Notify on each entry in turn, and Notify may block (rpc write, full channel). *)
(* A publication is therefore not one step: PubBegin / PubLoad / PubDeliver /    *)
(* PubEnd interleave with ApplySub / ApplyUnsub.  The lists are copy-on-write    *)
(* (process() stores a new slice and never touches a stored one), so the         *)
(* publisher keeps delivering to the list it loaded.                             *)
(*                                                                               *)
(* Keys: 0 is the namespace-wide key, k > 0 the key with parameter k.            *)
(* TwoQueues = TRUE is the code: subscriptions and unsubscriptions travel in two *)
(* channels and process() selects either when both are ready.  TwoQueues = FALSE *)
(* is one ordered queue (an unsubscription is applied after every subscription   *)
(* queued before it, and vice versa).                                            *)
(* SkipAfterDelete = TRUE is the code's removal loop: after deleting element j   *)
(* it moves on to j+1, which now holds the element after the next one.           *)
EXTENDS Integers, Sequences, FiniteSets

CONSTANTS Notifiers, Keys, TwoQueues, SkipAfterDelete,
          MaxCalls,      \* bound on the number of Subscribe calls (design check / generator)
          MaxPubs,       \* bound on the number of publications (design check)
          SplitPub       \* TRUE: publications proceed step by step; FALSE: a publication is one step

VARIABLES subs,    \* Keys -> Seq(Notifiers): the applied subscriptions (duplicates allowed)
          qs,      \* queued subscriptions: Seq of [n, k, at]   (at = position among all queued items)
          qu,      \* queued unsubscriptions: Seq of [n, k, at]  (taken in any order when TwoQueues)
          fired,   \* notifiers whose error channel has fired
          calls,   \* Seq of <<n, k>>: every Subscribe call so far
          clock,   \* number of items queued so far
          reg,     \* history: set of <<n, k>> whose subscription has taken effect
          ov,      \* history: notifiers one of whose unsubscriptions was applied before the subscription it belongs to (Stuck)
          nsub,    \* history: <<n, k>> -> number of subscriptions of n to k that have taken effect
          fly,     \* the publication in flight (NoFly: none): parameter, keys still to visit, loaded list,
                   \* position, deliveries so far, and what the statement needs from its beginning
          npub,    \* number of publications begun
          out,     \* deliveries of the last finished publication: Seq of <<n, k>>
          res      \* last action

vars == <<subs, qs, qu, fired, calls, clock, reg, ov, nsub, fly, npub, out, res>>

(***************************************************************************)
(* pure operators (shared with generator and judge)                        *)
(***************************************************************************)
RECURSIVE RemoveSkipping(_, _)
RemoveSkipping(s, n) ==       \* for j := 0; j < len; j++ { if s[j] == n { delete s[j] } }
  IF s = <<>> THEN <<>>
  ELSE IF Head(s) = n
       THEN IF Len(s) >= 2 THEN <<s[2]>> \o RemoveSkipping(SubSeq(s, 3, Len(s)), n) ELSE <<>>
       ELSE <<Head(s)>> \o RemoveSkipping(Tail(s), n)

RemoveEvery(s, n) == SelectSeq(s, LAMBDA x : x # n)

RemoveFrom(s, n) == IF SkipAfterDelete THEN RemoveSkipping(s, n) ELSE RemoveEvery(s, n)

Members(s) == {s[i] : i \in DOMAIN s}
DropAt(s, i) == SubSeq(s, 1, i - 1) \o SubSeq(s, i + 1, Len(s))

\* what Publish(param p) delivers, in order: namespace-wide key first, then the specific key
Deliveries(sb, p) ==
  [i \in 1..Len(sb[0]) |-> <<sb[0][i], 0>>]
  \o (IF p = 0 THEN <<>> ELSE [i \in 1..Len(sb[p]) |-> <<sb[p][i], p>>])

\* fewer unsubscriptions than subscriptions of (n, k) are still queued: an unsubscription was
\* consumed before the subscription it belongs to, which will therefore never be removed
CountNK(q, n, k) == Cardinality({i \in DOMAIN q : q[i].n = n /\ q[i].k = k})
Stuck(s, u, n, k) == CountNK(u, n, k) < CountNK(s, n, k)

NoFly == [p |-> -1]
CountOf(s, x) == Cardinality({i \in DOMAIN s : s[i] = x})

PendingUnsubs(q, n) == Cardinality({i \in DOMAIN q : q[i].n = n})
Quiet(f, q, n) == n \in f /\ PendingUnsubs(q, n) = 0     \* fired, and every unsubscription it triggered was applied

(***************************************************************************)
(* actions                                                                 *)
(***************************************************************************)
Init == /\ subs = [k \in Keys |-> <<>>]
        /\ qs = <<>> /\ qu = <<>> /\ fired = {} /\ calls = <<>> /\ clock = 0
        /\ reg = {} /\ ov = {} /\ out = <<>>
        /\ nsub = [x \in Notifiers \X Keys |-> 0] /\ fly = NoFly /\ npub = 0
        /\ res = [op |-> "init"]

\* Subscribe(n, k): queue the subscription; if n's error channel already fired its goroutine
\* queues the unsubscription right away
Subscribe(n, k) ==
  /\ Len(calls) < MaxCalls
  /\ calls' = Append(calls, <<n, k>>)
  /\ qs' = Append(qs, [n |-> n, k |-> k, at |-> clock + 1])
  /\ IF n \in fired
     THEN qu' = Append(qu, [n |-> n, k |-> k, at |-> clock + 2]) /\ clock' = clock + 2
     ELSE qu' = qu /\ clock' = clock + 1
  /\ out' = <<>> /\ res' = [op |-> "sub", n |-> n, k |-> k]
  /\ fly' = IF fly = NoFly THEN fly ELSE [fly EXCEPT !.quiet0 = @ \ {n}]    \* subscribes anew: no longer "has left"
  /\ UNCHANGED <<subs, fired, reg, ov, nsub, npub>>

\* the error channel of n fires (is closed): every goroutine started for n queues its unsubscription
Fire(n) ==
  /\ n \notin fired
  /\ fired' = fired \cup {n}
  /\ LET mine == SelectSeq(calls, LAMBDA c : c[1] = n)
     IN /\ qu' = qu \o [i \in 1..Len(mine) |-> [n |-> n, k |-> mine[i][2], at |-> clock + i]]
        /\ clock' = clock + Len(mine)
  /\ out' = <<>> /\ res' = [op |-> "fire", n |-> n]
  /\ UNCHANGED <<subs, qs, calls, reg, ov, nsub, fly, npub>>

\* process(): case info := <-subInfoChan
ApplySub ==
  /\ qs # <<>>
  /\ IF TwoQueues THEN TRUE ELSE \A i \in DOMAIN qu : qu[i].at > Head(qs).at
  /\ LET it == Head(qs)
     IN /\ subs' = [subs EXCEPT ![it.k] = Append(@, it.n)]
        /\ reg' = reg \cup {<<it.n, it.k>>}
        /\ nsub' = [nsub EXCEPT ![<<it.n, it.k>>] = @ + 1]
        /\ res' = [op |-> "applysub", n |-> it.n, k |-> it.k]
  /\ qs' = Tail(qs)
  /\ out' = <<>>
  /\ UNCHANGED <<qu, fired, calls, clock, ov, fly, npub>>

\* process(): case info := <-unsubInfoChan  (the i-th queued one: the goroutines send in any order)
ApplyUnsub(i) ==
  /\ i \in DOMAIN qu
  /\ IF TwoQueues THEN TRUE
     ELSE (\A j \in DOMAIN qu : qu[j].at >= qu[i].at) /\ (IF qs = <<>> THEN TRUE ELSE Head(qs).at > qu[i].at)
  /\ LET it == qu[i]
     IN /\ subs' = [subs EXCEPT ![it.k] = RemoveFrom(@, it.n)]
        /\ ov' = IF Stuck(qs, DropAt(qu, i), it.n, it.k) THEN ov \cup {it.n} ELSE ov
        /\ res' = [op |-> "applyunsub", n |-> it.n, k |-> it.k]
  /\ qu' = DropAt(qu, i)
  /\ out' = <<>>
  /\ UNCHANGED <<qs, fired, calls, clock, reg, nsub, fly, npub>>

\* Publish(param p), step by step.  keys: the keys still to visit (the namespace-wide key first)
QuietSet == {n \in Notifiers : Quiet(fired, qu, n)}
\* a publication during which nothing else happens
Publish(p) ==
  /\ ~SplitPub /\ npub < MaxPubs
  /\ npub' = npub + 1
  /\ out' = Deliveries(subs, p)
  /\ res' = [op |-> "pubend", p |-> p, reg0 |-> {r \in reg : r[1] \notin fired}, quiet0 |-> QuietSet]
  /\ UNCHANGED <<subs, qs, qu, fired, calls, clock, reg, ov, nsub, fly>>

PubBegin(p) ==
  /\ SplitPub /\ fly = NoFly /\ npub < MaxPubs
  /\ npub' = npub + 1
  /\ fly' = [p |-> p, keys |-> IF p = 0 THEN <<0>> ELSE <<0, p>>, loaded |-> FALSE, list |-> <<>>, pos |-> 0,
             got |-> <<>>,
             reg0 |-> {r \in reg : r[1] \notin fired},      \* registered and not left when it began
             quiet0 |-> QuietSet]                             \* left, with every unsubscription applied, when it began
  /\ out' = <<>> /\ res' = [op |-> "pubbegin", p |-> p]
  /\ UNCHANGED <<subs, qs, qu, fired, calls, clock, reg, ov, nsub>>

\* v, ok := s.keyToNotifier.Load(key)
PubLoad ==
  /\ fly # NoFly /\ ~fly.loaded
  /\ fly' = [fly EXCEPT !.loaded = TRUE, !.list = subs[Head(fly.keys)], !.pos = 0]
  /\ out' = <<>> /\ res' = [op |-> "pubload"]
  /\ UNCHANGED <<subs, qs, qu, fired, calls, clock, reg, ov, nsub, npub>>

\* sub.notifier.Notify(key, message) for the next entry of the loaded list
PubDeliver ==
  /\ fly # NoFly /\ fly.loaded /\ fly.pos < Len(fly.list)
  /\ fly' = [fly EXCEPT !.pos = @ + 1, !.got = Append(@, <<fly.list[fly.pos + 1], Head(fly.keys)>>)]
  /\ out' = <<>> /\ res' = [op |-> "pubdeliver"]
  /\ UNCHANGED <<subs, qs, qu, fired, calls, clock, reg, ov, nsub, npub>>

\* end of the loop over one key: next key, or Publish returns
PubNext ==
  /\ fly # NoFly /\ fly.loaded /\ fly.pos = Len(fly.list)
  /\ IF Len(fly.keys) > 1
     THEN /\ fly' = [fly EXCEPT !.keys = Tail(@), !.loaded = FALSE, !.list = <<>>, !.pos = 0]
          /\ out' = <<>> /\ res' = [op |-> "pubnext"]
     ELSE /\ fly' = NoFly
          /\ out' = fly.got
          /\ res' = [op |-> "pubend", p |-> fly.p, reg0 |-> fly.reg0, quiet0 |-> fly.quiet0]
  /\ UNCHANGED <<subs, qs, qu, fired, calls, clock, reg, ov, nsub, npub>>

Next == \/ \E n \in Notifiers, k \in Keys : Subscribe(n, k)
        \/ \E n \in Notifiers : Fire(n)
        \/ ApplySub
        \/ \E i \in DOMAIN qu : ApplyUnsub(i)
        \/ \E p \in Keys : Publish(p) \/ PubBegin(p)
        \/ PubLoad \/ PubDeliver \/ PubNext

Spec == Init /\ [][Next]_vars

(***************************************************************************)
(* properties                                                              *)
(***************************************************************************)
\* a subscriber whose registration had taken effect when the publication began, and whose error
\* channel has not fired by the time it ends, receives the message published for its key or the
\* namespace-wide key ...
EveryLaterMessage ==
  res.op = "pubend" =>
    \A r \in res.reg0 : (r[1] \notin fired /\ r[2] \in {0, res.p}) => \E i \in DOMAIN out : out[i] = r

\* ... once per subscription at most (the received sequence is the published one)
NoDuplicateDelivery ==
  res.op = "pubend" => \A x \in Notifiers \X Keys : CountOf(out, x) <= nsub[x]

\* a notifier that had left (fired, every unsubscription applied, none overtaken) when the publication
\* began receives nothing from it
NoneToThoseWhoLeftInOrder ==
  res.op = "pubend" => \A i \in DOMAIN out : ~(out[i][1] \in res.quiet0 /\ out[i][1] \notin ov)
NoneToThoseWhoLeft ==
  res.op = "pubend" => \A i \in DOMAIN out : out[i][1] \notin res.quiet0

\* ... (mechanism form: it is on the list)
StaysSubscribed == \A r \in reg : r[1] \notin fired => r[1] \in Members(subs[r[2]])

\* after its error channel fired and every unsubscription this triggered has been applied, it
\* receives nothing -- provided no unsubscription overtook the subscription it belongs to
NoneAfterUnsubscribedInOrder ==
  \A n \in Notifiers : (Quiet(fired, qu, n) /\ n \notin ov) =>
      (\A k \in Keys : n \notin Members(subs[k])) /\ (\A i \in DOMAIN qs : qs[i].n # n)

\* the statement without the proviso (holds for one ordered queue, not for the code's two channels)
NoneAfterUnsubscribed ==
  \A n \in Notifiers : Quiet(fired, qu, n) =>
      (\A k \in Keys : n \notin Members(subs[k])) /\ (\A i \in DOMAIN qs : qs[i].n # n)

Overtaking == ov # {}      \* reachable with two channels (checked by the generator), never with one queue
NoOvertaking == ov = {}

TypeOK == /\ \A k \in Keys : \A i \in DOMAIN subs[k] : subs[k][i] \in Notifiers
          /\ fired \subseteq Notifiers /\ ov \subseteq fired
=============================================================================
