SPECIFICATION GSpec
CONSTANTS
  Notifiers <- MCNotifiers
  Keys <- MCKeys3
  MaxCalls = 7
  MaxPubs = 100
INVARIANT EmitFull
CHECK_DEADLOCK FALSE
