SPECIFICATION GSpec
CONSTANTS
  Notifiers <- MCNotifiers
  Keys <- MCKeys3
  MaxCalls = 7
  MaxPubs = 100
  InFlight = FALSE
INVARIANT EmitFull
CHECK_DEADLOCK FALSE
