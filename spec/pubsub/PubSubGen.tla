------------------------------ MODULE PubSubGen ------------------------------
(* Scenario generator for C40.  The driver holds the process() goroutine at the  *)
(* verifApplied hook ("parked") after every application; while it is parked,     *)
(* subscriptions and unsubscriptions pile up in the two channels and "step"      *)
(* releases it for exactly one more application.  When it is idle (both channels *)
(* empty, blocked in select) the next queued item is applied at once.  This      *)
(* module is PubSub's mechanism under that regime, with the operation list.      *)
(* step.want is the channel TLC chose; the driver re-runs a scenario until the   *)
(* real select makes the same choices (and logs what happened in any case).      *)
EXTENDS Integers, Sequences, FiniteSets, TLC, Json, IOUtils

CONSTANTS Notifiers, Keys, MaxCalls, MaxPubs,
          InFlight      \* TRUE: publications are held inside Notify of one subscriber (pubstart .. pubend)
TwoQueues == TRUE
SkipAfterDelete == TRUE
SplitPub == TRUE

VARIABLES subs, qs, qu, fired, calls, parked, npub, infl, last, pre, ops
gvars == <<subs, qs, qu, fired, calls, parked, npub, infl, last, pre, ops>>

P == INSTANCE PubSub WITH reg <- {}, ov <- {}, out <- <<>>, res <- last, clock <- 0,
                          nsub <- <<>>, fly <- [p |-> -1]

MCNotifiers == {1, 2}
MCNotifiers3 == {1, 2, 3}
MCKeys == {0, 1}
MCKeys3 == {0, 1, 2}

Depth == IF "VERIF_DEPTH" \in DOMAIN IOEnv THEN atoi(IOEnv.VERIF_DEPTH) ELSE 8

It(n, k) == [n |-> n, k |-> k]
WithSub(sb, it) == [sb EXCEPT ![it.k] = Append(@, it.n)]
WithUnsub(sb, it) == [sb EXCEPT ![it.k] = P!RemoveFrom(@, it.n)]

NoFl == [p |-> -1]

GInit == /\ subs = [k \in Keys |-> <<>>] /\ qs = <<>> /\ qu = <<>> /\ fired = {} /\ calls = <<>>
         /\ parked = FALSE /\ npub = 0 /\ infl = NoFl /\ last = [op |-> "init"] /\ pre = <<>> /\ ops = <<>>

\* In-flight mode is a focused family: notifiers are introduced in order (they are symmetric), every
\* subscription is applied before the publication starts, error channels fire only while it is held.
Used == {calls[i][1] : i \in DOMAIN calls}
GSub(n, k) ==
  /\ InFlight => (infl = NoFl /\ npub = 0 /\ \A m \in Notifiers : m < n => m \in Used)
  /\ Len(calls) < MaxCalls
  /\ calls' = Append(calls, <<n, k>>)
  /\ qu' = IF n \in fired THEN Append(qu, It(n, k)) ELSE qu
  /\ IF parked
     THEN qs' = Append(qs, It(n, k)) /\ subs' = subs /\ parked' = parked
     ELSE qs' = qs /\ subs' = WithSub(subs, It(n, k)) /\ parked' = TRUE     \* idle: taken at once
  /\ last' = [op |-> "sub", n |-> n, k |-> k]
  /\ UNCHANGED <<fired, npub, infl>>

GFire(n) ==
  /\ InFlight => infl # NoFl
  /\ n \notin fired
  /\ fired' = fired \cup {n}
  /\ LET mine == SelectSeq(calls, LAMBDA c : c[1] = n)
         q1 == qu \o [i \in 1..Len(mine) |-> It(n, mine[i][2])]
     IN IF parked \/ mine = <<>>
        THEN qu' = q1 /\ subs' = subs /\ parked' = parked
        ELSE \E i \in DOMAIN q1 :                                           \* idle: one is taken at once
               qu' = P!DropAt(q1, i) /\ subs' = WithUnsub(subs, q1[i]) /\ parked' = TRUE
  /\ last' = [op |-> "fire", n |-> n]
  /\ UNCHANGED <<qs, calls, npub, infl>>

GStep ==
  /\ parked
  /\ \/ /\ qs = <<>> /\ qu = <<>>
        /\ parked' = FALSE /\ last' = [op |-> "step", want |-> "idle"]
        /\ UNCHANGED <<subs, qs, qu>>
     \/ /\ qs # <<>>
        /\ subs' = WithSub(subs, Head(qs)) /\ qs' = Tail(qs) /\ qu' = qu
        /\ parked' = TRUE /\ last' = [op |-> "step", want |-> "sub"]
     \/ \E i \in DOMAIN qu :
        /\ subs' = WithUnsub(subs, qu[i]) /\ qu' = P!DropAt(qu, i) /\ qs' = qs
        /\ parked' = TRUE /\ last' = [op |-> "step", want |-> "unsub"]
  /\ UNCHANGED <<fired, calls, npub, infl>>

\* a publication held inside Notify of its i-th delivery (the first one to that notifier on that key)
GPubStart(p, i) ==
  /\ InFlight /\ infl = NoFl /\ npub < MaxPubs /\ qs = <<>> /\ Len(calls) = MaxCalls
  /\ LET D == P!Deliveries(subs, p)
     IN /\ i \in DOMAIN D /\ \A j \in 1..(i - 1) : D[j] # D[i]
        /\ infl' = [p |-> p, gn |-> D[i][1], gk |-> D[i][2]]
        /\ last' = [op |-> "pubstart", p |-> p, gn |-> D[i][1], gk |-> D[i][2]]
  /\ npub' = npub + 1
  /\ UNCHANGED <<subs, qs, qu, fired, calls, parked>>

GPubEnd ==
  /\ infl # NoFl
  /\ infl' = NoFl /\ last' = [op |-> "pubend"]
  /\ UNCHANGED <<subs, qs, qu, fired, calls, parked, npub>>

GPub(p) ==
  /\ ~InFlight /\ infl = NoFl
  /\ npub < MaxPubs
  /\ npub' = npub + 1
  /\ last' = [op |-> "pub", p |-> p]
  /\ UNCHANGED <<subs, qs, qu, fired, calls, parked, infl>>

GNext == /\ Len(ops) < Depth
         /\ \/ \E n \in Notifiers, k \in Keys : GSub(n, k)
            \/ \E n \in Notifiers : GFire(n)
            \/ GStep
            \/ \E p \in Keys : GPub(p)
            \/ \E p \in Keys, i \in 1..(2 * MaxCalls) : GPubStart(p, i)
            \/ GPubEnd
         /\ ops' = Append(ops, last')
         /\ pre' = <<subs, qs, qu, fired, parked, infl>>

GSpec == GInit /\ [][GNext]_gvars

\* one history per (source state, operation [, choice]) edge; the number of publications so far is left out
EdgeView == <<subs, qs, qu, fired, calls, parked, infl, pre, last>>

\* in-flight mode: the way the subscriptions were queued and applied before the publication is irrelevant
FlightView == <<subs, qs, qu, fired, parked, infl, npub, last>>

EmitAll  == ops # <<>> => PrintT(<<"SCN", ToJson(ops)>>)
\* in-flight mode: only histories that end with the held publication being released
EmitFlight == (ops # <<>> /\ last.op = "pubend") => PrintT(<<"SCN", ToJson(ops)>>)
EmitFull == Len(ops) = Depth => PrintT(<<"SCN", ToJson(ops)>>)
=============================================================================
