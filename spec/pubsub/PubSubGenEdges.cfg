SPECIFICATION GSpec
CONSTANTS
  Notifiers <- MCNotifiers
  Keys <- MCKeys
  MaxCalls = 3
  MaxPubs = 2
VIEW EdgeView
INVARIANT EmitAll
CHECK_DEADLOCK FALSE
