SPECIFICATION Spec
CONSTANTS
  Notifiers <- MCNotifiers
  Keys <- MCKeys
  TwoQueues = FALSE
  SkipAfterDelete = TRUE
  MaxCalls = 3
INVARIANTS TypeOK EveryLaterMessage StaysSubscribed NoneAfterUnsubscribed NoOvertaking
