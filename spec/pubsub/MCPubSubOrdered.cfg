SPECIFICATION Spec
CONSTANTS
  Notifiers <- MCNotifiers
  Keys <- MCKeys
  TwoQueues = FALSE
  SkipAfterDelete = TRUE
  MaxCalls = 3
  MaxPubs = 1
  SplitPub = FALSE
INVARIANTS TypeOK EveryLaterMessage NoDuplicateDelivery NoneToThoseWhoLeft StaysSubscribed NoneAfterUnsubscribed NoOvertaking
CHECK_DEADLOCK FALSE
