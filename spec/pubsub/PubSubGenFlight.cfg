SPECIFICATION GSpec
CONSTANTS
  Notifiers <- MCNotifiers3
  Keys <- MCKeys
  MaxCalls = 3
  MaxPubs = 1
  InFlight = TRUE
VIEW FlightView
INVARIANT EmitFlight
CHECK_DEADLOCK FALSE
