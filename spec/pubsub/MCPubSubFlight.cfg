SPECIFICATION Spec
CONSTANTS
  Notifiers <- MCNotifiers
  Keys <- MCKeys
  TwoQueues = TRUE
  SkipAfterDelete = TRUE
  MaxCalls = 2
  MaxPubs = 1
  SplitPub = TRUE
INVARIANTS TypeOK EveryLaterMessage NoDuplicateDelivery NoneToThoseWhoLeftInOrder StaysSubscribed NoneAfterUnsubscribedInOrder
CHECK_DEADLOCK FALSE
