SPECIFICATION Spec
CONSTANTS
  Notifiers <- MCNotifiers
  Keys <- MCKeys
  TwoQueues = FALSE
  SkipAfterDelete = TRUE
  MaxCalls = 4
INVARIANTS TypeOK EveryLaterMessage StaysSubscribed NoneAfterUnsubscribed NoOvertaking
