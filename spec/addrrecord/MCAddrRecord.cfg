SPECIFICATION Spec
CONSTANTS
  KeyIds <- MCKeys
  UnderlayIds <- MCUnderlays
  NetIds <- MCNets
INVARIANTS MechanismIsStatement OwnAlwaysAccepted ChangedRejected ShiftKeepsSignedBytes BoundaryPinnedByExactComparison FieldsNormal AcceptedOverlayIs32
CHECK_DEADLOCK FALSE
