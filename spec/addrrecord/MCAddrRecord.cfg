SPECIFICATION Spec
CONSTANTS
  KeyIds <- MCKeys
  UnderlayIds <- MCUnderlays
  NetIds <- MCNets
INVARIANTS MechanismIsStatement OwnAlwaysAccepted ChangedRejected
CHECK_DEADLOCK FALSE
