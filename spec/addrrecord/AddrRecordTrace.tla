--------------------------- MODULE AddrRecordTrace ---------------------------
(* Judge for C34: every event is one record presented to one acceptance path  *)
(* of the real code; the verdict is AddrRecord's Accept on the symbolic       *)
(* record the event describes.  Monitor mode (TraceKit); no model state.      *)
EXTENDS AddrRecord, TraceKit

TKeys == {1, 2, 3}
TUnderlays == {1, 2, 3}
TNets == {1, 2}

VARIABLES l, bad, notes

IsRecordEvent(e) == e.op \in {"parse", "handle", "handshake", "underlay", "ulist"}

Verdict(e) ==
  IF ~IsRecordEvent(e) THEN <<>>
  ELSE
       Clause("C34:no_panic", ~e.panicked)
    \o Clause("C34:accepted_record_is_the_supplied_one", e.accepted => e.same)
    \o (CASE e.mut \in {"sig_twin", "reply_other"} -> <<>>
          [] e.mut = "net_field" -> Clause("C34:foreign_network_id_rejected", ~e.accepted)
          [] e.mut = "none"      -> Clause("C34:own_signer_record_accepted", e.accepted = Accept(RecOf(e), CheckNet(e)))
          \* same signed bytes with the field boundary moved / a record the key made for an overlay that is not its own:
          \* the signature is genuine, the claimed overlay is not the signer's
          [] e.mut \in {"shift", "claim"} ->
               Clause("C34:accepted_only_if_signed_by_the_key_of_the_claimed_overlay", e.accepted => Accept(RecOf(e), CheckNet(e)))
          [] OTHER               -> Clause("C34:changed_record_rejected", e.accepted = Accept(RecOf(e), CheckNet(e))))

\* binding: the record the driver presented has the field lengths of the model's record
LengthsAsModelled(e) ==
  LET r == RecOf(e)  UC == [u \in UnderlayIds |-> e.ucuts[u]]
  IN e.ulen = FieldBytes(r.u, UC) /\ e.olen = FieldBytes(r.o, UC)

\* conformance notes (never alarm)
Note(l_, e) ==
  IF IsRecordEvent(e) /\ e.mut \notin {"net_field", "reply_other"} /\ ~LengthsAsModelled(e)
  THEN <<[line |-> l_, scn |-> e.scn, note |-> "record_field_lengths_differ_from_model", op |-> e.op]>>
  ELSE IF IsRecordEvent(e) /\ e.mut = "sig_twin" /\ e.accepted
  THEN <<[line |-> l_, scn |-> e.scn, note |-> "malleated_signature_twin_accepted", op |-> e.op]>>
  ELSE IF IsRecordEvent(e) /\ e.mut = "reply_other" /\ e.accepted
  THEN <<[line |-> l_, scn |-> e.scn, note |-> "underlay_reply_for_another_overlay_accepted", op |-> e.op]>>
  ELSE <<>>

TInit == l = 1 /\ bad = <<>> /\ notes = <<>>

TStep == /\ l <= NEvents
         /\ LET e == Trace[l]
                cs == Verdict(e)
            IN /\ l' = l + 1
               /\ bad' = IF cs = <<>> THEN bad ELSE Append(bad, BadRec(l, e, cs))
               /\ notes' = LET nn == Note(l, e)
                            IN IF nn # <<>> /\ ~\E k \in DOMAIN notes : notes[k].note = nn[1].note /\ notes[k].op = nn[1].op
                               THEN notes \o nn ELSE notes

TSpec == TInit /\ [][TStep]_<<l, bad, notes>>

Report == ReportBad(l, bad, notes)
=============================================================================
