SPECIFICATION GSpec
CONSTANTS
  KeyIds <- GKeys
  UnderlayIds <- GUnderlays
  NetIds <- GNets
INVARIANT Emit
CHECK_DEADLOCK FALSE
