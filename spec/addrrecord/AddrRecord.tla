----------------------------- MODULE AddrRecord -----------------------------
(* Peer address records (pkg/aurora/address.go) as a symbolic signature       *)
(* algebra.  Property C34.                                                    *)
(*                                                                            *)
(* A record is <<underlay, overlay, signature>>; it is checked against a      *)
(* network id.  TLC never sees secp256k1 or keccak: keys, underlays and       *)
(* network ids are small integers, an overlay is the term Ov(k, n), a         *)
(* signature is the term Sig(k, m).  Unforgeability is the assumption that    *)
(* recovery from anything but Sig(k, m) over exactly m yields a key outside   *)
(* the universe (Stranger) or fails (NoKey).                                  *)
EXTENDS Integers, Sequences, FiniteSets, TLC

CONSTANTS KeyIds,       \* keys of the universe (positive integers)
          UnderlayIds,  \* underlays of the universe
          NetIds        \* network ids of the universe

Stranger == 0           \* "some key nobody in the universe holds"
NoKey    == 0 - 1       \* recovery failed

(***************************************************************************)
(* Terms.                                                                  *)
(***************************************************************************)
Ov(k, n)            == <<"ov", k, n>>            \* overlay of key k on network n
OvDamaged(k, n, h)  == <<"ovx", k, n, h>>        \* that overlay with a byte changed / wrong length: nobody's
Un(u)               == <<"un", u>>
UnDamaged(u, h)     == <<"unx", u, h>>
Msg(u, o, n)        == <<u, o, n>>               \* "aurorafs-handshake-" ++ underlay ++ overlay ++ network id
Sig(k, m)           == [kind |-> "sig", k |-> k, m |-> m, how |-> "none"]
\* a genuine signature with one byte changed (how = "b<i>") or cut / extended / emptied
SigDamaged(k, m, h) == [kind |-> "bad", k |-> k, m |-> m, how |-> h]
\* the (r, n - s, v xor 1) twin of a genuine signature: other bytes, same signer (ECDSA malleability)
SigTwin(k, m)       == [kind |-> "twin", k |-> k, m |-> m, how |-> "none"]

LenDamage == {"empty", "short64", "long66"}

\* what public-key recovery yields
Recover(s, m) ==
  CASE s.kind = "sig"  -> IF s.m = m THEN s.k ELSE Stranger
    [] s.kind = "twin" -> IF s.m = m THEN s.k ELSE Stranger
    [] s.kind = "bad"  -> IF s.how \in LenDamage THEN NoKey ELSE Stranger
    [] OTHER           -> NoKey

OverlayOfKey(k, n) == IF k \in KeyIds THEN Ov(k, n) ELSE <<"ov-stranger", n>>

(***************************************************************************)
(* The property's acceptance predicate (statement of C34) ...              *)
(***************************************************************************)
\* s is a signature made by key k over message m (the twin is one: same signer, same data)
MadeBy(s, k, m) == s.kind \in {"sig", "twin"} /\ s.k = k /\ s.m = m

\* a record r = [u, o, s] checked on network vn
Accept(r, vn) == \E k \in KeyIds : /\ MadeBy(r.s, k, Msg(r.u, r.o, vn))
                                   /\ r.o = Ov(k, vn)

(***************************************************************************)
(* ... and the mechanism of aurora.ParseAddress.                           *)
(***************************************************************************)
ParseOK(r, vn) == LET pk == Recover(r.s, Msg(r.u, r.o, vn))
                  IN pk # NoKey /\ OverlayOfKey(pk, vn) = r.o

(***************************************************************************)
(* Records: a descriptor d names the honest record of (key, underlay, net) *)
(* and one mutation of it.  Shared by generator, design check and judge.   *)
(***************************************************************************)
SigBytePositions == {"b0", "b31", "b32", "b63", "b64"}
OvDamages == {"b0", "b15", "b31", "short31", "long33"}
UnDamages == {"b0", "blast"}

Mutations == {"none", "underlay_other", "underlay_byte", "overlay_other", "overlay_byte",
              "sig_byte", "sig_len", "sig_otherkey", "sig_twin", "net"}

\* Network ids are 64-bit numbers; TLC integers are 32-bit, so an id is carried as the term <<base, variant>>:
\* base names one of the universe's ids, variant is "same" or how it differs from it ("hi32": only in the upper
\* 32 bits, "b<k>": only in bit k of the 64).  The driver concretises the term.
NetTerm(n, variant) == <<"net", n, variant>>
NetDamages == {"hi32", "b0", "b31", "b32", "b63"}

\* the network the honest record was made for, and the network it is checked on
SignNet(d)  == NetTerm(d.n, "same")
CheckNet(d) == IF d.mut = "net" THEN (IF d.how = "other" THEN NetTerm(d.vn, "same") ELSE NetTerm(d.n, d.how))
               ELSE NetTerm(d.vn, "same")

BaseRec(d) == LET o == Ov(d.k, SignNet(d)) u == Un(d.u)
              IN [u |-> u, o |-> o, s |-> Sig(d.k, Msg(u, o, SignNet(d)))]

RecOf(d) ==
  LET b == BaseRec(d) IN
  CASE d.mut = "none"           -> b
    [] d.mut = "net"            -> b                                   \* same bytes, checked on another network
    [] d.mut = "underlay_other" -> [b EXCEPT !.u = Un(d.mu)]
    [] d.mut = "underlay_byte"  -> [b EXCEPT !.u = UnDamaged(d.u, d.how)]
    [] d.mut = "overlay_other"  -> [b EXCEPT !.o = Ov(d.mk, SignNet(d))]
    [] d.mut = "overlay_byte"   -> [b EXCEPT !.o = OvDamaged(d.k, SignNet(d), d.how)]
    [] d.mut = "sig_byte"       -> [b EXCEPT !.s = SigDamaged(d.k, b.s.m, d.how)]
    [] d.mut = "sig_len"        -> [b EXCEPT !.s = SigDamaged(d.k, b.s.m, d.how)]
    [] d.mut = "sig_otherkey"   -> [b EXCEPT !.s = Sig(d.mk, b.s.m)]
    [] d.mut = "sig_twin"       -> [b EXCEPT !.s = SigTwin(d.k, b.s.m)]


\* the descriptors over one honest record b = [k, u, n] (SigPos, OvDam, UnDam: the damage positions used)
DescriptorsOf(b, SigPos, OvDam, UnDam, NetDam) ==
  LET mk(mut, vn, mk_, mu_, how) ==
         [k |-> b.k, u |-> b.u, n |-> b.n, vn |-> vn, mut |-> mut, mk |-> mk_, mu |-> mu_, how |-> how]
  IN    {mk("none", b.n, 0, 0, "none")}
   \cup {mk("net", vn, 0, 0, "other") : vn \in NetIds \ {b.n}}     \* checked on another network of the universe
   \cup {mk("net", b.n, 0, 0, h) : h \in NetDam}                   \* ... on an id that differs in the high half / in one bit
   \cup {mk("underlay_other", b.n, 0, mu, "none") : mu \in UnderlayIds \ {b.u}}
   \cup {mk("underlay_byte", b.n, 0, 0, h) : h \in UnDam}
   \cup {mk("overlay_other", b.n, k2, 0, "none") : k2 \in KeyIds \ {b.k}}
   \cup {mk("overlay_byte", b.n, 0, 0, h) : h \in OvDam}
   \cup {mk("sig_byte", b.n, 0, 0, h) : h \in SigPos}
   \cup {mk("sig_len", b.n, 0, 0, h) : h \in LenDamage}
   \cup {mk("sig_otherkey", b.n, k2, 0, "none") : k2 \in KeyIds \ {b.k}}
   \cup {mk("sig_twin", b.n, 0, 0, "none")}

\* all descriptors of the universe
Descriptors(SigPos, OvDam, UnDam, NetDam) ==
  UNION {DescriptorsOf([k |-> k, u |-> u, n |-> n], SigPos, OvDam, UnDam, NetDam) : k \in KeyIds, u \in UnderlayIds, n \in NetIds}
=============================================================================
