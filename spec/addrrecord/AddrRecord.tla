----------------------------- MODULE AddrRecord -----------------------------
(* Peer address records (pkg/aurora/address.go) as a symbolic signature       *)
(* algebra.  Property C34.                                                    *)
(*                                                                            *)
(* A record is <<underlay, overlay, signature>>; it is checked against a      *)
(* network id.  TLC never sees secp256k1 or keccak: keys, underlays and       *)
(* network ids are small integers; the underlay and overlay FIELDS are byte   *)
(* strings with a length (sequences of pieces of named base strings, see      *)
(* below), the overlay of key k is the 32-byte field Ov(k, n), the signed     *)
(* payload is the concatenation of the fields and a signature is the term     *)
(* Sig(k, m) over such a payload.  Unforgeability is the assumption that      *)
(* recovery from anything but Sig(k, m) over exactly m yields a key outside   *)
(* the universe (Stranger) or fails (NoKey).                                  *)
EXTENDS Integers, Sequences, FiniteSets, TLC

CONSTANTS KeyIds,       \* keys of the universe (positive integers)
          UnderlayIds,  \* underlays of the universe
          NetIds        \* network ids of the universe

Stranger == 0           \* "some key nobody in the universe holds"
NoKey    == 0 - 1       \* recovery failed

(***************************************************************************)
(* Byte strings.  A field of a record is a sequence of PIECES              *)
(* <<base, from, to>>: the bytes of the named base string between two of   *)
(* its cut points (from < to).  Join concatenates two fields and merges    *)
(* adjacent pieces of one base, so fields are kept in a normal form and    *)
(* two fields are equal iff they denote the same bytes, lengths included   *)
(* (distinct bases are unrelated byte strings: collision assumption).      *)
(* The signed payload is the CONCATENATION of the fields: nothing in it    *)
(* marks where the underlay ends and the overlay begins.                   *)
(***************************************************************************)
Base(kind, a, b, h) == <<kind, a, b, h>>
Piece(b, i, j)      == <<b, i, j>>
Whole(b, last)      == <<Piece(b, 0, last)>>
Join(s, t) ==
  IF s = <<>> THEN t ELSE IF t = <<>> THEN s
  ELSE LET a == s[Len(s)]  c == t[1]
       IN IF a[1] = c[1] /\ a[3] = c[2]
          THEN SubSeq(s, 1, Len(s) - 1) \o <<Piece(a[1], a[2], c[3])>> \o Tail(t)
          ELSE s \o t
\* the bytes of base b between cut points i and j (nothing when i >= j)
Slice(b, i, j) == IF i < j THEN <<Piece(b, i, j)>> ELSE <<>>

\* an overlay is 32 bytes; its cut points 0..3 are the byte offsets 0, 1, 31, 32
OvBase(k, n) == Base("ov", k, n, "")
OvEnd        == 3
OvCutBytes   == <<0, 1, 31, 32>>
\* an underlay is a multiaddr of three components (host, tcp port, p2p id); its cut points 0..4 are
\* start, end of the 1st component, end of the 2nd, one byte before the end, end
UnBase(u)    == Base("un", u, 0, "")
UnEnd        == 4
\* seeded bytes that belong to nobody: tag names the class ("pre1": one byte, "pre42": 42 bytes, "prez" / "app0": one zero byte)
Junk(tag)    == Whole(Base("junk", 0, 0, tag), 1)
JunkBytes(tag) == IF tag = "pre42" THEN 42 ELSE 1

(***************************************************************************)
(* Terms.                                                                  *)
(***************************************************************************)
Ov(k, n)            == Whole(OvBase(k, n), OvEnd)                 \* overlay of key k on network n
Un(u)               == Whole(UnBase(u), UnEnd)
\* an overlay / underlay with one byte changed: same length, nobody's bytes
OvFlipped(k, n, h)  == Whole(Base("ovx", k, n, h), 1)
UnDamaged(u, h)     == Whole(Base("unx", u, 0, h), 1)
\* overlays of another length that still contain (part of) the overlay of key k
OvDamaged(k, n, h)  ==
  CASE h = "short31" -> Slice(OvBase(k, n), 0, 2)                  \* last byte cut
    [] h = "tail31"  -> Slice(OvBase(k, n), 1, OvEnd)              \* first byte cut
    [] h = "long33"  -> Join(Ov(k, n), Junk("app0"))               \* a zero byte appended
    [] h \in {"pre1", "prez", "pre42"} -> Join(Junk(h), Ov(k, n))  \* bytes prepended: the LAST 32 bytes are the overlay
    [] h = "empty"   -> <<>>
    [] OTHER         -> OvFlipped(k, n, h)
\* the signed payload: "aurorafs-handshake-" ++ underlay ++ overlay ++ network id (8 bytes, supplied by the verifier)
Msg(u, o, n)        == <<Join(u, o), n>>
Sig(k, m)           == [kind |-> "sig", k |-> k, m |-> m, how |-> "none"]
\* a genuine signature with one byte changed (how = "b<i>") or cut / extended / emptied
SigDamaged(k, m, h) == [kind |-> "bad", k |-> k, m |-> m, how |-> h]
\* the (r, n - s, v xor 1) twin of a genuine signature: other bytes, same signer (ECDSA malleability)
SigTwin(k, m)       == [kind |-> "twin", k |-> k, m |-> m, how |-> "none"]

\* byte length of a field; UCuts[u] = byte offsets of the cut points of underlay u (from the driver's concretisation)
PieceBytes(p, UCuts) ==
  LET b == p[1] IN
  CASE b[1] = "ov"   -> OvCutBytes[p[3] + 1] - OvCutBytes[p[2] + 1]
    [] b[1] = "un"   -> UCuts[b[2]][p[3] + 1] - UCuts[b[2]][p[2] + 1]
    [] b[1] = "ovx"  -> 32
    [] b[1] = "unx"  -> UCuts[b[2]][UnEnd + 1]
    [] b[1] = "junk" -> JunkBytes(b[4])
RECURSIVE FieldBytes(_, _)
FieldBytes(f, UCuts) == IF f = <<>> THEN 0 ELSE PieceBytes(f[1], UCuts) + FieldBytes(Tail(f), UCuts)

LenDamage == {"empty", "short64", "long66"}

\* what public-key recovery yields
Recover(s, m) ==
  CASE s.kind = "sig"  -> IF s.m = m THEN s.k ELSE Stranger
    [] s.kind = "twin" -> IF s.m = m THEN s.k ELSE Stranger
    [] s.kind = "bad"  -> IF s.how \in LenDamage THEN NoKey ELSE Stranger
    [] OTHER           -> NoKey

OverlayOfKey(k, n) == IF k \in KeyIds THEN Ov(k, n) ELSE Whole(Base("ov-stranger", 0, n, ""), OvEnd)

(***************************************************************************)
(* The property's acceptance predicate (statement of C34) ...              *)
(***************************************************************************)
\* s is a signature made by key k over message m (the twin is one: same signer, same data)
MadeBy(s, k, m) == s.kind \in {"sig", "twin"} /\ s.k = k /\ s.m = m

\* a record r = [u, o, s] checked on network vn
Accept(r, vn) == \E k \in KeyIds : /\ MadeBy(r.s, k, Msg(r.u, r.o, vn))
                                   /\ r.o = Ov(k, vn)

(***************************************************************************)
(* ... and the mechanism of aurora.ParseAddress: recover the signer of the *)
(* concatenated payload, compare ITS overlay with the claimed field (bytes *)
(* and length).  A malformed underlay is refused as well; that only adds   *)
(* rejections and is not modelled.                                         *)
(***************************************************************************)
ParseOK(r, vn) == LET pk == Recover(r.s, Msg(r.u, r.o, vn))
                  IN pk # NoKey /\ OverlayOfKey(pk, vn) = r.o

\* a comparison that looks only at the last 32 bytes of the claimed overlay (what a fixed-size conversion of the
\* field does).  NOT the mechanism: kept to let the design check show that the field boundary is pinned by
\* nothing but the length-exact comparison (MCAddrRecord!BoundaryPinnedByExactComparison).
Last32(o) == IF o # <<>> /\ o[Len(o)][1][1] \in {"ov", "ov-stranger"} /\ o[Len(o)][2] = 0 /\ o[Len(o)][3] = OvEnd
             THEN <<o[Len(o)]>> ELSE o
ParseSuffixOK(r, vn) == LET pk == Recover(r.s, Msg(r.u, r.o, vn))
                        IN pk # NoKey /\ OverlayOfKey(pk, vn) = Last32(r.o)

(***************************************************************************)
(* Records: a descriptor d names the honest record of (key, underlay, net) *)
(* and one mutation of it.  Shared by generator, design check and judge.   *)
(***************************************************************************)
SigBytePositions == {"b0", "b31", "b32", "b63", "b64"}
OvDamages == {"b0", "b15", "b31", "short31", "long33", "tail31", "pre1", "pre42"}
UnDamages == {"b0", "blast"}

\* two-field mutations that keep the signed bytes: the boundary between underlay and overlay is moved.
\* "c<i>": the underlay is cut at its cut point i and the rest is put in front of the overlay (overlay longer than 32 bytes);
\* "o<i>": the overlay is cut at its cut point i and its head is appended to the underlay (overlay shorter than 32 bytes)
Shifts == {"c0", "c1", "c2", "c3", "o1", "o2"}
ShiftAt(h) == CASE h \in {"c0"} -> 0 [] h \in {"c1", "o1"} -> 1 [] h \in {"c2", "o2"} -> 2 [] h = "c3" -> 3
\* records the key made itself -- underlay, claimed overlay and network id genuinely signed -- for an overlay that is not
\* the key's: another length containing its overlay, a byte changed, another key's overlay ("other")
Claims == {"pre1", "pre42", "tail31", "short31", "long33", "b0", "other"}

Mutations == {"none", "underlay_other", "underlay_byte", "overlay_other", "overlay_byte",
              "sig_byte", "sig_len", "sig_otherkey", "sig_twin", "net", "shift", "claim"}

\* Network ids are 64-bit numbers; TLC integers are 32-bit, so an id is carried as the term <<base, variant>>:
\* base names one of the universe's ids, variant is "same" or how it differs from it ("hi32": only in the upper
\* 32 bits, "b<k>": only in bit k of the 64).  The driver concretises the term.
NetTerm(n, variant) == <<"net", n, variant>>
NetDamages == {"hi32", "b0", "b31", "b32", "b63"}

\* the network the honest record was made for, and the network it is checked on
SignNet(d)  == NetTerm(d.n, "same")
CheckNet(d) == IF d.mut = "net" THEN (IF d.how = "other" THEN NetTerm(d.vn, "same") ELSE NetTerm(d.n, d.how))
               ELSE NetTerm(d.vn, "same")

BaseRec(d) == LET o == Ov(d.k, SignNet(d)) u == Un(d.u)
              IN [u |-> u, o |-> o, s |-> Sig(d.k, Msg(u, o, SignNet(d)))]

RecOf(d) ==
  LET b == BaseRec(d) IN
  CASE d.mut = "none"           -> b
    [] d.mut = "net"            -> b                                   \* same bytes, checked on another network
    [] d.mut = "underlay_other" -> [b EXCEPT !.u = Un(d.mu)]
    [] d.mut = "underlay_byte"  -> [b EXCEPT !.u = UnDamaged(d.u, d.how)]
    [] d.mut = "overlay_other"  -> [b EXCEPT !.o = Ov(d.mk, SignNet(d))]
    [] d.mut = "overlay_byte"   -> [b EXCEPT !.o = OvDamaged(d.k, SignNet(d), d.how)]        \* bytes or length
    [] d.mut = "sig_byte"       -> [b EXCEPT !.s = SigDamaged(d.k, b.s.m, d.how)]
    [] d.mut = "sig_len"        -> [b EXCEPT !.s = SigDamaged(d.k, b.s.m, d.how)]
    [] d.mut = "sig_otherkey"   -> [b EXCEPT !.s = Sig(d.mk, b.s.m)]
    [] d.mut = "sig_twin"       -> [b EXCEPT !.s = SigTwin(d.k, b.s.m)]
    [] d.mut = "shift"          ->
         IF d.how \in {"c0", "c1", "c2", "c3"}
         THEN [b EXCEPT !.u = Slice(UnBase(d.u), 0, ShiftAt(d.how)),
                        !.o = Join(Slice(UnBase(d.u), ShiftAt(d.how), UnEnd), b.o)]
         ELSE [b EXCEPT !.u = Join(b.u, Slice(OvBase(d.k, SignNet(d)), 0, ShiftAt(d.how))),
                        !.o = Slice(OvBase(d.k, SignNet(d)), ShiftAt(d.how), OvEnd)]
    [] d.mut = "claim"          ->
         LET o2 == IF d.how = "other" THEN Ov(d.mk, SignNet(d)) ELSE OvDamaged(d.k, SignNet(d), d.how)
         IN [b EXCEPT !.o = o2, !.s = Sig(d.k, Msg(b.u, o2, SignNet(d)))]


\* the descriptors over one honest record b = [k, u, n] (SigPos, OvDam, UnDam: the damage positions used)
DescriptorsOf(b, SigPos, OvDam, UnDam, NetDam, ShiftSet, ClaimSet) ==
  LET mk(mut, vn, mk_, mu_, how) ==
         [k |-> b.k, u |-> b.u, n |-> b.n, vn |-> vn, mut |-> mut, mk |-> mk_, mu |-> mu_, how |-> how]
  IN    {mk("none", b.n, 0, 0, "none")}
   \cup {mk("net", vn, 0, 0, "other") : vn \in NetIds \ {b.n}}     \* checked on another network of the universe
   \cup {mk("net", b.n, 0, 0, h) : h \in NetDam}                   \* ... on an id that differs in the high half / in one bit
   \cup {mk("underlay_other", b.n, 0, mu, "none") : mu \in UnderlayIds \ {b.u}}
   \cup {mk("underlay_byte", b.n, 0, 0, h) : h \in UnDam}
   \cup {mk("overlay_other", b.n, k2, 0, "none") : k2 \in KeyIds \ {b.k}}
   \cup {mk("overlay_byte", b.n, 0, 0, h) : h \in OvDam}
   \cup {mk("sig_byte", b.n, 0, 0, h) : h \in SigPos}
   \cup {mk("sig_len", b.n, 0, 0, h) : h \in LenDamage}
   \cup {mk("sig_otherkey", b.n, k2, 0, "none") : k2 \in KeyIds \ {b.k}}
   \cup {mk("sig_twin", b.n, 0, 0, "none")}
   \cup {mk("shift", b.n, 0, 0, h) : h \in ShiftSet}
   \cup {mk("claim", b.n, 0, 0, h) : h \in ClaimSet \ {"other"}}
   \cup {mk("claim", b.n, k2, 0, "other") : k2 \in (IF "other" \in ClaimSet THEN KeyIds \ {b.k} ELSE {})}

\* all descriptors of the universe
Descriptors(SigPos, OvDam, UnDam, NetDam, ShiftSet, ClaimSet) ==
  UNION {DescriptorsOf([k |-> k, u |-> u, n |-> n], SigPos, OvDam, UnDam, NetDam, ShiftSet, ClaimSet) : k \in KeyIds, u \in UnderlayIds, n \in NetIds}
=============================================================================
