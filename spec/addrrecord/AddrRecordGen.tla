---------------------------- MODULE AddrRecordGen ----------------------------
(* Scenario generator for C34 (exploration level: TLC enumerates the class    *)
(* product and, in AddrRecordTrace, is the oracle).  One scenario per         *)
(* (acceptance path, key, underlay, network id): the honest record followed   *)
(* by every single-field mutation of it, the two-field mutations that move   *)
(* the underlay/overlay boundary while the signed bytes stay the same, and    *)
(* the records the key signed itself for an overlay that is not its own       *)
(* (other lengths, a changed byte, another key's overlay).                    *)
EXTENDS AddrRecord, SequencesExt, Json, IOUtils
VARIABLE hist

GKeys == {1, 2, 3}
GUnderlays == {1, 2, 3}
GNets == {1, 2}

Thorough == "VERIF_THOROUGH" \in DOMAIN IOEnv /\ IOEnv.VERIF_THOROUGH = "1"

Pos(S) == {"b" \o ToString(i) : i \in S}
GSigPos == IF Thorough THEN Pos(0..64) ELSE SigBytePositions
GOvDam  == IF Thorough THEN Pos(0..31) \cup {"short31", "long33", "empty", "tail31", "pre1", "prez", "pre42"} ELSE OvDamages
GShift  == Shifts
GClaim  == IF Thorough THEN Claims \cup {"prez", "empty", "b15", "b31"} ELSE Claims
GNetDam == IF Thorough THEN Pos(0..63) \cup {"hi32"} ELSE NetDamages
GUnDam  == IF Thorough THEN Pos(0..7) \cup {"blast"} ELSE UnDamages

\* acceptance paths: aurora.ParseAddress; handshake Handle (inbound) and Handshake (outbound);
\* routetab FindUnderlay reply; routetab underlay list carried by a route response
Paths == {"parse", "handle", "handshake", "underlay", "ulist"}

OfBase(k, u, n) == DescriptorsOf([k |-> k, u |-> u, n |-> n], GSigPos, GOvDam, GUnDam, GNetDam, GShift, GClaim)

\* the handshake messages carry the network id a second time, as a field of the Ack
NetField(k, u, n) == {[k |-> k, u |-> u, n |-> n, vn |-> n, mut |-> "net_field", mk |-> 0, mu |-> 0, how |-> "none"]}

\* a routing underlay reply that is an honest record -- of another key than the overlay asked for
ReplyOther(k, u, n) == {[k |-> k, u |-> u, n |-> n, vn |-> n, mut |-> "reply_other", mk |-> k2, mu |-> 0, how |-> "none"] :
                           k2 \in GKeys \ {k}}

OpsOf(path, k, u, n) ==
  SetToSeq(OfBase(k, u, n) \cup (IF path \in {"handle", "handshake"} THEN NetField(k, u, n) ELSE {})
                           \cup (IF path = "underlay" THEN ReplyOther(k, u, n) ELSE {}))

GInit == hist = <<>>
GNext == /\ hist = <<>>
         /\ \E path \in Paths, k \in GKeys, u \in GUnderlays, n \in GNets :
               hist' = [par |-> [path |-> path, k |-> k, u |-> u, n |-> n], ops |-> OpsOf(path, k, u, n)]
GSpec == GInit /\ [][GNext]_hist

Emit == hist # <<>> => PrintT(<<"SCN", ToJson(hist)>>)
=============================================================================
