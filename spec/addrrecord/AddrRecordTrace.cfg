SPECIFICATION TSpec
CONSTANTS
  KeyIds <- TKeys
  UnderlayIds <- TUnderlays
  NetIds <- TNets
INVARIANT Report
POSTCONDITION AllConsumed
CHECK_DEADLOCK FALSE
