---------------------------- MODULE MCAddrRecord ----------------------------
EXTENDS AddrRecord
MCKeys == {1, 2, 3}
MCUnderlays == {1, 2, 3}
MCNets == {1, 2}

(***************************************************************************)
(* Design check: one record at a time; the statement follows from the      *)
(* mechanism on every record of the universe.                              *)
(***************************************************************************)
VARIABLE d

AllDescriptors == Descriptors(SigBytePositions, OvDamages, UnDamages, NetDamages)

Init == d \in AllDescriptors
Next == UNCHANGED d
Spec == Init /\ [][Next]_d

\* ParseAddress accepts exactly what the statement accepts
MechanismIsStatement == ParseOK(RecOf(d), CheckNet(d)) <=> Accept(RecOf(d), CheckNet(d))
\* records produced by a node's own signer are always accepted
OwnAlwaysAccepted == d.mut = "none" => Accept(RecOf(d), CheckNet(d))
\* changing any of the four values makes the record rejected
\* (sig_twin changes bytes of the signature but the result *is* a signature made by the same key over
\*  the same data, so the statement's first sentence admits it; it is kept out of the verdicts and its
\*  acceptance is reported as a conformance note)
ChangedRejected == d.mut \notin {"none", "sig_twin"} => ~Accept(RecOf(d), CheckNet(d))
=============================================================================
