---------------------------- MODULE MCAddrRecord ----------------------------
EXTENDS AddrRecord
MCKeys == {1, 2, 3}
MCUnderlays == {1, 2, 3}
MCNets == {1, 2}

(***************************************************************************)
(* Design check: one record at a time; the statement follows from the      *)
(* mechanism on every record of the universe.                              *)
(***************************************************************************)
VARIABLE d

AllDescriptors == Descriptors(SigBytePositions, OvDamages \cup {"prez", "empty"}, UnDamages, NetDamages, Shifts, Claims \cup {"prez", "empty"})

Init == d \in AllDescriptors
Next == UNCHANGED d
Spec == Init /\ [][Next]_d

\* ParseAddress accepts exactly what the statement accepts
MechanismIsStatement == ParseOK(RecOf(d), CheckNet(d)) <=> Accept(RecOf(d), CheckNet(d))
\* records produced by a node's own signer are always accepted
OwnAlwaysAccepted == d.mut = "none" => Accept(RecOf(d), CheckNet(d))
\* changing any of the four values makes the record rejected
\* (sig_twin changes bytes of the signature but the result *is* a signature made by the same key over
\*  the same data, so the statement's first sentence admits it; it is kept out of the verdicts and its
\*  acceptance is reported as a conformance note)
ChangedRejected == d.mut \notin {"none", "sig_twin"} => ~Accept(RecOf(d), CheckNet(d))

\* moving the field boundary keeps the signed bytes (so the signature IS one made by the key over "the underlay, overlay and
\* network id" as concatenated) but claims an overlay of another length that is nobody's ...
ShiftKeepsSignedBytes ==
  d.mut = "shift" => LET r == RecOf(d)  b == BaseRec(d)
                     IN /\ Msg(r.u, r.o, SignNet(d)) = Msg(b.u, b.o, SignNet(d))
                        /\ r.o # b.o /\ r.u # b.u
                        /\ MadeBy(r.s, d.k, Msg(r.u, r.o, SignNet(d)))
\* ... and only the length-exact comparison of the claimed overlay pins the boundary: a comparison of its last 32 bytes
\* would accept every record whose underlay tail was moved in front of the overlay, and every self-made claim of an
\* overlay that merely ENDS with the key's overlay
BoundaryPinnedByExactComparison ==
  /\ (d.mut = "shift" /\ d.how \in {"c0", "c1", "c2", "c3"}) => (ParseSuffixOK(RecOf(d), CheckNet(d)) /\ ~ParseOK(RecOf(d), CheckNet(d)))
  /\ (d.mut = "claim" /\ d.how \in {"pre1", "prez", "pre42"}) => (ParseSuffixOK(RecOf(d), CheckNet(d)) /\ ~ParseOK(RecOf(d), CheckNet(d)))
\* fields are kept in normal form (no two adjacent pieces of one base that touch), so field equality is byte equality
Normal(f) == \A i \in 1..(Len(f) - 1) : ~(f[i][1] = f[i + 1][1] /\ f[i][3] = f[i + 1][2])
FieldsNormal == Normal(RecOf(d).u) /\ Normal(RecOf(d).o) /\ Normal(RecOf(d).s.m[1])
\* every length the model can claim for an overlay: 32 exactly when accepted
AcceptedOverlayIs32 == LET UC == [u \in UnderlayIds |-> <<0, 5, 8, 46, 47>>]
                       IN Accept(RecOf(d), CheckNet(d)) => FieldBytes(RecOf(d).o, UC) = 32
=============================================================================
