SPECIFICATION GSpecApi
CONSTANTS
  Cap <- GCap
  PoolCap <- GPoolCap
  HandleIds <- GHandles
  WLens <- GWLens
  Hdrs <- GHdrs
  PlanTrees <- TreesSmall
VIEW EdgeView
INVARIANTS EmitAll ApiTypeOK 
CHECK_DEADLOCK FALSE
