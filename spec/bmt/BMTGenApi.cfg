SPECIFICATION GSpecApi
CONSTANTS
  Cap <- GCap
  PoolCap <- GPoolCap
  HandleIds <- GHandles
  WLens <- GWLens
  Hdrs <- GHdrs
  PlanTrees <- TreesSmall

INVARIANTS EmitFull ApiTypeOK 
CHECK_DEADLOCK FALSE
