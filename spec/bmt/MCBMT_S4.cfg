SPECIFICATION Spec
CONSTANTS
  Sections = 4
  Trees <- T1
  Users <- U1
  Rounds = 1
  MaxWrites = 2
  Reuses <- PutOnly
INVARIANTS TypeOK Correct OneResult CleanAtResult CleanInPool Exclusive RefOfEmpty
