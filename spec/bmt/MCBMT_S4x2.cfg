SPECIFICATION Spec
CONSTANTS
  Sections = 4
  Trees <- T1
  Users <- U1
  Rounds = 2
  MaxWrites = 1
  Reuses <- PutOrReset
INVARIANTS TypeOK Correct OneResult CleanAtResult CleanInPool Exclusive RefOfEmpty
