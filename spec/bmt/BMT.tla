--------------------------------- MODULE BMT ---------------------------------
(* The concurrent binary-Merkle-tree hasher of pkg/bmt (property C03),        *)
(* implementation-shaped: one action per step of a goroutine that touches     *)
(* shared memory.                                                             *)
(*                                                                            *)
(*   bmt.go   Hasher.Write         -> Write       (copy + `go processSection`) *)
(*            Hasher.Hash          -> HashEmpty / HashStart, result by Send    *)
(*            processSection       -> SecHash                                  *)
(*            writeNode            -> Store, Toggle, Combine, Send             *)
(*            writeFinalNode       -> Fin, FinToggle, FinCombine, Send         *)
(*            Hasher.Reset         -> Reuse                                    *)
(*   pool.go  Pool.Get / Pool.Put  -> Get / Put; node.toggle -> the tog bit    *)
(*                                                                            *)
(* A tree over `Sections` sections (2 segments each) has node levels          *)
(* 0..Height; level-0 nodes only lend their hasher to a section, a level-k    *)
(* node (k >= 1) holds the hashes of its two children and the toggle.         *)
(* Data is symbolic: segment i of the data of use <<u, r>> is <<"d",u,r,i>>,  *)
(* the zero segment is <<"z">>, the base hash is the injective constructor    *)
(* <<"h", left, right>> and the final keccak(span || root) is <<"k",..>>.     *)
(* Nothing is ever cleared between uses: buffer, child hashes and toggles     *)
(* keep what the previous use left there, as in the code.                     *)
EXTENDS Integers, Sequences, FiniteSets

CONSTANTS Sections,    \* 1, 2, 4 or 8
          Trees,       \* the pool's trees
          Users,       \* goroutines using the pool, each hashing Rounds times
          Rounds,
          MaxWrites,   \* a data length is split into at most this many Write calls
          Reuses       \* subset of {"put", "reset"}: how a user goes from one hash to its next

Segs   == 2 * Sections                         \* capacity in segments
Height == CASE Sections = 1 -> 0 [] Sections = 2 -> 1 [] Sections = 4 -> 2 [] Sections = 8 -> 3

Nil  == <<"nil">>
Zero == <<"z">>
H(a, b) == <<"h", a, b>>
K(span, root) == <<"k", span, root>>
D(u, r, i) == <<"d", u, r, i>>
Hdr(u, r) == <<"hdr", u, r>>
ZeroSpan == <<"hdr0">>

\* zerohashes[k]: root of an all-zero subtree of 2^k segments
RECURSIVE ZH(_)
ZH(k) == IF k = 0 THEN Zero ELSE H(ZH(k - 1), ZH(k - 1))

(***************************************************************************)
(* The recursive definition (the reference): BMT root of the data of use   *)
(* <<u, r>> of length len segments, zero-padded to the capacity.           *)
(***************************************************************************)
SegOf(u, r, len, i) == IF i < len THEN D(u, r, i) ELSE Zero
RECURSIVE RefSub(_, _, _, _, _)
RefSub(u, r, len, lo, n) == IF n = 2 THEN H(SegOf(u, r, len, lo), SegOf(u, r, len, lo + 1))
                            ELSE H(RefSub(u, r, len, lo, n \div 2), RefSub(u, r, len, lo + n \div 2, n \div 2))
RefRoot(u, r, len) == RefSub(u, r, len, 0, Segs)

(***************************************************************************)
(* Tree geometry.                                                          *)
(***************************************************************************)
RECURSIVE Pow2(_)
Pow2(k) == IF k = 0 THEN 1 ELSE 2 * Pow2(k - 1)
InnerIds == UNION {{<<lv, ix>> : ix \in 0..((Sections \div Pow2(lv)) - 1)} : lv \in 1..Height}
NoNode == <<0, 0>>                              \* "n == nil": above the root
ParentOf(n) == IF n[1] >= Height THEN NoNode ELSE <<n[1] + 1, n[2] \div 2>>
IsLeftIx(ix) == ix % 2 = 0
\* leaf (level-0 node) of section i: its parent and side
LeafParent(i) == IF Height = 0 THEN NoNode ELSE <<1, i \div 2>>

VARIABLES pool,     \* free trees
          buf,      \* buf[t][i]: segment i of tree t's buffer
          nd,       \* nd[t][n] = [l, r, tog] for inner nodes
          usr,      \* per user: program counter and Hasher fields
          procs     \* running section goroutines

vars == <<pool, buf, nd, usr, procs>>

\* every way to cut a length into at most MaxWrites Write calls (zero-length writes included)
RECURSIVE PlansOf(_, _)
PlansOf(total, k) == IF k = 1 THEN {<<total>>}
                     ELSE {<<total>>} \cup UNION {{<<w>> \o p : p \in PlansOf(total - w, k - 1)} : w \in 0..total}
Plans == UNION {PlansOf(len, MaxWrites) : len \in 0..Segs}

FreshUser == [pc |-> "idle", t |-> CHOOSE t \in Trees : TRUE, rd |-> 0, size |-> 0, pos |-> 0, plan |-> <<>>,
              span |-> ZeroSpan, digest |-> Nil, gen |-> 0]

Init == /\ pool = Trees
        /\ buf = [t \in Trees |-> [i \in 0..(Segs - 1) |-> Zero]]
        /\ nd = [t \in Trees |-> [n \in InnerIds |-> [l |-> Nil, r |-> Nil, tog |-> 0]]]
        /\ usr = [u \in Users |-> FreshUser]
        /\ procs = {}

(***************************************************************************)
(* The user (caller of the Hasher API).                                    *)
(***************************************************************************)
\* a new use starts: the data length and its split are chosen here; SetHeader is called in odd rounds
\* only (a fresh or Reset Hasher has the zero span)
StartUse(u, t, plan, newGen) ==
  [usr[u] EXCEPT !.pc = "writing", !.t = t, !.rd = @ + 1, !.size = 0, !.pos = 0, !.plan = plan,
                 !.span = IF usr[u].rd % 2 = 0 THEN Hdr(u, usr[u].rd + 1) ELSE ZeroSpan, !.digest = Nil,
                 !.gen = IF newGen THEN @ + 1 ELSE @]

\* Pool.Get (blocks while the pool is empty) + SetHeader
Get(u) == /\ usr[u].pc = "idle" /\ usr[u].rd < Rounds
          /\ \E t \in pool, plan \in Plans :
               /\ pool' = pool \ {t}
               /\ usr' = [usr EXCEPT ![u] = StartUse(u, t, plan, TRUE)]
          /\ UNCHANGED <<buf, nd, procs>>

NewProc(u, i, final) == [t |-> usr[u].t, u |-> u, gen |-> usr[u].gen, sec |-> i, fin |-> final, pc |-> "hash",
                         n |-> NoNode, left |-> TRUE, s |-> Nil]

\* Hasher.Write(b), len(b) = w segments:  copy; from = size/sec; size += l; to = size/sec; if l == max {to--}
Write(u) ==
  /\ usr[u].pc = "writing" /\ usr[u].plan # <<>>
  /\ LET me == usr[u]
         w == Head(me.plan)
         max == Segs - me.size
         l == IF w > max THEN max ELSE w
         from == me.size \div 2
         size2 == me.size + l
         to0 == size2 \div 2
         to == IF l = max THEN to0 - 1 ELSE to0
     IN /\ buf' = [buf EXCEPT ![me.t] = [i \in 0..(Segs - 1) |->
                                           IF i >= me.size /\ i < me.size + l THEN D(u, me.rd, i) ELSE @[i]]]
        /\ usr' = [usr EXCEPT ![u].size = size2, ![u].pos = to, ![u].plan = Tail(me.plan)]
        /\ procs' = procs \cup {NewProc(u, i, FALSE) : i \in from..(to - 1)}
  /\ UNCHANGED <<pool, nd>>

\* Hasher.Hash with nothing written: no goroutine at all
HashEmpty(u) ==
  /\ usr[u].pc = "writing" /\ usr[u].plan = <<>> /\ usr[u].size = 0
  /\ usr' = [usr EXCEPT ![u].pc = "got", ![u].digest = K(usr[u].span, ZH(Height + 1))]
  /\ UNCHANGED <<pool, buf, nd, procs>>

\* Hasher.Hash: zero one section's worth of buffer after the data, start the final section, wait
HashStart(u) ==
  /\ usr[u].pc = "writing" /\ usr[u].plan = <<>> /\ usr[u].size > 0
  /\ LET me == usr[u]
     IN /\ buf' = [buf EXCEPT ![me.t] = [i \in 0..(Segs - 1) |->
                                           IF i >= me.size /\ i < me.size + 2 THEN Zero ELSE @[i]]]
        /\ procs' = procs \cup {NewProc(u, me.pos, TRUE)}
        /\ usr' = [usr EXCEPT ![u].pc = "wait"]
  /\ UNCHANGED <<pool, nd>>

\* Pool.Put, or Reset of the same Hasher (same tree, same result channel), or stop
Put(u) == /\ usr[u].pc = "got"
          /\ ("put" \in Reuses \/ usr[u].rd = Rounds)
          /\ pool' = pool \cup {usr[u].t}
          /\ usr' = [usr EXCEPT ![u].pc = "idle"]
          /\ UNCHANGED <<buf, nd, procs>>

Reuse(u) == /\ usr[u].pc = "got" /\ "reset" \in Reuses /\ usr[u].rd < Rounds
            /\ \E plan \in Plans :
                 usr' = [usr EXCEPT ![u] = StartUse(u, usr[u].t, plan, FALSE)]
            /\ UNCHANGED <<pool, buf, nd, procs>>

(***************************************************************************)
(* Section goroutines.                                                     *)
(***************************************************************************)
Replace(p, q) == procs' = (procs \ {p}) \cup {q}
Finish(p)     == procs' = procs \ {p}
NodeOf(p)     == nd[p.t][p.n]
GoUp(p, s)    == [p EXCEPT !.s = s, !.left = IsLeftIx(p.n[2]), !.n = ParentOf(p.n)]

\* doHash(leaf hasher, buffer[section]); n = leaf.parent
SecHash(p) ==
  /\ p.pc = "hash"
  /\ LET s == H(buf[p.t][2 * p.sec], buf[p.t][2 * p.sec + 1])
         q == [p EXCEPT !.s = s, !.n = LeafParent(p.sec), !.left = IsLeftIx(p.sec)]
     IN Replace(p, [q EXCEPT !.pc = IF p.fin THEN "fin" ELSE IF q.n = NoNode THEN "send" ELSE "store"])
  /\ UNCHANGED <<pool, buf, nd, usr>>

\* writeNode: n.left / n.right = s
Store(p) ==
  /\ p.pc = "store"
  /\ nd' = [nd EXCEPT ![p.t][p.n] = IF p.left THEN [@ EXCEPT !.l = p.s] ELSE [@ EXCEPT !.r = p.s]]
  /\ Replace(p, [p EXCEPT !.pc = "tog"])
  /\ UNCHANGED <<pool, buf, usr>>

\* writeNode: if n.toggle() { return }   (first of the two children to arrive terminates)
Toggle(p) ==
  /\ p.pc = "tog"
  /\ nd' = [nd EXCEPT ![p.t][p.n].tog = 1 - @]
  /\ IF NodeOf(p).tog = 0 THEN Finish(p) ELSE Replace(p, [p EXCEPT !.pc = "comb"])
  /\ UNCHANGED <<pool, buf, usr>>

\* writeNode: s = hash(n.left, n.right); go to the parent (the root's parent is nil: send)
Combine(p) ==
  /\ p.pc = "comb"
  /\ LET q == GoUp(p, H(NodeOf(p).l, NodeOf(p).r))
     IN Replace(p, [q EXCEPT !.pc = IF q.n = NoNode THEN "send" ELSE "store"])
  /\ UNCHANGED <<pool, buf, nd, usr>>

\* writeFinalNode, one loop iteration up to the toggle / hash
Fin(p) ==
  /\ p.pc = "fin"
  /\ IF p.n = NoNode
       THEN /\ IF p.s # Nil THEN Replace(p, [p EXCEPT !.pc = "send"]) ELSE Finish(p)
            /\ UNCHANGED nd
       ELSE IF p.left
         THEN IF p.s # Nil
                THEN \* the final section's path carries a hash from the left: pad right, no toggle
                     /\ nd' = [nd EXCEPT ![p.t][p.n] = [@ EXCEPT !.r = ZH(p.n[1]), !.l = p.s]]
                     /\ Replace(p, [p EXCEPT !.pc = "fcomb"])
                ELSE /\ nd' = [nd EXCEPT ![p.t][p.n] = [@ EXCEPT !.r = ZH(p.n[1])]]
                     /\ Replace(p, [p EXCEPT !.pc = "ftog"])
         ELSE IF p.s # Nil
                THEN /\ nd' = [nd EXCEPT ![p.t][p.n] = [@ EXCEPT !.r = p.s]]
                     /\ Replace(p, [p EXCEPT !.pc = "ftog"])
                ELSE \* arrived first below and comes from the right: nothing to do here
                     /\ UNCHANGED nd
                     /\ Replace(p, GoUp(p, Nil))
  /\ UNCHANGED <<pool, buf, usr>>

\* writeFinalNode: noHash = n.toggle()
FinToggle(p) ==
  /\ p.pc = "ftog"
  /\ nd' = [nd EXCEPT ![p.t][p.n].tog = 1 - @]
  /\ IF NodeOf(p).tog = 0 THEN Replace(p, [GoUp(p, Nil) EXCEPT !.pc = "fin"])
                          ELSE Replace(p, [p EXCEPT !.pc = "fcomb"])
  /\ UNCHANGED <<pool, buf, usr>>

FinCombine(p) ==
  /\ p.pc = "fcomb"
  /\ Replace(p, [GoUp(p, H(NodeOf(p).l, NodeOf(p).r)) EXCEPT !.pc = "fin"])
  /\ UNCHANGED <<pool, buf, nd, usr>>

\* h.result <- s : unbuffered; Hash is the only receiver, once per use
Send(p) ==
  /\ p.pc = "send"
  /\ usr[p.u].pc = "wait" /\ usr[p.u].gen = p.gen
  /\ usr' = [usr EXCEPT ![p.u].pc = "got", ![p.u].digest = K(usr[p.u].span, p.s)]
  /\ Finish(p)
  /\ UNCHANGED <<pool, buf, nd>>

ProcStep(p) == SecHash(p) \/ Store(p) \/ Toggle(p) \/ Combine(p) \/ Fin(p) \/ FinToggle(p) \/ FinCombine(p) \/ Send(p)

AllDone == \A u \in Users : usr[u].pc = "idle" /\ usr[u].rd = Rounds
Done == AllDone /\ procs = {} /\ UNCHANGED vars

Next == \/ \E u \in Users : Get(u) \/ Write(u) \/ HashEmpty(u) \/ HashStart(u) \/ Put(u) \/ Reuse(u)
        \/ \E p \in procs : ProcStep(p)
        \/ Done

Spec == Init /\ [][Next]_vars

(***************************************************************************)
(* Properties.                                                             *)
(***************************************************************************)
\* the result equals the recursive definition
Correct == \A u \in Users : usr[u].pc = "got" =>
              usr[u].digest = K(usr[u].span,
                                IF usr[u].size = 0 THEN ZH(Height + 1) ELSE RefRoot(u, usr[u].rd, usr[u].size))
\* sanity of the reference itself: the empty tree is the zero table's top entry
RefOfEmpty == \A u \in Users : RefRoot(u, 1, 0) = ZH(Height + 1)

\* exactly one result: nobody is ever left trying to send a second one (it would block for ever,
\* or - with a reused Hasher - be taken for the next use's result)
OneResult == \A p \in procs : p.pc = "send" => usr[p.u].pc = "wait" /\ usr[p.u].gen = p.gen /\ usr[p.u].rd > 0

\* a goroutine that may still write shared state of its tree
RECURSIVE PathWrites(_, _)
PathWrites(n, left) == IF n = NoNode THEN FALSE ELSE left \/ PathWrites(ParentOf(n), IsLeftIx(n[2]))
CanWrite(p) == IF p.pc = "fin" /\ p.s = Nil THEN PathWrites(p.n, p.left) ELSE TRUE

\* at the time the result is handed over the tree is clean: toggles passive, nobody can write any more
TreeClean(t) == /\ \A n \in InnerIds : nd[t][n].tog = 0
                /\ \A p \in procs : p.t = t => ~CanWrite(p)
CleanAtResult == \A u \in Users : usr[u].pc = "got" => TreeClean(usr[u].t)
CleanInPool   == \A t \in pool : TreeClean(t)

\* a tree is held by at most one user
Exclusive == \A u, v \in Users : u # v /\ usr[u].pc \notin {"idle"} /\ usr[v].pc \notin {"idle"} => usr[u].t # usr[v].t

TypeOK == /\ pool \subseteq Trees
          /\ \A p \in procs : p.pc \in {"hash", "store", "tog", "comb", "fin", "ftog", "fcomb", "send"}
=============================================================================
