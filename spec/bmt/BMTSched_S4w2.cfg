SPECIFICATION SSpec
CONSTANTS
  Sections = 4
  Trees <- STrees
  Users <- SUsers
  Rounds = 1
  MaxWrites = 2
  Reuses <- SReuses
INVARIANTS EmitSched SchedOK NotStuck
CHECK_DEADLOCK FALSE
