SPECIFICATION SSpec
CONSTANTS
  Sections = 2
  Trees <- STrees
  Users <- SUsers
  Rounds = 2
  MaxWrites = 2
  Reuses <- SReuses
INVARIANTS EmitSched SchedOK NotStuck
CHECK_DEADLOCK FALSE
