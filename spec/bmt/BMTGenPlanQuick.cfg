SPECIFICATION GSpecPlan
CONSTANTS
  Cap <- GCap
  PoolCap <- GPoolCap
  HandleIds <- GHandles
  WLens <- GWLens
  Hdrs <- GHdrs
  PlanTrees <- TreesQuick
INVARIANTS EmitPlan PlanTypeOK PlanRuns
CHECK_DEADLOCK FALSE
