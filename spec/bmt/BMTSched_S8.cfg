SPECIFICATION SSpec
CONSTANTS
  Sections = 8
  Trees <- STrees
  Users <- SUsers
  Rounds = 1
  MaxWrites = 1
  Reuses <- SReuses
INVARIANTS EmitSched SchedOK NotStuck
CHECK_DEADLOCK FALSE
