SPECIFICATION Spec
CONSTANTS
  Sections = 1
  Trees <- T1
  Users <- U1
  Rounds = 2
  MaxWrites = 3
  Reuses <- PutOrReset
INVARIANTS TypeOK Correct OneResult CleanAtResult CleanInPool Exclusive RefOfEmpty
