------------------------------- MODULE BMTGen -------------------------------
(* Scenario generators for C03.                                              *)
(*  GSpecApi    BMTApi's state machine with a history variable: edges mode   *)
(*              (one shortest history per (state, operation) edge) and       *)
(*              -simulate walks over several hashers of one small pool       *)
(*  GSpecPlan   one hasher: Get, SetHeader, Write x (a split of a length),   *)
(*              Hash, then the same again after Reset or after Put + Get;    *)
(*              trees, lengths and cut points from class sets (exh mode)     *)
(* API walks take the tree size from the environment (VERIF_SEGS, ...).      *)
EXTENDS BMTApi, TLC, Json, IOUtils

VARIABLES hist, par, plan

Env(k, d) == IF k \in DOMAIN IOEnv THEN IOEnv[k] ELSE d
Depth    == atoi(Env("VERIF_DEPTH", "6"))
SegCount == atoi(Env("VERIF_SEGS", "4"))          \* segment count given to bmt.NewConf (power of two here)
GCap     == 32 * SegCount
GPoolCap == atoi(Env("VERIF_POOLCAP", "1"))
GHandles == 1..atoi(Env("VERIF_HANDLES", "1"))

GHdrs == {"a", "b", "i64"}

\* write lengths for the API walks: around segment, section and capacity boundaries
GWLens == {n \in {0, 1, 31, 32, 33, 63, 64, 65, 96, 127, 128, 129, 191, 192, 255, 256,
                  GCap - 65, GCap - 64, GCap - 33, GCap - 1, GCap} : n >= 0 /\ n <= GCap}

ParRec == [tree |-> "small", segs |-> SegCount, poolcap |-> GPoolCap, cap |-> GCap]

\* the operation as the driver needs it: Hash carries the term it must evaluate to
OpRec(o, pre) == IF o.op = "hash" THEN [op |-> "hash", h |-> o.h, len |-> HashTerm(o, pre).len, hdr |-> HashTerm(o, pre).hdr]
                 ELSE o

(***************************************************************************)
(* API walks / edges.                                                      *)
(***************************************************************************)
GInitApi == ApiInit /\ hist = <<>> /\ par = ParRec /\ plan = <<>>
GNextApi == /\ Len(hist) < Depth
            /\ ApiNext
            /\ hist' = Append(hist, OpRec(last', hs))
            /\ UNCHANGED <<par, plan>>
GSpecApi == GInitApi /\ [][GNextApi]_<<apiVars, hist, par, plan>>

EdgeView == <<hs, last>>
EmitAll  == hist # <<>> => PrintT(<<"SCN", ToJson([par |-> par, ops |-> hist])>>)
EmitFull == Len(hist) = Depth => PrintT(<<"SCN", ToJson([par |-> par, ops |-> hist])>>)

(***************************************************************************)
(* Plans: (tree, length, split, header, reuse) classes.  The tree is part  *)
(* of the scenario (par), so one TLC run covers several tree sizes; the    *)
(* model's capacity is par.cap (BMTApi's ...C operators).                  *)
(***************************************************************************)
Rich == Env("VERIF_RICH", "0") = "1"            \* thorough: more split classes

Small(segs, pc) == [tree |-> "shared", segs |-> segs, poolcap |-> pc, cap |-> 32 * segs]
ProdTree        == [tree |-> "prod", segs |-> 8192, poolcap |-> 32, cap |-> 262144]
TreesSmall == {Small(2, 2), Small(4, 1), Small(8, 3)}
TreesMid   == {Small(128, 4)}
TreesProd  == {ProdTree}
\* segment counts that are not powers of two: the tree is built for the next power of two
TreesOdd   == {[tree |-> "shared", segs |-> 3, poolcap |-> 2, cap |-> 128], [tree |-> "shared", segs |-> 6, poolcap |-> 1, cap |-> 256]}
TreesQuick == TreesSmall \cup TreesProd
CONSTANT PlanTrees

Pow2Set == {256, 512, 1024, 2048, 4096, 8192, 16384, 32768, 65536, 131072}
\* lengths: every length for trees up to 8 segments; beyond that boundary-dense: 0..129 around the first
\* segments/sections, every power of two -65..+65 at offsets that straddle segment and section edges, the capacity's edge
PlanLens(cp) ==
  IF cp <= 256 THEN 0..cp
  ELSE {n \in ({0, 1, 2, 31, 32, 33, 63, 64, 65, 95, 96, 97, 127, 128, 129}
                \cup UNION {{p - 65, p - 64, p - 63, p - 33, p - 32, p - 31, p - 1, p, p + 1, p + 31, p + 32, p + 33,
                             p + 63, p + 64, p + 65} : p \in Pow2Set}
                \cup {cp - 129, cp - 128, cp - 127, cp - 65, cp - 64, cp - 63, cp - 33, cp - 32,
                      cp - 31, cp - 2, cp - 1, cp, 3 * 4096 + 7, 100000, 200001}) : n >= 0 /\ n <= cp}

\* cut points of a length L (where one Write ends and the next begins)
Cuts(L) == {x \in (IF Rich THEN {0, 1, 31, 32, 33, 63, 64, 65, 128, L \div 2, L - 65, L - 64, L - 63, L - 32, L - 1, L}
                            ELSE {1, 32, 64, 65, L \div 2, L - 64, L - 1}) : x >= 0 /\ x <= L}
\* splits: one write; two writes at a cut; three writes at two cuts (a few)
SplitsOf(L) == {<<L>>} \cup {<<x, L - x>> : x \in Cuts(L)}
               \cup {<<x, y - x, L - y>> : x \in {z \in Cuts(L) : z \in {1, 64, L \div 2}},
                                          y \in {z \in Cuts(L) : z \in (IF Rich THEN {L - 64, L - 1, L} ELSE {L - 1})}}
SplitsOK(L) == {s \in SplitsOf(L) : \A i \in 1..Len(s) : s[i] >= 0}

HdrOf(L, k) == LET i == (L + k) % 4 IN IF i = 0 THEN "none" ELSE IF i = 1 THEN "a" ELSE IF i = 2 THEN "b" ELSE "i64"

\* one use of handle 1 as a list of operations (without get / put)
UseOps(L, split, k) ==
  (IF HdrOf(L, k) = "none" THEN <<>> ELSE <<[op |-> "hdr", h |-> 1, x |-> HdrOf(L, k)]>>)
  \o [i \in 1..Len(split) |-> [op |-> "write", h |-> 1, n |-> split[i]]]
  \o <<[op |-> "hash", h |-> 1]>>

\* a second use follows every first one: after Reset of the same hasher or after Put + Get; its length is the
\* first one's mirrored (so that shorter-after-longer and longer-after-shorter both occur).
\* Reset and Put + Get alternate with the parity of (length + number of writes)
ReuseOf(L, s) == IF (L + Len(s)) % 2 = 0 THEN "hreset" ELSE "put"
PlanOf(cp, L, s) ==
     <<[op |-> "get", h |-> 1]>> \o UseOps(L, s, 0)
  \o (IF ReuseOf(L, s) = "hreset" THEN <<[op |-> "hreset", h |-> 1]>>
      ELSE <<[op |-> "put", h |-> 1], [op |-> "get", h |-> 1]>>)
  \o UseOps(cp - L, <<cp - L>>, 1)
  \o <<[op |-> "put", h |-> 1]>>

GInitPlan == /\ ApiInit /\ hist = <<>>
             /\ par \in PlanTrees
             /\ plan \in UNION {{PlanOf(par.cap, L, s) : s \in SplitsOK(L)} : L \in PlanLens(par.cap)}
DoC(o) == CanDoC(o, hs, par.cap, par.poolcap) /\ hs' = AfterC(o, hs, par.cap) /\ last' = o
GNextPlan == /\ plan # <<>>
             /\ DoC(Head(plan))
             /\ hist' = Append(hist, OpRec(last', hs))
             /\ plan' = Tail(plan)
             /\ UNCHANGED par
GSpecPlan == GInitPlan /\ [][GNextPlan]_<<apiVars, hist, par, plan>>
EmitPlan == plan = <<>> /\ hist # <<>> => PrintT(<<"SCN", ToJson([par |-> par, ops |-> hist])>>)
PlanTypeOK == \A h \in HandleIds : hs[h].size \in 0..par.cap
\* a plan that the API model cannot execute to its end is a generator bug
PlanRuns == plan # <<>> => CanDoC(Head(plan), hs, par.cap, par.poolcap)
=============================================================================
