SPECIFICATION Spec
CONSTANTS
  Sections = 8
  Trees <- T1
  Users <- U1
  Rounds = 1
  MaxWrites = 1
  Reuses <- PutOnly
INVARIANTS TypeOK Correct OneResult CleanAtResult CleanInPool Exclusive RefOfEmpty
