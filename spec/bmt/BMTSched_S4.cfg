SPECIFICATION SSpec
CONSTANTS
  Sections = 4
  Trees <- STrees
  Users <- SUsers
  Rounds = 2
  MaxWrites = 1
  Reuses <- SReuses
INVARIANTS EmitSched SchedOK NotStuck
CHECK_DEADLOCK FALSE
