-------------------------------- MODULE MCBMT --------------------------------
(* Bounded configurations of the concurrent BMT hasher (C03): every data     *)
(* length, every split into Write calls, every interleaving of the section   *)
(* goroutines, consecutive uses of one tree (through the pool and through    *)
(* Reset) with the previous use's stragglers still running, several users.   *)
EXTENDS BMT, TLC
T1 == {1}
T2 == {1, 2}
U1 == {1}
U2 == {1, 2}
PutOnly == {"put"}
PutOrReset == {"put", "reset"}
ResetOnly == {"reset"}
=============================================================================
