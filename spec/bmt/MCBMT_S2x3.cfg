SPECIFICATION Spec
CONSTANTS
  Sections = 2
  Trees <- T1
  Users <- U1
  Rounds = 3
  MaxWrites = 2
  Reuses <- PutOrReset
INVARIANTS TypeOK Correct OneResult CleanAtResult CleanInPool Exclusive RefOfEmpty
