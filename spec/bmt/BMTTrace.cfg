SPECIFICATION TSpec
CONSTANTS
  Cap = 0
  PoolCap = 0
  HandleIds <- THandles
  WLens <- TNone
  Hdrs <- TNone
INVARIANT Report
POSTCONDITION AllConsumed
CHECK_DEADLOCK FALSE
