SPECIFICATION Spec
CONSTANTS
  Sections = 2
  Trees <- T1
  Users <- U1
  Rounds = 2
  MaxWrites = 2
  Reuses <- PutOrReset
INVARIANTS TypeOK Correct OneResult CleanAtResult CleanInPool Exclusive RefOfEmpty
