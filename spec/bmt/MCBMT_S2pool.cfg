SPECIFICATION Spec
CONSTANTS
  Sections = 2
  Trees <- T2
  Users <- U2
  Rounds = 1
  MaxWrites = 1
  Reuses <- PutOnly
INVARIANTS TypeOK Correct OneResult CleanAtResult CleanInPool Exclusive RefOfEmpty
