SPECIFICATION GSpecPlan
CONSTANTS
  Cap <- GCap
  PoolCap <- GPoolCap
  HandleIds <- GHandles
  WLens <- GWLens
  Hdrs <- GHdrs
  PlanTrees <- TreesOdd
INVARIANTS EmitPlan PlanTypeOK PlanRuns
CHECK_DEADLOCK FALSE
