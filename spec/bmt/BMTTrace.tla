------------------------------ MODULE BMTTrace ------------------------------
(* Judge for C03: replays what bmtdrv recorded from pkg/bmt and pkg/bmtpool  *)
(* against BMTApi.  Monitor mode (TraceKit).  Every scenario starts with a   *)
(* reset event carrying the tree's capacity as the hasher reported it.       *)
EXTENDS BMTApi, TraceKit

THandles == 1..3
TNone == {}

VARIABLES l, bad, notes, cap, pcap

Pow2Ceil(n) == CHOOSE c \in {2, 4, 8, 16, 32, 64, 128, 256, 512, 1024, 2048, 4096, 8192} :
                  c >= n /\ \A d \in {2, 4, 8, 16, 32, 64, 128, 256, 512, 1024, 2048, 4096, 8192} : d >= n => c <= d

\* the logged event as an operation of the model
OpOf(e) == CASE e.op = "hdr"   -> [op |-> "hdr", h |-> e.h, x |-> e.x]
             [] e.op = "write" -> [op |-> "write", h |-> e.h, n |-> e.n]
             [] OTHER          -> [op |-> e.op, h |-> e.h]

(***************************************************************************)
(* Verdict: the statement of C03 over what the caller observed.  For every *)
(* Hash: it returns, without error, 32 bytes equal to the independent      *)
(* evaluation of keccak256(span || BMT root of the zero-padded data).      *)
(* (That the evaluation was made for the length and span this model holds  *)
(* is a consistency condition on generator and driver: a note, below.)     *)
(***************************************************************************)
Verdict(e, pre) ==
  IF e.op = "crash"      \* the driver's child process died with a panic while running this scenario alone
  THEN <<"C03:hasher_does_not_crash">>
  ELSE IF e.op = "hash"
  THEN    Clause("C03:hash_returns", e.returned /\ e.err = "")
       \o Clause("C03:digest_is_keccak_of_span_and_bmt_root",
                 ~e.returned \/ e.err # "" \/ (e.dlen = 32 /\ e.digest = e.digestRef))
  ELSE <<>>

\* conformance notes (implementation-shaped, or about the scenario itself)
Drift(e, pre) ==
  IF e.op = "crash" THEN <<>> ELSE
     (IF e.op = "reset" /\ Has(e, "cap") /\ e.cap # 0 /\ e.cap # 32 * Pow2Ceil(e.segs) THEN <<"capacity_is_32_times_next_power_of_two">> ELSE <<>>)
  \o (IF e.op # "reset" /\ ~CanDoC(OpOf(e), pre, cap, pcap) /\ ~(e.op = "get" /\ pcap = 0) THEN <<"operation_outside_the_api_protocol">> ELSE <<>>)
  \o (IF e.op = "write" /\ (e.err # "" \/ e.ret # WriteRetC(OpOf(e), pre, cap)) THEN <<"write_returns_bytes_absorbed">> ELSE <<>>)
  \o (IF e.op = "get" /\ e.capacity # cap THEN <<"capacity_differs_between_hashers">> ELSE <<>>)
  \o (IF e.op = "hash" /\ (e.refLen # HashTerm(OpOf(e), pre).len \/ e.refHdr # HashTerm(OpOf(e), pre).hdr)
      THEN <<"reference_was_not_evaluated_for_the_models_length_and_span">> ELSE <<>>)
     \* forced schedules (BMTSched): the real goroutines offered the gates in the order the model prescribed,
     \* and exactly one of them reached the point where the result is sent
  \o (IF e.op = "hash" /\ Has(e, "followed") /\ ~e.followed THEN <<"forced_schedule_could_not_be_followed">> ELSE <<>>)
  \o (IF e.op = "hash" /\ Has(e, "sends") /\ e.returned /\ e.sends # (IF e.refLen = 0 THEN 0 ELSE 1)
      THEN <<"exactly_one_result_is_sent">> ELSE <<>>)

TInit == /\ l = 1 /\ hs = AllFree /\ last = [op |-> "init"] /\ bad = <<>> /\ notes = <<>> /\ cap = 0 /\ pcap = 0

TStep == /\ l <= NEvents
         /\ LET e == Trace[l]
                cs == IF e.op = "reset" THEN <<>> ELSE Verdict(e, hs)
                ds == Drift(e, hs)
            IN /\ l' = l + 1
               /\ bad' = IF cs = <<>> THEN bad ELSE Append(bad, BadRec(l, e, cs))
               /\ notes' = IF ds = <<>> \/ Len(notes) >= 20 THEN notes ELSE Append(notes, BadRec(l, e, ds))
               /\ IF e.op = "reset"
                    THEN /\ hs' = AllFree /\ cap' = e.cap
                         \* shared pools are used by other scenarios at the same time: their Get is not bounded here
                         /\ pcap' = IF e.tree = "small" THEN e.poolcap ELSE 3
                    ELSE /\ hs' = IF e.op = "crash" THEN hs ELSE AfterC(OpOf(e), hs, cap)
                         /\ UNCHANGED <<cap, pcap>>
               /\ last' = [op |-> e.op]

TSpec == TInit /\ [][TStep]_<<apiVars, l, bad, notes, cap, pcap>>

Report == ReportBad(l, bad, notes)
=============================================================================
