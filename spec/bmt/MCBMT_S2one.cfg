SPECIFICATION Spec
CONSTANTS
  Sections = 2
  Trees <- T1
  Users <- U2
  Rounds = 2
  MaxWrites = 1
  Reuses <- PutOnly
INVARIANTS TypeOK Correct OneResult CleanAtResult CleanInPool Exclusive RefOfEmpty
