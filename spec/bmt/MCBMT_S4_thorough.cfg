SPECIFICATION Spec
CONSTANTS
  Sections = 4
  Trees <- T1
  Users <- U1
  Rounds = 1
  MaxWrites = 3
  Reuses <- PutOnly
INVARIANTS TypeOK Correct OneResult CleanAtResult CleanInPool Exclusive RefOfEmpty
