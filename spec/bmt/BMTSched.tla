------------------------------ MODULE BMTSched ------------------------------
(* Forced schedules for C03: behaviours of the implementation-shaped model   *)
(* BMT, cut at the points where the real goroutines can be parked            *)
(* (pkg/bmt/verif_gate.go): the start of a section goroutine, right before   *)
(* each toggle(), right before the result is sent.                           *)
(*                                                                           *)
(* Between two gates a goroutine runs alone (variable `running`), so a       *)
(* behaviour is a sequence of API calls and gate passages.  What differs     *)
(* between behaviours and matters to the algorithm is, per inner node, which *)
(* of its two arrivals toggles first; `first` fixes that choice for every    *)
(* node, `eager` / `asc` fix the remaining (commuting) order.  One initial   *)
(* choice = one behaviour = one scenario: the driver parks the real          *)
(* goroutines at the gates and lets them pass in exactly this order.         *)
EXTENDS BMT, TLC, Json, IOUtils

VARIABLES hist,      \* API calls and gate passages so far
          running,   \* the goroutine that is between two gates (its identity), or None
          first,     \* first[n] \in {0, 1}: which arrival at inner node n toggles first
          eager,     \* TRUE: goroutines run as soon as they can; FALSE: the caller's calls go first
          asc,       \* tie-break among goroutines that may pass a gate: lowest / highest section first
          len1       \* data length of the first use (the second use hashes the complement)

svars == <<vars, hist, running, first, eager, asc, len1>>

None == <<"none">>
GatePcs == {"hash", "tog", "ftog", "send"}
Pid(p) == <<p.gen, p.sec, p.fin>>
U == CHOOSE u \in Users : TRUE            \* one caller
STrees == {1}
SUsers == {1}
SReuses == {"put", "reset"}

\* order of the two arrivals at a node: the final-section goroutine, the one from the left, the one from the right
Key(p) == IF p.pc = "ftog" THEN 0 ELSE IF p.left THEN 1 ELSE 2
Parked(p) == p.pc \in GatePcs
AtToggle(p) == p.pc \in {"tog", "ftog"}

\* may p pass the gate it is parked at?
MayPass(p) ==
  CASE p.pc = "hash" -> eager \/ usr[p.u].pc \in {"wait", "got", "idle"}
    [] p.pc = "send" -> usr[p.u].pc = "wait" /\ usr[p.u].gen = p.gen
    [] AtToggle(p)   -> \/ nd[p.t][p.n].tog = 1                  \* the other one has been here already
                        \/ \E q \in procs : /\ q # p /\ AtToggle(q) /\ q.t = p.t /\ q.n = p.n
                                            /\ IF first[p.n] = 0 THEN Key(p) < Key(q) ELSE Key(p) > Key(q)
    [] OTHER -> FALSE

Ready == {p \in procs : Parked(p) /\ MayPass(p)}
Ord(p) == 100 * p.gen + p.sec
Pick   == CHOOSE p \in Ready : \A q \in Ready : IF asc THEN Ord(p) <= Ord(q) ELSE Ord(p) >= Ord(q)

GateRec(p) == CASE p.pc = "hash" -> [op |-> "gate", kind |-> "sec", level |-> 0, index |-> p.sec, flag |-> p.fin, then |-> "?"]
                [] p.pc = "tog"  -> [op |-> "gate", kind |-> "tog", level |-> p.n[1], index |-> p.n[2], flag |-> p.left, then |-> "?"]
                [] p.pc = "ftog" -> [op |-> "gate", kind |-> "ftog", level |-> p.n[1], index |-> p.n[2], flag |-> p.left, then |-> "?"]
                [] p.pc = "send" -> [op |-> "gate", kind |-> "send", level |-> 0, index |-> 0, flag |-> FALSE, then |-> "?"]

\* after a step of the goroutine `id`: is it parked again, gone, or still on its way?
Where(id) == IF \E p \in procs' : Pid(p) = id
               THEN IF (CHOOSE p \in procs' : Pid(p) = id).pc \in GatePcs THEN "park" ELSE "run"
               ELSE "exit"
SetThen(h, w) == [h EXCEPT ![Len(h)].then = w]

\* a goroutine passes a gate ...
Pass == /\ running = None /\ Ready # {}
        /\ LET p == Pick
           IN /\ ProcStep(p)
              /\ LET w == Where(Pid(p))
                     h == Append(hist, GateRec(p))
                 IN /\ running' = IF w = "run" THEN Pid(p) ELSE None
                    /\ hist' = IF w = "run" THEN h
                               ELSE IF p.pc = "send" THEN Append(SetThen(h, w), [op |-> "hashend"])
                               ELSE SetThen(h, w)
        /\ UNCHANGED <<first, eager, asc, len1>>

\* ... and runs on to its next gate or to its end
Run == /\ running # None
       /\ \E p \in procs : /\ Pid(p) = running
                           /\ ProcStep(p)
                           /\ LET w == Where(running)
                              IN /\ running' = IF w = "run" THEN running ELSE None
                                 /\ hist' = IF w = "run" THEN hist ELSE SetThen(hist, w)
       /\ UNCHANGED <<first, eager, asc, len1>>

\* the caller's next API call
SumSeq(s) == LET RECURSIVE F(_) F(i) == IF i = 0 THEN 0 ELSE s[i] + F(i - 1) IN F(Len(s))
HdrCls  == IF usr[U].span = ZeroSpan THEN "zero" ELSE "a"
UseHead == IF usr'[U].span = ZeroSpan THEN <<>> ELSE <<[op |-> "hdr", x |-> "a"]>>
Call == /\ running = None
        /\ \/ /\ Get(U)
              /\ (usr[U].rd = 0 \/ usr'[U].plan = <<Segs - len1>>)
              /\ len1' = IF usr[U].rd = 0 THEN SumSeq(usr'[U].plan) ELSE len1
              /\ hist' = hist \o <<[op |-> "get"]>> \o UseHead
           \/ /\ Reuse(U)
              /\ usr'[U].plan = <<Segs - len1>>
              /\ hist' = hist \o <<[op |-> "hreset"]>> \o UseHead /\ UNCHANGED len1
           \/ /\ Write(U) /\ hist' = Append(hist, [op |-> "write", n |-> Head(usr[U].plan)]) /\ UNCHANGED len1
           \/ /\ HashEmpty(U) /\ hist' = hist \o <<[op |-> "hashstart", len |-> 0, hdr |-> HdrCls], [op |-> "hashend"]>> /\ UNCHANGED len1
           \/ /\ HashStart(U) /\ hist' = Append(hist, [op |-> "hashstart", len |-> usr[U].size, hdr |-> HdrCls]) /\ UNCHANGED len1
           \/ /\ Put(U) /\ hist' = Append(hist, [op |-> "put"]) /\ UNCHANGED len1
        /\ UNCHANGED <<running, first, eager, asc>>

CallEnabled == ENABLED (Get(U) \/ Reuse(U) \/ Write(U) \/ HashEmpty(U) \/ HashStart(U) \/ Put(U))

SNext == \/ Run
         \/ /\ running = None
            /\ IF eager THEN IF Ready # {} THEN Pass ELSE Call
                        ELSE IF CallEnabled THEN Call ELSE Pass

SInit == /\ Init /\ hist = <<>> /\ running = None /\ len1 = 0
         /\ first \in [InnerIds -> {0, 1}]
         /\ eager \in BOOLEAN /\ asc \in BOOLEAN

SSpec == SInit /\ [][SNext]_svars

Finished == AllDone /\ procs = {} /\ running = None
EmitSched == Finished => PrintT(<<"SCN", ToJson([par |-> [tree |-> "forced", segs |-> Segs, poolcap |-> 1, cap |-> 32 * Segs],
                                                  ops |-> hist])>>)
\* the properties of BMT hold on these behaviours too (they are behaviours of BMT)
SchedOK == Correct /\ OneResult /\ CleanAtResult /\ CleanInPool
\* and none of them gets stuck before the end
NotStuck == Finished \/ ENABLED SNext
=============================================================================
