------------------------------- MODULE BMTApi -------------------------------
(* What a caller of the BMT hasher may rely on (property C03), at the level  *)
(* of the exported API of pkg/bmt and pkg/bmtpool:                           *)
(*                                                                           *)
(*    h := pool.Get(); h.SetHeader(span); h.Write(..)...; h.Hash(nil);       *)
(*    [h.Reset(); h.SetHeader(..); h.Write(..)...; h.Hash(nil)]...;          *)
(*    pool.Put(h)                                                            *)
(*                                                                           *)
(* The result of Hash is keccak256(span || BMT root of the zero-padded       *)
(* bytes written since Get / Reset), i.e. the term [len, hdr] below, which   *)
(* the driver's independent evaluator turns into 32 bytes.  The concurrent   *)
(* mechanism that is supposed to achieve this is module BMT, whose invariant *)
(* Correct is this very statement.  Lengths are in bytes here.               *)
EXTENDS Integers, Sequences, FiniteSets

CONSTANTS Cap,        \* capacity of the hasher in bytes (segment count rounded up to a power of two, times 32)
          PoolCap,    \* trees in the pool: Get blocks when that many hashers are out
          HandleIds,  \* names of the hashers a scenario uses
          WLens,      \* lengths offered to Write
          Hdrs        \* span header classes offered to SetHeader

HMin(a, b) == IF a < b THEN a ELSE b

\* a handle: st \in {"free", "held", "hashed"}; size = bytes absorbed in this use; hdr = span class ("zero": never set)
FreeHandle == [st |-> "free", size |-> 0, hdr |-> "zero"]
AllFree == [h \in HandleIds |-> FreeHandle]

Out(hs) == Cardinality({h \in HandleIds : hs[h].st # "free"})

\* operations are records [op, h, ...]; cap / pc: capacity in bytes and trees in the pool
CanDoC(o, hs, cap, pc) ==
  LET x == hs[o.h] IN
  CASE o.op = "get"   -> x.st = "free" /\ Out(hs) < pc
    [] o.op = "hdr"   -> x.st = "held"
    [] o.op = "write" -> x.st = "held" /\ o.n <= cap - x.size      \* data up to the capacity (the statement's domain)
    [] o.op = "hash"  -> x.st = "held"
    [] o.op = "hreset" -> x.st = "hashed"
    [] o.op = "put"   -> x.st = "hashed"
    [] OTHER -> FALSE

AfterC(o, hs, cap) ==
  LET x == hs[o.h] IN
  CASE o.op = "get"   -> [hs EXCEPT ![o.h] = [st |-> "held", size |-> 0, hdr |-> "zero"]]
    [] o.op = "hdr"   -> [hs EXCEPT ![o.h].hdr = o.x]
    [] o.op = "write" -> [hs EXCEPT ![o.h].size = HMin(cap, x.size + o.n)]
    [] o.op = "hash"  -> [hs EXCEPT ![o.h].st = "hashed"]
    [] o.op = "hreset" -> [hs EXCEPT ![o.h] = [st |-> "held", size |-> 0, hdr |-> "zero"]]
    [] o.op = "put"   -> [hs EXCEPT ![o.h] = FreeHandle]
    [] OTHER -> hs

\* what Write returns
WriteRetC(o, hs, cap) == HMin(o.n, cap - hs[o.h].size)
\* the term Hash must evaluate to: keccak(span(hdr) || BMTroot(first len bytes written, zero-padded to the capacity))
HashTerm(o, hs) == [len |-> hs[o.h].size, hdr |-> hs[o.h].hdr]

CanDo(o, hs)    == CanDoC(o, hs, Cap, PoolCap)
After(o, hs)    == AfterC(o, hs, Cap)
WriteRet(o, hs) == WriteRetC(o, hs, Cap)

Ops == [op : {"get", "hash", "hreset", "put"}, h : HandleIds]
       \cup [op : {"hdr"}, h : HandleIds, x : Hdrs]
       \cup [op : {"write"}, h : HandleIds, n : WLens]

VARIABLES hs, last
apiVars == <<hs, last>>

ApiInit == hs = AllFree /\ last = [op |-> "init"]
Do(o)   == CanDo(o, hs) /\ hs' = After(o, hs) /\ last' = o
ApiNext == \E o \in Ops : Do(o)
ApiSpec == ApiInit /\ [][ApiNext]_apiVars

ApiTypeOK == /\ \A h \in HandleIds : hs[h].size \in 0..Cap /\ hs[h].st \in {"free", "held", "hashed"}
             /\ Out(hs) <= PoolCap
=============================================================================
