SPECIFICATION TSpec
CONSTANTS
  Paths = {}
  Entries = {}
  Pfx = {}
  Fixes = {}
INVARIANT Report
POSTCONDITION AllConsumed
CHECK_DEADLOCK FALSE
