----------------------------- MODULE MCMantaray -----------------------------
(* Design check relating the trie (Mantaray.tla) to the map (Manifest.tla):    *)
(* the manifest object runs both in lock step.  With Fixes = AllFixes the      *)
(* invariant Refines holds (MCMantaray.cfg, part of every run): the four       *)
(* repairs are sufficient in the bounds.  With Fixes = {} (MCMantarayAsIs.cfg, *)
(* not part of the runs, for the reader) TLC prints the shortest history on    *)
(* which the trie as implemented and the map disagree.                         *)
EXTENDS Manifest, Mantaray, TLC

VARIABLES q,        \* the trie of the live object
          qs,       \* <<>> or <<snapshot>> : what the last Store returned
          qres      \* what the trie answered for the last call

allvars == <<m, stored, res, q, qs, qres>>

\* paths a, ab, abc(=a b a), b over a short alphabet; MaxPre is not reached here (the
\* generator/judge stretch the letters for that)
MCPaths   == {<<1>>, <<1,2>>, <<1,2,1>>, <<1,3>>}
MCEntries == {<<1,1>>, <<2,0>>}
MCPfx     == {<<1>>, <<1,2>>, <<1,3>>, <<2>>}

MInit == Init /\ q = QNew /\ qs = <<>> /\ qres = [op |-> "init"]

MAdd(p, e) == /\ DoAdd(p, e)
              /\ LET n == NAdd(q, p, e)
                 IN IF IsPanic(n) THEN q' = q /\ qres' = [op |-> "add", panic |-> TRUE]
                    ELSE q' = n /\ qres' = [op |-> "add", panic |-> FALSE]
              /\ UNCHANGED qs
MRemove(p) == /\ DoRemove(p)
              /\ LET r == NRemove(q, p) IN q' = r.n /\ qres' = [op |-> "remove", notfound |-> r.nf]
              /\ UNCHANGED qs
MLookup(p) == /\ DoLookup(p)
              /\ LET r == NLookup(q, p) IN q' = r.n /\ qres' = [op |-> "lookup", found |-> r.found, e |-> <<r.r, r.k>>]
              /\ UNCHANGED qs
MHasPrefix(x) == /\ DoHasPrefix(x)
                 /\ LET r == NHasPrefix(q, x) IN q' = r.n /\ qres' = [op |-> "hasprefix", has |-> r.has]
                 /\ UNCHANGED qs
MStore == /\ DoStore
          /\ LET r == NSave(q)
             IN IF r.err THEN q' = q /\ qs' = qs /\ qres' = [op |-> "store", err |-> TRUE]
                ELSE q' = r.n /\ qs' = r.n.ref /\ qres' = [op |-> "store", err |-> FALSE]
MReload == /\ DoReload /\ qs # <<>>
           /\ q' = QReload(qs[1]) /\ qres' = [op |-> "reload"] /\ UNCHANGED qs

MNext == \/ \E p \in Paths, e \in Entries : MAdd(p, e)
         \/ \E p \in Paths : MRemove(p) \/ MLookup(p)
         \/ \E x \in Pfx : MHasPrefix(x)
         \/ MStore \/ MReload

MSpec == MInit /\ [][MNext]_allvars

\* the trie answers what the map answers
Refines ==
  /\ MapOf(q) = m
  /\ (stored.has => qs # <<>> /\ MapOf(Unloaded(qs[1])) = stored.m)
  /\ \A x \in Pfx : NHasPrefix(q, x).has = HasPrefixIn(m, x)
  /\ ~Dangling(q)
  /\ (qres.op = "add" => ~qres.panic)
  /\ (qres.op = "store" => ~qres.err)
  /\ (qres.op = "remove" => qres.notfound = res.notfound)
  /\ (qres.op = "lookup" => qres.found = res.found /\ qres.e = res.e)
  /\ (qres.op = "hasprefix" => qres.has = res.has)

\* the live view is insensitive to which nodes happen to be loaded (hidden from the state graph)
MView == <<m, stored, q, qs>>
=============================================================================
