----------------------------- MODULE ManifestGen -----------------------------
(* Scenario generator for C10.  The abstract manifest (Manifest.tla) and the    *)
(* trie as implemented (Mantaray.tla, Fixes = {}) run in lock step, so that the *)
(* state graph that TLC covers distinguishes the implementation states (which   *)
(* nodes are loaded, which still carry a reference), not only the maps.         *)
(*   edges  (VIEW EdgeView, INVARIANT EmitAll): one shortest history per state  *)
(*          and last operation, over a fixed small universe (VERIF_UNIV = 1..)  *)
(*   exh    (INVARIANT EmitFull): every history of length Depth                 *)
(*   sim    (-simulate, INVARIANT EmitFull): random walks; VERIF_UNIV = 0 draws *)
(*          a random universe of prefix-sharing paths from the -seed            *)
(* A history ends at Depth, or at a call the trie model predicts to be fatal    *)
(* (panic / failing Store); the driver stops a scenario at an observed fatal    *)
(* result in any case.  Every scenario ends with the `dump` observation: a      *)
(* lookup of every path of the universe and every prefix query.                 *)
EXTENDS Manifest, Mantaray, TLC, Json, IOUtils, Randomization

VARIABLES hist, q, qs, dead, univ

gvars == <<m, stored, res, hist, q, qs, dead, univ>>

EnvInt(name, dflt) == IF name \in DOMAIN IOEnv THEN atoi(IOEnv[name]) ELSE dflt
Depth   == EnvInt("VERIF_DEPTH", 4)
UnivIdx == EnvInt("VERIF_UNIV", 1)
Reads   == EnvInt("VERIF_READS", 1)      \* 0: histories hold no lookup / prefix query (only the final dump)
NEnt    == EnvInt("VERIF_ENTRIES", 3)

\* letters: a=1 b=2 c=3 /=4
Letters == 1..4
PathsUpTo(n) == UNION {[1..k -> Letters] : k \in 1..n}
NonEmptyPrefixesOf(S) == UNION {{SubSeq(p, 1, k) : k \in 1..Len(p)} : p \in S}

FixedUniv ==
  << {<<1>>, <<1,2>>, <<1,3>>},                          \* a ab ac      : entry on a fork point
     {<<1,2>>, <<1,3>>, <<2>>},                          \* ab ac b      : pure edge "a"
     {<<1>>, <<1,2>>, <<1,2,3>>, <<1,4,2>>},             \* a ab abc a/b : chain and directory
     {<<1,4>>, <<1,4,2>>, <<1,4,3>>, <<2,4,1>>, <<1>>},  \* a/ a/b a/c b/a a
     {<<1,2,3,1>>, <<1,2,3,2>>, <<1,2>>, <<3>>} >>       \* abca abcb ab c (long labels when stretched)

RandomUniv ==
  LET stems == RandomSubset(2, [1..4 -> Letters])
      pool  == NonEmptyPrefixesOf(stems) \cup RandomSubset(4, PathsUpTo(4))
  IN RandomSubset(5, pool)

EntriesAll == <<<<1,1>>, <<2,0>>, <<2,2>>>>
Ents == {EntriesAll[i] : i \in 1..NEnt}

PfxOf(U) == NonEmptyPrefixesOf(U) \cup {<<3,3>>} \cup {p \o <<1>> : p \in {x \in U : Len(x) < 4}}

Op(r) == CASE r.op = "add"       -> [op |-> "add", p |-> r.p, r |-> r.e[1], k |-> r.e[2]]
           [] r.op = "remove"    -> [op |-> "remove", p |-> r.p]
           [] r.op = "lookup"    -> [op |-> "lookup", p |-> r.p]
           [] r.op = "hasprefix" -> [op |-> "hasprefix", q |-> r.q]
           [] OTHER              -> [op |-> r.op]

GInit == /\ Init /\ hist = <<>> /\ q = QNew /\ qs = <<>> /\ dead = FALSE
         /\ univ = IF UnivIdx = 0 THEN RandomUniv ELSE FixedUniv[UnivIdx]

TAdd(p, e) == /\ DoAdd(p, e)
              /\ LET n == NAdd(q, p, e)
                 IN IF IsPanic(n) THEN q' = q /\ dead' = TRUE ELSE q' = n /\ dead' = FALSE
              /\ UNCHANGED qs
TRemove(p) == DoRemove(p) /\ q' = NRemove(q, p).n /\ UNCHANGED <<qs, dead>>
TLookup(p) == DoLookup(p) /\ q' = NLookup(q, p).n /\ UNCHANGED <<qs, dead>>
THasPrefix(x) == DoHasPrefix(x) /\ q' = NHasPrefix(q, x).n /\ UNCHANGED <<qs, dead>>
TStore == /\ DoStore
          /\ LET r == NSave(q)
             IN IF r.err THEN q' = q /\ qs' = qs /\ dead' = TRUE
                ELSE q' = r.n /\ qs' = r.n.ref /\ dead' = FALSE
TReload == DoReload /\ qs # <<>> /\ q' = QReload(qs[1]) /\ UNCHANGED <<qs, dead>>

GNext == /\ ~dead /\ Len(hist) < Depth
         /\ \/ \E p \in univ, e \in Ents : TAdd(p, e)
            \/ \E p \in univ : TRemove(p)
            \/ (Reads = 1 /\ \E p \in univ : TLookup(p))
            \/ (Reads = 1 /\ \E x \in PfxOf(univ) : THasPrefix(x))
            \/ TStore \/ TReload
         /\ hist' = Append(hist, Op(res'))
         /\ univ' = univ

GSpec == GInit /\ [][GNext]_gvars

EdgeView == <<m, stored, q, qs, dead, res>>

Scenario == [par |-> [univ |-> SetToSeq(univ), pfx |-> SetToSeq(PfxOf(univ))],
             ops |-> Append(hist, [op |-> "dump"])]

EmitAll  == hist # <<>> => PrintT(<<"SCN", ToJson(Scenario)>>)
EmitFull == (Len(hist) = Depth \/ dead) => PrintT(<<"SCN", ToJson(Scenario)>>)
=============================================================================
