------------------------------ MODULE Mantaray ------------------------------
(* Implementation-shaped model of the trie behind pkg/manifest: the external    *)
(* module github.com/gauss-project/manifest v0.4.2 (mantaray/node.go,           *)
(* persist.go, marshal.go) as it is driven by pkg/manifest/mantaray.go.         *)
(*                                                                              *)
(* It is NOT the statement of C10 (that is Manifest.tla).  It is used           *)
(*  - by the design check MCMantaray: with every repair of `AllFixes` switched  *)
(*    on the trie refines the map of Manifest.tla (TLC proves the repairs       *)
(*    sufficient in the bounds); with a repair switched off TLC prints the      *)
(*    shortest history on which the trie and the map disagree;                  *)
(*  - by the generator, whose state-graph cover includes the trie's internal    *)
(*    state (which nodes are loaded / carry a reference), so that histories     *)
(*    reach the implementation states and not only the abstract maps;           *)
(*  - by the judge, only to *name* the mechanism behind a failing verdict       *)
(*    clause (the verdict itself is evaluated against Manifest.tla alone).      *)
(*                                                                              *)
(* A node is [isval, r, k, forks, ref, loaded]:                                 *)
(*   isval   the node carries an entry (nodeTypeValue)                          *)
(*   r, k    reference id and metadata id of the entry (0 = none)               *)
(*   forks   function  first letter -> [pre |-> edge label, node |-> child]     *)
(*   ref     <<>> (nil) or <<snapshot>>: what Save persisted for this node      *)
(*   loaded  forks # nil.  (loaded = FALSE, ref = <<>>) is the "hollow" node    *)
(*           left by Add on the exact path of a not yet loaded node.            *)
(* A snapshot is [isval, r, k, forks] with snapshots as children.               *)
EXTENDS Integers, Sequences, FiniteSets, Lex

CONSTANT Fixes        \* subset of AllFixes: candidate repairs switched on ({} = the code as it is)

AllFixes == {"clear_ref_on_change",      \* Add/Remove through an already loaded node also drop its reference
             "load_before_overwrite",    \* Add on the exact path of an unloaded node loads it first
             "replace_metadata",         \* Add on an existing path replaces the metadata even when the new one is empty
             "remove_only_the_entry"}    \* Remove un-values the node, keeps its sub-tree, prunes empty edges, not-found for non-values

MaxPre == 30          \* nodePrefixMaxSize

NewNode == [isval |-> FALSE, r |-> 0, k |-> 0, forks |-> <<>>, ref |-> <<>>, loaded |-> TRUE]

Unloaded(s) == [isval |-> s.isval, r |-> s.r, k |-> s.k, forks |-> <<>>, ref |-> <<s>>, loaded |-> FALSE]

SetFork(fs, c, v) == [x \in (DOMAIN fs) \cup {c} |-> IF x = c THEN v ELSE fs[x]]
DelFork(fs, c)    == [x \in (DOMAIN fs) \ {c} |-> fs[x]]
TailFrom(s, k)    == SubSeq(s, k + 1, Len(s))           \* s without its first k letters

CommonLen(a, b) ==
  LET n == LexMin(Len(a), Len(b))
  IN CHOOSE k \in 0..n : /\ \A i \in 1..k : a[i] = b[i]
                         /\ (k = n \/ a[k+1] # b[k+1])

\* Node.load: only a node that has a reference and no forks yet reads its snapshot
Load(n) ==
  IF n.loaded \/ n.ref = <<>> THEN n
  ELSE LET s == n.ref[1]
       IN [n EXCEPT !.loaded = TRUE, !.r = s.r,
                    !.forks = [c \in DOMAIN s.forks |-> [pre |-> s.forks[c].pre, node |-> Unloaded(s.forks[c].node)]]]

Panic == [panic |-> TRUE]
IsPanic(x) == "panic" \in DOMAIN x

(***************************************************************************)
(* Node.Add                                                                *)
(***************************************************************************)
RECURSIVE NAdd(_, _, _)
NAdd(n, path, e) ==
  IF path = <<>>
  THEN LET n0 == IF "load_before_overwrite" \in Fixes THEN Load(n) ELSE n
       IN [n0 EXCEPT !.isval = TRUE, !.r = e[1],
                     !.k = IF e[2] # 0 \/ "replace_metadata" \in Fixes THEN e[2] ELSE @,
                     !.ref = <<>>]
  ELSE
    LET n1 == IF n.loaded /\ "clear_ref_on_change" \notin Fixes THEN n ELSE [Load(n) EXCEPT !.ref = <<>>]
        c0 == path[1]
    IN IF c0 \notin DOMAIN n1.forks
       THEN IF ~n1.loaded THEN Panic                 \* hollow node: assignment to entry in nil map
            ELSE IF Len(path) > MaxPre
            THEN LET nn == NAdd(NewNode, TailFrom(path, MaxPre), e)
                 IN [n1 EXCEPT !.forks = SetFork(@, c0, [pre |-> SubSeq(path, 1, MaxPre), node |-> nn])]
            ELSE [n1 EXCEPT !.forks = SetFork(@, c0,
                     [pre |-> path, node |-> [NewNode EXCEPT !.isval = TRUE, !.r = e[1], !.k = e[2]]])]
       ELSE LET f    == n1.forks[c0]
                cl   == CommonLen(f.pre, path)
                rest == TailFrom(f.pre, cl)
                nn0  == IF rest # <<>>
                        THEN [NewNode EXCEPT !.forks = SetFork(<<>>, rest[1], [pre |-> rest, node |-> f.node]),
                                             !.isval = (Len(path) = cl)]
                        ELSE f.node
                nn1  == NAdd(nn0, TailFrom(path, cl), e)
            IN IF IsPanic(nn1) THEN Panic
               ELSE [n1 EXCEPT !.forks = SetFork(@, c0, [pre |-> SubSeq(f.pre, 1, cl), node |-> nn1])]

(***************************************************************************)
(* Node.Remove  ->  [n |-> node, nf |-> not found]                          *)
(***************************************************************************)
RECURSIVE NRemove(_, _)
NRemove(n, path) ==
  LET n1 == Load(n)
      c0 == path[1]
      changed(x) == IF "clear_ref_on_change" \in Fixes THEN [x EXCEPT !.ref = <<>>] ELSE x
  IN IF c0 \notin DOMAIN n1.forks THEN [n |-> n1, nf |-> TRUE]
     ELSE LET f == n1.forks[c0]
          IN IF ~IsPrefixOf(f.pre, path) THEN [n |-> n1, nf |-> TRUE]
             ELSE IF Len(path) = Len(f.pre)
             THEN IF "remove_only_the_entry" \in Fixes
                  THEN LET ch == Load(f.node)
                       IN IF ~ch.isval THEN [n |-> [n1 EXCEPT !.forks = SetFork(@, c0, [pre |-> f.pre, node |-> ch])], nf |-> TRUE]
                          ELSE IF DOMAIN ch.forks = {}
                          THEN [n |-> changed([n1 EXCEPT !.forks = DelFork(@, c0)]), nf |-> FALSE]
                          ELSE [n |-> changed([n1 EXCEPT !.forks = SetFork(@, c0,
                                    [pre |-> f.pre, node |-> [ch EXCEPT !.isval = FALSE, !.r = 0, !.k = 0, !.ref = <<>>]])]),
                                nf |-> FALSE]
                  ELSE [n |-> changed([n1 EXCEPT !.forks = DelFork(@, c0)]), nf |-> FALSE]     \* the whole fork goes
             ELSE LET r == NRemove(f.node, TailFrom(path, Len(f.pre)))
                      \* repaired variant: an edge that lost its last fork and holds no entry is pruned
                      prune == /\ "remove_only_the_entry" \in Fixes /\ ~r.nf
                               /\ ~r.n.isval /\ r.n.loaded /\ DOMAIN r.n.forks = {}
                  IN IF r.nf THEN [n |-> [n1 EXCEPT !.forks = SetFork(@, c0, [pre |-> f.pre, node |-> r.n])], nf |-> TRUE]
                     ELSE IF prune THEN [n |-> changed([n1 EXCEPT !.forks = DelFork(@, c0)]), nf |-> FALSE]
                     ELSE [n |-> changed([n1 EXCEPT !.forks = SetFork(@, c0, [pre |-> f.pre, node |-> r.n])]), nf |-> FALSE]

(***************************************************************************)
(* Node.LookupNode as used by the wrapper's Lookup -> [n, found, r, k]      *)
(***************************************************************************)
NotFoundAt(n1) == [n |-> n1, found |-> FALSE, r |-> 0, k |-> 0]

RECURSIVE NLookup(_, _)
NLookup(n, path) ==
  LET n1 == Load(n)
  IN IF path = <<>> THEN [n |-> n1, found |-> n1.isval, r |-> IF n1.isval THEN n1.r ELSE 0, k |-> IF n1.isval THEN n1.k ELSE 0]
     ELSE LET c0 == path[1]
          IN IF c0 \notin DOMAIN n1.forks THEN NotFoundAt(n1)
             ELSE LET f == n1.forks[c0]
                  IN IF IsPrefixOf(f.pre, path)
                     THEN LET x == NLookup(f.node, TailFrom(path, Len(f.pre)))
                          IN [x EXCEPT !.n = [n1 EXCEPT !.forks = SetFork(@, c0, [pre |-> f.pre, node |-> x.n])]]
                     ELSE NotFoundAt(n1)

(***************************************************************************)
(* Node.HasPrefix -> [n, has]                                               *)
(***************************************************************************)
RECURSIVE NHasPrefix(_, _)
NHasPrefix(n, path) ==
  LET n1 == Load(n)
  IN IF path = <<>> THEN [n |-> n1, has |-> TRUE]
     ELSE LET c0 == path[1]
          IN IF c0 \notin DOMAIN n1.forks THEN [n |-> n1, has |-> FALSE]
             ELSE LET f == n1.forks[c0]
                  IN IF IsPrefixOf(f.pre, path)
                     THEN LET x == NHasPrefix(f.node, TailFrom(path, Len(f.pre)))
                          IN [x EXCEPT !.n = [n1 EXCEPT !.forks = SetFork(@, c0, [pre |-> f.pre, node |-> x.n])]]
                     ELSE [n |-> n1, has |-> IsPrefixOf(path, f.pre)]

(***************************************************************************)
(* Node.Save -> [n, err].  A node that still has a reference is skipped    *)
(* with everything below it; a hollow node cannot be serialised.           *)
(***************************************************************************)
RECURSIVE NSave(_)
NSave(n) ==
  IF n.ref # <<>> THEN [n |-> n, err |-> FALSE]
  ELSE LET kids == [c \in DOMAIN n.forks |-> NSave(n.forks[c].node)]
       IN IF (\E c \in DOMAIN kids : kids[c].err) \/ ~n.loaded THEN [n |-> n, err |-> TRUE]
          ELSE LET snap == [isval |-> n.isval, r |-> n.r, k |-> n.k,
                            forks |-> [c \in DOMAIN n.forks |-> [pre |-> n.forks[c].pre, node |-> kids[c].n.ref[1]]]]
               IN [n |-> [n EXCEPT !.ref = <<snap>>, !.loaded = FALSE, !.forks = <<>>], err |-> FALSE]

(***************************************************************************)
(* What a trie maps (what lookups of every path would answer).             *)
(***************************************************************************)
RECURSIVE NTriples(_, _)
NTriples(n, base) ==
  LET n1 == Load(n)
  IN (IF n1.isval /\ base # <<>> THEN {<<base, n1.r, n1.k>>} ELSE {})
     \cup UNION {NTriples(n1.forks[c].node, base \o n1.forks[c].pre) : c \in DOMAIN n1.forks}

TriplesToMap(T) == [p \in {t[1] : t \in T} |-> LET t == CHOOSE t \in T : t[1] = p IN <<t[2], t[3]>>]
MapOf(n) == TriplesToMap(NTriples(n, <<>>))

\* the positions of the trie's nodes: HasPrefix answers TRUE exactly for prefixes of these
RECURSIVE NodePaths(_, _)
NodePaths(n, base) ==
  LET n1 == Load(n)
  IN UNION {{base \o n1.forks[c].pre} \cup NodePaths(n1.forks[c].node, base \o n1.forks[c].pre) : c \in DOMAIN n1.forks}

\* a node position that is not a prefix of any mapped path (an edge whose entries were all removed)
Dangling(n) == \E np \in NodePaths(n, <<>>) : ~\E p \in DOMAIN MapOf(n) : IsPrefixOf(np, p)

(***************************************************************************)
(* The manifest object of the wrapper: the root node.                      *)
(***************************************************************************)
QNew == NewNode
QReload(snap) == Unloaded(snap)
QStoredMap(n) == IF n.ref = <<>> THEN <<>> ELSE MapOf(Unloaded(n.ref[1]))
=============================================================================
