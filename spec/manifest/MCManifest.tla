----------------------------- MODULE MCManifest -----------------------------
(* Bounded design check of the statement of C10 (Manifest.tla).               *)
EXTENDS Manifest
\* letters: a=1 b=2 c=3 /=4
\* paths  a, ab, a/, a/b, b   (proper prefixes, a nested directory, a sibling)
MCPaths   == {<<1>>, <<1,2>>, <<1,4>>, <<1,4,2>>, <<2>>}
MCPathsS  == {<<1>>, <<1,2>>, <<1,4,2>>, <<2>>}
MCPathsQ  == {<<1>>, <<1,2>>, <<1,4,2>>}
MCEntries == {<<1,1>>, <<2,0>>}
MCEntries3 == {<<1,1>>, <<2,0>>, <<2,2>>}
MCPfx     == {<<1>>, <<1,2>>, <<1,4>>, <<1,4,2>>, <<2>>, <<3>>, <<1,3>>, <<1,4,2,1>>}
=============================================================================
