------------------------------ MODULE Manifest ------------------------------
(* Directory manifests (pkg/manifest over the mantaray trie, persisted through  *)
(* pkg/file/loadsave) as what property C10 says they are: a finite map          *)
(*        m : Path -|-> Entry          Entry = <<reference id, metadata id>>    *)
(* with add / remove / store / reload, point lookups and prefix queries.        *)
(*                                                                              *)
(* Paths are sequences of small integers (letters; the driver maps them to      *)
(* strings).  A manifest *object* holds the live map `m`; `stored` is the map   *)
(* that was live at the last Store, Reload builds a new object from it.         *)
(* One action per call of manifest.Interface (Reload = NewDefaultManifest-      *)
(* Reference on the reference returned by the last Store).                      *)
EXTENDS Integers, Sequences, FiniteSets, Lex

CONSTANTS Paths,     \* finite set of non-empty paths
          Entries,   \* finite set of entries <<ref, meta>>, ref >= 1, meta >= 0 (0 = no metadata)
          Pfx        \* non-empty prefixes asked by HasPrefix

NoEntry == <<0, 0>>

VARIABLES m,         \* live mapping: a function whose domain is the set of mapped paths
          stored,    \* [has |-> BOOLEAN, m |-> mapping] : what the last Store persisted
          res        \* what the caller of the last operation observed

vars == <<m, stored, res>>

EmptyMap == <<>>                      \* the function with empty domain
NothingStored == [has |-> FALSE, m |-> EmptyMap]

(***************************************************************************)
(* Pure definitions, shared with the trace specification.                  *)
(***************************************************************************)
AddIn(s, p, e) == [q \in (DOMAIN s) \cup {p} |-> IF q = p THEN e ELSE s[q]]
RemIn(s, p)    == [q \in (DOMAIN s) \ {p} |-> s[q]]
Mapped(s, p)   == p \in DOMAIN s
EntryAt(s, p)  == IF Mapped(s, p) THEN s[p] ELSE NoEntry
\* prefix query: some mapped path starts with q
HasPrefixIn(s, q) == \E p \in DOMAIN s : IsPrefixOf(q, p)

(***************************************************************************)
(* Actions.                                                                *)
(***************************************************************************)
Init == m = EmptyMap /\ stored = NothingStored /\ res = [op |-> "init"]

DoAdd(p, e) == /\ m' = AddIn(m, p, e)
             /\ UNCHANGED stored
             /\ res' = [op |-> "add", p |-> p, e |-> e]

DoRemove(p) == /\ m' = RemIn(m, p)
             /\ UNCHANGED stored
             /\ res' = [op |-> "remove", p |-> p, notfound |-> ~Mapped(m, p)]

DoStore == /\ stored' = [has |-> TRUE, m |-> m]
         /\ UNCHANGED m
         /\ res' = [op |-> "store"]

DoReload == /\ stored.has
          /\ m' = stored.m
          /\ UNCHANGED stored
          /\ res' = [op |-> "reload"]

DoLookup(p) == /\ UNCHANGED <<m, stored>>
             /\ res' = [op |-> "lookup", p |-> p, found |-> Mapped(m, p), e |-> EntryAt(m, p)]

DoHasPrefix(q) == /\ UNCHANGED <<m, stored>>
                /\ res' = [op |-> "hasprefix", q |-> q, has |-> HasPrefixIn(m, q)]

Next == \/ \E p \in Paths, e \in Entries : DoAdd(p, e)
        \/ \E p \in Paths : DoRemove(p) \/ DoLookup(p)
        \/ \E q \in Pfx : DoHasPrefix(q)
        \/ DoStore \/ DoReload

Spec == Init /\ [][Next]_vars

(***************************************************************************)
(* Properties (TLC, bounded configuration).                                *)
(***************************************************************************)
IsMap(s) == DOMAIN s \subseteq Paths /\ \A p \in DOMAIN s : s[p] \in Entries
TypeOK == IsMap(m) /\ stored.has \in BOOLEAN /\ IsMap(stored.m)

\* a lookup answers with the entry of the mapping, or not-found exactly for unmapped paths
LookupContract ==
  res.op = "lookup" => /\ res.found = (res.p \in DOMAIN m)
                       /\ res.found => res.e = m[res.p]
                       /\ ~res.found => res.e = NoEntry

\* prefix queries, characterised without IsPrefixOf: q = the first Len(q) letters of a mapped path
PrefixContract ==
  res.op = "hasprefix" =>
     (res.has <=> \E p \in DOMAIN m : Len(p) >= Len(res.q) /\ SubSeq(p, 1, Len(res.q)) = res.q)

\* prefix answers are downward closed and every mapped path is its own prefix
PrefixClosed ==
  \A q \in Pfx : HasPrefixIn(m, q) => \A k \in 1..Len(q) : HasPrefixIn(m, SubSeq(q, 1, k))
MappedHasPrefix == \A p \in DOMAIN m : HasPrefixIn(m, p)

\* "last written entry": every step changes the live map at most at the path it names,
\* to the entry it names; removing says not-found exactly for unmapped paths;
\* Store / Lookup / HasPrefix never change it; Reload restores what Store saw.
LastWriteWins ==
  [][ /\ res'.op = "add"    => /\ m'[res'.p] = res'.e
                               /\ \A p \in Paths \ {res'.p} : EntryAt(m', p) = EntryAt(m, p)
      /\ res'.op = "remove" => /\ ~Mapped(m', res'.p)
                               /\ res'.notfound = ~Mapped(m, res'.p)
                               /\ \A p \in Paths \ {res'.p} : EntryAt(m', p) = EntryAt(m, p)
      /\ res'.op \in {"store", "lookup", "hasprefix"} => m' = m
      /\ res'.op = "store"  => stored'.m = m
      /\ res'.op = "reload" => m' = stored.m
      /\ res'.op # "store"  => stored' = stored ]_vars
=============================================================================
