SPECIFICATION GSpec
CONSTANTS
  Paths = {}
  Entries = {}
  Pfx = {}
  Fixes = {}
INVARIANT EmitFull
CHECK_DEADLOCK FALSE
