---------------------------- MODULE ManifestTrace ----------------------------
(* Judge for C10: replays the events that harness/cmd/mandrv recorded from the  *)
(* real pkg/manifest (+ loadsave, pipeline, joiner) against Manifest.tla.       *)
(* Monitor mode (TraceKit): one step per event.                                 *)
(*                                                                              *)
(* VERDICT clauses compare what the caller observed with the abstract map       *)
(* `m` of Manifest.tla only.  The driver makes no hidden observations (reading  *)
(* a manifest changes which trie nodes are loaded), so the map is observed by   *)
(* the lookups / prefix queries of the generated history and by the `dump`      *)
(* that ends every scenario; the model is resynchronised at those points.       *)
(*                                                                              *)
(* The trie model `q` (Mantaray.tla, the code as it is) runs alongside.  It     *)
(* never decides a verdict.  When a verdict clause is false AND the observation *)
(* is exactly what the trie model predicts, the clause is reported under the    *)
(* name  <clause>@<mechanism>  for every mechanism by which the trie has left   *)
(* the map so far in this scenario (`causes`, computed step by step by applying *)
(* the abstract operation to the trie's own mapping and comparing).  Anything   *)
(* else keeps the plain clause name.  known_findings lists the @-names only.    *)
EXTENDS Manifest, Mantaray, TraceKit

VARIABLES l, bad, q, qs, causes, stretch

tvars == <<m, stored, res, l, bad, q, qs, causes, stretch>>

\* a letter sequence logged by the driver -> the path the code saw (each letter `stretch` times)
Expand(p, k) == [i \in 1..(Len(p) * k) |-> p[((i - 1) \div k) + 1]]

CauseList == << "remove_drops_subtree", "remove_absent_succeeds", "dangling_prefix",
                "remove_not_persisted", "add_not_persisted", "overwrite_keeps_metadata",
                "overwrite_unloaded_node" >>

Tagged(tb, C) ==
  LET sel == SelectSeq(CauseList, LAMBDA c : c \in C)
  IN IF sel = <<>> THEN <<tb \o "@unclassified">> ELSE [i \in 1..Len(sel) |-> tb \o "@" \o sel[i]]

\* a tuple without repeated elements
Dedup(t) == SetToSeq({t[i] : i \in DOMAIN t})
\* a verdict clause: nothing when it holds; else its name, or its @-names when the trie model explains it
ClauseX(name, tb, holds, explained, C) ==
  IF holds THEN <<>> ELSE IF explained THEN Tagged(tb, C) ELSE <<name>>

(***************************************************************************)
(* Observations carried by a dump event.                                   *)
(***************************************************************************)
ObsMap(e, k) == [p \in {Expand(e.st[j][1], k) : j \in DOMAIN e.st} |->
                   LET j == CHOOSE j \in DOMAIN e.st : Expand(e.st[j][1], k) = p IN <<e.st[j][2], e.st[j][3]>>]
ObsPf(e, k)  == {Expand(e.pf[j], k) : j \in DOMAIN e.pf}
AskedPf(e, k) == {Expand(e.pq[j], k) : j \in DOMAIN e.pq}

(***************************************************************************)
(* The trie's step: new trie, new stored snapshot, predicted observation.  *)
(***************************************************************************)
QStep(e, k) ==
  CASE e.op = "reset"  -> [q |-> QNew, qs |-> <<>>, fatal |-> FALSE]
    [] e.op = "add"    -> LET n == NAdd(q, Expand(e.p, k), <<e.r, e.k>>)
                          IN IF IsPanic(n) THEN [q |-> q, qs |-> qs, fatal |-> TRUE]
                             ELSE [q |-> n, qs |-> qs, fatal |-> FALSE]
    [] e.op = "remove" -> LET r == NRemove(q, Expand(e.p, k))
                          IN IF ~r.nf /\ e.notfound /\ ~e.panicked /\ e.err = ""
                             \* the code refused a removal the trie model would have done (the path is
                             \* not mapped): follow the code - nothing is deleted, the path is loaded
                             THEN [q |-> NLookup(q, Expand(e.p, k)).n, qs |-> qs, fatal |-> FALSE, notfound |-> TRUE]
                             ELSE [q |-> r.n, qs |-> qs, fatal |-> FALSE, notfound |-> r.nf]
    [] e.op = "lookup" -> LET r == NLookup(q, Expand(e.p, k))
                          IN [q |-> r.n, qs |-> qs, fatal |-> FALSE, found |-> r.found, r |-> r.r, k |-> r.k]
    [] e.op = "hasprefix" -> LET r == NHasPrefix(q, Expand(e.q, k))
                             IN [q |-> r.n, qs |-> qs, fatal |-> FALSE, has |-> r.has]
    [] e.op = "store"  -> LET r == NSave(q)
                          IN IF r.err THEN [q |-> q, qs |-> qs, fatal |-> TRUE]
                             ELSE [q |-> r.n, qs |-> r.n.ref, fatal |-> FALSE]
    [] e.op = "reload" -> [q |-> IF qs = <<>> THEN q ELSE QReload(qs[1]), qs |-> qs, fatal |-> FALSE]
    [] OTHER           -> [q |-> q, qs |-> qs, fatal |-> FALSE]        \* dump: last event of a scenario

\* mechanisms by which this step makes the trie leave the map: the abstract operation applied to
\* the trie's own mapping, compared with the trie's mapping after the step
NewCauses(e, k, qn) ==
  LET before == MapOf(q)
      after  == MapOf(qn.q)
      p      == Expand(e.p, k)
  IN CASE e.op = "add" ->
            IF qn.fatal THEN {"overwrite_unloaded_node"}
            ELSE LET want == AddIn(before, p, <<e.r, e.k>>)
                 IN (IF p \in DOMAIN after /\ after[p][1] = e.r /\ after[p][2] # e.k THEN {"overwrite_keeps_metadata"} ELSE {})
                    \cup (IF \E x \in DOMAIN want : x # p /\ x \notin DOMAIN after THEN {"overwrite_unloaded_node"} ELSE {})
       [] e.op = "remove" ->
            LET want == RemIn(before, p)
            IN (IF ~qn.notfound /\ p \notin DOMAIN before THEN {"remove_absent_succeeds"} ELSE {})
               \cup (IF \E x \in DOMAIN want : x \notin DOMAIN after THEN {"remove_drops_subtree"} ELSE {})
               \cup (IF Dangling(qn.q) /\ ~Dangling(q) THEN {"dangling_prefix"} ELSE {})
       [] e.op = "store" ->
            IF qn.fatal THEN {"overwrite_unloaded_node"}
            ELSE LET kept == MapOf(Unloaded(qn.qs[1]))
                 IN (IF \E x \in DOMAIN kept : x \notin DOMAIN before THEN {"remove_not_persisted"} ELSE {})
                    \cup (IF \E x \in DOMAIN before : x \notin DOMAIN kept \/ kept[x] # before[x] THEN {"add_not_persisted"} ELSE {})
       [] OTHER -> {}

(***************************************************************************)
(* Abstract model after the event (before resynchronisation).              *)
(***************************************************************************)
Post(e, k) == CASE e.op = "reset"  -> EmptyMap
                [] e.op = "add"    -> AddIn(m, Expand(e.p, k), <<e.r, e.k>>)
                [] e.op = "remove" -> RemIn(m, Expand(e.p, k))
                [] e.op = "reload" -> stored.m
                [] OTHER           -> m

(***************************************************************************)
(* Verdict: the statement of C10 over what the caller observed.            *)
(***************************************************************************)
Verdict(e, k, qn, C) ==
     ClauseX("C10:no_unexpected_error", "C10:no_error",
             e.err = "" /\ ~e.panicked, qn.fatal, {"overwrite_unloaded_node"})
  \o (IF e.op = "remove" /\ ~e.panicked
      THEN ClauseX("C10:remove_reports_not_found_iff_unmapped", "C10:final_mapping",
                   e.notfound = ~Mapped(m, Expand(e.p, k)), e.notfound = qn.notfound, C)
      ELSE <<>>)
  \o (IF e.op = "lookup" /\ ~e.panicked /\ e.err = ""
      THEN ClauseX("C10:lookup_returns_final_entry", "C10:final_mapping",
                   e.found = Mapped(m, Expand(e.p, k)) /\ <<e.r, e.k>> = EntryAt(m, Expand(e.p, k)),
                   e.found = qn.found /\ e.r = qn.r /\ e.k = qn.k, C)
      ELSE <<>>)
  \o (IF e.op = "hasprefix" /\ ~e.panicked /\ e.err = ""
      THEN ClauseX("C10:prefix_query_agrees_with_mapping", "C10:final_mapping",
                   e.has = HasPrefixIn(m, Expand(e.q, k)), e.has = qn.has, C)
      ELSE <<>>)
  \o (IF e.op = "dump" /\ ~e.panicked /\ e.err = ""
      THEN Dedup(ClauseX("C10:lookups_return_final_mapping", "C10:final_mapping",
                      ObsMap(e, k) = m, ObsMap(e, k) = MapOf(q), C)
           \o ClauseX("C10:prefix_queries_agree_with_mapping", "C10:final_mapping",
                      \A x \in AskedPf(e, k) : (x \in ObsPf(e, k)) = HasPrefixIn(m, x),
                      \A x \in AskedPf(e, k) : (x \in ObsPf(e, k)) = NHasPrefix(q, x).has, C))
      ELSE <<>>)

\* the abstract map after the event, resynchronised to what was observed
Resync(e, k, post) ==
  CASE e.op = "lookup" /\ ~e.panicked /\ e.err = "" ->
         IF e.found THEN AddIn(post, Expand(e.p, k), <<e.r, e.k>>) ELSE RemIn(post, Expand(e.p, k))
    [] e.op = "dump" /\ ~e.panicked /\ e.err = "" -> ObsMap(e, k)
    [] OTHER -> post

TInit == /\ l = 1 /\ bad = <<>> /\ m = EmptyMap /\ stored = NothingStored /\ res = [op |-> "init"]
         /\ q = QNew /\ qs = <<>> /\ causes = {} /\ stretch = 1

TStep == /\ l <= NEvents
         /\ LET e    == Trace[l]
                k    == IF e.op = "reset" THEN e.stretch ELSE stretch
                qn   == QStep(e, k)
                C    == IF e.op = "reset" THEN {} ELSE causes \cup NewCauses(e, k, qn)
                post == Post(e, k)
                cs   == Verdict(e, k, qn, C)
            IN /\ l' = l + 1
               /\ stretch' = k
               /\ bad' = IF cs = <<>> THEN bad ELSE Append(bad, BadRec(l, e, cs))
               /\ m' = Resync(e, k, post)
               /\ stored' = CASE e.op = "reset" -> NothingStored
                              [] e.op = "store" /\ e.err = "" /\ ~e.panicked -> [has |-> TRUE, m |-> m]
                              [] OTHER -> stored
               /\ res' = [op |-> e.op]
               /\ q' = qn.q /\ qs' = qn.qs
               /\ causes' = C

TSpec == TInit /\ [][TStep]_tvars

Report == ReportBad(l, bad, <<>>)
=============================================================================
