SPECIFICATION MSpec
CONSTANTS
  Paths <- MCPaths
  Entries <- MCEntries
  Pfx <- MCPfx
  Fixes = {}
INVARIANTS Refines
