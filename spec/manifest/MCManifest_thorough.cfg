SPECIFICATION Spec
CONSTANTS
  Paths <- MCPathsS
  Entries <- MCEntries
  Pfx <- MCPfx
INVARIANTS TypeOK LookupContract PrefixContract PrefixClosed MappedHasPrefix
PROPERTIES LastWriteWins
