SPECIFICATION GSpec
CONSTANTS
  Paths = {}
  Entries = {}
  Pfx = {}
  Fixes = {}
VIEW EdgeView
INVARIANT EmitAll
CHECK_DEADLOCK FALSE
