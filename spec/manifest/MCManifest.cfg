SPECIFICATION Spec
CONSTANTS
  Paths <- MCPathsQ
  Entries <- MCEntries
  Pfx <- MCPfx
INVARIANTS TypeOK LookupContract PrefixContract PrefixClosed MappedHasPrefix
PROPERTIES LastWriteWins
