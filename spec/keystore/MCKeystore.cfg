SPECIFICATION Spec
CONSTANTS
  Names <- MCNames
  Passwords <- MCPasswords
  BlobSlots <- MCBlobSlots
  GivenKeys <- MCGivenKeys
INVARIANTS TypeOK KeyContract ExportImport ImportPrivContract BlobsGenuine
PROPERTIES Stable
CHECK_DEADLOCK FALSE
