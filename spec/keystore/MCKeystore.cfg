SPECIFICATION Spec
CONSTANTS
  Names <- MCNames
  Passwords <- MCPasswords
  BlobSlots <- MCBlobSlots
INVARIANTS TypeOK KeyContract ExportImport BlobsGenuine
PROPERTIES Stable
CHECK_DEADLOCK FALSE
