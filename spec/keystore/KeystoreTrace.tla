----------------------------- MODULE KeystoreTrace -----------------------------
(* Judge for C36: replays what the file and in-memory keystores did against     *)
(* Keystore's definitions.  Monitor mode (TraceKit).  Every (scenario,          *)
(* implementation) pair is its own trace segment (reset event).                 *)
EXTENDS Keystore, TraceKit

TNames == {"empty", "a", "unicode", "long64", "nested"}
TPasswords == {"empty", "a", "unicode", "long64", "upperA"}
TSlots == {1, 2}
TGiven == 0..31

VARIABLES l, bad, notes

ObsKey(e) == IF e.panicked THEN "panicked" ELSE IF e.err = "" THEN (IF e.created THEN "created" ELSE "opened")
             ELSE IF e.invalid THEN "invalid" ELSE "error"
ObsOk(e)  == IF e.panicked THEN "panicked" ELSE IF e.err = "" THEN "ok" ELSE IF e.invalid THEN "invalid" ELSE "error"

Verdict(e) ==
     (IF e.op \in {"key", "exists", "export", "import", "importpriv"} THEN Clause("C36:no_panic", ~e.panicked) ELSE <<>>)
  \o (IF e.op = "key"
      THEN LET want == KeyOutcome(box, e.name, e.pw)  got == ObsKey(e)
           IN    Clause("C36:right_password_returns_the_stored_key",
                        want = "opened" => (got = "opened" /\ e.kid = box[e.name].key))
              \o Clause("C36:other_password_rejected_as_invalid", want = "invalid" => (got = "invalid" /\ e.kid = NoKey))
              \o Clause("C36:first_request_creates_a_fresh_key", want = "created" => (got = "created" /\ e.kid = nkeys + 1))
              \o Clause("C36:asking_again_creates_nothing", got = "created" => want = "created")
      ELSE <<>>)
  \o (IF e.op = "export"
      THEN LET want == ExportOutcome(box, e.name, e.pw)  got == ObsOk(e)
           IN    Clause("C36:export_with_right_password_succeeds", want = "ok" => got = "ok")
              \o Clause("C36:other_password_rejected_as_invalid", want = "invalid" => got = "invalid")
      ELSE <<>>)
  \o (IF e.op = "import"
      THEN LET want == ImportOutcome(box, e.name, e.pw, blobs[e.slot])  got == ObsOk(e)
           IN    Clause("C36:export_then_import_reproduces_key", want = "ok" => got = "ok")
              \o Clause("C36:other_password_rejected_as_invalid", want = "invalid" => got = "invalid")
              \o Clause("C36:import_needs_the_named_key_and_an_exported_key", want \in {"missing", "badblob"} => got # "ok")
      ELSE <<>>)

  \o (IF e.op = "importpriv"
      THEN LET want == ImportPrivOutcome(box, e.name, e.pw)  got == ObsOk(e)
           IN    Clause("C36:key_is_stored_under_name_and_right_password", want = "ok" => got = "ok")
              \o Clause("C36:other_password_rejected_as_invalid", want = "invalid" => got = "invalid")
              \o Clause("C36:import_needs_the_named_key_and_an_exported_key", want = "missing" => got # "ok")
      ELSE <<>>)

\* conformance notes: Exists is not part of the statement
Note(l_, e) ==
  IF e.op = "exists" /\ ~e.panicked /\ (e.found # Present(box, e.name))
  THEN <<[line |-> l_, scn |-> e.scn, note |-> "exists_disagrees_with_model", op |-> e.op]>> ELSE <<>>

\* model after the event; where the implementation deviated, follow what it reported
PostBox(e) ==
  CASE e.op = "reset"  -> [n \in Names |-> None]
    [] e.op = "key"    -> IF ObsKey(e) \in {"created", "opened"} /\ e.kid # KeyResult(box, nkeys, e.name, e.pw)
                          THEN [box EXCEPT ![e.name] = [key |-> e.kid, pw |-> e.pw]]
                          ELSE IF ObsKey(e) \in {"created", "opened"} \/ Present(box, e.name) THEN KeyBox(box, nkeys, e.name, e.pw) ELSE box
    [] e.op = "import" -> IF ObsOk(e) = "ok" THEN ImportBox(box, e.name, e.pw, blobs[e.slot]) ELSE box
    \* the statement-level history: the given key is what the caller stored when the call reported success
    [] e.op = "importpriv" -> IF ObsOk(e) = "ok" /\ Present(box, e.name) THEN [box EXCEPT ![e.name] = [key |-> GivenId(e.lz), pw |-> e.pw]] ELSE box
    [] OTHER           -> box
PostBlobs(e) ==
  CASE e.op = "reset"  -> [s \in BlobSlots |-> None]
    [] e.op = "export" -> IF ObsOk(e) = "ok" /\ Present(box, e.name) THEN [blobs EXCEPT ![e.slot] = box[e.name]] ELSE blobs
    [] OTHER           -> blobs
PostN(e) ==
  CASE e.op = "reset" -> 0
    [] e.op = "key"   -> IF e.kid > nkeys /\ e.kid < GivenId(0) THEN e.kid ELSE nkeys
    [] OTHER          -> nkeys

TInit == l = 1 /\ bad = <<>> /\ notes = <<>> /\ Init

TStep == /\ l <= NEvents
         /\ LET e == Trace[l]
                cs == IF e.op = "reset" THEN <<>> ELSE Verdict(e)
            IN /\ l' = l + 1
               /\ bad' = IF cs = <<>> THEN bad ELSE Append(bad, BadRec(l, e, cs))
               /\ notes' = IF Len(notes) < 20 /\ e.op # "reset" THEN notes \o Note(l, e) ELSE notes
               /\ box' = PostBox(e)
               /\ blobs' = PostBlobs(e)
               /\ nkeys' = PostN(e)
               /\ res' = [op |-> e.op]

TSpec == TInit /\ [][TStep]_<<ksvars, l, bad, notes>>

Report == ReportBad(l, bad, notes)
=============================================================================
