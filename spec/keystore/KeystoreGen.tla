------------------------------ MODULE KeystoreGen ------------------------------
(* Scenario generators for C36 (VERIF_FAMILY):                                 *)
(*  classes  fixed-shape scenarios over the name / password classes (create,    *)
(*           ask again, other password, export, import) and a cross-name         *)
(*           export -> import transfer                                           *)
(*  given    a key with 0, 1, 2.. leading zero bytes in its secret scalar is     *)
(*           brought by the caller (ImportPrivateKey), read back, exported and   *)
(*           imported under another name                                         *)
(*  life     histories of the Keystore state machine with a history variable     *)
(*           (tlc -simulate)                                                     *)
(* scrypt makes every file-keystore operation cost 0.1 - 1 s: quick runs keep    *)
(* to about 60 operations.                                                       *)
EXTENDS Keystore, SequencesExt, Json, IOUtils
VARIABLE hist

Family   == IF "VERIF_FAMILY" \in DOMAIN IOEnv THEN IOEnv.VERIF_FAMILY ELSE "classes"
Depth    == IF "VERIF_DEPTH" \in DOMAIN IOEnv THEN atoi(IOEnv.VERIF_DEPTH) ELSE 5
Thorough == "VERIF_THOROUGH" \in DOMAIN IOEnv /\ IOEnv.VERIF_THOROUGH = "1"

\* class names; the driver maps them to "", "a", a unicode string, 64 characters, "d/e" / "A"
GNameSeq == <<"empty", "a", "unicode", "long64", "nested">>
GPwSeq   == <<"empty", "a", "unicode", "long64", "upperA">>
\* a password different from pw (its successor in the list)
OtherPw(i) == GPwSeq[(i % Len(GPwSeq)) + 1]
OtherName(i) == GNameSeq[(i % Len(GNameSeq)) + 1]

OpKey(n, p)       == [op |-> "key", name |-> n, pw |-> p]
OpExists(n)       == [op |-> "exists", name |-> n]
OpExport(n, p, s) == [op |-> "export", name |-> n, pw |-> p, slot |-> s]
OpImport(n, p, s) == [op |-> "import", name |-> n, pw |-> p, slot |-> s]
OpImportPriv(n, p, g) == [op |-> "importpriv", name |-> n, pw |-> p, lz |-> g]

ClassScenario(i, j) ==
  LET n == GNameSeq[i] p == GPwSeq[j] q == OtherPw(j)
  IN [par |-> [family |-> "classes", name |-> n, pw |-> p],
      ops |-> <<OpKey(n, p), OpKey(n, p), OpKey(n, q), OpExists(n), OpExists(OtherName(i)),
                OpExport(n, q, 1), OpExport(n, p, 1), OpImport(n, p, 1), OpKey(n, p), OpKey(n, q)>>]

\* key of name a moved under name b through export -> import; then the wrong-password and missing-name cases
TransferScenario(i, j) ==
  LET a == GNameSeq[i] b == OtherName(i) p == GPwSeq[j] q == OtherPw(j)
  IN [par |-> [family |-> "transfer", name |-> a, pw |-> p],
      ops |-> <<OpKey(a, p), OpKey(b, p), OpExport(a, p, 1), OpImport(b, p, 1), OpKey(b, p), OpKey(a, p),
                OpImport(b, q, 1), OpKey(b, p), OpExport(b, p, 2), OpImport(a, p, 2), OpKey(a, p)>>]

\* a key whose secret scalar starts with lz zero bytes is stored under name a (ImportPrivateKey), asked for with the right and
\* another password, exported, imported under name b and asked for there; then the wrong-password / missing-name imports and a
\* second given key replacing the first
GivenScenario(lz, lz2, i, j) ==
  LET a == GNameSeq[i] b == OtherName(i) c == OtherName(i + 1) p == GPwSeq[j] q == OtherPw(j)
  IN [par |-> [family |-> "given", name |-> a, pw |-> p, lz |-> lz],
      ops |-> <<OpKey(a, p), OpImportPriv(a, p, lz), OpKey(a, p), OpKey(a, q), OpExport(a, q, 1), OpExport(a, p, 1),
                OpKey(b, p), OpImport(b, p, 1), OpKey(b, p), OpImportPriv(b, q, lz2), OpImportPriv(c, p, lz2), OpKey(b, p),
                OpImportPriv(a, p, lz2), OpKey(a, p)>>]
\* <<lz, lz of the second key, name class, password class>>
GivenCases == IF Thorough THEN {<<0, 1, 2, 2>>, <<1, 2, 2, 1>>, <<1, 0, 3, 3>>, <<2, 3, 4, 4>>, <<3, 1, 5, 5>>, <<16, 2, 2, 3>>, <<31, 1, 2, 2>>}
              ELSE {<<0, 1, 2, 2>>, <<1, 2, 5, 3>>, <<2, 0, 2, 1>>}

Pairs == IF Thorough THEN {<<i, j>> : i \in 1..5, j \in 1..5} ELSE {<<i, i>> : i \in 1..5}
TransferPairs == IF Thorough THEN {<<i, j>> : i \in 1..5, j \in {1, 3}} ELSE {<<2, 3>>}

EnumScenarios == IF Family = "given" THEN {GivenScenario(c[1], c[2], c[3], c[4]) : c \in GivenCases}
                 ELSE {ClassScenario(ij[1], ij[2]) : ij \in Pairs} \cup {TransferScenario(ij[1], ij[2]) : ij \in TransferPairs}

EnumNext == /\ hist = <<>>
            /\ UNCHANGED ksvars
            /\ \E sc \in EnumScenarios : hist' = sc

LifeOp(r) == CASE r.op = "key"    -> OpKey(r.name, r.pw)
               [] r.op = "exists" -> OpExists(r.name)
               [] r.op = "export" -> OpExport(r.name, r.pw, r.slot)
               [] r.op = "import" -> OpImport(r.name, r.pw, r.slot)
               [] r.op = "importpriv" -> OpImportPriv(r.name, r.pw, r.lz)
\* a history starts by creating two keys (walks from an empty box mostly hit "missing")
LifeNext == /\ Len(hist) < Depth
            /\ Next
            /\ (Len(hist) < 2 => (res'.op = "key" /\ res'.out = "created"))
            /\ hist' = Append(hist, LifeOp(res'))

GInit == Init /\ hist = <<>>
GNext == IF Family = "life" THEN LifeNext ELSE EnumNext
GSpec == GInit /\ [][GNext]_<<ksvars, hist>>

LifeNames == {"a", "nested"}
LifePasswords == {"a", "upperA"}
LifeSlots == {1}
LifeGiven == {1, 2}

Emit == IF Family = "life"
        THEN (Len(hist) = Depth => PrintT(<<"SCN", ToJson([par |-> [family |-> "life"], ops |-> hist])>>))
        ELSE (hist # <<>> => PrintT(<<"SCN", ToJson(hist)>>))
=============================================================================
