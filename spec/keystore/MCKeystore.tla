------------------------------ MODULE MCKeystore ------------------------------
EXTENDS Keystore, IOUtils
Thorough == "VERIF_THOROUGH" \in DOMAIN IOEnv /\ IOEnv.VERIF_THOROUGH = "1"
MCNames == IF Thorough THEN {"a", "empty", "unicode"} ELSE {"a", "empty"}
MCPasswords == IF Thorough THEN {"a", "empty", "upperA"} ELSE {"a", "empty"}
MCBlobSlots == IF Thorough THEN {1, 2} ELSE {1}
\* thorough: one caller-supplied key next to 3 names x 3 passwords x 2 slots (2.2 M states, 3-4 min); quick: two of them
MCGivenKeys == IF Thorough THEN {1} ELSE {0, 1}
=============================================================================
