------------------------------ MODULE MCKeystore ------------------------------
EXTENDS Keystore, IOUtils
Thorough == "VERIF_THOROUGH" \in DOMAIN IOEnv /\ IOEnv.VERIF_THOROUGH = "1"
MCNames == IF Thorough THEN {"a", "empty", "unicode"} ELSE {"a", "empty"}
MCPasswords == IF Thorough THEN {"a", "empty", "upperA"} ELSE {"a", "empty"}
MCBlobSlots == IF Thorough THEN {1, 2} ELSE {1}
=============================================================================
