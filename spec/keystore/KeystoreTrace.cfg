SPECIFICATION TSpec
CONSTANTS
  Names <- TNames
  Passwords <- TPasswords
  BlobSlots <- TSlots
  GivenKeys <- TGiven
INVARIANT Report
POSTCONDITION AllConsumed
CHECK_DEADLOCK FALSE
