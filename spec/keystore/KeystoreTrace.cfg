SPECIFICATION TSpec
CONSTANTS
  Names <- TNames
  Passwords <- TPasswords
  BlobSlots <- TSlots
INVARIANT Report
POSTCONDITION AllConsumed
CHECK_DEADLOCK FALSE
