SPECIFICATION GSpec
CONSTANTS
  Names <- LifeNames
  Passwords <- LifePasswords
  BlobSlots <- LifeSlots
INVARIANT Emit
CHECK_DEADLOCK FALSE
