SPECIFICATION GSpec
CONSTANTS
  Names <- LifeNames
  Passwords <- LifePasswords
  BlobSlots <- LifeSlots
  GivenKeys <- LifeGiven
INVARIANT Emit
CHECK_DEADLOCK FALSE
