------------------------------- MODULE Keystore -------------------------------
(* Keystores (pkg/keystore/file, pkg/keystore/mem) as a password box.          *)
(* Property C36.                                                               *)
(*                                                                             *)
(* box : Names -> None | [key, pw].  Keys are numbered in order of creation    *)
(* (the driver numbers the private keys it sees in order of first appearance). *)
(* An exported blob is the term [key, pw]: it opens only with its password.    *)
(* Names and passwords are opaque class names ("empty", "unicode", ...); the   *)
(* driver maps them to concrete strings.                                       *)
(* Keys the caller brings along (ImportPrivateKey) are named by the number of  *)
(* LEADING ZERO BYTES of their 32-byte secret scalar: the key classes whose    *)
(* shortest big-endian form is shorter than the stored form.  Such a key has   *)
(* the fixed number GivenId(lz); keys made by the keystore are numbered 1, 2.. *)
EXTENDS Integers, Sequences, FiniteSets, TLC

CONSTANTS Names, Passwords, BlobSlots,
          GivenKeys     \* leading-zero-byte counts (0..31) of the keys a caller may bring

NoKey == 0
GivenId(lz) == 100 + lz
GivenIds == {GivenId(g) : g \in GivenKeys}
None  == [key |-> NoKey, pw |-> "-"]

VARIABLES box,     \* Names -> None or [key |-> id, pw |-> password]
          blobs,   \* BlobSlots -> None or [key, pw]   (exported key files held by the caller)
          nkeys,   \* number of keys created so far
          res      \* result of the last call

ksvars == <<box, blobs, nkeys, res>>

(***************************************************************************)
(* Pure definitions shared with the judge.                                 *)
(***************************************************************************)
Present(b, n) == b[n] # None

\* Key(name, pw): outcome class and resulting box
KeyOutcome(b, n, pw) == IF ~Present(b, n) THEN "created" ELSE IF b[n].pw = pw THEN "opened" ELSE "invalid"
KeyBox(b, nk, n, pw) == IF ~Present(b, n) THEN [b EXCEPT ![n] = [key |-> nk + 1, pw |-> pw]] ELSE b
KeyResult(b, nk, n, pw) == IF ~Present(b, n) THEN nk + 1 ELSE IF b[n].pw = pw THEN b[n].key ELSE NoKey

\* ExportKey(name, pw)
ExportOutcome(b, n, pw) == IF ~Present(b, n) THEN "missing" ELSE IF b[n].pw = pw THEN "ok" ELSE "invalid"
\* ImportKey(name, pw, blob): the named key must exist and open with pw; the blob must open with pw
ImportOutcome(b, n, pw, blob) ==
  IF ~Present(b, n) THEN "missing"
  ELSE IF b[n].pw # pw THEN "invalid"
  ELSE IF blob = None THEN "badblob"
  ELSE IF blob.pw # pw THEN "invalid"
  ELSE "ok"
ImportBox(b, n, pw, blob) == IF ImportOutcome(b, n, pw, blob) = "ok" THEN [b EXCEPT ![n] = [key |-> blob.key, pw |-> pw]] ELSE b

\* ImportPrivateKey(name, pw, key): the named key must exist and open with pw; it is replaced by the given key
ImportPrivOutcome(b, n, pw) == IF ~Present(b, n) THEN "missing" ELSE IF b[n].pw # pw THEN "invalid" ELSE "ok"
ImportPrivBox(b, n, pw, g) == IF ImportPrivOutcome(b, n, pw) = "ok" THEN [b EXCEPT ![n] = [key |-> GivenId(g), pw |-> pw]] ELSE b

(***************************************************************************)
(* Actions: one per method of keystore.Service.                            *)
(***************************************************************************)
Init == /\ box = [n \in Names |-> None]
        /\ blobs = [s \in BlobSlots |-> None]
        /\ nkeys = 0
        /\ res = [op |-> "init"]

Key(n, pw) ==
  /\ box' = KeyBox(box, nkeys, n, pw)
  /\ nkeys' = IF Present(box, n) THEN nkeys ELSE nkeys + 1
  /\ blobs' = blobs
  /\ res' = [op |-> "key", name |-> n, pw |-> pw, out |-> KeyOutcome(box, n, pw), key |-> KeyResult(box, nkeys, n, pw)]

Exists(n) ==
  /\ UNCHANGED <<box, blobs, nkeys>>
  /\ res' = [op |-> "exists", name |-> n, out |-> IF Present(box, n) THEN "yes" ELSE "no"]

Export(n, pw, s) ==
  /\ UNCHANGED <<box, nkeys>>
  /\ blobs' = IF ExportOutcome(box, n, pw) = "ok" THEN [blobs EXCEPT ![s] = box[n]] ELSE blobs
  /\ res' = [op |-> "export", name |-> n, pw |-> pw, slot |-> s, out |-> ExportOutcome(box, n, pw)]

Import(n, pw, s) ==
  /\ box' = ImportBox(box, n, pw, blobs[s])
  /\ UNCHANGED <<blobs, nkeys>>
  /\ res' = [op |-> "import", name |-> n, pw |-> pw, slot |-> s, out |-> ImportOutcome(box, n, pw, blobs[s])]

ImportPriv(n, pw, g) ==
  /\ box' = ImportPrivBox(box, n, pw, g)
  /\ UNCHANGED <<blobs, nkeys>>
  /\ res' = [op |-> "importpriv", name |-> n, pw |-> pw, lz |-> g, out |-> ImportPrivOutcome(box, n, pw)]

Next == \/ \E n \in Names, pw \in Passwords : Key(n, pw)
        \/ \E n \in Names, pw \in Passwords, g \in GivenKeys : ImportPriv(n, pw, g)
        \/ \E n \in Names : Exists(n)
        \/ \E n \in Names, pw \in Passwords, s \in BlobSlots : Export(n, pw, s) \/ Import(n, pw, s)

Spec == Init /\ [][Next]_ksvars

(***************************************************************************)
(* Properties (statement of C36 over histories).                           *)
(***************************************************************************)
TypeOK == /\ \A n \in Names : box[n] = None \/ (box[n].key \in (1..nkeys) \cup GivenIds /\ box[n].pw \in Passwords)
          /\ nkeys \in Nat

\* the right password returns the stored key; any other password is rejected; asking again creates nothing
KeyContract ==
  res.op = "key" =>
     /\ (res.out = "opened" => res.key = box[res.name].key /\ box[res.name].pw = res.pw)
     /\ (res.out = "invalid" => res.key = NoKey /\ box[res.name].pw # res.pw)
     /\ (res.out = "created" => res.key = nkeys)

\* a key brought by the caller is stored under the name and password (whatever its leading bytes), so that
\* KeyContract returns exactly it afterwards
ImportPrivContract ==
  (res.op = "importpriv" /\ res.out = "ok") => (box[res.name].key = GivenId(res.lz) /\ box[res.name].pw = res.pw)

\* a stored key changes only through a successful import, its password never changes, nothing disappears
Stable == [][\A n \in Names :
               /\ (Present(box, n) => Present(box', n) /\ box'[n].pw = box[n].pw)
               /\ (Present(box, n) /\ box'[n].key # box[n].key => res'.op \in {"import", "importpriv"} /\ res'.out = "ok" /\ res'.name = n)]_ksvars

\* exporting then importing reproduces the key
ExportImport ==
  (res.op = "import" /\ res.out = "ok") => (box[res.name].key = blobs[res.slot].key /\ box[res.name].pw = res.pw)

\* an exported blob always holds a key that was stored under its password
BlobsGenuine == \A s \in BlobSlots : blobs[s] # None => blobs[s].key \in (1..nkeys) \cup GivenIds
=============================================================================
