----------------------------- MODULE TraceKit -----------------------------
(* Shared by every trace ("judge") specification.                          *)
(* The trace is an NDJSON file of events logged by a Go driver that ran    *)
(* the real code; file name in the environment variable TRACE.             *)
(* Judges run in monitor mode: one deterministic step per event; each step *)
(* evaluates the property's verdict clauses on <<model state before, event,*)
(* model state after>>, records the names of the clauses that are false    *)
(* and resynchronises, so one pass reports every failing event.            *)
EXTENDS Integers, Sequences, TLC, Json, IOUtils

Trace == ndJsonDeserialize(IF "TRACE" \in DOMAIN IOEnv THEN IOEnv.TRACE ELSE "trace.ndjson")
NEvents == Len(Trace)

\* a named clause: empty when it holds, its name when it does not
Clause(name, holds) == IF holds THEN <<>> ELSE <<name>>

Has(e, f) == f \in DOMAIN e

\* record appended to `bad` for a failing event
BadRec(l, e, cs) == [line |-> l, scn |-> e.scn, i |-> e.i, op |-> e.op, clauses |-> cs]

\* the same with judge-computed details (used by known-finding signatures as e['_info'])
BadRecI(l, e, cs, info) == [line |-> l, scn |-> e.scn, i |-> e.i, op |-> e.op, clauses |-> cs, info |-> info]

\* printed exactly once, in the state that has consumed the whole trace
ReportBad(l, bad, notes) ==
  l = NEvents + 1 => /\ PrintT(<<"BAD", ToJson(bad)>>)
                     /\ PrintT(<<"NOTES", ToJson(notes)>>)
                     /\ PrintT(<<"JUDGED", NEvents>>)

\* POSTCONDITION of every judge: every event was consumed
AllConsumed == TLCGet("stats").diameter - 1 = NEvents
===========================================================================
