------------------------------- MODULE Lex -------------------------------
(* Byte-lexicographic order on sequences of naturals (keys are carried as *)
(* sequences of byte codes: TLC cannot look inside strings).              *)
EXTENDS Integers, Sequences, FiniteSets, SequencesExt

LexMin(a, b) == IF a < b THEN a ELSE b

\* p is a prefix of k
IsPrefixOf(p, k) == Len(p) <= Len(k) /\ \A i \in 1..Len(p) : p[i] = k[i]

\* strict byte-lexicographic order (a proper prefix sorts first)
LexLess(a, b) ==
  \E i \in 1..(LexMin(Len(a), Len(b)) + 1) :
     /\ \A j \in 1..(i-1) : a[j] = b[j]
     /\ \/ (i > Len(a) /\ i <= Len(b))
        \/ (i <= Len(a) /\ i <= Len(b) /\ a[i] < b[i])

LexLeq(a, b) == a = b \/ LexLess(a, b)

\* the ascending sequence of the elements of a finite set of sequences
LexSort(S) == SetToSortSeq(S, LexLess)

\* reverse of a sequence
LexReverse(s) == [i \in 1..Len(s) |-> s[Len(s) + 1 - i]]
==========================================================================
