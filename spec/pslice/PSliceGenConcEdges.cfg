SPECIFICATION GSpec
CONSTANTS
  MBs <- GMBs
  Mode = "conc"
VIEW EdgeView
INVARIANT EmitConc
CHECK_DEADLOCK FALSE
