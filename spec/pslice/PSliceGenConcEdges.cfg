SPECIFICATION GSpec
CONSTANTS
  MBs <- GMBs
  Mode = "conc"
VIEW EdgeView
ACTION_CONSTRAINT EmitConcEdge
CHECK_DEADLOCK FALSE
