SPECIFICATION Spec
CONSTANTS
  MBs <- MCMBs
INVARIANTS TypeOK IsSet IterContract
PROPERTIES FrameOK
