SPECIFICATION Spec
CONSTANTS
  MBs <- MCMBs
VIEW DesignView
INVARIANTS TypeOK IsSet IterContract QueryContract
PROPERTIES FrameOK
