------------------------------ MODULE PSliceGen ------------------------------
(* Scenario generator for C21: PSlice's actions plus a history variable.       *)
(*  Mode "seq":  mutations, queries, iterations with every callback script,    *)
(*               iterations whose callback updates the slice                   *)
(*  Mode "conc": mutations to reach a state, then one free-running concurrent  *)
(*               iterate || update operation (run under the race detector)     *)
(*  edges (VIEW): one shortest history per (state, operation); sim: walks      *)
EXTENDS PSlice, TLC, Json, IOUtils
CONSTANT Mode
VARIABLE hist

GMBs == {4}
GMBsQuick == {3}
GMBsBoth == {4, 32}

Depth == IF "VERIF_DEPTH" \in DOMAIN IOEnv THEN atoi(IOEnv.VERIF_DEPTH) ELSE 5

\* the operation as the driver needs it (no expected results)
Op(r) == CASE r.op = "exists"     -> [op |-> "exists", p |-> r.p]
           [] r.op = "length"     -> [op |-> "length"]
           [] r.op = "binsize"    -> [op |-> "binsize", bin |-> r.bin]
           [] r.op = "binpeers"   -> [op |-> "binpeers", bin |-> r.bin]
           [] r.op = "shallowest" -> [op |-> "shallowest"]
           [] r.op = "iter"       -> [op |-> "iter", dir |-> r.dir, kind |-> r.kind, at |-> r.at]
           [] OTHER -> r

GInit == Init /\ hist = <<>>
GNext == /\ Len(hist) < Depth
         /\ IF Mode = "seq" THEN Mutations \/ Queries \/ IterUpdates
            ELSE Mutations \/ Concurrents
         /\ hist' = Append(hist, Op(res'))
GSpec == GInit /\ [][GNext]_<<vars, hist>>

\* BFS over the slice states only; every transition prints its history (ACTION_CONSTRAINT): one
\* shortest history per (state, operation) edge
EdgeView == <<mb, bins>>

Scn == [par |-> [maxbins |-> mb], ops |-> hist]
EmitAll  == hist # <<>> => PrintT(<<"SCN", ToJson(Scn)>>)
EmitFull == Len(hist) = Depth => PrintT(<<"SCN", ToJson(Scn)>>)
ScnNext == [par |-> [maxbins |-> mb], ops |-> hist']
EmitEdge == PrintT(<<"SCN", ToJson(ScnNext)>>)
EmitConcEdge == res'.op = "conc" => PrintT(<<"SCN", ToJson(ScnNext)>>)
EmitConc == res.op = "conc" => PrintT(<<"SCN", ToJson(Scn)>>)
=============================================================================
