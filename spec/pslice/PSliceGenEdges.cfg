SPECIFICATION GSpec
CONSTANTS
  MBs <- GMBs
  Mode = "seq"
VIEW EdgeView
INVARIANT EmitAll
CHECK_DEADLOCK FALSE
