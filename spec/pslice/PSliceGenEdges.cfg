SPECIFICATION GSpec
CONSTANTS
  MBs <- GMBs
  Mode = "seq"
VIEW EdgeView
ACTION_CONSTRAINT EmitEdge
CHECK_DEADLOCK FALSE
