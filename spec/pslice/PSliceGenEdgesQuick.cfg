SPECIFICATION GSpec
CONSTANTS
  MBs <- GMBsQuick
  Mode = "seq"
VIEW EdgeView
ACTION_CONSTRAINT EmitEdge
CHECK_DEADLOCK FALSE
