SPECIFICATION GSpec
CONSTANTS
  MBs <- GMBsQuick
  Mode = "seq"
VIEW EdgeView
INVARIANT EmitAll
CHECK_DEADLOCK FALSE
