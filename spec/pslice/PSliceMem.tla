------------------------------ MODULE PSliceMem ------------------------------
(* Why iterating a PSlice bin while another goroutine adds/removes is free of   *)
(* data races (last clause of C21) - the mechanism named in the property's      *)
(* anchors, as a two-process model over explicit memory cells:                  *)
(*   writer (under the write lock):  Add appends - into the spare capacity of   *)
(*       the bin's backing array if there is some, else into a fresh, larger    *)
(*       copy;  Remove builds a fresh, shorter copy (copy-on-remove);           *)
(*   reader:  copies the bin's slice header (array, length) under the read lock *)
(*       and then reads the cells 1..length WITHOUT any lock.                   *)
(* A data race is a write to a cell that a snapshot taken earlier may still     *)
(* read (no lock orders the two).  TLC checks that no such write exists in any  *)
(* interleaving, and that the reader sees exactly the peers of its snapshot.    *)
(* With InPlaceRemove = TRUE (remove by overwriting the hole in the shared      *)
(* array) TLC finds the race: that is the schedule the concurrent scenarios of  *)
(* the driver (free-running reader || writer under the race detector) aim at.   *)
(* A TLA+ model cannot decide data races of the Go code itself: see DESIGN.md 6.*)
EXTENDS Integers, Sequences, FiniteSets

CONSTANTS Peers, MaxArr, MaxCap, InPlaceRemove

Nil == 0
VARIABLES cap,     \* [1..MaxArr -> 0..MaxCap]      capacity of every array
          cell,    \* [1..MaxArr -> [1..MaxCap -> Peers \cup {Nil}]]
          hdr,     \* [a, len]: the bin's slice header (a = 0: nil slice)
          snap,    \* reader: [a, len, pos, seen] - header copy, next cell to read, content at snapshot time
          racy     \* a write hit a cell below the length of an open snapshot

vars == <<cap, cell, hdr, snap, racy>>

Content == [i \in 1..hdr.len |-> cell[hdr.a][i]]
Present == {Content[i] : i \in 1..hdr.len}
Open == snap.pos <= snap.len                      \* the reader still has cells to read

\* an array nobody references (the garbage collector would have freed and reused it)
Fresh == CHOOSE a \in 1..MaxArr : a # hdr.a /\ ~(Open /\ a = snap.a)

Hits(a, i) == Open /\ snap.a = a /\ i <= snap.len

Init == /\ cap = [a \in 1..MaxArr |-> 0]
        /\ cell = [a \in 1..MaxArr |-> [i \in 1..MaxCap |-> Nil]]
        /\ hdr = [a |-> 0, len |-> 0]
        /\ snap = [a |-> 0, len |-> 0, pos |-> 1, seen |-> <<>>]
        /\ racy = FALSE

Grow(c) == IF c = 0 THEN 1 ELSE IF 2 * c > MaxCap THEN MaxCap ELSE 2 * c

Add(p) ==
  /\ p \notin Present /\ hdr.len < MaxCap
  /\ IF hdr.a # 0 /\ hdr.len < cap[hdr.a]
     THEN \* append in place: writes cell len+1 of the shared array
          /\ cell' = [cell EXCEPT ![hdr.a][hdr.len + 1] = p]
          /\ racy' = (racy \/ Hits(hdr.a, hdr.len + 1))
          /\ hdr' = [hdr EXCEPT !.len = @ + 1]
          /\ UNCHANGED cap
     ELSE \* grow: copy into a fresh array, then publish the new header
          LET f == Fresh IN
          /\ cap' = [cap EXCEPT ![f] = Grow(hdr.len)]
          /\ cell' = [cell EXCEPT ![f] = [i \in 1..MaxCap |-> IF i <= hdr.len THEN Content[i] ELSE IF i = hdr.len + 1 THEN p ELSE Nil]]
          /\ hdr' = [a |-> f, len |-> hdr.len + 1]
          /\ UNCHANGED racy
  /\ UNCHANGED snap

Remove(p) ==
  /\ p \in Present
  /\ LET i == CHOOSE i \in 1..hdr.len : Content[i] = p
         n == hdr.len
     IN IF InPlaceRemove
        THEN /\ cell' = [cell EXCEPT ![hdr.a][i] = Content[n]]
             /\ racy' = (racy \/ (i < n /\ Hits(hdr.a, i)))
             /\ hdr' = [hdr EXCEPT !.len = n - 1]
             /\ UNCHANGED cap
        ELSE LET f == Fresh IN
             /\ cap' = [cap EXCEPT ![f] = n - 1]
             /\ cell' = [cell EXCEPT ![f] = [j \in 1..MaxCap |-> IF j >= n THEN Nil ELSE IF j = i THEN Content[n] ELSE Content[j]]]
             /\ hdr' = [a |-> f, len |-> n - 1]
             /\ UNCHANGED racy
  /\ UNCHANGED snap

\* reader: copy the header (read lock), then read cell after cell (no lock)
Snapshot == /\ ~Open
            /\ snap' = [a |-> hdr.a, len |-> hdr.len, pos |-> 1, seen |-> Content]
            /\ UNCHANGED <<cap, cell, hdr, racy>>
ReadCell == /\ Open
            /\ snap' = [snap EXCEPT !.pos = @ + 1]
            /\ UNCHANGED <<cap, cell, hdr, racy>>

Next == (\E p \in Peers : Add(p) \/ Remove(p)) \/ Snapshot \/ ReadCell
Spec == Init /\ [][Next]_vars

\* VIEW: unreferenced arrays and cells beyond every reference do not matter
Live(a) == IF a = hdr.a /\ Open /\ a = snap.a THEN (IF hdr.len > snap.len THEN hdr.len ELSE snap.len)
           ELSE IF a = hdr.a THEN hdr.len ELSE IF Open /\ a = snap.a THEN snap.len ELSE 0
MemView == <<[a \in 1..MaxArr |-> IF Live(a) = 0 /\ a # hdr.a THEN <<>> ELSE <<cap[a], [i \in 1..Live(a) |-> cell[a][i]]>>],
             hdr, IF Open THEN snap ELSE <<>>, racy>>

NoDataRace == ~racy
\* what the reader is about to read is what was there when it took the snapshot
ReaderSeesItsSnapshot == Open => cell[snap.a][snap.pos] = snap.seen[snap.pos]
MemOK == /\ hdr.a # 0 => hdr.len <= cap[hdr.a]
         /\ Cardinality(Present) = hdr.len
=============================================================================
