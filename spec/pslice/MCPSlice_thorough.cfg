SPECIFICATION Spec
CONSTANTS
  MBs <- MCMBsThorough
INVARIANTS TypeOK IsSet IterContract
PROPERTIES FrameOK
