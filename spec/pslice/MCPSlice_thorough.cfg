SPECIFICATION Spec
CONSTANTS
  MBs <- MCMBsThorough
VIEW DesignView
INVARIANTS TypeOK IsSet IterContract QueryContract
PROPERTIES FrameOK
