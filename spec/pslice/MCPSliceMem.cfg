SPECIFICATION Spec
CONSTANTS
  Peers = {1, 2, 3}
  MaxArr = 3
  MaxCap = 4
  InPlaceRemove = FALSE
VIEW MemView
INVARIANTS NoDataRace ReaderSeesItsSnapshot MemOK
