SPECIFICATION GSpec
CONSTANTS
  MBs <- GMBsBoth
  Mode = "conc"

INVARIANT EmitConc
CHECK_DEADLOCK FALSE
