----------------------------- MODULE PSliceTrace -----------------------------
(* Judge for C21: replays what the driver recorded from pkg/topology/pslice    *)
(* against PSlice's definitions.  Monitor mode (see TraceKit).                 *)
(*                                                                             *)
(* Event fields: op + arguments; results (res, bin, none, visited, cberr,      *)
(* detector, race); projection after the call: st = <<<<bin, <<peers>>>>, ...>> *)
(* (BinPeers of every non-empty bin), length = Length().                       *)
EXTENDS PSlice, TraceKit

VARIABLES l, bad, notes

\* observed bins as sequences (the slice's own order)
ObsBins(e, m) == [b \in 0..(m - 1) |->
                   LET J == {j \in DOMAIN e.st : e.st[j][1] = b}
                   IN IF J = {} THEN <<>> ELSE e.st[CHOOSE j \in J : TRUE][2]]
ObsCount(e) == LET RECURSIVE sum(_)
                   sum(j) == IF j > Len(e.st) THEN 0 ELSE Len(e.st[j][2]) + sum(j + 1)
               IN sum(1)
ObsSet(e) == UNION {SeqSet(e.st[j][2]) : j \in DOMAIN e.st}

\* a bin without repeated peers (the model never has any; a resynchronised state may)
RECURSIVE DedupSeq(_)
DedupSeq(q) == IF q = <<>> THEN <<>>
               ELSE LET r == DedupSeq(SubSeq(q, 1, Len(q) - 1))
                    IN IF q[Len(q)] \in SeqSet(r) THEN r ELSE Append(r, q[Len(q)])
Dedup(bs) == [b \in DOMAIN bs |-> DedupSeq(bs[b])]

\* did the at-th callback of an updating iteration happen
UpdHappens(e, s) == e.at <= Total(s)

\* reference model after the event
Post(e, m, s) ==
  CASE e.op = "reset"   -> EmptyBins(e.maxbins)
    [] e.op = "add"     -> AddAll(m, s, e.ps)
    [] e.op = "remove"  -> RemoveOne(m, s, e.p)
    [] e.op = "iterupd" -> IF UpdHappens(e, s) THEN ApplyUpd(m, s, e.upd) ELSE s
    [] e.op = "conc"    -> ApplyUpd(m, Dedup(s), e.upd)     \* runs on a fresh slice filled with the current SET
    [] OTHER            -> s

\* no peer is visited more often than it is stored (at most once: the model never stores a peer
\* twice; after a resynchronisation to an observed duplicate the duplicate is not reported again)
Times(v, p) == Cardinality({i \in 1..Len(v) : v[i][1] = p})
Copies(s, p) == Cardinality({<<b, i>> \in UNION {{b} \X (1..Len(s[b])) : b \in DOMAIN s} : s[b][i] = p})
Distinct(v, s, extra) == \A i \in 1..Len(v) : Times(v, v[i][1]) <= (IF v[i][1] \in extra /\ Copies(s, v[i][1]) = 0 THEN 1 ELSE Copies(s, v[i][1]))
PosIn(m, dir, b) == IF dir = "deep" THEN m - b ELSE b + 1
Ordered(m, dir, v) == \A i \in 1..(Len(v) - 1) : PosIn(m, dir, v[i][2]) <= PosIn(m, dir, v[i + 1][2])
CountIn(v, b) == Cardinality({i \in 1..Len(v) : v[i][2] = b})

IterVerdict(e, m, s) ==
  LET v == e.visited
      c == IterCounts(m, s, e.dir, e.kind, e.at)
      o == BinOrder(m, e.dir)
  IN    Clause("iteration_visits_stored_peers_once_each_with_its_bin",
               Distinct(v, s, {}) /\ \A i \in 1..Len(v) : v[i][1] \in BinSet(s, v[i][2]) /\ BinOf(m, v[i][1]) = v[i][2])
     \o Clause(IF e.dir = "deep" THEN "eachbin_goes_deepest_bin_first" ELSE "eachbinrev_goes_shallowest_bin_first",
               Ordered(m, e.dir, v))
     \o Clause("iteration_stops_and_skips_exactly_where_the_callback_says",
               \A k \in 1..m : CountIn(v, o[k]) = c[k])
     \o Clause("iteration_returns_the_callback_error", e.cberr = IterErr(m, s, e.dir, e.kind, e.at))

\* an iteration whose callback updates the slice: the statement only fixes the resulting set; the
\* visit sequence is held to what every reading of "iteration agrees with the set" implies
IterUpdVerdict(e, m, s) ==
  LET v == e.visited
      hap == UpdHappens(e, s)
      added == IF hap THEN {e.upd[i].p : i \in {i \in 1..Len(e.upd) : e.upd[i].u = "add"}} ELSE {}
      removed == IF hap THEN {e.upd[i].p : i \in {i \in 1..Len(e.upd) : e.upd[i].u = "remove"}} ELSE {}
  IN    Clause("iteration_visits_stored_peers_once_each_with_its_bin",
               Distinct(v, s, added) /\ \A i \in 1..Len(v) : v[i][1] \in (Stored(s) \cup added) /\ BinOf(m, v[i][1]) = v[i][2])
     \o Clause(IF e.dir = "deep" THEN "eachbin_goes_deepest_bin_first" ELSE "eachbinrev_goes_shallowest_bin_first",
               Ordered(m, e.dir, v))
     \o Clause("iteration_visits_every_peer_stored_throughout", (Stored(s) \ removed) \subseteq {v[i][1] : i \in 1..Len(v)})

\* verdict clauses: the statement of C21 over what the caller observed
Verdict(e, m, pre, post) ==
     Clause("no_panic", ~e.panicked)
  \o Clause("holds_exactly_the_added_and_not_removed_addresses", ObsSet(e) = Stored(post))
  \o Clause("each_address_once", ObsCount(e) - Cardinality(ObsSet(e)) <= Total(pre) - Cardinality(Stored(pre)))   \* no new copy
  \o Clause("each_in_the_bin_of_its_capped_proximity",
            \A j \in DOMAIN e.st : \A i \in 1..Len(e.st[j][2]) : BinOf(m, e.st[j][2][i]) = e.st[j][1])
  \o Clause("length_agrees_with_the_set", e.length = Total(post))
  \o (CASE e.op = "exists"     -> Clause("exists_agrees_with_the_set", e.res = (e.p \in Stored(pre)))
        [] e.op = "binsize"    -> Clause("binsize_agrees_with_the_set", e.res = BinLen(pre, e.bin))
        [] e.op = "binpeers"   -> Clause("binpeers_agrees_with_the_set",
                                         SeqSet(e.res) = BinSet(pre, e.bin) /\ Len(e.res) = BinLen(pre, e.bin))
        [] e.op = "shallowest" -> Clause("shallowest_empty_agrees_with_the_set", <<e.bin, e.none>> = ShallowestEmptyOf(m, pre))
        [] e.op = "iter"       -> IterVerdict(e, m, pre)
        [] e.op = "iterupd"    -> IterUpdVerdict(e, m, pre)
        [] e.op = "conc"       -> Clause("no_data_race", e.detector => ~e.race)
        [] OTHER -> <<>>)

\* conformance notes (never an alarm): order inside the bins, exact visit sequence
Drift(e, m, pre, post) ==
  LET note(n) == <<[line |-> l, scn |-> e.scn, op |-> e.op, note |-> n]>>
  IN (IF e.op \notin {"reset", "conc"} /\ ObsBins(e, m) # post /\ Total(pre) = Cardinality(Stored(pre))     \* (not after a resynchronisation to duplicates)
      THEN note("order_inside_bins_differs_from_model") ELSE <<>>)
     \o (IF e.op = "iter" /\ e.visited # IterVisited(m, pre, e.dir, e.kind, e.at) THEN note("visit_sequence_differs_from_model") ELSE <<>>)
     \o (IF e.op = "conc" /\ ~e.detector THEN note("race_detector_off") ELSE <<>>)

TInit == l = 1 /\ mb = 4 /\ bins = EmptyBins(4) /\ res = [op |-> "init"] /\ bad = <<>> /\ notes = <<>>

TStep == /\ l <= NEvents
         /\ LET e == Trace[l]
                m == IF e.op = "reset" THEN e.maxbins ELSE mb
                post == Post(e, m, bins)
                cs == Verdict(e, m, bins, post)
            IN /\ l' = l + 1
               /\ bad' = IF cs = <<>> THEN bad ELSE Append(bad, BadRec(l, e, cs))
               /\ notes' = IF cs = <<>> /\ Len(notes) < 20 THEN notes \o Drift(e, m, bins, post) ELSE notes
               /\ mb' = m
               /\ bins' = ObsBins(e, m)      \* resynchronise (also takes over the slice's own order)
               /\ res' = [op |-> e.op]

TSpec == TInit /\ [][TStep]_<<vars, l, bad, notes>>

Report == ReportBad(l, bad, notes)
=============================================================================
