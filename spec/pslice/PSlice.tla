------------------------------- MODULE PSlice -------------------------------
(* pkg/topology/pslice: a set of peer addresses indexed by proximity order.   *)
(* Property C21.                                                              *)
(*                                                                            *)
(* A peer is a pair <<po, id>>: its proximity order to the base address and a *)
(* serial number (the driver maps it to a 32-byte address sharing exactly po  *)
(* leading bits with the base).  It belongs in bin Min(po, mb-1).             *)
(*                                                                            *)
(* The state keeps every bin as a SEQUENCE (append on add, move-last-into-the-*)
(* hole on remove): the order decides where an early stop lands.  What the    *)
(* property talks about is the SET; every verdict is stated on sets/counts,   *)
(* the order is only predicted (conformance note).                            *)
EXTENDS Integers, Sequences, FiniteSets

CONSTANT MBs          \* the maxBins values explored

VARIABLES mb,         \* maxBins of the slice
          bins,       \* 0..mb-1 -> Seq(Peer)
          res         \* what the caller observed from the last call

vars == <<mb, bins, res>>

(***************************************************************************)
(* Universe.                                                               *)
(***************************************************************************)
\* two peers in bin 0, one in bin 1, and around the cap: order mb-1 (last bin), mb (first capped order)
\* and beyond; with mb = 4 every bin can be occupied
PeersOf(m) == IF m = 4 THEN {<<0, 1>>, <<0, 2>>, <<1, 1>>, <<2, 1>>, <<3, 1>>, <<4, 1>>}
              ELSE {<<0, 1>>, <<0, 2>>, <<1, 1>>, <<m - 1, 1>>, <<m, 1>>, <<m + 2, 1>>}

BinOf(m, p) == IF p[1] >= m THEN m - 1 ELSE p[1]

\* batches given to Add: empty, single, every pair (duplicates included), triples over three peers
Batches(m) ==
  LET P == PeersOf(m)  T == {<<0, 1>>, <<0, 2>>, <<m, 1>>}
  IN {<<>>} \cup {<<a>> : a \in P} \cup {<<a, b>> : a \in P, b \in P} \cup {<<a, b, c>> : a \in T, b \in T, c \in T}

\* callback scripts of an iteration: what the callback answers at its at-th invocation
Scripts == {<<"none", 0>>, <<"nextall", 0>>} \cup {<<k, at>> : k \in {"stop", "next", "err"}, at \in 1..3}

\* updates performed from inside the at-th callback of an iteration / by a concurrent goroutine
Upd(u, p) == [u |-> u, p |-> p]
UpdSeqs(m) == LET P == PeersOf(m)
              IN {<<Upd("add", p)>> : p \in P} \cup {<<Upd("remove", p)>> : p \in P}
                 \cup {<<Upd("remove", p), Upd("add", p)>> : p \in P}
                 \cup {<<Upd("add", p), Upd("remove", p)>> : p \in P}

(***************************************************************************)
(* Pure definitions, shared with the trace specification.                  *)
(***************************************************************************)
EmptyBins(m) == [b \in 0..(m - 1) |-> <<>>]

SeqSet(s) == {s[i] : i \in 1..Len(s)}
Stored(bs) == UNION {SeqSet(bs[b]) : b \in DOMAIN bs}
BinSet(bs, b) == IF b \in DOMAIN bs THEN SeqSet(bs[b]) ELSE {}
BinLen(bs, b) == IF b \in DOMAIN bs THEN Len(bs[b]) ELSE 0
Total(bs) == LET RECURSIVE sum(_)
                 sum(b) == IF b \notin DOMAIN bs THEN 0 ELSE Len(bs[b]) + sum(b + 1)
             IN sum(0)

AddOne(m, bs, p) == IF p \in Stored(bs) THEN bs ELSE [bs EXCEPT ![BinOf(m, p)] = Append(@, p)]

RECURSIVE AddAll(_, _, _)
AddAll(m, bs, ps) == IF ps = <<>> THEN bs ELSE AddAll(m, AddOne(m, bs, Head(ps)), Tail(ps))

\* remove: the last element of the bin moves into the hole.  (A bin never holds a peer twice in
\* the model; the trace specification may resynchronise to an observed bin that does: then
\* every copy goes.)
RemoveOne(m, bs, p) ==
  IF p \notin Stored(bs) THEN bs
  ELSE LET b == BinOf(m, p)
           s == bs[b]
           I == {i \in 1..Len(s) : s[i] = p}
           n == Len(s)
       IN IF Cardinality(I) = 1
          THEN LET i == CHOOSE i \in I : TRUE
               IN [bs EXCEPT ![b] = [j \in 1..(n - 1) |-> IF j = i THEN s[n] ELSE s[j]]]
          ELSE [c \in DOMAIN bs |-> SelectSeq(bs[c], LAMBDA x : x # p)]

RECURSIVE ApplyUpd(_, _, _)
ApplyUpd(m, bs, us) ==
  IF us = <<>> THEN bs
  ELSE ApplyUpd(m, IF Head(us).u = "add" THEN AddOne(m, bs, Head(us).p) ELSE RemoveOne(m, bs, Head(us).p), Tail(us))

\* (bin, FALSE) for the shallowest empty bin, (0, TRUE) when no bin is empty
ShallowestEmptyOf(m, bs) ==
  LET E == {b \in 0..(m - 1) : bs[b] = <<>>}
  IN IF E = {} THEN <<0, TRUE>> ELSE <<CHOOSE b \in E : \A c \in E : b <= c, FALSE>>

\* bins in iteration order: deepest first ("deep", EachBin) or shallowest first ("shallow", EachBinRev)
BinOrder(m, dir) == [k \in 1..m |-> IF dir = "deep" THEN m - k ELSE k - 1]

\* How many peers of each bin (in iteration order) an iteration visits, from the bin SIZES and the
\* callback script: "stop"/"err" end the iteration at the at-th call, "next" skips the rest of the
\* bin of the at-th call, "nextall" answers next at every call.
RECURSIVE VisitCounts(_, _, _, _, _)
VisitCounts(sizes, k, calls, kind, at) ==        \* sizes: sequence in iteration order
  IF k > Len(sizes) THEN <<>>
  ELSE LET n == sizes[k]
           hit == kind \in {"stop", "next", "err"} /\ at > calls /\ at <= calls + n
       IN IF hit /\ kind \in {"stop", "err"}
          THEN <<at - calls>> \o [j \in 1..(Len(sizes) - k) |-> 0]
          ELSE IF hit THEN <<at - calls>> \o VisitCounts(sizes, k + 1, at, kind, at)
          ELSE IF kind = "nextall" THEN <<IF n > 0 THEN 1 ELSE 0>> \o VisitCounts(sizes, k + 1, calls + (IF n > 0 THEN 1 ELSE 0), kind, at)
          ELSE <<n>> \o VisitCounts(sizes, k + 1, calls + n, kind, at)

SizesInOrder(m, bs, dir) == [k \in 1..m |-> Len(bs[BinOrder(m, dir)[k]])]

IterCounts(m, bs, dir, kind, at) == VisitCounts(SizesInOrder(m, bs, dir), 1, 0, kind, at)

\* the callback's error is what the iteration returns
RECURSIVE SumSeq(_)
SumSeq(s) == IF s = <<>> THEN 0 ELSE Head(s) + SumSeq(Tail(s))
IterErr(m, bs, dir, kind, at) == kind = "err" /\ at <= SumSeq(SizesInOrder(m, bs, dir))

\* implementation-shaped prediction of the exact visit sequence (pairs <<peer, bin>>)
RECURSIVE Flatten(_)
Flatten(ss) == IF ss = <<>> THEN <<>> ELSE Head(ss) \o Flatten(Tail(ss))
IterVisited(m, bs, dir, kind, at) ==
  LET c == IterCounts(m, bs, dir, kind, at)
      o == BinOrder(m, dir)
  IN Flatten([k \in 1..m |-> [j \in 1..c[k] |-> <<bs[o[k]][j], o[k]>>]])

(***************************************************************************)
(* Actions: one per public call.                                           *)
(***************************************************************************)
Init == /\ mb \in MBs
        /\ bins = EmptyBins(mb)
        /\ res = [op |-> "init"]

Add(ps) == /\ bins' = AddAll(mb, bins, ps)
           /\ res' = [op |-> "add", ps |-> ps]
           /\ UNCHANGED mb

Remove(p) == /\ bins' = RemoveOne(mb, bins, p)
             /\ res' = [op |-> "remove", p |-> p]
             /\ UNCHANGED mb

Exists(p) == /\ res' = [op |-> "exists", p |-> p, v |-> p \in Stored(bins)]
             /\ UNCHANGED <<mb, bins>>

Length == /\ res' = [op |-> "length", v |-> Cardinality(Stored(bins))]
          /\ UNCHANGED <<mb, bins>>

BinSize(b) == /\ res' = [op |-> "binsize", bin |-> b, v |-> Cardinality(BinSet(bins, b))]
              /\ UNCHANGED <<mb, bins>>

BinPeers(b) == /\ res' = [op |-> "binpeers", bin |-> b, v |-> BinSet(bins, b)]
               /\ UNCHANGED <<mb, bins>>

ShallowestEmpty == /\ res' = [op |-> "shallowest", v |-> ShallowestEmptyOf(mb, bins)]
                   /\ UNCHANGED <<mb, bins>>

Iterate(dir, kind, at) ==
  /\ res' = [op |-> "iter", dir |-> dir, kind |-> kind, at |-> at,
             visited |-> IterVisited(mb, bins, dir, kind, at), err |-> IterErr(mb, bins, dir, kind, at)]
  /\ UNCHANGED <<mb, bins>>

\* an iteration whose at-th callback performs updates on the slice (the callback runs without the lock)
IterateUpdating(dir, at, us) ==
  /\ bins' = IF at <= Cardinality(Stored(bins)) THEN ApplyUpd(mb, bins, us) ELSE bins
  /\ res' = [op |-> "iterupd", dir |-> dir, at |-> at, upd |-> us]
  /\ UNCHANGED mb

\* free-running: one goroutine iterates and reads while another applies the updates (repeatedly)
Concurrent(dir, us) ==
  /\ bins' = ApplyUpd(mb, bins, us)
  /\ res' = [op |-> "conc", dir |-> dir, upd |-> us]
  /\ UNCHANGED mb

Dirs == {"deep", "shallow"}

Mutations == \/ \E ps \in Batches(mb) : Add(ps)
             \/ \E p \in PeersOf(mb) : Remove(p)

Queries == \/ \E p \in PeersOf(mb) : Exists(p)
           \/ Length
           \/ \E b \in {0, 1, mb - 1, mb} : BinSize(b) \/ BinPeers(b)
           \/ ShallowestEmpty
           \/ \E d \in Dirs, s \in Scripts : Iterate(d, s[1], s[2])

IterUpdates == \E d \in Dirs, at \in 1..2, us \in UpdSeqs(mb) : IterateUpdating(d, at, us)
Concurrents == \E d \in Dirs, us \in UpdSeqs(mb) : Concurrent(d, us)

Next == Mutations \/ Queries \/ IterUpdates \/ Concurrents

Spec == Init /\ [][Next]_vars

(***************************************************************************)
(* Properties of the model (bounded design check).                         *)
(***************************************************************************)
TypeOK == /\ mb \in MBs
          /\ DOMAIN bins = 0..(mb - 1)
          /\ \A b \in DOMAIN bins : \A i \in 1..Len(bins[b]) : bins[b][i] \in PeersOf(mb)

\* a set: every peer at most once overall, and in the bin of its proximity order
IsSet == /\ \A b \in DOMAIN bins : \A i, j \in 1..Len(bins[b]) : bins[b][i] = bins[b][j] => i = j
         /\ \A b \in DOMAIN bins : \A i \in 1..Len(bins[b]) : BinOf(mb, bins[b][i]) = b

\* an iteration, characterised without VisitCounts: bins in order, every peer at most once, a bin is
\* left early only where the script says so.  Stated over EVERY iteration of the alphabet at the
\* current state, so that the design check can hide `res` (VIEW) without losing any of them.
IterContractFor(dir, kind, at) ==
    LET v == IterVisited(mb, bins, dir, kind, at)
        err == IterErr(mb, bins, dir, kind, at)
        pos(b) == CHOOSE k \in 1..mb : BinOrder(mb, dir)[k] = b
    IN /\ \A i \in 1..Len(v) : v[i][1] \in BinSet(bins, v[i][2])
       /\ \A i, j \in 1..Len(v) : i < j => v[i][1] # v[j][1] /\ pos(v[i][2]) <= pos(v[j][2])
       /\ (kind = "none" => {v[i][1] : i \in 1..Len(v)} = Stored(bins))
       /\ (kind \in {"stop", "err"} => Len(v) = (IF at <= Cardinality(Stored(bins)) THEN at ELSE Cardinality(Stored(bins))))
       /\ (kind = "nextall" => \A b \in DOMAIN bins : Cardinality({i \in 1..Len(v) : v[i][2] = b}) = (IF bins[b] = <<>> THEN 0 ELSE 1))
       /\ (kind = "next" =>
             \A b \in DOMAIN bins :
                \/ Cardinality({i \in 1..Len(v) : v[i][2] = b}) = Len(bins[b])
                \/ /\ Len(v) >= at /\ v[at][2] = b                       \* the bin of the at-th call ...
                   /\ \A i \in 1..Len(v) : v[i][2] = b => i <= at)           \* ... is left right after it
       /\ (err <=> (kind = "err" /\ Len(v) = at))

IterContract == \A d \in Dirs, sc \in Scripts : IterContractFor(d, sc[1], sc[2])

\* the queries answer from the set
QueryContract ==
  /\ \A b \in 0..mb : Cardinality(BinSet(bins, b)) = BinLen(bins, b)
  /\ Cardinality(Stored(bins)) = Total(bins)
  /\ LET se == ShallowestEmptyOf(mb, bins)
     IN IF se[2] THEN \A b \in 0..(mb - 1) : bins[b] # <<>>
        ELSE bins[se[1]] = <<>> /\ \A b \in 0..(se[1] - 1) : bins[b] # <<>>

DesignView == <<mb, bins>>

\* only mutations change the set, exactly as a set would change
FrameOK ==
  [][/\ (res'.op = "add" => Stored(bins') = Stored(bins) \cup SeqSet(res'.ps))
     /\ (res'.op = "remove" => Stored(bins') = Stored(bins) \ {res'.p})
     /\ (res'.op \in {"exists", "length", "binsize", "binpeers", "shallowest", "iter"} => bins' = bins)]_vars
=============================================================================
