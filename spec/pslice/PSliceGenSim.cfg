SPECIFICATION GSpec
CONSTANTS
  MBs <- GMBsBoth
  Mode = "seq"

INVARIANT EmitFull
CHECK_DEADLOCK FALSE
