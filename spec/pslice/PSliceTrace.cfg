SPECIFICATION TSpec
CONSTANTS
  MBs = {4}
INVARIANT Report
POSTCONDITION AllConsumed
CHECK_DEADLOCK FALSE
