------------------------------- MODULE Overlay -------------------------------
(* Addresses, proximity order and XOR distance (pkg/boson).  Property C20.    *)
(*                                                                            *)
(* An address is a bit string: a sequence over {0,1}, most significant bit    *)
(* first (bit 1 of the sequence is the top bit of the first byte).  Pure      *)
(* functions only: this module is a set of defining equations; TLC is used as *)
(* enumerator (design check over a small universe, scenario generation) and   *)
(* as oracle (judge).                                                         *)
EXTENDS Integers, Sequences, FiniteSets

MaxPO == 31          \* boson.MaxPO
ExtendedPO == 36     \* boson.ExtendedPO

OvMin(a, b) == IF a < b THEN a ELSE b
Least(S) == CHOOSE i \in S : \A j \in S : i <= j

Pow2(k) == CASE k = 0 -> 1 [] k = 1 -> 2 [] k = 2 -> 4 [] k = 3 -> 8
             [] k = 4 -> 16 [] k = 5 -> 32 [] k = 6 -> 64 [] k = 7 -> 128

\* bytes (sequence of 0..255) -> bit string
BitsOfBytes(a) == [i \in 1..(Len(a) * 8) |-> (a[((i - 1) \div 8) + 1] \div Pow2(7 - ((i - 1) % 8))) % 2]

\* positions at which two equal-length bit strings differ
DiffPos(x, y) == {i \in 1..Len(x) : x[i] # y[i]}

\* number of leading equal bits
LeadingEqualBits(x, y) == IF DiffPos(x, y) = {} THEN Len(x) ELSE Least(DiffPos(x, y)) - 1

\* proximity order: leading equal bits, capped
PO(x, y, cap) == OvMin(cap, LeadingEqualBits(x, y))

\* XOR distance of x from t as a bit string (the big-endian binary numeral of the distance)
XorStr(t, x) == [i \in 1..Len(t) |-> IF t[i] = x[i] THEN 0 ELSE 1]

\* value of a binary numeral (short strings only: TLC integers are 32 bit)
RECURSIVE NatOf(_)
NatOf(s) == IF s = <<>> THEN 0 ELSE NatOf(SubSeq(s, 1, Len(s) - 1)) * 2 + s[Len(s)]

XorNat(t, x) == NatOf(XorStr(t, x))

\* three-way comparison of two equal-length binary numerals, sign of (b - a): numerals of
\* equal length compare as integers exactly as they compare at their first difference
\* (checked against NatOf in the design check)
NumeralSign(a, b) == IF DiffPos(a, b) = {} THEN 0
                     ELSE IF a[Least(DiffPos(a, b))] < b[Least(DiffPos(a, b))] THEN 1 ELSE -1

\* DistanceCmp(t, x, y): 1 if x is closer to t than y, -1 if farther, 0 if equally far
DistCmp(t, x, y) == NumeralSign(XorStr(t, x), XorStr(t, y))

\* Ordering class "common prefix of the two candidates": when x and y share exactly k leading bits
\* (k = LeadingEqualBits(x, y) < Len(x)), their distances to any target t agree on those k bits and
\* the order is decided by bit k+1 alone - whichever of x, y agrees with t there is closer.  The
\* generator enumerates k (past both proximity caps) with t inside and outside the shared prefix.
DecidedAtCommonPrefix(t, x, y) ==
  LET k == LeadingEqualBits(x, y)
  IN IF k = Len(x) THEN 0 ELSE IF x[k + 1] = t[k + 1] THEN 1 ELSE -1

\* x is strictly closer to t than y
IsCloser(t, x, y) == DistCmp(t, x, y) = 1
=============================================================================
