SPECIFICATION Spec
CONSTANTS
  Alphabet = {1, 128, 255}
INVARIANTS POSymmetric POCapped CmpIsIntegerOrder CmpDecidedAtCommonPrefix CmpAntisymmetric CmpZeroIffEqual POOrdersDistance DistZero DistSymmetric
CHECK_DEADLOCK FALSE
