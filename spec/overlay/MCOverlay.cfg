SPECIFICATION Spec
CONSTANTS
  Alphabet = {1, 128, 255}
INVARIANTS POSymmetric POCapped CmpIsIntegerOrder CmpAntisymmetric CmpZeroIffEqual POOrdersDistance DistZero DistSymmetric
CHECK_DEADLOCK FALSE
