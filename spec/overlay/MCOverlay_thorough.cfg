SPECIFICATION Spec
CONSTANTS
  Alphabet = {0, 1, 64, 128, 255}
INVARIANTS POSymmetric POCapped CmpIsIntegerOrder CmpDecidedAtCommonPrefix CmpAntisymmetric CmpZeroIffEqual POOrdersDistance DistZero DistSymmetric
CHECK_DEADLOCK FALSE
