------------------------------ MODULE OverlayGen ------------------------------
(* Scenario enumeration for C20 (exploration).  No state machine: every initial *)
(* state is one scenario.                                                       *)
(*  prox   per (base pattern, tail): y = x with the first difference at bit k,  *)
(*         k = 0..40 and "no difference"; tail = the bits after k equal /       *)
(*         inverted; 8-byte addresses (the functions inspect 4 and 5 bytes)     *)
(*  cmp    per target t: all pairs (x, y) of 2-byte addresses over an alphabet  *)
(*  rand   32-byte addresses drawn by the driver from the seed: first           *)
(*         difference at bit k (prox) / x and y sharing s leading bytes (cmp)   *)
(*  cmpk   ordering by the length k of the common prefix of the two candidates: *)
(*         x, y 32-byte addresses drawn from the seed that share exactly k      *)
(*         leading bits, k = 0..48 and 100, 200, 255; target inside the shared  *)
(*         prefix ("in": agrees with x on the first k bits), outside ("out":    *)
(*         random) and equal to one candidate ("x")                             *)
EXTENDS Overlay, TLC, Json, IOUtils
VARIABLE hist

Reps == IF "VERIF_DEPTH" \in DOMAIN IOEnv THEN atoi(IOEnv.VERIF_DEPTH) ELSE 2

\* bit string -> bytes
ByteAt(s, j) ==   s[8*j+1] * 128 + s[8*j+2] * 64 + s[8*j+3] * 32 + s[8*j+4] * 16
                + s[8*j+5] * 8 + s[8*j+6] * 4 + s[8*j+7] * 2 + s[8*j+8]
BytesOfBitStr(s) == [j \in 1..(Len(s) \div 8) |-> ByteAt(s, j - 1)]

Bases == {[i \in 1..8 |-> 0], [i \in 1..8 |-> 255], [i \in 1..8 |-> 165], <<1, 2, 4, 8, 16, 32, 64, 128>>}
NoDiff == 64
Ks == (0..40) \cup {NoDiff}

\* y: equal to x before bit k (0-based), different at bit k, after it equal / inverted
Variant(x, k, inv) == [i \in 1..Len(x) |-> IF i <= k THEN x[i]
                                           ELSE IF i = k + 1 THEN 1 - x[i]
                                           ELSE IF inv THEN 1 - x[i] ELSE x[i]]

ProxOp(base, k, inv) == [op |-> "prox", x |-> base, y |-> BytesOfBitStr(Variant(BitsOfBytes(base), k, inv))]
ProxScn(base, inv) == [par |-> [kind |-> "prox"],
                       ops |-> [i \in 1..42 |-> ProxOp(base, IF i = 42 THEN NoDiff ELSE i - 1, inv)]]

Alphabet == {0, 1, 128, 255}
AlphaSeq == <<0, 1, 128, 255>>
Addr2 == {<<a, b>> : a \in Alphabet, b \in Alphabet}
AddrNo(i) == <<AlphaSeq[((i - 1) \div 4) + 1], AlphaSeq[((i - 1) % 4) + 1]>>       \* i in 1..16
CmpScn(t) == [par |-> [kind |-> "cmp"],
              ops |-> [i \in 1..256 |-> [op |-> "cmp", t |-> t, x |-> AddrNo(((i - 1) \div 16) + 1), y |-> AddrNo(((i - 1) % 16) + 1)]]]

RandKs == <<0, 1, 6, 7, 8, 9, 15, 16, 23, 24, 30, 31, 32, 33, 35, 36, 37, 38, 39, 40, 41, 47, 48, 100, 254, 255, -1>>
RandShared == <<0, 0, 1, 3, 4, 15, 30, 31, 32>>
RandScn(r) == [par |-> [kind |-> "rand", rep |-> r],
               ops |-> [i \in 1..Len(RandKs) |-> [op |-> "proxrand", k |-> RandKs[i]]]
                       \o [i \in 1..Len(RandShared) |-> [op |-> "cmprand", shared |-> RandShared[i]]]]

PrefixKs == [i \in 1..52 |-> IF i <= 49 THEN i - 1 ELSE IF i = 50 THEN 100 ELSE IF i = 51 THEN 200 ELSE 255]
Targets == <<"in", "out", "x">>
CmpKScn(r) == [par |-> [kind |-> "cmpk", rep |-> r],
               ops |-> [i \in 1..(52 * 3) |-> [op |-> "cmpk", k |-> PrefixKs[((i - 1) \div 3) + 1], tgt |-> Targets[((i - 1) % 3) + 1]]]]

Scenarios == {ProxScn(b, inv) : b \in Bases, inv \in BOOLEAN}
             \cup {CmpKScn(r) : r \in 1..Reps}
             \cup {CmpScn(t) : t \in Addr2}
             \cup {RandScn(r) : r \in 1..Reps}

GInit == hist \in Scenarios
GNext == UNCHANGED hist
GSpec == GInit /\ [][GNext]_hist

Emit == PrintT(<<"SCN", ToJson(hist)>>)
=============================================================================
