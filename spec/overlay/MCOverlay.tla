------------------------------ MODULE MCOverlay ------------------------------
(* Design check for C20: the defining equations agree with each other on every *)
(* triple of a small universe (2-byte addresses over a byte alphabet).         *)
EXTENDS Overlay, TLC

CONSTANT Alphabet
VARIABLES t, x, y

Addr == {BitsOfBytes(<<a, b>>) : a \in Alphabet, b \in Alphabet}

Init == t \in Addr /\ x \in Addr /\ y \in Addr
Next == UNCHANGED <<t, x, y>>
Spec == Init /\ [][Next]_<<t, x, y>>

Sign(d) == IF d = 0 THEN 0 ELSE IF d > 0 THEN 1 ELSE -1
Caps == {3, 9, 15, 16}

\* proximity is symmetric, maximal exactly on equal prefixes, and capped
POSymmetric == \A cap \in Caps : PO(x, y, cap) = PO(y, x, cap)
POCapped == \A cap \in Caps : /\ PO(x, y, cap) <= cap
                              /\ (PO(x, y, cap) < cap => x[PO(x, y, cap) + 1] # y[PO(x, y, cap) + 1])
                              /\ \A i \in 1..PO(x, y, cap) : x[i] = y[i]
\* the order on numerals is the order on the integers they denote
CmpIsIntegerOrder == DistCmp(t, x, y) = Sign(XorNat(t, y) - XorNat(t, x))
\* the order is decided at the first bit where the two candidates differ, wherever the target lies
CmpDecidedAtCommonPrefix == DistCmp(t, x, y) = DecidedAtCommonPrefix(t, x, y)
CmpAntisymmetric == DistCmp(t, x, y) = 0 - DistCmp(t, y, x)
CmpZeroIffEqual == (DistCmp(t, x, y) = 0) <=> (x = y)
\* a higher proximity order means a smaller distance
POOrdersDistance == PO(t, x, 16) > PO(t, y, 16) => IsCloser(t, x, y)
\* distance: zero iff equal, symmetric
DistZero == (XorNat(t, x) = 0) <=> (t = x)
DistSymmetric == XorNat(t, x) = XorNat(x, t)
=============================================================================
