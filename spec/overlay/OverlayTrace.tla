----------------------------- MODULE OverlayTrace -----------------------------
(* Judge for C20: what boson.Proximity / ExtendedProximity / DistanceCmp /      *)
(* Address.Closer / Distance returned, compared with Overlay's equations on the *)
(* logged arguments.  Stateless; monitor mode (see TraceKit).                   *)
EXTENDS Overlay, TraceKit

VARIABLES l, bad

ProxVerdict(e) ==
  LET X == BitsOfBytes(e.x)  Y == BitsOfBytes(e.y)
  IN    Clause("proximity_is_leading_equal_bits_capped_at_31", e.p = PO(X, Y, MaxPO))
     \o Clause("extended_proximity_is_leading_equal_bits_capped_at_36", e.ep = PO(X, Y, ExtendedPO))
     \o Clause("proximity_is_symmetric", e.p = e.pr)
     \o Clause("extended_proximity_is_symmetric", e.ep = e.epr)

CmpVerdict(e) ==
  LET T == BitsOfBytes(e.t)  X == BitsOfBytes(e.x)  Y == BitsOfBytes(e.y)
      c == DistCmp(T, X, Y)
  IN    Clause("no_error_on_equal_length_addresses", e.err = "")
     \o Clause("distance_is_the_xor_as_big_endian_integer",
               BitsOfBytes(e.dx) = XorStr(T, X) /\ BitsOfBytes(e.dy) = XorStr(T, Y))
     \o Clause("distancecmp_orders_by_xor_distance", e.c = c /\ e.cr = 0 - c)
     \o Clause("closer_agrees_with_xor_distance", e.closer = (c = 1) /\ e.closerr = (c = -1))

Verdict(e) == CASE e.op \in {"prox", "proxrand"} -> ProxVerdict(e)
                [] e.op \in {"cmp", "cmprand", "cmpk"} -> CmpVerdict(e)
                [] OTHER -> <<>>

TInit == l = 1 /\ bad = <<>>
TStep == /\ l <= NEvents
         /\ LET e == Trace[l]
                cs == Verdict(e)
            IN /\ l' = l + 1
               /\ bad' = IF cs = <<>> THEN bad ELSE Append(bad, BadRec(l, e, cs))
TSpec == TInit /\ [][TStep]_<<l, bad>>

Report == ReportBad(l, bad, <<>>)
=============================================================================
