------------------------------ MODULE Traversal ------------------------------
(* Chunk-set algebra of property C09.                                            *)
(*                                                                               *)
(* What is written for a file: the hash-trie writer of the upload pipeline       *)
(* (pkg/file/pipeline/hashtrie: level buffers, wrap of a full level, carry of a  *)
(* lone reference in Sum) turns a sequence of data chunks into a tree; every     *)
(* chunk of the tree is Put once.  What is reported for it: the joiner's chunk   *)
(* iteration (pkg/file/joiner: processChunkAddresses + subtrieSection) walks the *)
(* tree from the root using only spans and payload lengths, and the traversal    *)
(* service (pkg/traversal) derives from it                                       *)
(*     T  the addresses reported by Traverse,                                    *)
(*     D  the data-chunk lists of GetChunkHashes,                                *)
(*     P  the key set of GetPyramid (root and every non-data chunk).             *)
(* A directory adds one single-chunk file per trie node of its manifest          *)
(* (Mantaray.tla) and reports the chunks of every node and of every entry.       *)
(*                                                                               *)
(* C09:   T = W      D \subseteq W      P \subseteq W      D \cup P = W          *)
(*                                                                               *)
(* A chunk is identified by its term (equal terms = equal addresses: identical   *)
(* content at two positions is ONE chunk; with encryption every chunk carries a  *)
(* fresh key, modelled by a position nonce, so nothing is shared).               *)
(* Sizes are in units: a reference is R units, a chunk CS = B * R units, so a    *)
(* full intermediate chunk holds B references exactly as in the code             *)
(* (8192 x 32 bytes = 256 KiB).  The model branching B is 2 or 3; the generator  *)
(* describes the same shapes in multiples of B, the driver instantiates them     *)
(* with the real constants.                                                      *)
EXTENDS Integers, Sequences, FiniteSets, Mantaray

CONSTANT B                      \* model branching (references per full intermediate chunk)

R  == 2                         \* units per reference
CS == B * R                     \* units per chunk
MaxLevel == 8

(***************************************************************************)
(* File shapes (shared with the generator).                                *)
(*   a    number of leading blocks of B full chunks, all of content u      *)
(*   pat  content ids of the chunks after them                             *)
(*   tail size class of the last chunk: 1 full, 2 one unit, 3 half a chunk,*)
(*        0 the empty file (one chunk of span 0)                           *)
(***************************************************************************)
TailLen(t) == CASE t = 0 -> 0 [] t = 1 -> CS [] t = 2 -> 1 [] OTHER -> CS \div 2

ShapeOK(s) == /\ s.a * B + Len(s.pat) >= 1
              /\ (s.tail = 0 => s.a = 0 /\ Len(s.pat) = 1)

\* the data chunks of a shape: <<content id, span>>, in order
LeavesOf(s) ==
  LET n == s.a * B + Len(s.pat)
  IN [i \in 1..n |-> << IF i <= s.a * B THEN s.u ELSE s.pat[i - s.a * B],
                        IF i = n THEN TailLen(s.tail) ELSE CS >>]

(***************************************************************************)
(* Chunks.                                                                 *)
(***************************************************************************)
DataChunk(c, span, nonce) == [kind |-> "data", c |-> c, span |-> span, nonce |-> nonce]
RECURSIVE SumSpans(_)
SumSpans(ks) == IF ks = <<>> THEN 0 ELSE ks[1].span + SumSpans(Tail(ks))
InnerChunk(kids, nonce) == [kind |-> "inner", kids |-> kids, span |-> SumSpans(kids), nonce |-> nonce]
\* bytes after the span: a data chunk holds its content, an intermediate chunk its references
Payload(ch) == IF ch.kind = "data" THEN ch.span ELSE Len(ch.kids) * R

(***************************************************************************)
(* The writer: hashTrieWriter.  st = [lv |-> levels 1..MaxLevel, w |-> put]  *)
(***************************************************************************)
EmptyLevels == [i \in 1..MaxLevel |-> <<>>]

RECURSIVE WriteToLevel(_, _, _, _)
\* wrapFullLevel: the references of the level become one intermediate chunk, written one level up
WrapLevel(st, lvl, enc) ==
  LET ch == InnerChunk(st.lv[lvl], IF enc THEN <<lvl, Cardinality(st.w)>> ELSE <<>>)
  IN WriteToLevel([lv |-> [st.lv EXCEPT ![lvl] = <<>>], w |-> st.w \cup {ch}], lvl + 1, ch, enc)
WriteToLevel(st, lvl, ch, enc) ==
  LET st1 == [st EXCEPT !.lv[lvl] = Append(@, ch)]
  IN IF Len(st1.lv[lvl]) = B THEN WrapLevel(st1, lvl, enc) ELSE st1

RECURSIVE FeedLeaves(_, _, _, _)
FeedLeaves(st, leaves, i, enc) ==
  IF i > Len(leaves) THEN st
  ELSE LET ch == DataChunk(leaves[i][1], leaves[i][2], IF enc THEN <<0, i>> ELSE <<>>)
       IN FeedLeaves(WriteToLevel([st EXCEPT !.w = @ \cup {ch}], 1, ch, enc), leaves, i + 1, enc)

\* Sum: empty level - next; full level (after a carry) or several references - wrap; one reference - carry up
RECURSIVE SumLevels(_, _, _)
SumLevels(st, i, enc) ==
  IF i = MaxLevel THEN st
  ELSE LET n == Len(st.lv[i])
       IN IF n = 0 THEN SumLevels(st, i + 1, enc)
          ELSE IF n = 1 THEN SumLevels([st EXCEPT !.lv[i + 1] = @ \o st.lv[i], !.lv[i] = <<>>], i + 1, enc)
          ELSE SumLevels(WrapLevel(st, i, enc), i + 1, enc)

\* [root |-> root chunk, w |-> every chunk put]; with encryption no two chunks are equal (fresh keys)
WriteFile(shape, enc, fileNonce) ==
  LET leaves == LeavesOf(shape)
      \* content tags are tuples <<"d", content id, file>> (file = 0 when chunks can be shared between files)
      fed    == [i \in 1..Len(leaves) |-> << <<"d", leaves[i][1], IF enc THEN fileNonce ELSE 0>>, leaves[i][2] >>]
      st1    == FeedLeaves([lv |-> EmptyLevels, w |-> {}], fed, 1, enc)
      st2    == SumLevels(st1, 1, enc)
  IN [root |-> st2.lv[MaxLevel][1], w |-> st2.w, ok |-> Len(st2.lv[MaxLevel]) = 1]

(***************************************************************************)
(* The reader: joiner.IterateChunkAddresses.                               *)
(***************************************************************************)
RECURSIVE BranchSize(_, _, _)
BranchSize(bs, size, refs) == IF size - bs * (refs - 1) <= bs THEN bs ELSE BranchSize(bs * B, size, refs)
\* subtrieSection: span the joiner attributes to the i-th of `refs` references of a sub-trie of `size`
Section(i, refs, size) ==
  LET bs == BranchSize(CS, size, refs)
  IN IF i = refs THEN size - (refs - 1) * bs ELSE bs

\* [t |-> reported, d |-> saved as data chunks, p |-> saved as edge chunks]; `ch` was fetched, `size` is its span
RECURSIVE Process(_, _, _)
Process(ch, size, root) ==
  IF size <= Payload(ch) THEN [t |-> {}, d |-> {root}, p |-> {}]            \* "we are at a leaf data chunk"
  ELSE LET refs == Len(ch.kids)
           one(i) == LET kid == ch.kids[i]
                         sec == Section(i, refs, size)
                     IN IF sec <= CS THEN [t |-> {kid}, d |-> {kid}, p |-> {}]
                        ELSE LET sub == Process(kid, kid.span, root)
                             IN [t |-> {kid} \cup sub.t, d |-> sub.d,
                                 p |-> (IF kid.span > Payload(kid) THEN {kid} ELSE {}) \cup sub.p]
       IN [t |-> UNION {one(i).t : i \in 1..refs},
           d |-> UNION {one(i).d : i \in 1..refs},
           p |-> UNION {one(i).p : i \in 1..refs}]

\* Traverse / GetChunkHashes / GetPyramid of one file reference
FileSets(root) ==
  LET x == Process(root, root.span, root)
  IN [t |-> {root} \cup x.t,
      d |-> x.d,
      p |-> {root} \cup (IF root.span > CS THEN x.p ELSE {})]

(***************************************************************************)
(* Directories: entries = sequence of <<path, file index>>, files = their  *)
(* written trees; every trie node is stored as a one-chunk file.           *)
(***************************************************************************)
RECURSIVE AddAll(_, _, _)
AddAll(n, entries, i) == IF i > Len(entries) THEN n
                         ELSE AddAll(NAdd(n, entries[i][1], <<entries[i][2], 1>>), entries, i + 1)

\* the trie built by Add of every entry (+ the "/" entry with the zero reference when rootmeta)
TrieOf(entries, rootmeta) ==
  LET t == AddAll(QNew, entries, 1)
  IN IF rootmeta THEN NAdd(t, <<4>>, <<0, 2>>) ELSE t

\* the saved nodes with the path they sit at: set of <<path, snapshot>>
RECURSIVE SnapNodes(_, _)
SnapNodes(s, base) ==
  {<<base, s>>} \cup UNION {SnapNodes(s.forks[c].node, base \o s.forks[c].pre) : c \in DOMAIN s.forks}

NodeChunk(s, enc) == DataChunk(<<"n", s>>, 1, <<>>)

DirSets(entries, rootmeta, files, enc) ==
  LET snap  == NSave(TrieOf(entries, rootmeta)).n.ref[1]
      nodes == SnapNodes(snap, <<>>)
      ent   == {ns \in nodes : ns[2].isval /\ ns[2].r # 0}                    \* value nodes with a non-zero entry
      asfile == {ns \in ent : ns[1] # <<>> /\ ns[1][Len(ns[1])] # 4}            \* WalkLevel: path does not end in '/'
      fs(ns) == FileSets(files[ns[2].r].root)
  IN [w |-> UNION {files[i].w : i \in DOMAIN files} \cup {NodeChunk(ns[2], enc) : ns \in nodes},
      t |-> {NodeChunk(ns[2], enc) : ns \in nodes} \cup UNION {fs(ns).t : ns \in ent},
      p |-> {NodeChunk(ns[2], enc) : ns \in nodes} \cup UNION {fs(ns).p : ns \in ent},
      d |-> UNION {fs(ns).d : ns \in asfile}]

(***************************************************************************)
(* The statement of C09, clause by clause (shared with the judge).         *)
(***************************************************************************)
TraverseExact(t, w)   == t = w                 \* every chunk written, no chunk outside
DataWritten(d, w)     == d \subseteq w
PyramidWritten(p, w)  == p \subseteq w
Cover(d, p, w)        == d \cup p = w

C09(s) == /\ TraverseExact(s.t, s.w)
          /\ DataWritten(s.d, s.w)
          /\ PyramidWritten(s.p, s.w)
          /\ Cover(s.d, s.p, s.w)
=============================================================================
