SPECIFICATION TSpec
CONSTANTS
  B = 2
  Fixes = {}
INVARIANT Report
POSTCONDITION AllConsumed
CHECK_DEADLOCK FALSE
