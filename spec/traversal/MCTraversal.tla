----------------------------- MODULE MCTraversal -----------------------------
(* Design check of C09: every file shape and every small directory of the       *)
(* bounded universe is written by the modelled trie writer and read back by the *)
(* modelled joiner; the four set formulas of C09 must hold for each.            *)
EXTENDS Traversal, TLC

CONSTANTS MaxA, MaxEntries     \* bounds of this configuration
VARIABLE sc

Cids == {1, 2}
Pats(n) == UNION {[1..k -> Cids] : k \in 0..n}

\* single files: up to MaxA blocks of B chunks + up to MaxPat further chunks (several levels, lone-reference carries)
MaxPat == B + 2
FileShapes == {s \in [a : 0..MaxA, u : {1}, pat : Pats(MaxPat), tail : 0..3] : ShapeOK(s)}

\* directory files: a few shapes (one chunk, two chunks with a repeated chunk, carry, two levels)
DirShapes == { [a |-> 0, u |-> 1, pat |-> <<1>>, tail |-> 2],
               [a |-> 0, u |-> 1, pat |-> <<1, 1>>, tail |-> 1],
               [a |-> 1, u |-> 1, pat |-> <<2>>, tail |-> 3],
               [a |-> B, u |-> 2, pat |-> <<1, 2>>, tail |-> 1] }
\* file-like paths: a ab a/b ab/c b  (letters a=1 b=2 c=3 /=4)
DirPaths == {<<1>>, <<1,2>>, <<1,4,2>>, <<1,2,4,3>>, <<2>>}

Singles == {[kind |-> "file", enc |-> e, shape |-> s] : e \in BOOLEAN, s \in FileShapes}
\* one or two files, every file has an entry, up to three entries (aliases: two paths, one file)
Dirs == {[kind |-> "dir", enc |-> e, rootmeta |-> rm, shapes |-> sh, entries |-> en] :
           e \in BOOLEAN, rm \in BOOLEAN,
           sh \in UNION {[1..k -> DirShapes] : k \in 1..2},
           en \in UNION {[1..k -> DirPaths \X {1, 2}] : k \in 1..MaxEntries}}
GoodDir(d) == /\ \A i \in DOMAIN d.shapes : \E j \in DOMAIN d.entries : d.entries[j][2] = i
              /\ \A j \in DOMAIN d.entries : d.entries[j][2] \in DOMAIN d.shapes
              /\ \A j, h \in DOMAIN d.entries : j # h => d.entries[j][1] # d.entries[h][1]

SetsOf(x) ==
  IF x.kind = "file"
  THEN LET f == WriteFile(x.shape, x.enc, 1) IN [w |-> f.w] @@ FileSets(f.root)
  ELSE DirSets(x.entries, x.rootmeta, [i \in DOMAIN x.shapes |-> WriteFile(x.shapes[i], x.enc, i)], x.enc)

Init == sc \in Singles \cup {d \in Dirs : GoodDir(d)}
Next == UNCHANGED sc
Spec == Init /\ [][Next]_sc

Holds == C09(SetsOf(sc))
\* the writer ends with exactly one reference at the top level
WriterOK == sc.kind = "file" => WriteFile(sc.shape, sc.enc, 1).ok
\* not vacuous: the universe holds trees of three chunk levels and files with a repeated chunk
Deep(ch) == ch.kind = "inner" /\ \E k \in DOMAIN ch.kids : ch.kids[k].kind = "inner"
=============================================================================
