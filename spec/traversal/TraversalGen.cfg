SPECIFICATION GSpec
INVARIANT EmitDone
CHECK_DEADLOCK FALSE
