---------------------------- MODULE TraversalTrace ----------------------------
(* Judge for C09: the events harness/cmd/travdrv recorded from the real upload  *)
(* pipeline, pkg/manifest and pkg/traversal.  Monitor mode (TraceKit).          *)
(*                                                                              *)
(* Model state: W = identifiers of every address Put since the reset (all       *)
(* uploads of the scenario belong to the one file / directory observed), and    *)
(* the data-chunk set D reported by the last `hashes` (needed for the covering  *)
(* clause at `pyramid`).  The verdict clauses are the set formulas of           *)
(* Traversal.tla over identifiers of exact byte strings: a chunk is what the    *)
(* store knows it by, its 32-byte address.                                      *)
(*                                                                              *)
(* When such a clause is false but becomes true once every reported value is    *)
(* cut to its first 32 bytes and 64-byte values were reported (an encrypted     *)
(* reference = address || key), the clause is reported as                       *)
(* <clause>@64_byte_references - the known representation defect - and under    *)
(* its plain name otherwise.                                                    *)
EXTENDS Traversal, TraceKit

VARIABLES l, bad, W, D, D32, dwide

tvars == <<l, bad, W, D, D32, dwide>>

SetOf(t) == {t[i] : i \in DOMAIN t}
Wide(lens) == 64 \in SetOf(lens)

ClauseW(name, holds, holds32, wide) ==
  IF holds THEN <<>> ELSE IF holds32 /\ wide THEN <<name \o "@64_byte_references">> ELSE <<name>>

Ok(e) == e.err = "" /\ ~e.panicked

Verdict(e) ==
     Clause("C09:no_unexpected_error", Ok(e))
  \o (IF e.op = "traverse" /\ Ok(e)
      THEN ClauseW("C09:traverse_reports_exactly_the_written_chunks",
                   TraverseExact(SetOf(e.t), W), TraverseExact(SetOf(e.t32), W), Wide(e.tl))
      ELSE <<>>)
  \o (IF e.op = "hashes" /\ Ok(e)
      THEN ClauseW("C09:data_chunks_are_written_chunks",
                   DataWritten(SetOf(e.d), W), DataWritten(SetOf(e.d32), W), Wide(e.dl))
      ELSE <<>>)
  \o (IF e.op = "pyramid" /\ Ok(e)
      THEN    ClauseW("C09:pyramid_chunks_are_written_chunks",
                      PyramidWritten(SetOf(e.p), W), PyramidWritten(SetOf(e.p32), W), Wide(e.pl))
           \o ClauseW("C09:data_and_pyramid_cover_the_written_chunks",
                      Cover(D, SetOf(e.p), W), Cover(D32, SetOf(e.p32), W), Wide(e.pl) \/ dwide)
      ELSE <<>>)

TInit == l = 1 /\ bad = <<>> /\ W = {} /\ D = {} /\ D32 = {} /\ dwide = FALSE

TStep == /\ l <= NEvents
         /\ LET e  == Trace[l]
                cs == Verdict(e)
            IN /\ l' = l + 1
               /\ bad' = IF cs = <<>> THEN bad ELSE Append(bad, BadRec(l, e, cs))
               /\ W' = CASE e.op = "reset" -> {}
                         [] e.op \in {"upload", "mkdir"} -> W \cup SetOf(e.w)
                         [] OTHER -> W
               /\ D' = CASE e.op = "reset" -> {} [] e.op = "hashes" -> SetOf(e.d) [] OTHER -> D
               /\ D32' = CASE e.op = "reset" -> {} [] e.op = "hashes" -> SetOf(e.d32) [] OTHER -> D32
               /\ dwide' = CASE e.op = "reset" -> FALSE [] e.op = "hashes" -> Wide(e.dl) [] OTHER -> dwide

TSpec == TInit /\ [][TStep]_tvars

Report == ReportBad(l, bad, <<>>)
=============================================================================
