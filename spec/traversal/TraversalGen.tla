----------------------------- MODULE TraversalGen -----------------------------
(* Scenario generator for C09.  A scenario is built step by step: upload k     *)
(* files (shape classes of Traversal.tla: blocks of B chunks, pattern of        *)
(* further chunks with repeated content, tail class), then either observe the   *)
(* single file or link the files into a directory (one path per file, then x    *)
(* aliases = further paths for already linked files), store it and observe.     *)
(*   exh  (INVARIANT EmitDone, no simulation): all scenarios of the bounds      *)
(*        given by VERIF_FILES / VERIF_DIR / VERIF_BIG                          *)
(*   sim  (-simulate): random directories of 1..6 files over file-like paths    *)
(*   hand (VERIF_HAND=1, with -simulate): the first file of every directory has   *)
(*        k*B+1 .. k*B+HANDPAT chunks (k = 1, 2): with the real B = 8192 these     *)
(*        are trees of three chunk levels whose root holds a lone carried data     *)
(*        chunk (or a short last intermediate chunk) next to full intermediate     *)
(*        chunks.  The driver writes such a tree chunk by chunk (content           *)
(*        addressed, equal chunks once) instead of streaming > 2 GiB; plain only,  *)
(*        observed inside a directory only.                                        *)
(* The observations (traverse, hashes, pyramid) close every scenario.           *)
EXTENDS Integers, Sequences, FiniteSets, TLC, Json, IOUtils

VARIABLES enc, k, x, rootmeta, dir, files, entries, done

gvars == <<enc, k, x, rootmeta, dir, files, entries, done>>

EnvInt(name, dflt) == IF name \in DOMAIN IOEnv THEN atoi(IOEnv[name]) ELSE dflt
MaxFiles == EnvInt("VERIF_FILES", 1)
DirMode  == EnvInt("VERIF_DIR", 0)       \* 0 single files only, 1 directories only, 2 both
Big      == EnvInt("VERIF_BIG", 0)       \* 1: shapes with one block of B full chunks (three chunk levels with real constants)
MaxPat   == EnvInt("VERIF_PAT", 3)
Hand     == EnvInt("VERIF_HAND", 0)      \* 1: the first file is a hand-written tree of k*B + 1..HandPat chunks
HandPat  == EnvInt("VERIF_HANDPAT", 2)
MaxAlias == EnvInt("VERIF_ALIASES", 2)   \* further paths for already linked files
EncMode  == EnvInt("VERIF_ENC", 2)       \* 0 plain only, 1 encrypted only, 2 both

Cids == {1, 2}
Pats(n) == UNION {[1..j -> Cids] : j \in 0..n}
SmallShapes == {s \in [a : {0}, u : {1}, pat : Pats(MaxPat), tail : 0..3] :
                  /\ Len(s.pat) >= 1 /\ (s.tail = 0 => Len(s.pat) = 1)}
\* B chunks exactly (full intermediate root), B+1 (lone-reference carry), B+2 (two intermediate chunks under the root)
BigShapes == {[a |-> 1, u |-> 1, pat |-> p, tail |-> t] : p \in {<<>>, <<1>>, <<2, 1>>}, t \in {1, 2}}
Shapes == IF Big = 1 THEN BigShapes ELSE SmallShapes
\* k*B+1: lone data chunk carried to the root; k*B+2: a two-reference intermediate chunk as last fork of the root
\* VERIF_HANDTAILS=1: only short last chunks, so that the last chunk is never equal to a repeated full chunk
HandShapes == {s \in [a : 1..2, u : {1}, pat : Pats(HandPat), tail : (IF EnvInt("VERIF_HANDTAILS", 0) = 1 THEN 2..3 ELSE 1..3)] : Len(s.pat) >= 1}

\* file-like paths over a=1 b=2 c=3 /=4: no leading, trailing or doubled separator, at most 4 letters
Letters == IF EnvInt("VERIF_ALPHA", 3) = 2 THEN {1, 2, 4} ELSE 1..4     \* a smaller alphabet shares more prefixes
FileLike(p) == /\ p[1] # 4 /\ p[Len(p)] # 4
               /\ \A i \in 1..(Len(p) - 1) : ~(p[i] = 4 /\ p[i + 1] = 4)
PathPool == {p \in UNION {[1..n -> Letters] : n \in 1..4} : FileLike(p)}

GInit == /\ enc \in (IF EncMode = 0 THEN {FALSE} ELSE IF EncMode = 1 THEN {TRUE} ELSE BOOLEAN)
         /\ dir \in (IF DirMode = 0 THEN {FALSE} ELSE IF DirMode = 1 THEN {TRUE} ELSE BOOLEAN)
         /\ k \in 1..MaxFiles /\ (~dir => k = 1)
         /\ x \in 0..MaxAlias /\ (~dir => x = 0)
         /\ rootmeta \in BOOLEAN /\ (~dir => rootmeta = FALSE)
         /\ files = <<>> /\ entries = <<>> /\ done = FALSE

Upload(s) == /\ Len(files) < k
             /\ (Hand = 1 /\ Len(files) = 0) <=> s \in HandShapes
             /\ files' = Append(files, s)
             /\ UNCHANGED <<enc, k, x, rootmeta, dir, entries, done>>

Used == {entries[i].p : i \in DOMAIN entries}

\* the next file without a path gets one; afterwards x aliases for any file
Link(p) == /\ dir /\ Len(files) = k /\ Len(entries) < k + x /\ p \notin Used
           /\ \E f \in 1..k :
                /\ (Len(entries) < k => f = Len(entries) + 1)
                /\ entries' = Append(entries, [p |-> p, f |-> f])
           /\ UNCHANGED <<enc, k, x, rootmeta, dir, files, done>>

Close == /\ ~done /\ Len(files) = k /\ (dir => Len(entries) = k + x)
         /\ done' = TRUE
         /\ UNCHANGED <<enc, k, x, rootmeta, dir, files, entries>>

GNext == \/ \E s \in Shapes \cup HandShapes : Upload(s)
         \/ \E p \in PathPool : Link(p)
         \/ Close

GSpec == GInit /\ [][GNext]_gvars

Ops == [i \in 1..Len(files) |-> [op |-> "upload", f |-> i, a |-> files[i].a, u |-> files[i].u,
                                  pat |-> files[i].pat, tail |-> files[i].tail,
                                  hand |-> (Hand = 1 /\ files[i].a > 0)]]
       \o [i \in 1..Len(entries) |-> [op |-> "entry", p |-> entries[i].p, f |-> entries[i].f]]
       \o (IF dir THEN <<[op |-> "mkdir", rootmeta |-> rootmeta]>> ELSE <<>>)
       \o <<[op |-> "traverse"], [op |-> "hashes"], [op |-> "pyramid"]>>

Scenario == [par |-> [enc |-> enc, dir |-> dir], ops |-> Ops]
EmitDone == done => PrintT(<<"SCN", ToJson(Scenario)>>)
=============================================================================
