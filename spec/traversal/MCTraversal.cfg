SPECIFICATION Spec
CONSTANTS
  B = 2
  MaxA = 1
  MaxEntries = 2
  Fixes = {}
INVARIANTS Holds WriterOK
