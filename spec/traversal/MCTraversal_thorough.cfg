SPECIFICATION Spec
CONSTANTS
  B = 3
  MaxA = 2
  MaxEntries = 3
  Fixes = {}
INVARIANTS Holds WriterOK
