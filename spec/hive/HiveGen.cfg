SPECIFICATION GSpec
CONSTANTS
  Setups = {}
  Limits = {}
  Targets = {}
  PosLists = {}
INVARIANT Emit
CHECK_DEADLOCK FALSE
