SPECIFICATION GSpec
CONSTANTS
  Setups <- GSetups
  Limits = {}
  Targets = {}
  PosLists = {}
VIEW GView
INVARIANTS Emit HCallOK HOrdOK
CHECK_DEADLOCK FALSE
