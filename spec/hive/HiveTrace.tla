----------------------------- MODULE HiveTrace -----------------------------
(* Judge for C29: replays the find-node replies harness/cmd/hivedrv recorded *)
(* from the real hive2 handler (through streamtest) against Hive's reply     *)
(* predicate.  Monitor mode.  The reset event carries the setup.             *)
(* Every event carries the driver's projection `st` of the topology          *)
(* (conn: EachPeer, known: EachKnownPeer).  Churn events (connected,         *)
(* disconnected, addpeers, force) may lie between requests or -- events with *)
(* `during` -- inside a request that is then logged as "wbegin", the events, *)
(* "find" with `conc` (see HiveWalk.tla).  The five clauses of the statement *)
(* do not depend on the peer sets and are judged as they stand whatever the  *)
(* interleaving; "offers only peers it knew" is judged against the peers     *)
(* known at some point of the call.                                          *)
EXTENDS Hive, TraceKit

VARIABLES l, bad, notes,
          kany,     \* peers connected or known at some point since the running gated request began
          gated,    \* a gated request is running
          dirty     \* the topology is no longer the one of the setup
tvars == <<vars, l, bad, notes, kany, gated, dirty>>

Churn == {"connected", "disconnected", "addpeers", "force"}
KnownNow(e) == ToSet(e.st.conn) \cup ToSet(e.st.known)
R_KnownDuringCall(reply, K) == \A i \in DOMAIN reply : reply[i] \in K

Setup0 == [peers |-> <<>>, req |-> [p |-> <<SelfBin, 0>>, u |-> "none"], allow |-> FALSE]
SetupOf(e) == [peers |-> e.peers, req |-> e.req, allow |-> e.allow]

Verdict(e, s, K) ==
  IF e.op \in Churn THEN Clause("no_panic", ~e.panicked)
  ELSE IF e.op # "find" THEN <<>>
  ELSE    Clause("no_panic", ~e.panicked)
       \o Clause("C29:reply_received", e.err = "")
       \o Clause("C29:at_most_the_requested_number_max_30", R_AtMostRequested(e.reply, e.limit))
       \o Clause("C29:requester_not_offered", R_NoRequester(e.reply, s))
       \o Clause("C29:proximity_among_requested_orders", R_OrdersRequested(e.reply, e.t, e.pos))
       \o Clause("C29:no_repetition", R_NoRepetition(e.reply))
       \o Clause("C29:no_private_address_to_public_requester", R_NoPrivateToPublic(e.reply, s))
       \o Clause("C29:offers_only_peers_known_during_the_call", R_KnownDuringCall(e.reply, K))

\* conformance: the reply is one the mechanism produces with the code's split; records are passed on unchanged
NotesOf(e, s, d) ==
  IF e.op # "find" THEN <<>>
  ELSE    (IF d THEN <<>>
           ELSE Clause("reply_as_mechanism", ToSet(e.reply) \in RepliesSeq(s, e.limit, e.t, e.pos, SpecSplit(e.limit))))
       \o Clause("records_unchanged", e.umatch)
       \o (IF Has(e, "conc") THEN Clause("gates_all_reached", e.left = 0) ELSE <<>>)

TInit == /\ l = 1 /\ bad = <<>> /\ notes = <<>> /\ setup = Setup0 /\ res = [op |-> "init"]
         /\ kany = {} /\ gated = FALSE /\ dirty = FALSE
TStep == /\ l <= NEvents
         /\ LET e  == Trace[l]
                s  == IF e.op = "reset" THEN SetupOf(e) ELSE setup
                g  == IF e.op = "reset" THEN FALSE ELSE gated
                K  == IF g THEN kany \cup KnownNow(e) ELSE KnownNow(e)
                d  == IF e.op = "reset" THEN FALSE ELSE dirty \/ e.op \in Churn
                cs == Verdict(e, s, K)
                ns == NotesOf(e, s, d)
            IN /\ l' = l + 1
               /\ kany' = K
               /\ gated' = IF e.op = "wbegin" THEN TRUE ELSE IF e.op \in {"find", "reset"} THEN FALSE ELSE g
               /\ dirty' = d
               /\ setup' = s
               /\ bad' = IF cs = <<>> THEN bad ELSE Append(bad, BadRec(l, e, cs))
               /\ notes' = IF ns = <<>> \/ Len(notes) >= 40 THEN notes
                           ELSE Append(notes, [line |-> l, scn |-> e.scn, i |-> e.i, op |-> e.op, notes |-> ns])
               /\ res' = [op |-> e.op]
TSpec == TInit /\ [][TStep]_tvars
Report == ReportBad(l, bad, notes)
=============================================================================
