----------------------------- MODULE HiveTrace -----------------------------
(* Judge for C29: replays the find-node replies harness/cmd/hivedrv recorded *)
(* from the real hive2 handler (through streamtest) against Hive's reply     *)
(* predicate.  Monitor mode.  The reset event carries the setup.             *)
EXTENDS Hive, TraceKit

VARIABLES l, bad, notes
tvars == <<vars, l, bad, notes>>

Setup0 == [peers |-> <<>>, req |-> [p |-> <<SelfBin, 0>>, u |-> "none"], allow |-> FALSE]
SetupOf(e) == [peers |-> e.peers, req |-> e.req, allow |-> e.allow]

Verdict(e, s) ==
  IF e.op # "find" THEN <<>>
  ELSE    Clause("no_panic", ~e.panicked)
       \o Clause("C29:reply_received", e.err = "")
       \o Clause("C29:at_most_the_requested_number_max_30", R_AtMostRequested(e.reply, e.limit))
       \o Clause("C29:requester_not_offered", R_NoRequester(e.reply, s))
       \o Clause("C29:proximity_among_requested_orders", R_OrdersRequested(e.reply, e.t, e.pos))
       \o Clause("C29:no_repetition", R_NoRepetition(e.reply))
       \o Clause("C29:no_private_address_to_public_requester", R_NoPrivateToPublic(e.reply, s))

\* conformance: the reply is one the mechanism produces with the code's split; records are passed on unchanged
NotesOf(e, s) ==
  IF e.op # "find" THEN <<>>
  ELSE    Clause("reply_as_mechanism", ToSet(e.reply) \in RepliesSeq(s, e.limit, e.t, e.pos, ImplSplit(e.limit)))
       \o Clause("records_unchanged", e.umatch)

TInit == l = 1 /\ bad = <<>> /\ notes = <<>> /\ setup = Setup0 /\ res = [op |-> "init"]
TStep == /\ l <= NEvents
         /\ LET e  == Trace[l]
                s  == IF e.op = "reset" THEN SetupOf(e) ELSE setup
                cs == Verdict(e, s)
                ns == NotesOf(e, s)
            IN /\ l' = l + 1
               /\ setup' = s
               /\ bad' = IF cs = <<>> THEN bad ELSE Append(bad, BadRec(l, e, cs))
               /\ notes' = IF ns = <<>> \/ Len(notes) >= 40 THEN notes
                           ELSE Append(notes, [line |-> l, scn |-> e.scn, i |-> e.i, op |-> e.op, notes |-> ns])
               /\ res' = [op |-> e.op]
TSpec == TInit /\ [][TStep]_tvars
Report == ReportBad(l, bad, notes)
=============================================================================
