SPECIFICATION TSpec
CONSTANTS
  Setups = {}
  Limits = {}
  Targets = {}
  PosLists = {}
INVARIANT Report
POSTCONDITION AllConsumed
CHECK_DEADLOCK FALSE
