SPECIFICATION MCWSpec
CONSTANTS
  Setups <- MCWSetups
  Limits <- MCWLimitsQ
  Targets <- MCWTargetsQ
  PosLists <- MCWPos
  MCPre = 0
  MCEnv = 2
INVARIANTS HCallOK HOrdOK
CHECK_DEADLOCK FALSE
