-------------------------------- MODULE Hive --------------------------------
(* hive2 peer exchange (pkg/hive2/hive2.go: onFindNode), property C29:       *)
(* what a find-node reply may contain, given the request and what the node   *)
(* knows.  Addresses are the abstract pairs <<bin, id>> of spec/kad/Kad.tla  *)
(* (harness/internal/kadaddr embeds them; the definitions of the diff string *)
(* and of the proximity order are repeated here so that the module stands    *)
(* alone).                                                                   *)
(*                                                                           *)
(* A setup is [peers, req, allow]:                                           *)
(*   peers  sequence of [p |-> address, u |-> "pub"|"priv"|"none", s |-> "conn"|"known"]  *)
(*          u: class of the underlay recorded in the address book ("none": no record)    *)
(*   req    [p |-> address, u |-> class] the requesting peer                 *)
(*   allow  Config.AllowPrivateCIDRs                                         *)
EXTENDS Integers, Sequences, FiniteSets, SequencesExt

MaxPO   == 31
IDBits  == 4
W       == MaxPO + 1 + IDBits
SelfBin == 99
MaxPeersLimit == 30

HMin(a, b) == IF a < b THEN a ELSE b
HMax(a, b) == IF a > b THEN a ELSE b

Pow2(n) == IF n = 0 THEN 1 ELSE IF n = 1 THEN 2 ELSE IF n = 2 THEN 4 ELSE IF n = 3 THEN 8 ELSE 16
IdBit(id, j) == (id \div Pow2(IDBits - j)) % 2
Diff(a, i) == IF a[1] = SelfBin THEN 0
              ELSE IF i <= a[1] THEN 0
              ELSE IF i = a[1] + 1 THEN 1
              ELSE IF i <= a[1] + 1 + IDBits THEN IdBit(a[2], i - a[1] - 1)
              ELSE 0
RECURSIVE FirstDiff(_, _, _)
FirstDiff(x, y, i) == IF i > W THEN W + 1
                      ELSE IF Diff(x, i) # Diff(y, i) THEN i
                      ELSE FirstDiff(x, y, i + 1)
PO(x, y) == HMin(MaxPO, FirstDiff(x, y, 1) - 1)

(***************************************************************************)
(* The reply predicate: the statement of C29, clause by clause.            *)
(***************************************************************************)
Honoured(limit) == HMin(HMax(limit, 0), MaxPeersLimit)
ClassOf(setup, a) == LET I == {i \in DOMAIN setup.peers : setup.peers[i].p = a}
                     IN IF I = {} THEN "none" ELSE setup.peers[CHOOSE i \in I : TRUE].u

R_AtMostRequested(reply, limit)   == Len(reply) <= Honoured(limit)
R_NoRequester(reply, setup)       == \A i \in DOMAIN reply : reply[i] # setup.req.p
R_OrdersRequested(reply, t, pos)  == \A i \in DOMAIN reply : PO(t, reply[i]) \in ToSet(pos)
R_NoRepetition(reply)             == \A i, j \in DOMAIN reply : i # j => reply[i] # reply[j]
R_NoPrivateToPublic(reply, setup) ==
  (setup.req.u = "pub" /\ ~setup.allow) => \A i \in DOMAIN reply : ClassOf(setup, reply[i]) # "priv"

ReplyOK(reply, limit, t, pos, setup) ==
  /\ R_AtMostRequested(reply, limit) /\ R_NoRequester(reply, setup) /\ R_OrdersRequested(reply, t, pos)
  /\ R_NoRepetition(reply) /\ R_NoPrivateToPublic(reply, setup)

(***************************************************************************)
(* The mechanism: candidates among connected peers, then among known peers *)
(* not yet chosen, each part cut to its share of the limit.                *)
(***************************************************************************)
AddrsOf(setup, S) == {setup.peers[i].p : i \in {j \in DOMAIN setup.peers : setup.peers[j].s \in S}}
Candidates(setup, S, skip, t, pos) ==
  {a \in AddrsOf(setup, S) :
     /\ a \notin skip /\ a # setup.req.p
     /\ PO(t, a) \in ToSet(pos)
     /\ ClassOf(setup, a) # "none"
     /\ ~(~setup.allow /\ setup.req.u = "pub" /\ ClassOf(setup, a) = "priv")}

\* share of the connected / the known part
SpecSplit(limit) == LET l == Honoured(limit)
                    IN IF l = 0 THEN <<0, 0>> ELSE IF l = 1 THEN <<1, 0>> ELSE <<l - (l \div 2), l \div 2>>
\* the code's split (conformance only): one of each for every limit up to 2
ImplSplit(limit) == LET l == IF limit > MaxPeersLimit THEN MaxPeersLimit ELSE limit
                    IN IF l > 2 THEN <<l - (l \div 2), l \div 2>> ELSE <<1, 1>>

Picks(C, n) == {S \in SUBSET C : Cardinality(S) = HMin(n, Cardinality(C))}

\* all replies the mechanism can produce with a given split (as sets; the order is free)
Replies(setup, limit, t, pos, split) ==
  {cp \cup kp : cp \in Picks(Candidates(setup, {"conn"}, {}, t, pos), split[1]),
                kp \in Picks(Candidates(setup, {"conn", "known"}, {}, t, pos), split[2])}
\* second pass skips what the first pass chose
RepliesSeq(setup, limit, t, pos, split) ==
  UNION {{cp \cup kp : kp \in Picks(Candidates(setup, {"conn", "known"}, cp, t, pos), split[2])} :
           cp \in Picks(Candidates(setup, {"conn"}, {}, t, pos), split[1])}

CONSTANTS Setups, Limits, Targets, PosLists
VARIABLES setup, res
vars == <<setup, res>>

Init == setup \in Setups /\ res = [op |-> "init"]
Find(limit, t, pos) ==
  /\ \E r \in RepliesSeq(setup, limit, t, pos, SpecSplit(limit)) :
        res' = [op |-> "find", limit |-> limit, t |-> t, pos |-> pos, reply |-> SetToSeq(r)]
  /\ UNCHANGED setup
Next == \E l \in Limits, t \in Targets, pos \in PosLists : Find(l, t, pos)
Spec == Init /\ [][Next]_vars

\* C29 holds of the mechanism with the specified split
ReplyContract == res.op = "find" => ReplyOK(res.reply, res.limit, res.t, res.pos, setup)
\* the code's split keeps the bound exactly from limit 2 on
SplitLemma == \A l \in Limits : (ImplSplit(l)[1] + ImplSplit(l)[2] <= Honoured(l)) <=> l >= 2
=============================================================================
