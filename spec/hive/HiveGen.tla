------------------------------ MODULE HiveGen ------------------------------
(* Scenario generator for C29.  A scenario is a setup (what the answering   *)
(* node knows) and a list of find-node requests.  The setup is built by a   *)
(* walk: one step per pool peer chooses absent / connected / known-only and *)
(* the class of its underlay; two more steps choose the requester's class   *)
(* and AllowPrivateCIDRs.  tlc -simulate samples setups; every emitted      *)
(* setup is paired with the full product of requests                        *)
(*   limits (VERIF_LIMITS = "all": 0..40, "ge2": boundary values from 2 on, *)
(*   else the boundary values from 0 on)                                    *)
(*   x targets x order lists.                                               *)
EXTENDS Hive, TLC, Json, IOUtils

Env(k, d) == IF k \in DOMAIN IOEnv THEN IOEnv[k] ELSE d
GLimits == CASE Env("VERIF_LIMITS", "edge") = "all" -> 0..40
             [] Env("VERIF_LIMITS", "edge") = "ge2" -> {2, 3, 4, 5, 6, 7, 8, 29, 30, 31, 32, 40}
             [] OTHER -> {0, 1, 2, 3, 4, 5, 7, 29, 30, 31, 40}
\* the requester is <<1,7>>; it is itself in the pool (a requester is normally a connected peer)
Pool == <<<<1,7>>, <<0,1>>, <<0,9>>, <<1,3>>, <<1,4>>, <<2,0>>, <<2,7>>, <<31,2>>, <<3,5>>>>
ReqAddr == <<1,7>>
GTargets == {<<SelfBin,0>>, ReqAddr, <<1,3>>, <<2,5>>}
GPos == {<<>>, <<0>>, <<1, 2, 0>>, <<31, 30, 29>>, <<0, 1, 2, 3, 31>>, <<2>>}

VARIABLE step
gvars == <<setup, res, step>>

GInit == /\ setup = [peers |-> <<>>, req |-> [p |-> ReqAddr, u |-> "none"], allow |-> FALSE]
         /\ res = [op |-> "init"] /\ step = 1
AddPeer == /\ step <= Len(Pool)
           /\ \/ UNCHANGED setup                                                    \* absent
              \/ \E u \in {"pub", "priv", "none"}, s \in {"conn", "known"} :
                    /\ ~(u = "none" /\ s = "known")     \* a known peer without a record is dropped by the node
                    /\ setup' = [setup EXCEPT !.peers = Append(@, [p |-> Pool[step], u |-> u, s |-> s])]
           /\ step' = step + 1 /\ UNCHANGED res
Finish == /\ step = Len(Pool) + 1
          /\ \E al \in BOOLEAN :
               LET ru == ClassOf(setup, ReqAddr)
               IN setup' = [setup EXCEPT !.allow = al, !.req = [p |-> ReqAddr, u |-> ru]]
          /\ step' = step + 1 /\ UNCHANGED res
GNext == AddPeer \/ Finish
GSpec == GInit /\ [][GNext]_gvars

Requests == SetToSeq({[op |-> "find", limit |-> l, t |-> t, pos |-> pos] : l \in GLimits, t \in GTargets, pos \in GPos})
Emit == step = Len(Pool) + 2 => PrintT(<<"SCN", ToJson([par |-> setup, ops |-> Requests])>>)
=============================================================================
