------------------------------- MODULE MCHive -------------------------------
EXTENDS Hive
P(b, i, u, s) == [p |-> <<b, i>>, u |-> u, s |-> s]
MCSetups ==
  {[peers |-> <<P(0,1,"pub","conn"), P(0,9,"priv","conn"), P(1,3,"pub","known"), P(1,4,"priv","known"), P(2,0,"none","conn"), P(31,2,"pub","conn")>>,
    req |-> [p |-> <<1,7>>, u |-> ru], allow |-> al] : ru \in {"pub", "priv", "none"}, al \in BOOLEAN}
  \cup
  {[peers |-> <<P(0,1,"pub","conn"), P(1,7,"pub","conn"), P(1,3,"priv","conn"), P(1,4,"pub","known")>>,
    req |-> [p |-> <<1,7>>, u |-> "pub"], allow |-> al] : al \in BOOLEAN}
MCLimits == {0, 1, 2, 3, 4, 5, 30, 31, 40}
MCTargets == {<<SelfBin,0>>, <<1,7>>, <<1,3>>, <<2,5>>}
MCPos == {<<>>, <<0>>, <<1, 2, 0>>, <<31, 30, 29>>, <<0, 1, 2, 3, 31>>}
\* requests are independent of each other (the handler keeps no state): one request per behaviour
MCSpec == Init /\ [][res.op = "init" /\ Next]_vars
=============================================================================
