----------------------------- MODULE MCHiveWalk -----------------------------
(* Bounded configuration of HiveWalk for the design check: one find-node     *)
(* request (product of limits x targets x order lists) against two setups,   *)
(* with up to MCPre events before and MCEnv events during the handler's walk *)
(* (connect, disconnect, add-peers, forced disconnect of the churn peers).   *)
EXTENDS HiveWalk
CONSTANTS MCPre, MCEnv

P(b, i, u, s) == [p |-> <<b, i>>, u |-> u, s |-> s]
MCWSetups ==
  {[peers |-> <<P(1,7,"pub","conn"), P(2,0,"pub","conn"), P(2,7,"priv","conn"), P(2,9,"pub","conn"), P(2,12,"pub","conn"),
                P(1,3,"pub","known"), P(2,5,"pub","absent"), P(0,1,"none","conn")>>,
    req |-> [p |-> <<1,7>>, u |-> ru], allow |-> FALSE] : ru \in {"pub", "priv"}}
MCChurn   == {<<2,0>>, <<2,9>>, <<2,12>>, <<1,3>>, <<2,5>>}
MCWLimits == {0, 1, 3, 30}
MCWTargets == {<<SelfBin,0>>, <<2,5>>}
MCWPos    == {<<2, 1>>, <<0, 1, 2, 3, 4, 5, 6>>}
\* quick configuration: the own address as target, three limits
MCWLimitsQ  == {1, 4, 30}
MCWTargetsQ == {<<SelfBin,0>>}

VARIABLES npre, called
mvars == <<hwvars, npre, called>>
EnvStep == \E p \in MCChurn : HConnect(p) \/ HDisconnect(p) \/ HAddPeers(p) \/ HForce(p)
MCInit == HWInit /\ npre = 0 /\ called = FALSE
MCNext == \/ /\ ~called /\ npre < MCPre /\ EnvStep
             /\ npre' = npre + 1 /\ UNCHANGED called
          \/ /\ ~called /\ \E l \in Limits, t \in Targets, pos \in PosLists : HWalkBegin(l, t, pos)
             /\ called' = TRUE /\ UNCHANGED npre
          \/ /\ walk.on /\ walk.env < MCEnv /\ EnvStep
             /\ UNCHANGED <<npre, called>>
          \/ (HWalkVisit \/ HWalkTurn \/ HWalkEnd) /\ UNCHANGED <<npre, called>>
MCWSpec == MCInit /\ [][MCNext]_mvars
=============================================================================
