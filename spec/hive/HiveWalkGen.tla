---------------------------- MODULE HiveWalkGen ----------------------------
(* Scenario generator for C29 under churn (HiveWalk): TLC enumerates the     *)
(* interleavings of ONE find-node request, taken as a walk of address-book   *)
(* lookups, with connections, disconnections, add-peers and forced           *)
(* disconnections of the churn peers.                                        *)
(* A scenario: par = the setup (peers "conn" / "known" / "absent"), ops = up *)
(* to VERIF_PREENV events, then                                              *)
(*   [op |-> "find", limit, t, pos, gates |-> << [k |-> lookup number, o |-> event] ... >>] *)
(* gates: while the handler stands on its k-th lookup, let event o happen.   *)
(* Events are placed at no more than VERIF_GATES lookups, VERIF_ENV in all.  *)
(* Where the connected part is cut at random (small limits) the lookups of   *)
(* the known walk differ from run to run; the generator follows one choice,  *)
(* the driver reports gates it did not reach.                                *)
EXTENDS HiveWalk, TLC, Json, IOUtils

VARIABLES hist, gates, pre, done

Env(k, d) == IF k \in DOMAIN IOEnv THEN IOEnv[k] ELSE d
HUniv    == Env("VERIF_UNIV", "h1")
MaxGates == atoi(Env("VERIF_GATES", "1"))
MaxEnv   == atoi(Env("VERIF_ENV", "2"))
MaxPre   == atoi(Env("VERIF_PREENV", "0"))

P(b, i, u, s) == [p |-> <<b, i>>, u |-> u, s |-> s]
ReqAddr == <<1,7>>
\* h1: four connected peers in bin 2 (one with a private underlay), a known one, a joiner
\* h2: public requester (private peers are withheld and skipped), two populated bins
GSetups == CASE HUniv = "h1" ->
                  {[peers |-> <<P(1,7,"priv","conn"), P(2,0,"pub","conn"), P(2,7,"priv","conn"), P(2,9,"pub","conn"),
                                P(2,12,"pub","conn"), P(1,3,"pub","known"), P(2,5,"pub","absent")>>,
                    req |-> [p |-> ReqAddr, u |-> "priv"], allow |-> FALSE]}
             [] OTHER ->
                  {[peers |-> <<P(1,7,"pub","conn"), P(2,0,"pub","conn"), P(2,7,"priv","conn"), P(2,9,"pub","conn"),
                                P(1,3,"pub","conn"), P(1,4,"pub","conn"), P(1,12,"pub","conn"), P(2,12,"pub","known"),
                                P(2,5,"pub","absent"), P(1,9,"priv","absent"), P(0,1,"none","conn")>>,
                    req |-> [p |-> ReqAddr, u |-> "pub"], allow |-> FALSE]}
GChurn == IF HUniv = "h1" THEN {<<2,0>>, <<2,9>>, <<2,12>>, <<2,5>>}
          ELSE {<<2,0>>, <<2,9>>, <<1,3>>, <<1,4>>, <<2,12>>, <<2,5>>, <<1,9>>}
\* events of the churn: disconnections of connected peers, connections of others, add-peers of unknown
\* ones, forced disconnections (h2 only)
GForce == HUniv # "h1"
GRequests == IF HUniv = "h1"
             THEN {[limit |-> 30, t |-> <<SelfBin,0>>, pos |-> <<2, 1>>], [limit |-> 4, t |-> <<SelfBin,0>>, pos |-> <<2>>]}
             ELSE {[limit |-> 30, t |-> <<SelfBin,0>>, pos |-> <<1, 2, 0>>], [limit |-> 30, t |-> <<2,5>>, pos |-> <<2, 6, 7, 4, 5>>],
                   [limit |-> 5, t |-> <<SelfBin,0>>, pos |-> <<2, 1>>]}

OEv(r) == [op |-> r.op, p |-> r.p]
OFind(q) == [op |-> "find", limit |-> q.limit, t |-> q.t, pos |-> q.pos, gates |-> <<>>]

GInit == /\ HWInit /\ hist = <<>> /\ gates = {} /\ pre = 0 /\ done = FALSE
EnvStep == \E p \in GChurn : \/ HConnect(p) \/ HDisconnect(p) \/ HAddPeers(p)
                             \/ (GForce /\ HForce(p))
GNext ==
  /\ ~done
  /\ \/ /\ ~walk.on /\ pre < MaxPre
        /\ EnvStep
        /\ hist' = Append(hist, OEv(res'))
        /\ pre' = pre + 1 /\ UNCHANGED <<gates, done>>
     \/ \E q \in GRequests :
          /\ HWalkBegin(q.limit, q.t, q.pos)
          /\ hist' = Append(hist, OFind(q))
          /\ UNCHANGED <<gates, pre, done>>
     \/ /\ walk.on /\ walk.held /\ walk.env < MaxEnv
        /\ (walk.k \in gates \/ Cardinality(gates) < MaxGates)
        /\ EnvStep
        /\ hist' = [hist EXCEPT ![Len(hist)].gates = Append(@, [k |-> walk.k, o |-> OEv(res')])]
        /\ gates' = gates \cup {walk.k}
        /\ UNCHANGED <<pre, done>>
     \/ (HWalkVisit \/ HWalkTurn) /\ UNCHANGED <<hist, gates, pre, done>>
     \/ HWalkEnd /\ done' = TRUE /\ UNCHANGED <<hist, gates, pre>>
GSpec == GInit /\ [][GNext]_<<hwvars, hist, gates, pre, done>>

\* the random cuts give several final states with one history: one scenario per history
GView == <<hist, done, IF walk.on THEN <<walk.k, walk.phase, walk.held>> ELSE <<>>>>
Emit == done => PrintT(<<"SCN", ToJson([par |-> setup, ops |-> hist])>>)
=============================================================================
