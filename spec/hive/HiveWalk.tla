------------------------------ MODULE HiveWalk ------------------------------
(* C29 under churn: the find-node handler (hive2.onFindNode) as a WALK of    *)
(* several steps over the connected and then the known peers of the          *)
(* topology, interleaved with Connected / Disconnected / AddPeers /          *)
(* DisconnectForce.                                                          *)
(*                                                                           *)
(* The handler calls Kad.EachPeer and then Kad.EachKnownPeer; both are       *)
(* pslice.EachBin: deepest bin first, the slice of a bin is fetched under    *)
(* the read lock and its elements are visited WITHOUT the lock.  For every   *)
(* visited peer that is not skipped and whose proximity to the target is     *)
(* requested, the handler looks the peer up in the address book -- that      *)
(* lookup is the point where the driver can hold the real walk (a wrapper    *)
(* around the address book).  Between the two walks the connected part is    *)
(* cut to its share of the limit (random choice) and added to the skip list. *)
(*   cord[b] / kord[b]   slices of bin b of connectedPeers / knownPeers: Add  *)
(*            appends, Remove moves the last element into the gap; slices     *)
(*            handed out before stay as they were (copy on write).            *)
(*   book     peers with an address-book record (DisconnectForce removes it)  *)
(* Steps: HWalkBegin, HWalkVisit (next lookup; sets `held`: events may happen *)
(* now), HWalkTurn (connected walk over: cut, skip, start the known walk),    *)
(* HWalkEnd (known walk over: cut, reply).                                    *)
(* Property (HCallOK): whatever the interleaving, the reply satisfies the     *)
(* five clauses of the statement (Hive!ReplyOK) and offers only peers the     *)
(* node knew at some point during the call.                                   *)
EXTENDS Hive

VARIABLES cord, kord, book, walk
hwvars == <<setup, res, cord, kord, book, walk>>

NoWalk == [on |-> FALSE, held |-> FALSE]
HBins  == {setup.peers[i].p[1] : i \in DOMAIN setup.peers}
Pool   == {setup.peers[i].p : i \in DOMAIN setup.peers}
Top    == MaxPO + 1

SeqSet(s) == {s[i] : i \in DOMAIN s}
IndexOf(s, p) == CHOOSE i \in DOMAIN s : s[i] = p
OrdAdd(o, p) == IF p \in SeqSet(o[p[1]]) THEN o ELSE [o EXCEPT ![p[1]] = Append(@, p)]
OrdRemove(o, p) ==
  IF p \notin SeqSet(o[p[1]]) THEN o
  ELSE LET s == o[p[1]]  n == Len(s)  i == IndexOf(s, p)
       IN [o EXCEPT ![p[1]] = IF i = n THEN SubSeq(s, 1, n - 1) ELSE [SubSeq(s, 1, n - 1) EXCEPT ![i] = s[n]]]
SetOf(o) == UNION {SeqSet(o[b]) : b \in HBins}
ConnSet  == SetOf(cord)
KnownSet == SetOf(kord)

\* the driver connects / adds the peers of the setup in the order of the list
InitOrd(S) == [b \in HBins |->
                 LET s == SelectSeq(setup.peers, LAMBDA r : r.s \in S /\ r.p[1] = b) IN [i \in DOMAIN s |-> s[i].p]]
HWInit == /\ setup \in Setups /\ res = [op |-> "init"]
          /\ cord = InitOrd({"conn"}) /\ kord = InitOrd({"conn", "known"})
          /\ book = {setup.peers[i].p : i \in {j \in DOMAIN setup.peers : setup.peers[j].u # "none"}}
          /\ walk = NoWalk

Rec(p) == IF p \in book THEN ClassOf(setup, p) ELSE "none"

(***************************************************************************)
(* Environment.                                                            *)
(***************************************************************************)
Track(c2, k2, w) == IF w.on THEN [w EXCEPT !.kany = @ \cup SetOf(c2) \cup SetOf(k2), !.env = @ + 1] ELSE w
MayChange == ~walk.on \/ walk.held

HConnect(p) == /\ MayChange /\ p \notin ConnSet
               /\ cord' = OrdAdd(cord, p) /\ kord' = OrdAdd(kord, p)
               /\ walk' = Track(cord', kord', walk)
               /\ res' = [op |-> "connected", p |-> p]
               /\ UNCHANGED <<setup, book>>
HDisconnect(p) == /\ MayChange /\ p \in ConnSet
                  /\ cord' = OrdRemove(cord, p)
                  /\ walk' = Track(cord', kord, walk)
                  /\ res' = [op |-> "disconnected", p |-> p]
                  /\ UNCHANGED <<setup, book, kord>>
HAddPeers(p) == /\ MayChange /\ p \notin KnownSet
                /\ kord' = OrdAdd(kord, p)
                /\ walk' = Track(cord, kord', walk)
                /\ res' = [op |-> "addpeers", p |-> p]
                /\ UNCHANGED <<setup, book, cord>>
HForce(p) == /\ MayChange /\ p \in KnownSet
             /\ cord' = OrdRemove(cord, p) /\ kord' = OrdRemove(kord, p)
             /\ book' = book \ {p}
             /\ walk' = Track(cord', kord', walk)
             /\ res' = [op |-> "force", p |-> p]
             /\ UNCHANGED setup

(***************************************************************************)
(* The handler.                                                            *)
(***************************************************************************)
HWalkBegin(limit, t, pos) ==
  /\ ~walk.on
  /\ walk' = [on |-> TRUE, held |-> FALSE, limit |-> limit, t |-> t, pos |-> pos, phase |-> "conn",
              bin |-> Top, snap |-> <<>>, i |-> 0, skip |-> {setup.req.p}, got |-> <<>>, cres |-> <<>>,
              k |-> 0, kany |-> ConnSet \cup KnownSet, env |-> 0]
  /\ res' = [op |-> "wbegin"]
  /\ UNCHANGED <<setup, cord, kord, book>>

Pass(w, p) == p \notin w.skip /\ PO(w.t, p) \in ToSet(w.pos)
LeastOf(S) == CHOOSE x \in S : \A y \in S : x <= y
MostOf(S)  == CHOOSE x \in S : \A y \in S : x >= y
\* the next lookup of walk w in the slices o: in the slice it holds, else in the next deeper-to-shallower bin
RECURSIVE Seek(_, _, _, _, _)
Seek(w, o, bin, snap, i) ==
  LET I == {j \in (i + 1)..Len(snap) : Pass(w, snap[j])}
  IN IF I # {} THEN [found |-> TRUE, bin |-> bin, snap |-> snap, i |-> LeastOf(I)]
     ELSE LET B == {b \in HBins : b < bin /\ o[b] # <<>>}
          IN IF B = {} THEN [found |-> FALSE]
             ELSE Seek(w, o, MostOf(B), o[MostOf(B)], 0)
Ord(w)  == IF w.phase = "conn" THEN cord ELSE kord
NextGet(w) == Seek(w, Ord(w), w.bin, w.snap, w.i)

Withheld(c) == c = "priv" /\ ~setup.allow /\ setup.req.u = "pub"

HWalkVisit ==
  /\ walk.on /\ NextGet(walk).found
  /\ LET f == NextGet(walk)  p == f.snap[f.i]  c == Rec(p)
     IN /\ walk' = [walk EXCEPT !.bin = f.bin, !.snap = f.snap, !.i = f.i, !.k = @ + 1, !.held = TRUE,
                                !.skip = IF c # "none" /\ Withheld(c) THEN @ \cup {p} ELSE @,
                                !.got  = IF c = "none" \/ Withheld(c) THEN @ ELSE Append(@, p)]
        /\ res' = [op |-> "visit", k |-> walk.k + 1, at |-> p]
  /\ UNCHANGED <<setup, cord, kord, book>>

\* a part cut to its share: any choice of positions
Cut(s, n) == {I \in SUBSET (DOMAIN s) : Cardinality(I) = HMin(n, Len(s))}
SubAt(s, I) == LET idx == SetToSortSeq(I, <) IN [j \in DOMAIN idx |-> s[idx[j]]]

HWalkTurn ==
  /\ walk.on /\ walk.phase = "conn" /\ ~NextGet(walk).found
  /\ \E I \in Cut(walk.got, SpecSplit(walk.limit)[1]) :
        LET cr == SubAt(walk.got, I)
        IN walk' = [walk EXCEPT !.phase = "known", !.cres = cr, !.skip = @ \cup SeqSet(cr), !.got = <<>>,
                                !.bin = Top, !.snap = <<>>, !.i = 0, !.held = FALSE]
  /\ res' = [op |-> "turn"]
  /\ UNCHANGED <<setup, cord, kord, book>>

HWalkEnd ==
  /\ walk.on /\ walk.phase = "known" /\ ~NextGet(walk).found
  /\ \E I \in Cut(walk.got, SpecSplit(walk.limit)[2]) :
        res' = [op |-> "find", limit |-> walk.limit, t |-> walk.t, pos |-> walk.pos,
                reply |-> walk.cres \o SubAt(walk.got, I), kany |-> walk.kany, env |-> walk.env, k |-> walk.k]
  /\ walk' = NoWalk
  /\ UNCHANGED <<setup, cord, kord, book>>

(***************************************************************************)
(* The property.                                                           *)
(***************************************************************************)
R_KnownDuringCall(reply, kany) == \A i \in DOMAIN reply : reply[i] \in kany

HCallOK == res.op = "find" => /\ ReplyOK(res.reply, res.limit, res.t, res.pos, setup)
                              /\ R_KnownDuringCall(res.reply, res.kany)

HOrdOK == /\ ConnSet \subseteq KnownSet
          /\ \A b \in HBins : /\ Len(cord[b]) = Cardinality(SeqSet(cord[b]))
                              /\ Len(kord[b]) = Cardinality(SeqSet(kord[b]))
=============================================================================
