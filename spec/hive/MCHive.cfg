SPECIFICATION MCSpec
CONSTANTS
  Setups <- MCSetups
  Limits <- MCLimits
  Targets <- MCTargets
  PosLists <- MCPos
INVARIANTS ReplyContract SplitLemma
CHECK_DEADLOCK FALSE
