SPECIFICATION MCWSpec
CONSTANTS
  Setups <- MCWSetups
  Limits <- MCWLimits
  Targets <- MCWTargets
  PosLists <- MCWPos
  MCPre = 1
  MCEnv = 2
INVARIANTS HCallOK HOrdOK
CHECK_DEADLOCK FALSE
