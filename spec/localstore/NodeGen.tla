------------------------------ MODULE NodeGen ------------------------------
(* Scenario generator for the local-store family: Node's actions over the    *)
(* chunk structure of the driver's file catalogue (harness/cmd/lsdrv), plus  *)
(* a history variable.  Random walks (tlc -simulate) and edge cover (VIEW).  *)
EXTENDS Node, Json, IOUtils, SequencesExt
VARIABLE hist

\* (transcribed from `lsdrv catalogue`) F*: single-file manifests; D*: directories {a.bin, b.bin}: D1 = {X Y | T},
\* D2 = {Z | T}, D3 = {Y | T}; T, Z, Y as member files fit in one chunk: that chunk is in the pyramid and is a data chunk
CatData == [F1 |-> <<"X", "Y">>, F2 |-> <<"X", "Y", "Z">>, F3 |-> <<"X", "Y">>,
            F4 |-> <<"Z", "Z">>, F5 |-> <<"Y">>, F6 |-> <<"X", "T">>, F7 |-> <<"Z", "T">>,
            D1 |-> <<"X", "Y", "T">>, D2 |-> <<"Z", "T">>, D3 |-> <<"Y", "T">>]
CatOther == [F1 |-> {"M:F1", "m:F1:0", "m:F1:1", "r:F1"}, F2 |-> {"M:F2", "m:F1:0", "m:F2:0", "r:F2"},
             F3 |-> {"M:F3", "m:F1:0", "m:F1:1", "r:F1"}, F4 |-> {"M:F4", "m:F1:0", "m:F4:0", "r:F4"},
             F5 |-> {"M:F5", "m:F1:0", "m:F5:0"},         F6 |-> {"M:F6", "m:F1:0", "m:F6:0", "r:F6"},
             F7 |-> {"M:F7", "m:F1:0", "m:F7:0", "r:F7"},
             D1 |-> {"M:D1", "m:D1:0", "m:F1:1", "r:F1", "T"}, D2 |-> {"M:D2", "m:D1:0", "m:D2:0", "Z", "T"},
             D3 |-> {"M:D3", "m:D1:0", "m:F5:0", "Y", "T"}]
CatSplit == [F1 |-> 2, F2 |-> 3, F3 |-> 2, F4 |-> 2, F5 |-> 1, F6 |-> 2, F7 |-> 2, D1 |-> 2, D2 |-> 1, D3 |-> 1]

FilesA == {"F1", "F2", "F4"}     \* prefix extension, repeated chunk
FilesB == {"F1", "F3", "F5"}     \* identical content under two names, single-chunk file that is another's data chunk
FilesC == {"F2", "F5", "F6"}     \* chunk-aligned prefix with a short tail
FilesD == {"F1", "F2"}
FilesF == {"F2", "F4"}           \* small universe for complete pin/unpin edge cover (shared chunk Z, repeated in F4)
FilesE == {"F2", "F4", "F7"}     \* one chunk (Z) in three files, twice in one of them
FilesG == {"D1", "D2"}           \* two directories sharing a one-chunk member file; one has a two-chunk first member
FilesH == {"D1", "D2", "D3"}     \* three directories sharing a one-chunk member file
FilesJ == {"F2"}                 \* one file (cached / partially cached / uploaded in every order)
FilesI == {"F1", "D1", "F7"}     \* a directory, the single-file manifest of its first member, a file sharing its tail chunk
DataA == [f \in FilesA |-> CatData[f]]  OtherA == [f \in FilesA |-> CatOther[f]]
DataB == [f \in FilesB |-> CatData[f]]  OtherB == [f \in FilesB |-> CatOther[f]]
DataC == [f \in FilesC |-> CatData[f]]  OtherC == [f \in FilesC |-> CatOther[f]]
DataD == [f \in FilesD |-> CatData[f]]  OtherD == [f \in FilesD |-> CatOther[f]]
DataF == [f \in FilesF |-> CatData[f]]  OtherF == [f \in FilesF |-> CatOther[f]]
DataE == [f \in FilesE |-> CatData[f]]  OtherE == [f \in FilesE |-> CatOther[f]]
DataG == [f \in FilesG |-> CatData[f]]  OtherG == [f \in FilesG |-> CatOther[f]]
DataH == [f \in FilesH |-> CatData[f]]  OtherH == [f \in FilesH |-> CatOther[f]]
DataI == [f \in FilesI |-> CatData[f]]  OtherI == [f \in FilesI |-> CatOther[f]]
DataJ == [f \in FilesJ |-> CatData[f]]  OtherJ == [f \in FilesJ |-> CatOther[f]]  SplitJ == [f \in FilesJ |-> CatSplit[f]]
SplitA == [f \in FilesA |-> CatSplit[f]]  SplitB == [f \in FilesB |-> CatSplit[f]]  SplitC == [f \in FilesC |-> CatSplit[f]]
SplitD == [f \in FilesD |-> CatSplit[f]]  SplitE == [f \in FilesE |-> CatSplit[f]]  SplitF == [f \in FilesF |-> CatSplit[f]]
SplitG == [f \in FilesG |-> CatSplit[f]]  SplitH == [f \in FilesH |-> CatSplit[f]]  SplitI == [f \in FilesI |-> CatSplit[f]]
GenCaps == {1, 3, 6}

Depth == IF "VERIF_DEPTH" \in DOMAIN IOEnv THEN atoi(IOEnv.VERIF_DEPTH) ELSE 6

\* Focused generators.  `gone` is a generator-only abstraction of the past (files that were deleted or evicted
\* at least once): with it in the VIEW, edge cover reaches states such as "F2 and F7 present after F4 was
\* deleted" through histories that really contain the deletion -- what reference-count slips need.
VARIABLES gone, pre   \* pre: abstract state before the last operation (edge cover is per SOURCE state)
Mode == IF "VERIF_NODEMODE" \in DOMAIN IOEnv THEN IOEnv.VERIF_NODEMODE ELSE "all"

NextDel == \/ \E f \in File : Upload(f, FALSE) \/ Download(f, "all", "none") \/ Delete(f) \/ Read(f, "all")
           \/ \E cap \in {1, 6} : Collect(cap)
NextPin == \/ \E f \in File, p \in BOOLEAN : Upload(f, p)
           \/ \E f \in File : Download(f, "all", "none") \/ Delete(f)
           \/ \E f \in File, via \in {"api", "svc"} : Pin(f, via) \/ Unpin(f, via)

NextPin2 == \/ \E f \in File : Upload(f, FALSE) \/ Download(f, "all", "none")
            \/ \E f \in File, via \in {"api", "svc"} : Pin(f, via) \/ Unpin(f, via)

\* partial holders: downloads from a source that lacks one data chunk, then local reads / single-chunk reads / retries
NextPart == \/ \E f \in File, miss \in MissKinds : Download(f, "all", miss)
            \/ \E f \in File : Download(f, "second", "data0") \/ Read(f, "all") \/ Delete(f)
            \/ \E f \in File, k \in {"inter", "data0"} : TouchChunk(f, k)
            \/ Restart

\* a root that is cached (completely or from a partial holder) and then uploaded by the user, or the other way round,
\* and collections: what the upload stored must survive them
NextPartUp == \/ \E f \in File : Download(f, "all", "none") \/ Download(f, "all", "datalast") \/ Upload(f, FALSE)
              \/ Collect(1)

\* directories: uploads, member-wise downloads (cached, partially held roots), evictions -- repeated evictions of roots
\* that share a member file with an uploaded root are what reference-count releases need (`gone` in the VIEW)
NextDirGc == \/ \E f \in File : Upload(f, FALSE) \/ Download(f, "m2", "none")
             \/ Collect(1)
\* the same with fixed roles (small enough for a complete edge cover): one root is only uploaded, the others only cached
UpFile == "D1"
NextDirGc1 == \/ Upload(UpFile, FALSE)
              \/ \E f \in File \ {UpFile} : Download(f, "m2", "none")
              \/ Collect(1)
\* directories held partially: one member downloaded (possibly from a partial holder), member reads, single-chunk reads
\* under the root's context, deletion, restart
NextDirPart == \/ \E f \in File, sel \in {"m1", "m2"} : Download(f, sel, "none") \/ Read(f, sel)
               \/ \E f \in File : Download(f, "m1", "data0") \/ Delete(f)
               \/ \E f \in File, k \in {"inter", "datalast"} : TouchChunk(f, k)
               \/ Restart
\* collections racing with the download of another file (puts that commit inside the run), around plain downloads,
\* uploads and collections
NextRaceDl == \/ \E f \in File : Download(f, "all", "none") \/ Upload(f, FALSE)
              \/ \E cap \in Caps, g \in File : CollectRaceDl(cap, g)
              \/ \E cap \in Caps : Collect(cap)
\* the core of it (complete edge cover): cached files, then a collection racing with the download of another file
NextRaceDl1 == \/ \E f \in File : Download(f, "all", "none")
               \/ \E cap \in {1, 6}, g \in File : CollectRaceDl(cap, g)

\* random walks: every entry point except the racing download (the driver parks the store's own collection worker for
\* the rest of such a scenario, which a restart cannot follow; the "racedl" mode has no restart)
NextWalk == \/ \E f \in File, p \in BOOLEAN : Upload(f, p)
            \/ \E f \in File, sel \in AllSels, miss \in MissKinds : Download(f, sel, miss)
            \/ \E f \in File, sel \in AllSels : Read(f, sel)
            \/ \E f \in File : Delete(f)
            \/ \E f \in File, k \in TouchKinds : TouchChunk(f, k)
            \/ \E f \in File, via \in {"api", "svc"} : Pin(f, via) \/ Unpin(f, via)
            \/ \E cap \in Caps : Collect(cap)
            \/ \E cap \in Caps, f \in File, rop \in RaceOps : CollectRace(cap, f, rop)
            \/ Restart

GInit == Init /\ hist = <<>> /\ gone = {} /\ pre = <<>>
GNext == /\ Len(hist) < Depth
         /\ CASE Mode = "del" -> NextDel [] Mode = "pin" -> NextPin [] Mode = "pin2" -> NextPin2 [] Mode = "part" -> NextPart
              [] Mode = "dirgc" -> NextDirGc [] Mode = "dirgc1" -> NextDirGc1 [] Mode = "dirpart" -> NextDirPart
              [] Mode = "racedl" -> NextRaceDl [] Mode = "racedl1" -> NextRaceDl1 [] Mode = "partup" -> NextPartUp
              [] OTHER -> NextWalk
         /\ hist' = Append(hist, last')
         /\ gone' = gone \cup (known \ known')
         /\ pre' = <<data, up, pin, acct, known, rootpin, gone>>
GSpec == GInit /\ [][GNext]_<<vars, hist, gone, pre>>

Scn == [par |-> [files |-> SetToSeq(File)], ops |-> hist]
EdgeView == <<data, up, pin, acct, held, known, rootpin, bits, lru, last, gone>>
FocusView == <<pre, data, up, pin, acct, known, rootpin, last, gone>>
EmitAll  == hist # <<>> => PrintT(<<"SCN", ToJson(Scn)>>)
EmitFull == Len(hist) = Depth => PrintT(<<"SCN", ToJson(Scn)>>)
=============================================================================
