------------------------------ MODULE NodeGen ------------------------------
(* Scenario generator for the local-store family: Node's actions over the    *)
(* chunk structure of the driver's file catalogue (harness/cmd/lsdrv), plus  *)
(* a history variable.  Random walks (tlc -simulate) and edge cover (VIEW).  *)
EXTENDS Node, Json, IOUtils, SequencesExt
VARIABLE hist

CatData == [F1 |-> <<"X", "Y">>, F2 |-> <<"X", "Y", "Z">>, F3 |-> <<"X", "Y">>,
            F4 |-> <<"Z", "Z">>, F5 |-> <<"Y">>, F6 |-> <<"X", "T">>, F7 |-> <<"Z", "T">>]
CatOther == [F1 |-> {"M:F1", "m:F1:0", "m:F1:1", "r:F1"}, F2 |-> {"M:F2", "m:F1:0", "m:F2:0", "r:F2"},
             F3 |-> {"M:F3", "m:F1:0", "m:F1:1", "r:F1"}, F4 |-> {"M:F4", "m:F1:0", "m:F4:0", "r:F4"},
             F5 |-> {"M:F5", "m:F1:0", "m:F5:0"},         F6 |-> {"M:F6", "m:F1:0", "m:F6:0", "r:F6"},
             F7 |-> {"M:F7", "m:F1:0", "m:F7:0", "r:F7"}]

FilesA == {"F1", "F2", "F4"}     \* prefix extension, repeated chunk
FilesB == {"F1", "F3", "F5"}     \* identical content under two names, single-chunk file that is another's data chunk
FilesC == {"F2", "F5", "F6"}     \* chunk-aligned prefix with a short tail
FilesD == {"F1", "F2"}
FilesF == {"F2", "F4"}           \* small universe for complete pin/unpin edge cover (shared chunk Z, repeated in F4)
FilesE == {"F2", "F4", "F7"}     \* one chunk (Z) in three files, twice in one of them
DataA == [f \in FilesA |-> CatData[f]]  OtherA == [f \in FilesA |-> CatOther[f]]
DataB == [f \in FilesB |-> CatData[f]]  OtherB == [f \in FilesB |-> CatOther[f]]
DataC == [f \in FilesC |-> CatData[f]]  OtherC == [f \in FilesC |-> CatOther[f]]
DataD == [f \in FilesD |-> CatData[f]]  OtherD == [f \in FilesD |-> CatOther[f]]
DataF == [f \in FilesF |-> CatData[f]]  OtherF == [f \in FilesF |-> CatOther[f]]
DataE == [f \in FilesE |-> CatData[f]]  OtherE == [f \in FilesE |-> CatOther[f]]
GenCaps == {1, 3, 6}

Depth == IF "VERIF_DEPTH" \in DOMAIN IOEnv THEN atoi(IOEnv.VERIF_DEPTH) ELSE 6

\* Focused generators.  `gone` is a generator-only abstraction of the past (files that were deleted or evicted
\* at least once): with it in the VIEW, edge cover reaches states such as "F2 and F7 present after F4 was
\* deleted" through histories that really contain the deletion -- what reference-count slips need.
VARIABLES gone, pre   \* pre: abstract state before the last operation (edge cover is per SOURCE state)
Mode == IF "VERIF_NODEMODE" \in DOMAIN IOEnv THEN IOEnv.VERIF_NODEMODE ELSE "all"

NextDel == \/ \E f \in File : Upload(f, FALSE) \/ Download(f, "all", "none") \/ Delete(f) \/ Read(f)
           \/ \E cap \in {1, 6} : Collect(cap)
NextPin == \/ \E f \in File, p \in BOOLEAN : Upload(f, p)
           \/ \E f \in File : Download(f, "all", "none") \/ Delete(f)
           \/ \E f \in File, via \in {"api", "svc"} : Pin(f, via) \/ Unpin(f, via)

NextPin2 == \/ \E f \in File : Upload(f, FALSE) \/ Download(f, "all", "none")
            \/ \E f \in File, via \in {"api", "svc"} : Pin(f, via) \/ Unpin(f, via)

\* partial holders: downloads from a source that lacks one data chunk, then local reads / single-chunk reads / retries
NextPart == \/ \E f \in File, miss \in MissKinds : Download(f, "all", miss)
            \/ \E f \in File : Download(f, "second", "data0") \/ Read(f) \/ Delete(f)
            \/ \E f \in File, k \in {"inter", "data0"} : TouchChunk(f, k)
            \/ Restart

GInit == Init /\ hist = <<>> /\ gone = {} /\ pre = <<>>
GNext == /\ Len(hist) < Depth
         /\ CASE Mode = "del" -> NextDel [] Mode = "pin" -> NextPin [] Mode = "pin2" -> NextPin2 [] Mode = "part" -> NextPart [] OTHER -> Next
         /\ hist' = Append(hist, last')
         /\ gone' = gone \cup (known \ known')
         /\ pre' = <<data, up, pin, acct, known, rootpin, gone>>
GSpec == GInit /\ [][GNext]_<<vars, hist, gone, pre>>

Scn == [par |-> [files |-> SetToSeq(File)], ops |-> hist]
EdgeView == <<data, up, pin, acct, held, known, rootpin, bits, lru, last, gone>>
FocusView == <<pre, data, up, pin, acct, known, rootpin, last, gone>>
EmitAll  == hist # <<>> => PrintT(<<"SCN", ToJson(Scn)>>)
EmitFull == Len(hist) = Depth => PrintT(<<"SCN", ToJson(Scn)>>)
=============================================================================
