SPECIFICATION GSpec
CONSTANTS
  File <- FilesE
  FDataSeq <- DataE
  FOther <- OtherE
  Caps <- GenCaps
VIEW FocusView
INVARIANT EmitAll
CHECK_DEADLOCK FALSE
