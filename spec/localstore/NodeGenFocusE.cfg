SPECIFICATION GSpec
CONSTANTS
  File <- FilesE
  FDataSeq <- DataE
  FOther <- OtherE
  FSplit <- SplitE
  Caps <- GenCaps
VIEW FocusView
INVARIANT EmitAll
CHECK_DEADLOCK FALSE
