SPECIFICATION GSpec
CONSTANTS
  File <- FilesD
  FDataSeq <- DataD
  FOther <- OtherD
  Caps <- GenCaps
VIEW FocusView
INVARIANT EmitAll
CHECK_DEADLOCK FALSE
