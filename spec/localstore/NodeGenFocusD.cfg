SPECIFICATION GSpec
CONSTANTS
  File <- FilesD
  FDataSeq <- DataD
  FOther <- OtherD
  FSplit <- SplitD
  Caps <- GenCaps
VIEW FocusView
INVARIANT EmitAll
CHECK_DEADLOCK FALSE
