SPECIFICATION Spec
CONSTANTS
  File <- MCFile
  FDataSeq <- MCData
  FOther <- MCOther
  FSplit <- MCSplit
  Caps <- MCCaps
INVARIANTS TypeOK C13_Counter C15_PinExact C17_NoOverclaim
PROPERTIES C12_GCSafe C13_Bounded C16_OthersIntact C16_NoOrphans
