SPECIFICATION GSpec
CONSTANTS
  File <- FilesB
  FDataSeq <- DataB
  FOther <- OtherB
  FSplit <- SplitB
  Caps <- GenCaps
INVARIANT EmitFull
CHECK_DEADLOCK FALSE
