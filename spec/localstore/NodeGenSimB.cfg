SPECIFICATION GSpec
CONSTANTS
  File <- FilesB
  FDataSeq <- DataB
  FOther <- OtherB
  Caps <- GenCaps
INVARIANT EmitFull
CHECK_DEADLOCK FALSE
