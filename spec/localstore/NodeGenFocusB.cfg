SPECIFICATION GSpec
CONSTANTS
  File <- FilesB
  FDataSeq <- DataB
  FOther <- OtherB
  FSplit <- SplitB
  Caps <- GenCaps
VIEW FocusView
INVARIANT EmitAll
CHECK_DEADLOCK FALSE
