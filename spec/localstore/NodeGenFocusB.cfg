SPECIFICATION GSpec
CONSTANTS
  File <- FilesB
  FDataSeq <- DataB
  FOther <- OtherB
  Caps <- GenCaps
VIEW FocusView
INVARIANT EmitAll
CHECK_DEADLOCK FALSE
