SPECIFICATION GSpec
CONSTANTS
  File <- FilesF
  FDataSeq <- DataF
  FOther <- OtherF
  FSplit <- SplitF
  Caps <- GenCaps
VIEW FocusView
INVARIANT EmitAll
CHECK_DEADLOCK FALSE
