SPECIFICATION GSpec
CONSTANTS
  File <- FilesF
  FDataSeq <- DataF
  FOther <- OtherF
  Caps <- GenCaps
VIEW FocusView
INVARIANT EmitAll
CHECK_DEADLOCK FALSE
