SPECIFICATION GSpec
CONSTANTS
  File <- FilesD
  FDataSeq <- DataD
  FOther <- OtherD
  Caps <- GenCaps
INVARIANT EmitFull
CHECK_DEADLOCK FALSE
