SPECIFICATION GSpec
CONSTANTS
  File <- FilesD
  FDataSeq <- DataD
  FOther <- OtherD
  FSplit <- SplitD
  Caps <- GenCaps
INVARIANT EmitFull
CHECK_DEADLOCK FALSE
