SPECIFICATION GSpec
CONSTANTS
  File <- FilesE
  FDataSeq <- DataE
  FOther <- OtherE
  FSplit <- SplitE
  Caps <- GenCaps
VIEW EdgeView
INVARIANT EmitAll
CHECK_DEADLOCK FALSE
