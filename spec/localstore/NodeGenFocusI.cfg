SPECIFICATION GSpec
CONSTANTS
  File <- FilesI
  FDataSeq <- DataI
  FOther <- OtherI
  FSplit <- SplitI
  Caps <- GenCaps
VIEW FocusView
INVARIANT EmitAll
CHECK_DEADLOCK FALSE
