SPECIFICATION GSpec
CONSTANTS
  File <- FilesD
  FDataSeq <- DataD
  FOther <- OtherD
  FSplit <- SplitD
  Caps <- GenCaps
VIEW EdgeView
INVARIANT EmitAll
CHECK_DEADLOCK FALSE
