SPECIFICATION GSpec
CONSTANTS
  File <- FilesA
  FDataSeq <- DataA
  FOther <- OtherA
  Caps <- GenCaps
VIEW FocusView
INVARIANT EmitAll
CHECK_DEADLOCK FALSE
