SPECIFICATION GSpec
CONSTANTS
  File <- FilesA
  FDataSeq <- DataA
  FOther <- OtherA
  Caps <- GenCaps
INVARIANT EmitFull
CHECK_DEADLOCK FALSE
