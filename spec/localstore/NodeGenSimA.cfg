SPECIFICATION GSpec
CONSTANTS
  File <- FilesA
  FDataSeq <- DataA
  FOther <- OtherA
  FSplit <- SplitA
  Caps <- GenCaps
INVARIANT EmitFull
CHECK_DEADLOCK FALSE
