SPECIFICATION GSpec
CONSTANTS
  File <- FilesA
  FDataSeq <- DataA
  FOther <- OtherA
  Caps <- GenCaps
VIEW EdgeView
INVARIANT EmitAll
CHECK_DEADLOCK FALSE
