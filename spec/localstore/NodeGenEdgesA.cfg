SPECIFICATION GSpec
CONSTANTS
  File <- FilesA
  FDataSeq <- DataA
  FOther <- OtherA
  FSplit <- SplitA
  Caps <- GenCaps
VIEW EdgeView
INVARIANT EmitAll
CHECK_DEADLOCK FALSE
