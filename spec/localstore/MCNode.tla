------------------------------- MODULE MCNode -------------------------------
EXTENDS Node
\* three files with the overlap shapes of the statement: F2 extends F1 by a chunk (chunk-aligned prefix,
\* identical chunks), F4 repeats a chunk that F2 also holds; every manifest shares the node "ms".
MCFile == {"F1", "F2", "F4"}
MCData == [f \in MCFile |-> CASE f = "F1" -> <<"X", "Y">> [] f = "F2" -> <<"X", "Y", "Z">> [] f = "F4" -> <<"Z", "Z">>]
MCOther == [f \in MCFile |-> CASE f = "F1" -> {"r1", "ms"} [] f = "F2" -> {"r2", "ms"} [] f = "F4" -> {"r4", "ms"}]
MCCaps == {1, 4}
MCSplit == [f \in MCFile |-> Len(MCData[f])]
\* bound the counters (repeated pins through the service are idempotent in the design, so nothing grows)
=============================================================================
