SPECIFICATION GSpec
CONSTANTS
  File <- FilesC
  FDataSeq <- DataC
  FOther <- OtherC
  Caps <- GenCaps
INVARIANT EmitFull
CHECK_DEADLOCK FALSE
