------------------------------- MODULE MCNodeQ -------------------------------
EXTENDS Node
\* quick configuration: F2 extends F1 by one chunk (identical chunks, chunk-aligned prefix); shared manifest node
QFile == {"F1", "F2"}
QData == [f \in QFile |-> CASE f = "F1" -> <<"X", "Y">> [] f = "F2" -> <<"X", "Y", "Z">>]
QOther == [f \in QFile |-> CASE f = "F1" -> {"r1", "ms"} [] f = "F2" -> {"r2", "ms"}]
QCaps == {1, 4}
\* second quick configuration: a file with a repeated chunk that another file also holds
RFile == {"F2", "F4"}
RData == [f \in RFile |-> CASE f = "F2" -> <<"Y", "Z">> [] f = "F4" -> <<"Z", "Z">>]
ROther == [f \in RFile |-> CASE f = "F2" -> {"r2", "ms"} [] f = "F4" -> {"r4", "ms"}]
==============================================================================
