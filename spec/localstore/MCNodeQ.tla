------------------------------- MODULE MCNodeQ -------------------------------
EXTENDS Node
\* quick configuration: F2 extends F1 by one chunk (identical chunks, chunk-aligned prefix); shared manifest node
QFile == {"F1", "F2"}
QData == [f \in QFile |-> CASE f = "F1" -> <<"X", "Y">> [] f = "F2" -> <<"X", "Y", "Z">>]
QOther == [f \in QFile |-> CASE f = "F1" -> {"r1", "ms"} [] f = "F2" -> {"r2", "ms"}]
QCaps == {1, 4}
QSplit == [f \in QFile |-> Len(QData[f])]
\* second quick configuration: a file with a repeated chunk that another file also holds
RFile == {"F2", "F4"}
RData == [f \in RFile |-> CASE f = "F2" -> <<"Y", "Z">> [] f = "F4" -> <<"Z", "Z">>]
ROther == [f \in RFile |-> CASE f = "F2" -> {"r2", "ms"} [] f = "F4" -> {"r4", "ms"}]
RSplit == [f \in RFile |-> Len(RData[f])]
\* directories: D1 = {a: two chunks X Y, b: the one-chunk file T}, D2 = {a: the one-chunk file Z, b: T}; the only chunk of a
\* one-chunk member file is a chunk of the pyramid and a data chunk; the manifest node of b ("mb") is shared
DFile == {"D1", "D2"}
DData == [f \in DFile |-> CASE f = "D1" -> <<"X", "Y", "T">> [] f = "D2" -> <<"Z", "T">>]
DOther == [f \in DFile |-> CASE f = "D1" -> {"M1", "mb", "r1", "T"} [] f = "D2" -> {"M2", "mb", "Z", "T"}]
DSplit == [f \in DFile |-> CASE f = "D1" -> 2 [] f = "D2" -> 1]
==============================================================================
