SPECIFICATION GSpec
CONSTANTS
  File <- FilesE
  FDataSeq <- DataE
  FOther <- OtherE
  FSplit <- SplitE
  Caps <- GenCaps
INVARIANT EmitFull
CHECK_DEADLOCK FALSE
