SPECIFICATION GSpec
CONSTANTS
  File <- FilesE
  FDataSeq <- DataE
  FOther <- OtherE
  Caps <- GenCaps
INVARIANT EmitFull
CHECK_DEADLOCK FALSE
