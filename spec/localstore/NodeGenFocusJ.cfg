SPECIFICATION GSpec
CONSTANTS
  File <- FilesJ
  FDataSeq <- DataJ
  FOther <- OtherJ
  FSplit <- SplitJ
  Caps <- GenCaps
VIEW FocusView
INVARIANT EmitAll
CHECK_DEADLOCK FALSE
