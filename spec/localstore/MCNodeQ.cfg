SPECIFICATION Spec
CONSTANTS
  File <- QFile
  FDataSeq <- QData
  FOther <- QOther
  FSplit <- QSplit
  Caps <- QCaps
INVARIANTS TypeOK C13_Counter C15_PinExact C17_NoOverclaim
PROPERTIES C12_GCSafe C13_Bounded C16_OthersIntact C16_NoOrphans
