SPECIFICATION GSpec
CONSTANTS
  File <- FilesB
  FDataSeq <- DataB
  FOther <- OtherB
  Caps <- GenCaps
VIEW EdgeView
INVARIANT EmitAll
CHECK_DEADLOCK FALSE
