SPECIFICATION GSpec
CONSTANTS
  File <- FilesG
  FDataSeq <- DataG
  FOther <- OtherG
  FSplit <- SplitG
  Caps <- GenCaps
VIEW FocusView
INVARIANT EmitAll
CHECK_DEADLOCK FALSE
