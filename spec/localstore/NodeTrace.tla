------------------------------ MODULE NodeTrace ------------------------------
(* Judge of the local-store family (C12, C13, C15, C16, C17).                 *)
(* Input: the trace recorded by harness/cmd/lsdrv from the real node: one     *)
(* event per entry-point call (API handler, pinning service, netstore.Get     *)
(* under a file context, synchronous GC cycle, restart) with a dump of the    *)
(* node's indexes and chunk-info records under abstract chunk names.          *)
(* The reset event carries the chunk structure of the scenario's files:       *)
(* defs[f].chunks = every chunk written when f is uploaded into an empty      *)
(* store, defs[f].data = its distinct data chunks in availability-bit order.  *)
(* Monitor mode (TraceKit): every clause is a transcription of a property     *)
(* statement over two consecutive dumps plus a little history.                *)
EXTENDS TraceKit, FiniteSets, SequencesExt

VARIABLES l, bad, notes,
          prev,      \* the dump after the previous event
          defs,      \* file structure of the scenario
          fileset,   \* files of the scenario (set)
          upSet,     \* chunks that were stored by a local upload and are still stored
          upFiles,   \* files uploaded locally and not deleted since
          pdelta,    \* f -> (chunk -> what the last effective pin of f added to the pin counter)
          lastPin,   \* f -> "none" | "pin" | "unpin": last pin-type operation on f
          tainted    \* files whose reference was DELETEd (code 200) while it was root-pinned: from then on the history is
                     \* outside C15's quantifier ("all sequences of pin / unpin / list"), its C15 clauses are not evaluated

tvars == <<l, bad, notes, prev, defs, fileset, upSet, upFiles, pdelta, lastPin, tainted>>

\* ToSet comes from SequencesExt
Data(st) == ToSet(st.data)
PinOf(st, c) == LET J == {i \in DOMAIN st.pin : st.pin[i][1] = c}
                IN IF J = {} THEN 0 ELSE st.pin[CHOOSE i \in J : TRUE][2]
RECURSIVE SumSeq2(_, _)
SumSeq2(s, i) == IF i > Len(s) THEN 0 ELSE s[i][2] + SumSeq2(s, i + 1)
GcTotal(st) == SumSeq2(st.gc, 1)
Chunks(d, f) == ToSet(d[f].chunks)
PinSet(st) == ToSet(st.pin)
Listed(st, f) == st.files[f].listed
Readable(st, f) == st.files[f].readable
RootPinned(st, f) == st.files[f].rootpin

IsPinOp(e)   == e.op \in {"pin", "pinsvc"}
IsUnpinOp(e) == e.op \in {"unpin", "unpinsvc"}
PinSucceeded(e)   == IF e.op = "pin" THEN e.code \in {200, 201} ELSE ~e.err
UnpinSucceeded(e) == IF e.op = "unpin" THEN e.code = 200 ELSE ~e.err

\* files that a collection evicted: registered before, not registered after
Evicted(e) == {g \in fileset : Listed(prev, g) /\ ~Listed(e.st, g)}

(***************************************************************************)
(* C12  Garbage collection never deletes pinned or uploaded chunks          *)
(***************************************************************************)
\* Reading: "a chunk that was stored by local upload" = stored by an upload put (a later upload of an
\* already cached chunk does not change who stored it) and still belonging to an uploaded file that
\* has not been deleted by the user since.
Uploaded == {c \in upSet : \E f \in upFiles : c \in Chunks(defs, f)}

C12(e) ==
  IF e.op # "gc" THEN <<>> ELSE
     Clause("C12:gc_keeps_pinned_chunks",
            \A c \in Data(prev) : PinOf(prev, c) > 0 => c \in Data(e.st))
  \o Clause("C12:gc_keeps_uploaded_chunks",
            \A c \in Uploaded \cap Data(prev) : c \in Data(e.st))
  \o Clause("C12:gc_changes_no_pin_count", PinSet(e.st) = PinSet(prev))

(***************************************************************************)
(* C13  Cache accounting keeps garbage collection bounded                   *)
(***************************************************************************)
C13(e) ==
     Clause(IF e.op = "restart" THEN "C13:reopened_counter_is_recomputed_total"
                                ELSE "C13:counter_equals_recorded_total",
            prev.gcsize = GcTotal(prev) => e.st.gcsize = GcTotal(e.st))      \* (relative: the step that breaks it)
  \o (IF e.op = "gc" /\ e.done /\ ~e.err
      THEN Clause("C13:quiesced_total_within_capacity", GcTotal(e.st) <= e.cap)
      ELSE <<>>)

(***************************************************************************)
(* C15  Pin and unpin are idempotent inverses                               *)
(***************************************************************************)
\* a DELETE of a root-pinned reference (the handler removes chunks and pin counters): not a pin / unpin / list operation
DeletesPinned(e) == e.op = "delete" /\ e.code = 200 /\ RootPinned(prev, e.f)
Tainted(e) == IF DeletesPinned(e) THEN tainted \cup {e.f} ELSE tainted
Judged15(e) == "f" \in DOMAIN e => e.f \notin Tainted(e)

C15(e) ==
     \* the listing agrees with the per-reference answer, always
     Clause("C15:listing_agrees_with_haspin",
            \A f \in fileset \ Tainted(e) : (defs[f].root \in ToSet(e.st.pins)) = RootPinned(e.st, f))
     \* only pin-type operations on f (or uploading / deleting f itself) change whether f is pinned
  \o Clause("C15:pinned_iff_last_op_was_pin",
            \A f \in fileset \ Tainted(e) :
               IF "f" \in DOMAIN e /\ e.f = f /\ (IsPinOp(e) \/ IsUnpinOp(e) \/ e.op \in {"upload", "delete"})
               THEN (IsPinOp(e) /\ PinSucceeded(e) => RootPinned(e.st, f))
                    /\ (IsUnpinOp(e) /\ (UnpinSucceeded(e) \/ ~RootPinned(prev, f)) => ~RootPinned(e.st, f))
                    \* an unpin of a pinned reference whose chunks are all stored takes effect (it cannot be
                    \* left "listed as pinned" after its last operation was an unpin)
                    /\ (IsUnpinOp(e) /\ Chunks(defs, f) \subseteq Data(prev) => ~RootPinned(e.st, f))
               ELSE RootPinned(e.st, f) = RootPinned(prev, f))
  \o (IF Judged15(e) /\ IsPinOp(e) /\ PinSucceeded(e) /\ ~RootPinned(prev, e.f)
      THEN Clause("C15:pin_marks_every_chunk",
                  \A c \in Chunks(defs, e.f) \cap Data(e.st) : PinOf(e.st, c) > 0)
      ELSE <<>>)
  \o (IF Judged15(e) /\ IsPinOp(e) /\ RootPinned(prev, e.f)
      THEN Clause("C15:repeated_pin_has_no_effect",
                  PinSet(e.st) = PinSet(prev) /\ ToSet(e.st.pins) = ToSet(prev.pins))
      ELSE <<>>)
  \o (IF Judged15(e) /\ IsUnpinOp(e) /\ RootPinned(prev, e.f) /\ UnpinSucceeded(e) /\ lastPin[e.f] = "pin"
         /\ Chunks(defs, e.f) \subseteq Data(prev)
      THEN Clause("C15:unpin_restores_counts_before_pin",
                  \A c \in Chunks(defs, e.f) : PinOf(prev, c) - PinOf(e.st, c) = pdelta[e.f][c])
      ELSE <<>>)
  \o (IF Judged15(e) /\ IsUnpinOp(e) /\ ~RootPinned(prev, e.f)
      THEN Clause("C15:repeated_unpin_changes_nothing",
                  PinSet(e.st) = PinSet(prev) /\ ToSet(e.st.pins) = ToSet(prev.pins))
      ELSE <<>>)

(***************************************************************************)
(* C16  Deleting one file never breaks another                              *)
(***************************************************************************)
UsedByListedOther(st, c, gone) == \E g \in fileset \ gone : Listed(st, g) /\ c \in Chunks(defs, g)

C16(e) ==
  IF e.op = "delete" /\ e.code = 200 THEN
        Clause("C16:delete_keeps_other_files_readable",
               \A g \in fileset \ {e.f} : Listed(prev, g) /\ Readable(prev, g) => Readable(e.st, g))
     \o Clause("C16:delete_leaves_no_unpinned_orphan",
               \A c \in Chunks(defs, e.f) :
                  (PinOf(e.st, c) = 0 /\ ~UsedByListedOther(prev, c, {e.f})) => c \notin Data(e.st))
  ELSE IF e.op = "gc" THEN
        Clause("C16:eviction_keeps_other_files_readable",
               \A g \in fileset \ Evicted(e) : Listed(prev, g) /\ Readable(prev, g) => Readable(e.st, g))
     \o Clause("C16:eviction_leaves_no_unpinned_orphan",
               \A g \in Evicted(e) : \A c \in Chunks(defs, g) :
                  (PinOf(e.st, c) = 0 /\ c \notin Uploaded /\ ~UsedByListedOther(e.st, c, Evicted(e)))
                     => c \notin Data(e.st))
  ELSE <<>>

(***************************************************************************)
(* C17  Chunk availability records never overclaim                          *)
(***************************************************************************)
BitsOK(st, f) ==
  LET b == st.files[f].bits  d == defs[f].data
  IN \A i \in DOMAIN b : (b[i] = 1 /\ i \in DOMAIN d) => d[i] \in Data(st)
AllSet(st, f) == LET b == st.files[f].bits IN Len(b) > 0 /\ \A i \in DOMAIN b : b[i] = 1
NoRecords(st, f) ==
  LET r == st.files[f]
  IN ~r.listed /\ r.bitlen = 0 /\ r.servers = 0 /\ r.discover = 0 /\ r.source = 0 /\ ~r.pyrsource /\ r.keys = 0

C17(e) ==
     Clause("C17:bit_set_only_if_chunk_stored", \A f \in fileset : BitsOK(e.st, f))
  \o Clause("C17:complete_only_if_all_data_stored",
            \A f \in fileset : AllSet(e.st, f) => ToSet(defs[f].data) \subseteq Data(e.st))
  \o (IF e.op = "delete" /\ e.code = 200
      THEN Clause("C17:no_record_left_after_delete", NoRecords(e.st, e.f))
      ELSE <<>>)

Verdict(e) == C12(e) \o C13(e) \o C15(e) \o C16(e) \o C17(e)

\* conformance notes (never alarm): lengths the implementation-shaped reading expects
Notes(e) ==
     (IF \E f \in fileset : e.st.files[f].bitlen # 0 /\ e.st.files[f].bitlen # Len(defs[f].data)
      THEN <<"bit vector length differs from the number of distinct data chunks">> ELSE <<>>)
  \o (IF e.op = "gc" /\ ~e.done THEN <<"collection did not report done within 12 runs">> ELSE <<>>)
  \o (IF DeletesPinned(e) /\ defs[e.f].root \in ToSet(e.st.pins)
      THEN <<"DELETE of a pinned reference leaves it listed">> ELSE <<>>)

(***************************************************************************)
(* Monitor                                                                  *)
(***************************************************************************)
ZeroDelta(d, f) == [c \in Chunks(d, f) |-> 0]

TInit == /\ l = 1 /\ bad = <<>> /\ notes = <<>>
         /\ prev = [data |-> <<>>] /\ defs = [x |-> 0] /\ fileset = {} /\ upSet = {} /\ upFiles = {}
         /\ pdelta = [x \in {} |-> 0] /\ lastPin = [x \in {} |-> "none"] /\ tainted = {}

Reset(e) == /\ prev' = e.st
            /\ defs' = e.defs
            /\ fileset' = ToSet(e.fileset)
            /\ upSet' = {} /\ upFiles' = {}
            /\ pdelta' = [f \in ToSet(e.fileset) |-> ZeroDelta(e.defs, f)]
            /\ lastPin' = [f \in ToSet(e.fileset) |-> "none"]
            /\ tainted' = {}
            /\ bad' = bad /\ notes' = notes

Step(e) ==
  LET cs == Verdict(e)
      ns == Notes(e)
      newUp == IF e.op = "upload" /\ e.ok THEN Data(e.st) \ Data(prev) ELSE {}
      effPin == (IsPinOp(e) /\ PinSucceeded(e) /\ ~RootPinned(prev, e.f))
                \/ (e.op = "upload" /\ e.pin /\ e.ok /\ ~RootPinned(prev, e.f))
      info == [evicted |-> IF e.op = "gc" THEN SetToSeq(Evicted(e)) ELSE <<>>,
               upevicted |-> IF e.op = "gc" THEN SetToSeq(Evicted(e) \cap upFiles) ELSE <<>>,
               lost |-> SetToSeq(Data(prev) \ Data(e.st))]
  IN /\ bad' = IF cs = <<>> THEN bad ELSE Append(bad, BadRecI(l, e, cs, info))
     /\ notes' = IF ns = <<>> \/ Len(notes) >= 20 THEN notes ELSE Append(notes, [line |-> l, scn |-> e.scn, notes |-> ns])
     /\ prev' = e.st
     /\ upSet' = (upSet \cup newUp) \cap Data(e.st)
     /\ upFiles' = IF e.op = "upload" /\ e.ok THEN upFiles \cup {e.f}
                   ELSE IF e.op = "delete" /\ e.code = 200 THEN upFiles \ {e.f} ELSE upFiles
     /\ pdelta' = IF effPin
                  THEN [pdelta EXCEPT ![e.f] = [c \in Chunks(defs, e.f) |-> PinOf(e.st, c) - PinOf(prev, c)]]
                  ELSE pdelta
     /\ lastPin' = IF effPin THEN [lastPin EXCEPT ![e.f] = "pin"]
                   ELSE IF IsUnpinOp(e) \/ e.op = "delete" THEN [lastPin EXCEPT ![e.f] = "unpin"]
                   ELSE lastPin
     /\ tainted' = Tainted(e)
     /\ UNCHANGED <<defs, fileset>>

TStep == /\ l <= NEvents
         /\ l' = l + 1
         /\ LET e == Trace[l] IN IF e.op = "reset" THEN Reset(e) ELSE Step(e)

TSpec == TInit /\ [][TStep]_tvars

Report == ReportBad(l, bad, notes)
=============================================================================
