SPECIFICATION GSpec
CONSTANTS
  File <- FilesI
  FDataSeq <- DataI
  FOther <- OtherI
  FSplit <- SplitI
  Caps <- GenCaps
INVARIANT EmitFull
CHECK_DEADLOCK FALSE
