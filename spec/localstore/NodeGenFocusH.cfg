SPECIFICATION GSpec
CONSTANTS
  File <- FilesH
  FDataSeq <- DataH
  FOther <- OtherH
  FSplit <- SplitH
  Caps <- GenCaps
VIEW FocusView
INVARIANT EmitAll
CHECK_DEADLOCK FALSE
