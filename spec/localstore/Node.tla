-------------------------------- MODULE Node --------------------------------
(* Storage side of an AuroraFS node (pkg/localstore + pkg/chunkinfo +        *)
(* pkg/pinning + pkg/netstore + the pkg/api file handlers), as the DESIGN    *)
(* the properties C12, C13, C15, C16, C17 describe: which chunks are stored, *)
(* who stored them (upload / request), pin counters, the cached-chunk        *)
(* accounting garbage collection works from, the chunk-info registration of  *)
(* files and their availability records.                                     *)
(*                                                                           *)
(* One action per entry point of the node: Upload (POST /aurora), Download   *)
(* (GET /aurora/{ref}?targets=peer: pyramid exchange + retrieval, possibly   *)
(* only a byte range), Read (local GET), Touch (netstore.Get of one chunk    *)
(* under a file context), Pin / Unpin (POST/DELETE /pins, pinning.Service),  *)
(* Delete (DELETE /aurora/{ref}), Collect (one garbage-collection cycle run  *)
(* until it reports done) and Restart.                                       *)
(* A "file" is a manifest root: a single-file manifest, or a directory of    *)
(* two member files under one root (POST /aurora with a tar); a directory is *)
(* downloaded / read one member at a time (GET /aurora/{ref}/{path}), its    *)
(* availability bits are numbered over the data chunks of the whole root.    *)
EXTENDS Integers, Sequences, FiniteSets, TLC

CONSTANTS File,        \* files (manifest references)
          FDataSeq,    \* File -> sequence of data chunks (with repetitions)
          FOther,      \* File -> set of chunks of the pyramid (intermediate + manifest nodes; also the only chunk of a
                       \*         member file that fits in one chunk: it is that file's root and its data chunk)
          FSplit,      \* File -> number of leading entries of FDataSeq[f] that belong to the first member file
                       \*         (= Len(FDataSeq[f]) for a single-file manifest, less for a directory)
          Caps         \* capacities used by Collect

VARIABLES data,     \* chunks stored locally
          up,       \* chunks that were stored by a local upload
          pin,      \* Chunk -> pin counter
          acct,     \* File -> cached chunks accounted to the file (gc index counter)
          held,     \* File -> accounting parked while the file is pinned
          gcSize,   \* the persisted counter
          known,    \* files registered with chunk-info
          rootpin,  \* files with a root pin
          bits,     \* File -> data chunks marked available in the node's own record
          lru,      \* collectable files, least recently used first
          last      \* the operation just performed (for generators / action properties)

vars == <<data, up, pin, acct, held, gcSize, known, rootpin, bits, lru, last>>

SeqToSet(s) == {s[i] : i \in DOMAIN s}
FData(f)    == SeqToSet(FDataSeq[f])
FChunks(f)  == FData(f) \cup FOther[f]
Chunk       == UNION {FChunks(f) : f \in File}
Occ(f, c)   == Cardinality({i \in DOMAIN FDataSeq[f] : FDataSeq[f][i] = c}) + (IF c \in FOther[f] /\ c \notin FData(f) THEN 1 ELSE 0)

RECURSIVE SumOver(_, _)
SumOver(S, fn) == IF S = {} THEN 0 ELSE LET x == CHOOSE x \in S : TRUE IN fn[x] + SumOver(S \ {x}, fn)

AcctTotal(a) == SumOver(File, a)
Target(cap)  == (cap * 9) \div 10

Without(s, f) == SelectSeq(s, LAMBDA x : x # f)
Touch(s, f)   == Append(Without(s, f), f)

IsDir(f) == FSplit[f] < Len(FDataSeq[f])
MemData(f, m) == {FDataSeq[f][i] : i \in {j \in DOMAIN FDataSeq[f] : IF m = 1 THEN j <= FSplit[f] ELSE j > FSplit[f]}}

\* data chunks a (possibly partial) download fetches: the whole file / a byte range of a single-file manifest,
\* one member file of a directory
Sel(f, sel) == CASE sel = "all"    -> FData(f)
                 [] sel = "first"  -> {FDataSeq[f][1]}
                 [] sel = "second" -> IF Len(FDataSeq[f]) >= 2 THEN {FDataSeq[f][2]} ELSE {FDataSeq[f][1]}
                 [] sel = "m1"     -> MemData(f, 1)
                 [] sel = "m2"     -> MemData(f, 2)
SelKinds(f)  == IF IsDir(f) THEN {"m1", "m2"} ELSE {"all", "first", "second"}
ReadKinds(f) == IF IsDir(f) THEN {"m1", "m2"} ELSE {"all"}
AllSels == {"all", "first", "second", "m1", "m2"}

Needed(f, S) == \E g \in S : g # f /\ TRUE
UsedByOther(c, f, K) == \E g \in K \ {f} : c \in FChunks(g)

Init == /\ data = {} /\ up = {} /\ pin = [c \in Chunk |-> 0]
        /\ acct = [f \in File |-> 0] /\ held = [f \in File |-> 0] /\ gcSize = 0
        /\ known = {} /\ rootpin = {} /\ bits = [f \in File |-> {}] /\ lru = <<>>
        /\ last = [op |-> "init"]

(***************************************************************************)
(* Entry points                                                            *)
(***************************************************************************)
Upload(f, p) ==
  LET new == FChunks(f) \ data
      pins == p /\ f \notin rootpin IN
  /\ data' = data \cup FChunks(f)
  /\ up' = up \cup new
  /\ pin' = IF pins THEN [c \in Chunk |-> pin[c] + Occ(f, c)] ELSE pin
  /\ rootpin' = IF p THEN rootpin \cup {f} ELSE rootpin
  /\ known' = known \cup {f}
  /\ bits' = [bits EXCEPT ![f] = FData(f)]
  /\ IF pins                                   \* a pinned file leaves the collectable accounting
       THEN /\ held' = [held EXCEPT ![f] = acct[f]]
            /\ acct' = [acct EXCEPT ![f] = 0]
            /\ gcSize' = gcSize - acct[f]
            /\ lru' = Without(lru, f)
       ELSE UNCHANGED <<acct, held, gcSize, lru>>
  /\ last' = [op |-> "upload", f |-> f, pin |-> p]

\* miss: what the remote source itself lacks ("none", "data0", "datalast": a partial holder whose pyramid is intact).
\* The pyramid (manifest + intermediate chunks) arrives, the data chunks the source lacks do not -- and are not marked.
MissKinds == {"none", "data0", "datalast"}
Miss(f, miss) == CASE miss = "data0"    -> {FDataSeq[f][1]}
                   [] miss = "datalast" -> {FDataSeq[f][Len(FDataSeq[f])]}
                   [] OTHER             -> {}
Download(f, sel, miss) ==
  LET got == Sel(f, sel) \ (Miss(f, miss) \ data)       \* a chunk that is stored already needs no source
      fetched == FOther[f] \cup got
      new == fetched \ data
      n == Cardinality(new) IN
  /\ sel \in SelKinds(f)
  /\ ~(f \in known /\ FChunks(f) \subseteq data)          \* else it is a local read
  /\ data' = data \cup fetched
  /\ IF f \in rootpin
       THEN held' = [held EXCEPT ![f] = @ + n] /\ UNCHANGED <<acct, gcSize>>
       ELSE acct' = [acct EXCEPT ![f] = @ + n] /\ gcSize' = gcSize + n /\ UNCHANGED held
  /\ known' = known \cup {f}
  /\ bits' = [bits EXCEPT ![f] = @ \cup got]
  /\ lru' = IF f \in rootpin THEN lru ELSE Touch(lru, f)
  /\ UNCHANGED <<up, pin, rootpin>>
  /\ last' = IF miss = "none" THEN [op |-> "download", f |-> f, sel |-> sel]
                              ELSE [op |-> "download", f |-> f, sel |-> sel, miss |-> miss]

Read(f, sel) ==
  /\ sel \in ReadKinds(f)
  /\ f \in known /\ FOther[f] \cup Sel(f, sel) \subseteq data
  /\ lru' = IF acct[f] > 0 THEN Touch(lru, f) ELSE lru
  /\ bits' = [bits EXCEPT ![f] = @ \cup Sel(f, sel)]
  /\ UNCHANGED <<data, up, pin, acct, held, gcSize, known, rootpin>>
  /\ last' = [op |-> "read", f |-> f, sel |-> sel]

TouchKinds == {"root", "inter", "data0", "datalast"}
TouchChunk(f, kind) ==
  /\ f \in known
  /\ lru' = IF acct[f] > 0 THEN Touch(lru, f) ELSE lru
  /\ bits' = [bits EXCEPT ![f] = @ \cup (CASE kind = "data0" -> {FDataSeq[f][1]} \cap data
                                            [] kind = "datalast" -> {FDataSeq[f][Len(FDataSeq[f])]} \cap data
                                            [] OTHER -> {})]
  /\ UNCHANGED <<data, up, pin, acct, held, gcSize, known, rootpin>>
  /\ last' = [op |-> "touch", f |-> f, kind |-> kind]

\* via: "api" (handlers guard with HasPin) or "svc" (pinning.Service directly)
Pin(f, via) ==
  /\ FChunks(f) \subseteq data
  /\ IF f \in rootpin
       THEN UNCHANGED <<pin, rootpin, acct, held, gcSize, lru, known, bits>>   \* repeating has no effect
       ELSE /\ pin' = [c \in Chunk |-> pin[c] + Occ(f, c)]
            /\ rootpin' = rootpin \cup {f}
            /\ held' = [held EXCEPT ![f] = acct[f]]
            /\ acct' = [acct EXCEPT ![f] = 0]
            /\ gcSize' = gcSize - acct[f]
            /\ lru' = Without(lru, f)
            /\ known' = known \cup {f}
            /\ bits' = [bits EXCEPT ![f] = FData(f)]
  /\ UNCHANGED <<data, up>>
  /\ last' = [op |-> IF via = "api" THEN "pin" ELSE "pinsvc", f |-> f]

Unpin(f, via) ==
  /\ IF f \notin rootpin
       THEN UNCHANGED <<pin, rootpin, acct, held, gcSize, lru>>               \* repeating has no effect
       ELSE /\ pin' = [c \in Chunk |-> pin[c] - Occ(f, c)]
            /\ rootpin' = rootpin \ {f}
            /\ acct' = [acct EXCEPT ![f] = held[f]]
            /\ held' = [held EXCEPT ![f] = 0]
            /\ gcSize' = gcSize + held[f]
            /\ lru' = IF held[f] > 0 THEN Touch(lru, f) ELSE lru
  /\ UNCHANGED <<data, up, known, bits>>
  /\ last' = [op |-> IF via = "api" THEN "unpin" ELSE "unpinsvc", f |-> f]

Delete(f) ==
  LET victims == {c \in FChunks(f) \cap data : ~UsedByOther(c, f, known)} IN
  /\ f \in known
  /\ data' = data \ victims
  /\ up' = up \ victims
  /\ pin' = [c \in Chunk |-> IF c \in victims THEN 0
                             ELSE IF f \in rootpin THEN pin[c] - Occ(f, c) ELSE pin[c]]
  /\ rootpin' = rootpin \ {f}
  /\ gcSize' = gcSize - acct[f]
  /\ acct' = [acct EXCEPT ![f] = 0]
  /\ held' = [held EXCEPT ![f] = 0]
  /\ known' = known \ {f}
  /\ bits' = [bits EXCEPT ![f] = {}]
  /\ lru' = Without(lru, f)
  /\ last' = [op |-> "delete", f |-> f]

\* one eviction: the least recently used collectable file
EvictOne(s) ==
  LET f == Head(s.lru)
      victims == {c \in FChunks(f) \cap s.data :
                    s.pin[c] = 0 /\ c \notin s.up /\ ~UsedByOther(c, f, s.known)}
  IN [data |-> s.data \ victims, acct |-> [s.acct EXCEPT ![f] = 0], gcSize |-> s.gcSize - s.acct[f],
      known |-> s.known \ {f}, bits |-> [s.bits EXCEPT ![f] = {}], lru |-> Tail(s.lru),
      pin |-> s.pin, up |-> s.up]

RECURSIVE EvictUntil(_, _)
EvictUntil(s, target) ==
  IF s.gcSize <= target \/ s.lru = <<>> THEN s ELSE EvictUntil(EvictOne(s), target)

Collect(cap) ==
  LET s0 == [data |-> data, acct |-> acct, gcSize |-> gcSize, known |-> known, bits |-> bits, lru |-> lru,
             pin |-> pin, up |-> up]
      s1 == EvictUntil(s0, Target(cap)) IN
  /\ data' = s1.data /\ acct' = s1.acct /\ gcSize' = s1.gcSize /\ known' = s1.known
  /\ bits' = s1.bits /\ lru' = s1.lru
  /\ UNCHANGED <<up, pin, held, rootpin>>
  /\ last' = [op |-> "gc", cap |-> cap]

\* a collection whose first run is interleaved, between candidate selection and eviction, with an access to
\* file f (the accessed file is dirty and must be spared by that run; later runs see it as most recently used)
RaceOps == {"read", "touch"}
CollectRace(cap, f, rop) ==
  LET lru0 == IF acct[f] > 0 THEN Touch(lru, f) ELSE lru
      s0 == [data |-> data, acct |-> acct, gcSize |-> gcSize, known |-> known, bits |-> bits, lru |-> lru0,
             pin |-> pin, up |-> up]
      s1 == EvictUntil(s0, Target(cap)) IN
  /\ f \in known /\ FChunks(f) \subseteq data /\ (rop = "read" => ~IsDir(f))
  /\ data' = s1.data /\ acct' = s1.acct /\ gcSize' = s1.gcSize /\ known' = s1.known
  /\ bits' = s1.bits /\ lru' = s1.lru
  /\ UNCHANGED <<up, pin, held, rootpin>>
  /\ last' = [op |-> "gc", cap |-> cap, race |-> [op |-> rop, f |-> f]]

\* a collection that really collects and whose first run is interleaved, between candidate selection and eviction,
\* with the complete download of ANOTHER file g the node does not know yet: the puts of g commit inside the run (the
\* counter must keep them: it is changed by the run only by what the run releases), chunks g shares with an evicted
\* file stay, later runs see g as the most recently used file
CollectRaceDl(cap, g) ==
  LET n  == Cardinality(FChunks(g) \ data)
      s0 == [data |-> data \cup FChunks(g), acct |-> [acct EXCEPT ![g] = @ + n], gcSize |-> gcSize + n,
             known |-> known \cup {g}, bits |-> [bits EXCEPT ![g] = FData(g)], lru |-> Touch(lru, g),
             pin |-> pin, up |-> up]
      s1 == EvictUntil(s0, Target(cap)) IN
  /\ g \notin known /\ ~IsDir(g) /\ gcSize > Target(cap)
  /\ data' = s1.data /\ acct' = s1.acct /\ gcSize' = s1.gcSize /\ known' = s1.known
  /\ bits' = s1.bits /\ lru' = s1.lru
  /\ UNCHANGED <<up, pin, held, rootpin>>
  /\ last' = [op |-> "gc", cap |-> cap, race |-> [op |-> "download", f |-> g]]

Restart == /\ UNCHANGED <<data, up, pin, acct, held, gcSize, known, rootpin, bits, lru>>
           /\ last' = [op |-> "restart"]

Next == \/ \E f \in File, p \in BOOLEAN : Upload(f, p)
        \/ \E f \in File, sel \in AllSels, miss \in MissKinds : Download(f, sel, miss)
        \/ \E f \in File, sel \in AllSels : Read(f, sel)
        \/ \E f \in File : Delete(f)
        \/ \E f \in File, k \in TouchKinds : TouchChunk(f, k)
        \/ \E f \in File, via \in {"api", "svc"} : Pin(f, via) \/ Unpin(f, via)
        \/ \E cap \in Caps : Collect(cap)
        \/ \E cap \in Caps, f \in File, rop \in RaceOps : CollectRace(cap, f, rop)
        \/ \E cap \in Caps, g \in File : CollectRaceDl(cap, g)
        \/ Restart

Spec == Init /\ [][Next]_vars

(***************************************************************************)
(* The properties, as the design must satisfy them                         *)
(***************************************************************************)
TypeOK == /\ data \subseteq Chunk /\ up \subseteq data /\ known \subseteq File /\ rootpin \subseteq known
          /\ \A c \in Chunk : pin[c] >= 0
          /\ \A f \in File : acct[f] >= 0 /\ held[f] >= 0

\* C12: a collection never deletes a pinned or an uploaded chunk and leaves every pin counter alone
C12_GCSafe == [][last'.op = "gc" =>
                   /\ \A c \in data : (pin[c] > 0 \/ c \in up) => c \in data'
                   /\ pin' = pin]_vars

\* C13: the counter is the recorded total; a finished collection is within the capacity
C13_Counter == gcSize = AcctTotal(acct)
C13_Bounded == [][last'.op = "gc" => AcctTotal(acct') <= last'.cap]_vars

\* C15: pin counters are exactly the pins of the currently pinned files (so pin;unpin is the identity
\* and repeating either changes nothing)
C15_PinExact == \A c \in Chunk : pin[c] = SumOver(rootpin, [f \in File |-> Occ(f, c)])

\* C16: files that stay known stay complete; nothing unpinned and exclusive to a deleted file remains
C16_OthersIntact == [][\A g \in known \cap known' : FChunks(g) \subseteq data => FChunks(g) \subseteq data']_vars
C16_NoOrphans == [][last'.op = "delete" =>
                     \A c \in FChunks(last'.f) : (pin'[c] = 0 /\ ~UsedByOther(c, last'.f, known')) => c \notin data']_vars

\* C17: the node's own availability record never claims a chunk that is not stored; none for unknown files
C17_NoOverclaim == \A f \in File : bits[f] \subseteq data /\ (f \notin known => bits[f] = {})
=============================================================================
