-------------------------- MODULE ChequeStoreTrace --------------------------
(* Judge for C30: replays what chequedrv recorded from the real traffic       *)
(* service / cheque store.  Monitor mode (see TraceKit).                      *)
(*                                                                            *)
(* Model state while judging: `last` = highest cumulative payout the          *)
(* implementation has accepted per issuer so far (the statement's "raises     *)
(* that issuer's cumulative payout" is relative to what was accepted before), *)
(* `credited` = sum of the amounts the real ChequeStore.ReceiveCheque         *)
(* returned per issuer, `recv` = the per-peer received totals last observed,   *)
(* `reg` = the registration as the statement defines it (first-wins,          *)
(* one-to-one), advanced by the handshakes that were performed -- never        *)
(* resynchronised from the address book, which is only observed for notes.     *)
EXTENDS ChequeStore, TraceKit

MCKeys == 1..3
MCRegPeers == 1..2
MCAllPeers == 1..3
MCCums == {1, 2, 3, 5}

VARIABLES l, bad, notes

ChequeOf(e) == [from |-> e.from, issuer |-> e.issuer, signer |-> e.signer, rcpt |-> e.rcpt, cum |-> e.cum]

ObsLast(e) == [k \in Keys |-> e.st.last[k]]
ObsRecv(e) == [p \in AllPeers |-> e.st.recv[p]]
\* what the address book answers for the peer after the event (0 = unknown, 9 = an address outside Keys)
ObsReg(e) == [p \in AllPeers |-> e.st.reg[p]]

MaxOf(a, b) == IF a > b THEN a ELSE b

\* highest accepted cumulative payout per issuer after the event
HiAfter(e, s) == IF e.op = "cheque" /\ e.accepted
                 THEN [s EXCEPT ![e.issuer] = MaxOf(@, e.cum)] ELSE s
\* credited per issuer after the event (amounts returned by the real store)
CredAfter(e, s) == IF e.op \in {"cheque", "handshake"} THEN [s EXCEPT ![e.issuer] = @ + e.amount] ELSE s

\* verdict clauses: the statement of C30 over what was observed
Verdict(e, hi, cr) ==
  IF e.op = "handshake" THEN
       \* a registration is not a cheque: nothing is accepted or credited, no peer's total moves
       Clause("C30:credited_total_equals_highest_accepted_payout", \A k \in Keys : cr[k] = hi[k])
    \o Clause("C30:last_received_cheque_is_highest_accepted", ObsLast(e) = hi)
    \o Clause("C30:received_total_moves_only_for_issuers_peer", \A p \in AllPeers : ObsRecv(e)[p] = recv[p])
  ELSE IF e.op # "cheque" THEN <<>>
  ELSE LET c == ChequeOf(e) IN
       Clause("C30:accept_requires_this_node_as_recipient", e.accepted => ForSelf(c))
    \o Clause("C30:accept_requires_signature_of_stated_issuer", e.accepted => SignedByIssuer(c))
    \o Clause("C30:accept_requires_higher_cumulative_payout", e.accepted => Raises(last, c))
    \o Clause("C30:accept_requires_sender_registered_as_issuer", e.accepted => FromIssuersPeer(reg, c))
    \o Clause("C30:credited_total_equals_highest_accepted_payout", \A k \in Keys : cr[k] = hi[k])
    \o Clause("C30:last_received_cheque_is_highest_accepted", ObsLast(e) = hi)
    \o Clause("C30:received_total_moves_only_for_issuers_peer",
              /\ \A p \in AllPeers : ObsRecv(e)[p] # recv[p] => (e.accepted /\ reg[p] = c.issuer)
              /\ (e.accepted /\ Acceptable(last, reg, c)) => ObsRecv(e)[c.from] = c.cum)

\* conformance notes (never alarm): the converse direction, the address book against the registration, panics
Notes(e) ==
  IF e.op = "handshake" THEN
          Clause("handshake_outcome_differs_from_first_wins_registration", e.accepted = (RegAfter(reg, e.from, e.issuer)[e.from] # 0))
       \o Clause("address_book_differs_from_registration", ObsReg(e) = RegAfter(reg, e.from, e.issuer))
       \o Clause("handshake_panicked", ~e.panicked)
  ELSE IF e.op # "cheque" THEN <<>>
  ELSE    Clause("valid_cheque_not_accepted", Acceptable(last, reg, ChequeOf(e)) => e.accepted)
       \o Clause("receive_panicked", ~e.panicked)

TInit == /\ l = 1 /\ last = Zero(Keys) /\ credited = Zero(Keys) /\ recv = Zero(AllPeers)
         /\ reg = Reg0 /\ claim = Reg0
         /\ res = [op |-> "init"] /\ bad = <<>> /\ notes = <<>>

TStep ==
  /\ l <= NEvents
  /\ LET e == Trace[l]
         start == e.op = "reset"
         hi == IF start THEN Zero(Keys) ELSE HiAfter(e, last)
         cr == IF start THEN Zero(Keys) ELSE CredAfter(e, credited)
         cs == Verdict(e, hi, cr)
         ns == Notes(e)
     IN /\ l' = l + 1
        /\ bad' = IF cs = <<>> THEN bad ELSE Append(bad, BadRec(l, e, cs))
        /\ notes' = IF ns = <<>> \/ Len(notes) >= 20 THEN notes ELSE Append(notes, BadRec(l, e, ns))
        /\ last' = hi
        /\ credited' = IF cs = <<>> THEN cr ELSE hi          \* resynchronise
        /\ recv' = ObsRecv(e)
        /\ reg' = IF start THEN [p \in AllPeers |-> IF e.reg0[p] = 1 THEN p ELSE 0]
                  ELSE IF e.op = "handshake" THEN RegAfter(reg, e.from, e.issuer) ELSE reg
        /\ claim' = IF start THEN reg' ELSE IF e.op = "handshake" THEN [claim EXCEPT ![e.from] = e.issuer] ELSE claim
        /\ res' = [op |-> e.op]

TSpec == TInit /\ [][TStep]_<<vars, l, bad, notes>>

Report == ReportBad(l, bad, notes)
=============================================================================
