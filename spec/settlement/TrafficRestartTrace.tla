------------------------- MODULE TrafficRestartTrace -------------------------
(* Judge for C33: replays what trafficdrv (mode "sched") recorded while a TLC  *)
(* behaviour was forced on the real traffic service.  Monitor mode.            *)
(*                                                                            *)
(* The events are what really happened, in the order it happened (the          *)
(* controller logs a step only after the thread has reached its next gate or   *)
(* has returned):                                                              *)
(*   start/paystart  a call was started; `arrived` says where the thread is    *)
(*                   now: "gate" (parked in the store write / in EmitCheque;   *)
(*                   val = the value handed over), "ret", or "blocked"         *)
(*   persist/persistcheque/emit   a gate was released (done = TRUE)            *)
(*   arrive/released a thread that had been blocked showed up later            *)
(*   refstart/refget a live refresh (TrafficInit) running as a goroutine of its *)
(*                   own; it parks before each read of a persisted total        *)
(*   restart         crash + New + Init on the surviving store (pre/post)      *)
(*   reconnect / pay / credit / pay   sequential calls after the restart: the   *)
(*                   peer presents the cheque it holds; a payment with nothing  *)
(*                   new consumed; new traffic; the first cheque for it         *)
(*                                                                            *)
(* Verdict bookkeeping (independent of the implementation-shaped model):       *)
(*   ack[k][p]  = sum of the updates whose call had returned without error,    *)
(*   ackSent[p] = highest payout of a Pay that had returned without error,     *)
(*   held[p]    = highest payout delivered to the peer.                        *)
(* The implementation-shaped model S (Traffic's operators) runs alongside and  *)
(* only produces conformance notes.                                            *)
EXTENDS Traffic, TraceKit

JThreads == 1..4
JAmounts == {1, 2}

VARIABLES l, bad, notes,
          ack, ackSent, held,
          infl,      \* per thread: the call in flight, [kind |-> "none" | "upd" | "pay", k, p, x, cum]
          sync       \* per peer: handshake done since the last restart

NoCall == [kind |-> "none", k |-> "owed", p |-> 0, x |-> 0, cum |-> 0]
Tup(f) == [p \in Peers |-> f[p]]
Ret(e) == e.arrived = "ret"
RetOK(e) == Ret(e) /\ e.ret = ""
AtPut(e) == e.arrived = "gate" /\ e.gate = "put"
AtEmit(e) == e.arrived = "gate" /\ e.gate = "emit"
ThreadEv(e) == e.op \in {"start", "paystart", "persist", "persistcheque", "emit", "arrive", "released", "refstart", "refget"}

\* ------------------------------------------------------------------ bookkeeping
InflAfter(e) ==
  IF ~ThreadEv(e) THEN infl
  ELSE LET cur == IF e.op = "start" THEN [kind |-> "upd", k |-> e.k, p |-> e.p, x |-> e.x, cum |-> 0]
                  ELSE IF e.op = "paystart" THEN [kind |-> "pay", k |-> "owed", p |-> e.p, x |-> 0, cum |-> 0]
                  ELSE IF e.op = "refstart" THEN [kind |-> "refresh", k |-> "owed", p |-> e.p, x |-> 0, cum |-> 0]
                  ELSE infl[e.t]
           cur2 == IF cur.kind = "pay" /\ AtEmit(e) THEN [cur EXCEPT !.cum = e.val] ELSE cur
       IN [infl EXCEPT ![e.t] = IF Ret(e) THEN NoCall ELSE cur2]

\* the call of thread e.t as it was when the event happened
CallOf(e) == IF e.op = "start" THEN [kind |-> "upd", k |-> e.k, p |-> e.p, x |-> e.x, cum |-> 0]
             ELSE IF e.op = "paystart" THEN [kind |-> "pay", k |-> "owed", p |-> e.p, x |-> 0, cum |-> 0]
             ELSE IF e.op = "refstart" THEN [kind |-> "refresh", k |-> "owed", p |-> e.p, x |-> 0, cum |-> 0]
             ELSE infl[e.t]

AckAfter(e) ==
  IF e.op = "credit" /\ e.err = "" THEN [ack EXCEPT !["owed"][e.p] = @ + e.x]
  ELSE IF ThreadEv(e) /\ RetOK(e) /\ CallOf(e).kind = "upd"
  THEN LET c == CallOf(e) IN [ack EXCEPT ![c.k][c.p] = @ + c.x]
  ELSE ack

AckSentAfter(e) ==
  IF ThreadEv(e) /\ RetOK(e) /\ CallOf(e).kind = "pay" /\ CallOf(e).cum > 0
  THEN [ackSent EXCEPT ![CallOf(e).p] = MaxI(@, CallOf(e).cum)]
  ELSE IF e.op = "pay" /\ e.err = ""
  THEN [ackSent EXCEPT ![e.p] = LET D == {e.emitted[i][1] : i \in {j \in DOMAIN e.emitted : e.emitted[j][2]}}
                                 IN IF D = {} THEN @ ELSE MaxI(@, CHOOSE m \in D : \A d \in D : d <= m)]
  ELSE ackSent

HeldAfter(e) ==
  IF e.op = "emit" /\ e.done /\ e.ok /\ infl[e.t].kind = "pay"
  THEN [held EXCEPT ![infl[e.t].p] = MaxI(@, infl[e.t].cum)]
  ELSE IF e.op = "pay"
  THEN [held EXCEPT ![e.p] = LET D == {e.emitted[i][1] : i \in {j \in DOMAIN e.emitted : e.emitted[j][2]}}
                              IN IF D = {} THEN @ ELSE MaxI(@, CHOOSE m \in D : \A d \in D : d <= m)]
  ELSE held

\* ------------------------------------------------------------------ verdict: the statement of C33
Verdict(e) ==
  IF e.op = "restart" THEN
       Clause("C33:acknowledged_traffic_survives_restart",
              \A p \in Peers : e.post.owed[p] >= ack["owed"][p] /\ e.post.served[p] >= ack["served"][p])
    \o Clause("C33:acknowledged_cheque_survives_restart", \A p \in Peers : e.post.lastSent[p] >= ackSent[p])
    \o Clause("C33:totals_not_lower_after_restart",
              e.quiescent => \A p \in Peers : /\ e.post.owed[p] >= e.pre.owed[p]
                                              /\ e.post.served[p] >= e.pre.served[p]
                                              /\ e.post.lastSent[p] >= e.pre.lastSent[p])
  ELSE IF e.op = "pay" THEN
       Clause("C33:no_cheque_for_an_amount_already_paid",
              sync[e.p] => \A i \in DOMAIN e.emitted : e.emitted[i][1] > held[e.p])
  ELSE <<>>

\* ------------------------------------------------------------------ the implementation-shaped model alongside
Enabled(e, s) ==
  CASE e.op = "start"    -> AtPut(e) /\ UpdStartOK(s, e.t, e.p)
    [] e.op = "paystart" -> AtEmit(e) /\ PayStartOK(s, e.t, e.p) /\ PayIssues(s, e.p)
    [] e.op = "persist"  -> e.done /\ UpdPersistOK(s, e.t)
    [] e.op = "emit"     -> e.done /\ PayEmitOK(s, e.t)
    [] e.op = "persistcheque" -> e.done /\ PayPersistOK(s, e.t)
    [] e.op = "refstart" -> e.arrived = "gate" /\ e.gate = "get" /\ RefStartOK(s, e.t, e.p)
    [] e.op = "refget"   -> e.done /\ (RefGet1OK(s, e.t) \/ RefGet2OK(s, e.t))
    [] e.op \in {"restart", "reconnect", "credit", "pay"} -> TRUE
    [] OTHER -> FALSE

Model(e, s) ==
  IF ~Enabled(e, s) THEN s
  ELSE CASE e.op = "start"    -> UpdStart(s, e.t, e.k, e.p, e.x)
         [] e.op = "paystart" -> PayStart(s, e.t, e.p)
         [] e.op = "persist"  -> UpdPersist(s, e.t)
         [] e.op = "emit"     -> PayEmit(s, e.t, e.ok)
         [] e.op = "persistcheque" -> PayPersist(s, e.t)
         [] e.op = "refstart" -> RefStart(s, e.t, e.p)
         [] e.op = "refget"   -> IF RefGet1OK(s, e.t) THEN RefGet1(s, e.t) ELSE RefGet2(s, e.t)
         [] e.op = "restart"  -> Restart(s)
         [] e.op = "reconnect" -> Reconnect(s, e.p)
         [] e.op = "credit"   -> Credit(s, "owed", e.p, e.x)
         [] e.op = "pay"      -> PaySeq([s EXCEPT !.synced[e.p] = TRUE], e.p, TRUE)
         [] OTHER -> s

Notes(e, s, post) ==
  IF e.op \in {"arrive", "released"} THEN <<"thread_was_blocked_on_a_lock">>
  ELSE IF ~Enabled(e, s) THEN <<"step_not_enabled_in_the_model">>
  ELSE IF e.op = "start" THEN Clause("value_handed_to_the_store_as_modelled", e.val = post.loc[e.t].v)
  ELSE IF e.op = "paystart" THEN Clause("cheque_payout_as_modelled", e.val = post.loc[e.t].v)
  ELSE IF e.op = "restart" THEN
       Clause("restored_totals_as_modelled",
              /\ Tup(e.post.owed) = post.tot["owed"] /\ Tup(e.post.served) = post.tot["served"]
              /\ Tup(e.post.lastSent) = post.stSent)
  ELSE IF e.op = "pay" THEN
       Clause("first_cheque_after_restart_as_modelled", Tup(e.st.lastSent) = post.stSent)
  ELSE IF e.op = "reconnect" THEN
       Clause("last_sent_cheque_after_handshake_covers_what_the_peer_holds", e.err = "" => e.st.lastSent[e.p] >= held[e.p])
  ELSE <<>>

\* ------------------------------------------------------------------ monitor
TInit == /\ l = 1 /\ S = InitS /\ res = [op |-> "init"] /\ nops = 0 /\ bad = <<>> /\ notes = <<>>
         /\ ack = InitS.ack /\ ackSent = Zero /\ held = Zero
         /\ infl = [t \in Threads |-> NoCall] /\ sync = [p \in Peers |-> TRUE]

\* held0: the payouts delivered by payments of the sequential prefix (they returned without error)
StartState(e) ==
  [InitS EXCEPT !.tot["owed"] = Tup(e.st.owed), !.st["owed"] = Tup(e.st.owed),
                !.tot["served"] = Tup(e.st.served), !.st["served"] = Tup(e.st.served),
                !.sent = Tup(e.st.lastSent), !.stSent = Tup(e.st.lastSent), !.held = Tup(e.held0),
                !.nbal = e.st.ti.bal, !.chBal = e.st.ti.bal]

TStep ==
  /\ l <= NEvents
  /\ LET e == Trace[l]
         start == e.op = "reset"
         post == IF start THEN StartState(e) ELSE Model(e, S)
         cs == IF start THEN <<>> ELSE Verdict(e)
         ns == IF start THEN <<>> ELSE Notes(e, S, post)
     IN /\ l' = l + 1
        /\ bad' = IF cs = <<>> THEN bad ELSE Append(bad, BadRec(l, e, cs))
        /\ notes' = IF ns = <<>> \/ Len(notes) >= 20 THEN notes ELSE Append(notes, BadRec(l, e, ns))
        /\ S' = IF ~start /\ e.op = "restart"                  \* resynchronise to what was restored
                THEN [post EXCEPT !.tot["owed"] = Tup(e.post.owed), !.tot["served"] = Tup(e.post.served),
                                  !.stSent = Tup(e.post.lastSent), !.st["owed"] = Tup(e.post.owed),
                                  !.st["served"] = Tup(e.post.served),
                                  !.sent = [p \in Peers |-> e.post.owed[p] - e.post.unpaid[p]]]
                ELSE post
        /\ ack' = IF start THEN [k \in Kinds |-> IF k = "owed" THEN Tup(e.st.owed) ELSE Tup(e.st.served)]
                  ELSE IF e.op = "restart" /\ cs # <<>>          \* resynchronise
                  THEN [k \in Kinds |-> IF k = "owed" THEN Tup(e.post.owed) ELSE Tup(e.post.served)]
                  ELSE AckAfter(e)
        /\ ackSent' = IF start THEN Tup(e.held0) ELSE AckSentAfter(e)
        /\ held' = IF start THEN Tup(e.held0) ELSE HeldAfter(e)
        /\ infl' = IF start \/ e.op = "restart" THEN [t \in Threads |-> NoCall] ELSE InflAfter(e)
        /\ sync' = IF start THEN [p \in Peers |-> TRUE]
                   ELSE IF e.op = "restart" THEN [p \in Peers |-> FALSE]
                   ELSE IF e.op = "reconnect" /\ e.err = "" THEN [sync EXCEPT ![e.p] = TRUE]
                   ELSE sync
        /\ res' = [op |-> e.op]
        /\ UNCHANGED nops

TSpec == TInit /\ [][TStep]_<<vars, nops, l, bad, notes, ack, ackSent, held, infl, sync>>

Report == ReportBad(l, bad, notes)
=============================================================================
