SPECIFICATION Spec
CONSTANTS
  NP = 2
  Threads <- MCThreads
  Thr = 2
  Tol = 2
  Fresh = TRUE
  Slow = FALSE
  QCap = 1000
  Bursts <- MCNone
  Credits <- MCCredits
  Pays <- MCPays
  Reserves <- MCReserves
  Avails <- MCAvails
  Traffs <- MCTraffs
  MaxOps = 3
INVARIANTS TypeOK NonNegative LockProtocol PaymentRequested NoDeadlock QueueProtocol
PROPERTIES BalanceFrame DebitFrame
CHECK_DEADLOCK FALSE
