\* the slow settlement layer: Pay calls stay in progress until released, the request queue holds 2, credits arrive
\* as single credits (gated) and bursts of 1 / 4; no debits and reservations (they do not touch the queue)
SPECIFICATION Spec
CONSTANTS
  NP = 2
  Threads <- MCThreads
  Thr = 2
  Tol = 2
  Fresh = FALSE
  Slow = TRUE
  QCap = 2
  Bursts <- MCSlowBursts
  Credits <- MCCredits
  Pays <- MCSlowPays
  Reserves <- MCNone
  Avails <- MCNone
  Traffs <- MCNone
  MaxOps = 3
INVARIANTS TypeOK NonNegative LockProtocol PaymentRequested NoDeadlock QueueProtocol NothingLost DrainSettlesAll
PROPERTIES BalanceFrame
CHECK_DEADLOCK FALSE
