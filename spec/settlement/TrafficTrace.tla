----------------------------- MODULE TrafficTrace -----------------------------
(* Judge for C31: replays what trafficdrv (mode "hist") recorded from the real *)
(* traffic service.  Monitor mode (see TraceKit).                              *)
(*                                                                            *)
(* The reference model S is advanced with Traffic's own operators.  What the  *)
(* chain stub holds is an environment fact: it is taken from the log.  The     *)
(* model's `cashed` is therefore "the chain values the node was given at its   *)
(* last refresh / cash-out receipt / start" -- the only moments at which the   *)
(* statement allows the node's record of cashed amounts to change.             *)
(* Observed through the public API: owed (TotalReceived), unpaid               *)
(* (RetrieveTraffic), lastSent (LastSentCheque), avail (AvailableBalance) and  *)
(* TrafficInfo, from which the node's own sum of cashed amounts follows:       *)
(*   TrafficInfo.AvailableBalance = Balance + SUM cashed - TotalSendTraffic.   *)
EXTENDS Traffic, TraceKit

JThreads == {1}
JAmounts == {1, 2}

VARIABLES l, bad, notes,
          csum,    \* the node's sum of cashed amounts as last observed
          drift    \* per peer: observed minus modelled cashed amount (absorbs a deviation that was reported once,
                   \* until the node re-reads that peer's chain values)

Tup(f) == [p \in Peers |-> f[p]]
ObsCSum(e) == e.st.ti.avail - e.st.ti.bal + e.st.ti.sent

RestartSeq(s) == [Restart(s) EXCEPT !.synced = [p \in Peers |-> TRUE]]

\* the environment as logged
WithChain(s, e) == [s EXCEPT !.chCashed = Tup(e.chain.cashed), !.chBal = e.chain.bal]

Post(e, s0) ==
  LET s == WithChain(s0, e) IN
  CASE e.op = "credit"   -> Credit(s, "owed", e.p, e.x)
    [] e.op = "pay"      -> PaySeq(s, e.p, e.ok)
    [] e.op = "refresh"  -> Refresh(s)
    [] e.op = "peercash" -> s
    [] e.op = "cashout"  -> CashOut(s, e.p)
    [] e.op = "restart"  -> RestartSeq(s)
    [] OTHER -> s

Reloads(e) == e.op \in {"refresh", "restart"}

\* highest delivered payout per peer after the event
HeldAfter(e, h) ==
  IF e.op # "pay" THEN h
  ELSE [h EXCEPT ![e.p] = LET D == {e.emitted[i][1] : i \in {j \in DOMAIN e.emitted : e.emitted[j][2]}}
                          IN IF D = {} THEN @ ELSE MaxI(@, CHOOSE m \in D : \A d \in D : d <= m)]

\* verdict clauses: the statement of C31 over what was observed
Verdict(e, pre, post, dr) ==
     (IF e.op \in {"credit", "pay", "peercash"}
      THEN Clause("C31:cashed_record_changes_only_on_chain_refresh_or_cashout", ObsCSum(e) = csum)
      ELSE <<>>)
  \o Clause("C31:available_balance_is_chain_balance_plus_cashed_minus_owed",
            e.st.avail = e.st.ti.bal + SumP(post.cashed) + dr - SumP(Tup(e.st.owed)))
  \o (IF e.op = "pay"
      THEN Clause("C31:payouts_strictly_increase_within_owed",
                  \A i \in DOMAIN e.emitted :
                     /\ e.emitted[i][1] > pre.held[e.p]
                     /\ e.emitted[i][1] <= pre.tot["owed"][e.p]
                     /\ \A j \in DOMAIN e.emitted : j < i => e.emitted[j][1] < e.emitted[i][1])
      ELSE <<>>)

\* conformance notes: what the implementation-shaped operators predict (never alarm)
Notes(e, post) ==
     Clause("owed_total_as_modelled", Tup(e.st.owed) = post.tot["owed"])
  \o Clause("unpaid_as_modelled", \A p \in Peers : e.st.unpaid[p] = Unpaid(post, p))
  \o Clause("last_sent_cheque_as_modelled", Tup(e.st.lastSent) = post.stSent)
  \o Clause("balance_record_as_modelled", e.st.ti.bal = post.nbal)
  \o (IF e.op = "pay"
      THEN Clause("payment_notified_only_when_delivered",
                  Len(e.notified) > 0 => \E i \in DOMAIN e.emitted : e.emitted[i][2])
      ELSE <<>>)
  \o (IF e.op \in {"credit", "refresh", "cashout"} THEN Clause("call_returns_no_error", e.err = "") ELSE <<>>)

\* resynchronise the model to what was observed
Resync(e, post) ==
  [post EXCEPT !.tot["owed"] = Tup(e.st.owed), !.st["owed"] = Tup(e.st.owed),
               !.sent = [p \in Peers |-> e.st.owed[p] - e.st.unpaid[p]],
               !.stSent = Tup(e.st.lastSent), !.nbal = e.st.ti.bal,
               !.held = HeldAfter(e, post.held),
               !.ack = InitS.ack, !.ackSent = InitS.ackSent]

TInit == /\ l = 1 /\ S = InitS /\ res = [op |-> "init"] /\ nops = 0
         /\ bad = <<>> /\ notes = <<>> /\ csum = 0 /\ drift = Zero

TStep ==
  /\ l <= NEvents
  /\ LET e == Trace[l]
         start == e.op = "reset"
         pre == IF start THEN [InitS EXCEPT !.nbal = e.chain.bal, !.chBal = e.chain.bal] ELSE S
         post == IF start THEN pre ELSE Post(e, pre)
         drf == IF start \/ Reloads(e) THEN Zero
                ELSE IF e.op = "cashout" THEN [drift EXCEPT ![e.p] = 0] ELSE drift
         dr == SumP(drf)
         delta == ObsCSum(e) - SumP(post.cashed) - dr
         cs == IF start THEN <<>> ELSE Verdict(e, pre, post, dr)
         ns == IF start THEN <<>> ELSE Notes(e, post)
     IN /\ l' = l + 1
        /\ bad' = IF cs = <<>> THEN bad ELSE Append(bad, BadRec(l, e, cs))
        /\ notes' = IF ns = <<>> \/ Len(notes) >= 20 THEN notes ELSE Append(notes, BadRec(l, e, ns))
        /\ S' = Resync(e, post)
        /\ csum' = ObsCSum(e)
        /\ drift' = IF start \/ delta = 0 THEN drf
                    ELSE [drf EXCEPT ![IF e.p \in Peers THEN e.p ELSE 1] = @ + delta]
        /\ res' = [op |-> e.op]
        /\ UNCHANGED nops

TSpec == TInit /\ [][TStep]_<<vars, nops, l, bad, notes, csum, drift>>

Report == ReportBad(l, bad, notes)
=============================================================================
