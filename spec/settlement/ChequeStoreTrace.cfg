SPECIFICATION TSpec
CONSTANTS
  Keys <- MCKeys
  RegPeers <- MCRegPeers
  AllPeers <- MCAllPeers
  Cums <- MCCums
  ClaimKeys <- MCKeys
INVARIANT Report
POSTCONDITION AllConsumed
CHECK_DEADLOCK FALSE
