SPECIFICATION Spec
CONSTANTS
  Keys <- MCKeys
  RegPeers <- MCRegPeers
  AllPeers <- MCAllPeers
  Cums <- MCCums
INVARIANTS TypeOK CreditedOnce RightPeer OnlyRegisteredIssuers
PROPERTIES Monotone
