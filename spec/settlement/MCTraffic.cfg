SPECIFICATION Spec
CONSTANTS
  NP = 2
  Threads <- MCThreads
  Thr = 2
  InitBal = 6
  PersistUnderLock = TRUE
  RefreshReadsUnderLock = TRUE
  Amounts <- MCAmounts
  MaxOps = 4
INVARIANTS TypeOK PayoutsWithinOwed CashedWithinHeld AckDurable AckChequeDurable NoRepay
PROPERTIES CashedFrame PayoutsIncrease
CHECK_DEADLOCK FALSE
