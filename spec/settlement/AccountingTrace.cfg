SPECIFICATION TSpec
CONSTANTS
  NP = 2
  Threads <- JThreads
  Thr = 2
  Tol = 2
  Fresh = TRUE
  Slow = FALSE
  QCap = 1000
  Bursts <- JNone
  Credits <- JNone
  Pays <- JNone
  Reserves <- JNone
  Avails <- JNone
  Traffs <- JNone
  MaxOps = 0
INVARIANT Report
POSTCONDITION AllConsumed
CHECK_DEADLOCK FALSE
