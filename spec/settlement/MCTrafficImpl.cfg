\* NOT a design check of the registry: the implementation-shaped model (totals written after the peer lock is
\* released).  TLC is EXPECTED to refute AckDurable here with  start start persist persist  (the lost update);
\* whether the real code reproduces that behaviour is what check C33 decides.
SPECIFICATION Spec
CONSTANTS
  NP = 2
  Threads <- MCThreads
  Thr = 2
  InitBal = 6
  PersistUnderLock = FALSE
  RefreshReadsUnderLock = TRUE
  Amounts <- MCAmounts
  MaxOps = 4
INVARIANTS TypeOK AckDurable
CHECK_DEADLOCK FALSE
