SPECIFICATION TSpec
CONSTANTS
  NP = 2
  Threads <- JThreads
  Thr = 2
  InitBal = 20
  PersistUnderLock = FALSE
  RefreshReadsUnderLock = FALSE
  Amounts <- JAmounts
  MaxOps = 0
INVARIANT Report
POSTCONDITION AllConsumed
CHECK_DEADLOCK FALSE
