----------------------------- MODULE TrafficGen -----------------------------
(* Scenario generator for C31: sequential histories of the traffic service    *)
(* over credit / pay (delivered or failed) / refresh / peercash / cashout /   *)
(* restart, with a history variable.                                          *)
(*  edges (cfg with VIEW): one shortest history per (model state, operation)  *)
(*  exh   (no VIEW): every history of length Depth                            *)
(*  sim   (tlc -simulate): random histories of length Depth                   *)
EXTENDS Traffic, TLC, Json, IOUtils
VARIABLE hist

GThreads == {1}
GAmounts == {1, 2}
MaxOwed == 6

Depth == IF "VERIF_DEPTH" \in DOMAIN IOEnv THEN atoi(IOEnv.VERIF_DEPTH) ELSE 6

\* a restart of a quiescent node followed by the handshakes of its peers
RestartSeq(s) == [Restart(s) EXCEPT !.synced = [p \in Peers |-> TRUE]]

Step(s2, o) == S' = s2 /\ hist' = Append(hist, o) /\ res' = [op |-> o.op] /\ UNCHANGED nops

GInit == Init /\ hist = <<>>
GNext ==
  /\ Len(hist) < Depth
  /\ \/ \E p \in Peers, x \in Amounts :
          S.tot["owed"][p] + x <= MaxOwed /\ Step(Credit(S, "owed", p, x), [op |-> "credit", p |-> p, x |-> x])
     \/ \E p \in Peers, ok \in BOOLEAN : Step(PaySeq(S, p, ok), [op |-> "pay", p |-> p, ok |-> ok])
     \/ Step(Refresh(S), [op |-> "refresh"])
     \/ \E p \in Peers : Step(PeerCash(S, p), [op |-> "peercash", p |-> p])
     \/ \E p \in Peers : Step(CashOut(S, p), [op |-> "cashout", p |-> p])
     \/ Step(RestartSeq(S), [op |-> "restart"])
GSpec == GInit /\ [][GNext]_<<vars, nops, hist>>

EdgeView == <<S, IF hist = <<>> THEN <<>> ELSE <<hist[Len(hist)]>> >>

Scn == [par |-> [mode |-> "hist", thr |-> Thr, bal |-> InitBal], ops |-> hist]
EmitAll  == hist # <<>> => PrintT(<<"SCN", ToJson(Scn)>>)
EmitFull == Len(hist) = Depth => PrintT(<<"SCN", ToJson(Scn)>>)
=============================================================================
