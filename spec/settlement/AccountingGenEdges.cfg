SPECIFICATION GSpec
CONSTANTS
  NP = 2
  Threads <- GThreads
  Thr = 2
  Tol = 2
  Fresh <- GFresh
  Slow <- GSlow
  QCap <- GQCap
  Bursts <- GBursts
  Credits <- GCredits
  Pays <- GPays
  Reserves <- GReserves
  Avails <- GAvails
  Traffs <- GTraffs
  MaxOps = 0
VIEW EdgeView
INVARIANT EmitAll
CHECK_DEADLOCK FALSE
