--------------------------- MODULE ChequeStoreGen ---------------------------
(* Scenario generator for C30: cheque sequences with a history variable.     *)
(*  edges (cfg with VIEW): one shortest history per (model state, cheque)    *)
(*  sim   (tlc -simulate): random sequences of length Depth                   *)
(* VERIF_VIA chooses the entry point the driver uses (service | protocol).    *)
EXTENDS ChequeStore, TLC, Json, IOUtils
VARIABLE hist

EnvOr(n, d) == IF n \in DOMAIN IOEnv THEN IOEnv[n] ELSE d
\* VERIF_HS = n > 0: the registration family -- nobody is registered before the scenario; it starts with up to n
\* handshakes (any peer presenting chain address 1 or 2: two overlays presenting the same address, a registered peer
\* presenting another one, ...), then cheques.  VERIF_HSLATE=1 also allows handshakes between cheques.
MaxHs == atoi(EnvOr("VERIF_HS", "0"))
HsLate == EnvOr("VERIF_HSLATE", "0") = "1"
MCKeys == 1..3
MCRegPeers == IF MaxHs > 0 THEN {} ELSE 1..2
MCAllPeers == 1..3
MCCums == IF MaxHs > 0 THEN 1..atoi(EnvOr("VERIF_CUMS", "1")) ELSE {1, 2, 3, 5}
HsKeys == IF EnvOr("VERIF_HSKEYS", "2") = "2" THEN {1, 2} ELSE 1..3

Depth == IF "VERIF_DEPTH" \in DOMAIN IOEnv THEN atoi(IOEnv.VERIF_DEPTH) ELSE 5
Via   == IF "VERIF_VIA" \in DOMAIN IOEnv THEN IOEnv.VERIF_VIA ELSE "service"

\* Alphabet.  "full" = every cheque of the universe (216); "classes" = representatives of every class of the
\* statement: well-formed cheques of the registered peers (valid / replay / lower by state), wrong recipient,
\* signed by another key, foreign issuer (another registered key, or an unregistered key) through a registered
\* peer, and cheques from the unregistered peer (its own key, or a registered key).
Alphabet == IF "VERIF_ALPHABET" \in DOMAIN IOEnv THEN IOEnv.VERIF_ALPHABET ELSE "classes"
ClassCheques ==
  {c \in Cheques :
     \/ (c.from \in RegPeers /\ c.issuer = c.from /\ c.signer = c.from)                 \* own cheque, either recipient
     \/ (c.from \in RegPeers /\ c.issuer = c.from /\ c.signer # c.from /\ c.rcpt = 1)    \* other key signed
     \/ (c.from \in RegPeers /\ c.issuer # c.from /\ c.signer = c.issuer /\ c.rcpt = 1)  \* foreign issuer
     \/ (c.from \notin RegPeers /\ c.signer = c.issuer /\ c.issuer \in {1, c.from} /\ c.rcpt = 1)}
\* registration family: well-formed cheques (addressed to this node, signed by their issuer) of the claimable
\* addresses from every peer -- what separates them is who is registered with what
RegCheques == {c \in Cheques : c.rcpt = 1 /\ c.signer = c.issuer /\ c.issuer \in HsKeys}
GenCheques == IF MaxHs > 0 THEN RegCheques ELSE IF Alphabet = "full" THEN Cheques ELSE ClassCheques

Op(c) == [op |-> "cheque", from |-> c.from, issuer |-> c.issuer, signer |-> c.signer,
          rcpt |-> c.rcpt, cum |-> c.cum, cls |-> Class(last, reg, claim, c)]
HsOp(p, k) == [op |-> "handshake", from |-> p, issuer |-> k, cls |-> IF Registers(reg, p, k) THEN "registers" ELSE "refused_or_kept"]

NHs == Cardinality({i \in DOMAIN hist : hist[i].op = "handshake"})
NoChequeYet == \A i \in DOMAIN hist : hist[i].op = "handshake"

GInit == Init /\ hist = <<>>
GNext == /\ Len(hist) < Depth
         /\ \/ \E c \in GenCheques : Receive(c) /\ hist' = Append(hist, Op(c))
            \/ /\ NHs < MaxHs /\ (HsLate \/ NoChequeYet)
               /\ \E p \in AllPeers, k \in ClaimKeys : Handshake(p, k) /\ hist' = Append(hist, HsOp(p, k))
GSpec == GInit /\ [][GNext]_<<vars, hist>>

\* the ghost `claim` is part of the view: a refused handshake changes nothing else, and the histories that continue
\* after it (a cheque of the claimed address from the refused peer) must not be dropped for shorter ones without it
EdgeView == <<last, reg, claim, IF hist = <<>> THEN <<>> ELSE <<hist[Len(hist)]>> >>

Scn == [par |-> [via |-> Via, reg0 |-> [p \in AllPeers |-> IF p \in RegPeers THEN 1 ELSE 0]], ops |-> hist]
EmitAll  == hist # <<>> => PrintT(<<"SCN", ToJson(Scn)>>)
EmitFull == Len(hist) = Depth => PrintT(<<"SCN", ToJson(Scn)>>)
=============================================================================
